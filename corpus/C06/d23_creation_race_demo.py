"""D23 (open known finding, C06): run with PYTHONPATH=/repo /venv/bin/python corpus/C06/d23_creation_race_demo.py
Two ecoMAX-parameters responses arrive back to back at first contact; a user subscriber of one parameter's event awaits once.
The device ends up holding the range of the FIRST response, and a value outside the range reported LAST is transmitted."""
import asyncio, json, sys

sys.path.insert(0, "/repo")
from pyplumio.devices.ecomax import EcoMAX
from pyplumio.frames import responses as R
from pyplumio.structures.network_info import NetworkInfo


def uid():
    for x in json.load(open("/repo/tests/testdata/responses/uid.json")):
        if x["id"] == "ecoMAX_850i_uid":
            m = x["message"]
            items = m["items"] if isinstance(m, dict) else m
            return bytes.fromhex("".join(items) if isinstance(items, list) else items)


def params(first, triples):
    return bytes([0, first, len(triples)]) + b"".join(bytes(t) for t in triples)


async def main():
    q = asyncio.Queue()
    dev = EcoMAX(q, network=NetworkInfo())
    dev.handle_frame(R.UIDResponse(message=bytearray(uid())))
    for _ in range(10):
        await asyncio.sleep(0)
    from pyplumio.structures.ecomax_parameters import ECOMAX_PARAMETERS
    from pyplumio.const import ProductType
    name = ECOMAX_PARAMETERS[ProductType.ECOMAX_I][6].name
    calls = []

    async def subscriber(p):
        calls.append(p)
        if len(calls) == 1:
            await asyncio.sleep(0)

    dev.subscribe(name, subscriber)
    dev.handle_frame(R.EcomaxParametersResponse(message=bytearray(params(6, [(164, 83, 199)]))))
    dev.handle_frame(R.EcomaxParametersResponse(message=bytearray(params(6, [(32, 32, 60)]))))
    for _ in range(40):
        await asyncio.sleep(0)
    while not q.empty():
        q.get_nowait()
    p = dev.data[name]
    print("last reported range: 32..60; device holds:", p.values.min_value, "..", p.values.max_value)
    task = asyncio.ensure_future(p.set(100, retries=1, timeout=0.01))
    for _ in range(10):
        await asyncio.sleep(0)
    sent = [list(f.message) for f in [q.get_nowait() for _ in range(q.qsize())] if int(f.frame_type) == 51]
    task.cancel()
    print("set(100) transmitted:", sent)
    print("VIOLATED (known finding D23)" if sent else "holds")
    return 1 if sent else 0

sys.exit(asyncio.run(main()))

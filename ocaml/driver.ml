(* Line protocol: "<cmd> <sexp>" per input line -> one sexp per output line.
   sexp := hexint | '-' hexint | '(' sexp* ')'.   Integers are arbitrary-size, hexadecimal. *)
module M = Model

let rec pos_of_bits (bits : bool list) : M.positive =
  (* bits: most significant first, leading one already consumed as M.XH *)
  List.fold_left (fun acc b -> if b then M.XI acc else M.XO acc) M.XH bits

let z_of_hex (neg : bool) (s : string) : M.z =
  let bits = ref [] in
  String.iter (fun c ->
    let d = match c with
      | '0'..'9' -> Char.code c - 48
      | 'a'..'f' -> Char.code c - 87
      | 'A'..'F' -> Char.code c - 55
      | _ -> failwith "bad hex" in
    bits := !bits @ [d land 8 <> 0; d land 4 <> 0; d land 2 <> 0; d land 1 <> 0]) s;
  let rec strip = function false :: t -> strip t | l -> l in
  match strip !bits with
  | [] -> M.Z0
  | _ :: rest -> let p = pos_of_bits rest in if neg then M.Zneg p else M.Zpos p

let hex_of_pos (p : M.positive) : string =
  let rec bits p acc = match p with
    | M.XH -> true :: acc
    | M.XO q -> bits q (false :: acc)
    | M.XI q -> bits q (true :: acc) in
  let bl = bits p [] in            (* msb first *)
  let n = List.length bl in
  let pad = (4 - n mod 4) mod 4 in
  let bl = List.init pad (fun _ -> false) @ bl in
  let buf = Buffer.create 16 in
  let rec go = function
    | a :: b :: c :: d :: t ->
      let v = (if a then 8 else 0) + (if b then 4 else 0) + (if c then 2 else 0) + (if d then 1 else 0) in
      Buffer.add_char buf "0123456789abcdef".[v]; go t
    | [] -> ()
    | _ -> assert false in
  go bl; Buffer.contents buf

let rec print_val buf (v : M.uval) = match v with
  | M.VZ M.Z0 -> Buffer.add_char buf '0'
  | M.VZ (M.Zpos p) -> Buffer.add_string buf (hex_of_pos p)
  | M.VZ (M.Zneg p) -> Buffer.add_char buf '-'; Buffer.add_string buf (hex_of_pos p)
  | M.VL l ->
    Buffer.add_char buf '(';
    List.iteri (fun i x -> if i > 0 then Buffer.add_char buf ' '; print_val buf x) l;
    Buffer.add_char buf ')'

let parse (s : string) (start : int) : M.uval =
  let n = String.length s in
  let pos = ref start in
  let rec skip () = if !pos < n && (s.[!pos] = ' ' || s.[!pos] = '\t') then (incr pos; skip ()) in
  let rec value () : M.uval =
    skip ();
    if !pos >= n then failwith "eof"
    else if s.[!pos] = '(' then begin
      incr pos;
      let items = ref [] in
      let rec loop () =
        skip ();
        if !pos >= n then failwith "unclosed"
        else if s.[!pos] = ')' then incr pos
        else (items := value () :: !items; loop ()) in
      loop (); M.VL (List.rev !items)
    end else begin
      let neg = s.[!pos] = '-' in
      if neg then incr pos;
      let st = !pos in
      while !pos < n && s.[!pos] <> ' ' && s.[!pos] <> ')' && s.[!pos] <> '(' do incr pos done;
      M.VZ (z_of_hex neg (String.sub s st (!pos - st)))
    end in
  value ()

let () =
  let buf = Buffer.create 65536 in
  (try
    while true do
      let line = input_line stdin in
      let line = String.trim line in
      if line <> "" then begin
        let sp = try String.index line ' ' with Not_found -> String.length line in
        let cmd = String.sub line 0 sp in
        Buffer.clear buf;
        (match List.assoc_opt cmd Table.table with
         | None -> Buffer.add_string buf ("!unknown-command " ^ cmd)
         | Some f ->
           (try print_val buf (f (parse line sp))
            with e -> Buffer.clear buf; Buffer.add_string buf ("!exception " ^ Printexc.to_string e)));
        print_string (Buffer.contents buf); print_newline ()
      end
    done
  with End_of_file -> ());
  flush stdout

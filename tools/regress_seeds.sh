#!/bin/bash
# every stored seed against the check of its property: prints the ones that are NOT reported with a concrete replay
cd /verif
for d in seeded/C*; do
  n=$(basename $d); p=${n:0:3}
  if grep -q '"superseded": true' $d/meta.json 2>/dev/null; then echo "$n: superseded by a repair (no violation any more), skipped"; continue; fi
  out=$(tools/try_seed.sh $n /verif/$d/patch.diff $p 2>&1 | grep -v conda | grep "VIOLATION" | head -1)
  case "$out" in
    *no-failing-input-found*) echo "$n: no-failing-input-found";;
    *VIOLATION*) ;;
    *) echo "$n: NOT DETECTED";;
  esac
done
echo "regression done $(date +%H:%M)"

#!/bin/bash
# the thorough tier of all 20 properties, one after the other (about 1.3 h); every line must show []
cd /verif
for i in $(seq -w 1 20); do
  t0=$(date +%s)
  out=$(timeout 6000 bin/check C$i --tier thorough 2>&1 | grep -v conda | grep -v KNOWN-FINDING | tail -2 | cut -c1-200)
  echo "t3 C$i rc-lines: [$out] $(( $(date +%s) - t0 )) s"
done
echo "thorough done $(date +%H:%M)"

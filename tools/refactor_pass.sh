#!/bin/bash
# all stored behaviour-preserving refactorings against all 20 quick checks: any [Rn] Cnn line is a false alarm
cd /verif
for r in R1 R2 R3 R4 R5 R6 R7 R8 R9 R10 R11 R12; do
  tools/try_refactor.sh $r /verif/refactors/$r/patch.diff 2>&1 | grep -v conda
done
echo "refactors done $(date +%H:%M)"

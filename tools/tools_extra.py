"""Second half of the translator: parameter tables, schedules, data types, set-up frames."""
from __future__ import annotations

import dataclasses


def coq_string(s: str) -> str:
    assert all(32 <= ord(c) < 127 and c != '"' for c in s), s
    return '"' + s + '"%string'


def emit_extra(emit, js, need, N, Z, lst, float_mant_exp):
    from pyplumio.const import FrameType, ProductType
    from pyplumio.helpers import parameter as P
    from pyplumio.structures import ecomax_parameters as EP
    from pyplumio.structures import mixer_parameters as MP
    from pyplumio.structures import thermostat_parameters as TP
    from pyplumio.structures import schedules as SC
    from pyplumio.helpers import data_types as DT
    from pyplumio.devices import ecomax as EC

    emit("From Coq Require Import String.")
    emit("(* parameter description: name, switch?, multiplier = m * 2^e (exact double), offset, precision, size *)")
    emit("Record pdesc := { pd_name : string; pd_switch : bool; pd_mm : Z; pd_me : Z; pd_offset : Z; pd_precision : N; pd_size : N }.")
    emit("")

    need([p.value for p in ProductType] == [0, 1], "product types")
    js["product_types"] = [p.value for p in ProductType]

    allowed_fields = {"name", "unit_of_measurement", "multiplier", "offset", "precision", "size"}

    def desc(d, number_cls, switch_cls):
        fields = {f.name for f in dataclasses.fields(d)}
        need(fields <= allowed_fields, f"unknown description fields {fields - allowed_fields} in {d!r}")
        if isinstance(d, switch_cls):
            need(not isinstance(d, number_cls), f"{d!r} both switch and number")
            sw = True
            need(not hasattr(d, "multiplier") and not hasattr(d, "offset"), f"switch with scaling {d!r}")
            mult, off, prec = 1.0, 0, 6
        else:
            need(isinstance(d, number_cls), f"unknown description class {type(d).__name__}")
            sw = False
            mult = getattr(d, "multiplier", 1.0)
            off = getattr(d, "offset", 0)
            prec = getattr(d, "precision", 6)
        size = getattr(d, "size", 1)
        need(isinstance(mult, float) and mult > 0, f"multiplier {mult!r}")
        need(isinstance(off, int) and isinstance(prec, int) and prec >= 0, "offset/precision")
        need(size in (1, 2), f"size {size}")
        m, e = float_mant_exp(mult)
        coq = (f"{{| pd_name := {coq_string(d.name)}; pd_switch := {'true' if sw else 'false'}; "
               f"pd_mm := {Z(m)}%Z; pd_me := {Z(e)}%Z; pd_offset := {Z(off)}%Z; "
               f"pd_precision := {N(prec)}; pd_size := {N(size)} |}}")
        j = {"name": d.name, "switch": sw, "multiplier": mult, "mm": m, "me": e, "offset": off,
             "precision": prec, "size": size}
        return coq, j

    def table(name, descs, number_cls, switch_cls):
        rows, jrows = [], []
        for d in descs:
            c, j = desc(d, number_cls, switch_cls)
            rows.append(c)
            jrows.append(j)
        emit(f"Definition {name} : list pdesc :=\n  " + "[" + ";\n   ".join(rows) + "].")
        emit("")
        js[name] = jrows

    need(set(EP.ECOMAX_PARAMETERS) == set(ProductType), "ecomax parameter tables")
    need(set(MP.MIXER_PARAMETERS) == set(ProductType), "mixer parameter tables")
    table("ecomax_params_p", EP.ECOMAX_PARAMETERS[ProductType.ECOMAX_P], EP.EcomaxNumberDescription, EP.EcomaxSwitchDescription)
    table("ecomax_params_i", EP.ECOMAX_PARAMETERS[ProductType.ECOMAX_I], EP.EcomaxNumberDescription, EP.EcomaxSwitchDescription)
    table("mixer_params_p", MP.MIXER_PARAMETERS[ProductType.ECOMAX_P], MP.MixerNumberDescription, MP.MixerSwitchDescription)
    table("mixer_params_i", MP.MIXER_PARAMETERS[ProductType.ECOMAX_I], MP.MixerNumberDescription, MP.MixerSwitchDescription)
    table("thermostat_params", TP.THERMOSTAT_PARAMETERS, TP.ThermostatNumberDescription, TP.ThermostatSwitchDescription)
    table("schedule_params", SC.SCHEDULE_PARAMETERS, SC.ScheduleNumberDescription, SC.ScheduleSwitchDescription)
    table("ecomax_control_param", [EP.ECOMAX_CONTROL_PARAMETER], EP.EcomaxNumberDescription, EP.EcomaxSwitchDescription)
    table("thermostat_profile_param", [EP.THERMOSTAT_PROFILE_PARAMETER], EP.EcomaxNumberDescription, EP.EcomaxSwitchDescription)
    need(EP.ECOMAX_PARAMETER_SIZE == 3 and MP.MIXER_PARAMETER_SIZE == 3 and TP.THERMOSTAT_PARAMETER_SIZE == 3,
         "parameter slot size")
    need(EP.ATTR_ECOMAX_CONTROL == "ecomax_control" and TP.ATTR_THERMOSTAT_PROFILE == "thermostat_profile", "attr names")

    # schedules
    need(SC.SCHEDULE_SIZE == 42, "schedule size")
    emit(f"Definition schedule_size : N := {N(SC.SCHEDULE_SIZE)}.")
    emit("Definition schedules : list string :=\n  " + lst(coq_string(s) for s in SC.SCHEDULES) + ".")
    js["schedules"] = list(SC.SCHEDULES)
    need(SC.ATTR_SCHEDULE_SWITCH == "schedule_switch" and SC.ATTR_SCHEDULE_PARAMETER == "schedule_parameter", "sched attr")
    emit("")

    # data types of the regulator data schema: tag per type id
    tagmap = {
        DT.Undefined: ("DTUndefined", 0), DT.SignedChar: ("DTSInt 1", 1), DT.Short: ("DTSInt 2", 2),
        DT.Int: ("DTSInt 4", 4), DT.UnsignedChar: ("DTUInt 1", 1), DT.UnsignedShort: ("DTUInt 2", 2),
        DT.UnsignedInt: ("DTUInt 4", 4), DT.Float: ("DTFloat", 4), DT.Double: ("DTDouble", 8),
        DT.BitArray: ("DTBit", None), DT.String: ("DTString", None), DT.Int64: ("DTSInt 8", 8),
        DT.UInt64: ("DTUInt 8", 8), DT.IPv4: ("DTIPv4", 4), DT.IPv6: ("DTIPv6", 16),
    }
    fmt = {DT.SignedChar: "<b", DT.UnsignedChar: "<B", DT.Short: "<h", DT.UnsignedShort: "<H", DT.Int: "<i",
           DT.UnsignedInt: "<I", DT.Float: "<f", DT.Double: "<d", DT.Int64: "<q", DT.UInt64: "<Q"}
    for cls, f in fmt.items():
        need(cls._struct.format == f, f"{cls.__name__} struct format {cls._struct.format}")
    need(DT.BITARRAY_LAST_INDEX == 7, "bit array last index")
    emit("Inductive dtype := DTUndefined | DTSInt (bytes : N) | DTUInt (bytes : N) | DTFloat | DTDouble | DTBit | DTString | DTIPv4 | DTIPv6.")
    tags = []
    for cls in DT.DATA_TYPES:
        need(cls in tagmap, f"unknown data type class {cls.__name__}")
        tags.append(tagmap[cls][0])
    emit("Definition data_types : list dtype := " + lst(tags) + ".")
    js["data_types"] = [cls.__name__ for cls in DT.DATA_TYPES]
    emit("")

    # set-up frames
    rows = []
    jrows = []
    for d in EC.SETUP_FRAME_TYPES:
        need(isinstance(d.frame_type, FrameType), "setup frame type")
        rows.append(f"({N(d.frame_type.value)}, {coq_string(d.provides)})")
        jrows.append([d.frame_type.value, d.provides])
    emit("Definition setup_frames : list (N * string) := " + lst(rows) + ".")
    js["setup_frames"] = jrows
    from pyplumio.structures.product_info import ATTR_PRODUCT
    from pyplumio.const import ATTR_SENSORS
    need(ATTR_PRODUCT == "product", "ATTR_PRODUCT")
    emit("")

    # software version of program-version response
    from pyplumio.structures import program_version as PV
    sv = PV.SOFTWARE_VERSION
    parts = sv.split(".")
    ok = len(parts) >= 3 and all(p.isdigit() for p in parts[:3])
    js["software_version"] = sv
    if ok and len(parts) == 3:
        a, b, c = (int(p) for p in parts)
        emit(f"Definition software_version : option (N * N * N) := Some ({a}, {b}, {c}).")
    else:
        emit("Definition software_version : option (N * N * N) := None.")
    emit("")

    # sensor-data tables
    from pyplumio.structures import outputs as SO, temperatures as ST, statuses as SS, modules as SM, mixer_sensors as MS
    from pyplumio.structures import fuel_level as FL, alerts as AL
    need(SS.STATUSES_SIZE == 4 and len(SS.STATUSES) == 4, "statuses")
    need(list(SM.MODULES) == ["module_a", "module_b", "module_c", "ecolambda", "ecoster", "panel"], "modules")
    need(SM.struct_version.format == "<BBB" and SM.struct_vendor.format == "<BB", "module structs")
    need(MS.MIXER_SENSOR_SIZE == 8, "mixer sensor size")
    emit(f"Definition n_outputs : N := {N(len(SO.OUTPUTS))}.")
    emit(f"Definition n_temperatures : N := {N(len(ST.TEMPERATURES))}.")
    emit(f"Definition fuel_level_offset : N := {N(FL.FUEL_LEVEL_OFFSET)}.")
    js["outputs"] = list(SO.OUTPUTS)
    js["temperatures"] = list(ST.TEMPERATURES)
    js["statuses"] = list(SS.STATUSES)
    need([(d.name, d.seconds, d.offset) for d in AL.DATETIME_INTERVALS] ==
         [("year", 32140800, 2000), ("month", 2678400, 1), ("day", 86400, 1), ("hour", 3600, 0), ("minute", 60, 0), ("second", 1, 0)],
         "alert datetime intervals")
    need(AL.MAX_UINT32 == 4294967295, "MAX_UINT32")
    from pyplumio.helpers import uid as UIDM
    need(UIDM.CRC == 0xA3A3 and UIDM.POLYNOMIAL == 0xA001 and UIDM.BASE5_KEY == "0123456789ABCDEFGHIJKLMNZPQRSTUV", "uid constants")
    from pyplumio.structures import regulator_data as RD
    need(RD.REGDATA_VERSION == "1.0", "regdata version")
    emit("")

    from pyplumio import const
    emit("Definition extra_device_states : list (N * N) := " +
         lst(f"({N(k)}, {N(int(v))})" for k, v in sorted(const.EXTRA_DEVICE_STATES.items())) + ".")
    emit("Definition device_states : list N := " + lst(N(int(s)) for s in const.DeviceState) + ".")
    js["extra_device_states"] = {str(k): int(v) for k, v in const.EXTRA_DEVICE_STATES.items()}
    js["device_states"] = [int(s) for s in const.DeviceState]

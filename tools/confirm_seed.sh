#!/bin/bash
# usage: confirm_seed.sh <wt dir> -- confirm from the stored patch alone (worktrees share one git stash, so no stash here):
# reset the worktree, apply _seed/patch.diff: demo must FAIL and the suite pass; revert it: demo must PASS
wt=$1
cd $wt || exit 2
git checkout -q -- pyplumio
git apply _seed/patch.diff || { echo "patch does not apply in $wt"; exit 2; }
/venv/bin/python _seed/demo.py > /tmp/demo_with.txt 2>&1; a=$?
t=$(/venv/bin/python -m pytest -q -p no:cacheprovider 2>&1 | tail -1)
git apply -R _seed/patch.diff
/venv/bin/python _seed/demo.py > /tmp/demo_without.txt 2>&1; b=$?
git apply _seed/patch.diff
echo "demo_with_change_rc=$a demo_without_change_rc=$b tests: $t"

#!/bin/bash
# usage: confirm_seed.sh <wt dir> -- confirm: demo FAILs with change, suite passes, demo PASSes without change
wt=$1
cd $wt || exit 2
git diff --quiet -- pyplumio && { echo "no change applied in $wt"; exit 2; }
/venv/bin/python _seed/demo.py > /tmp/demo_with.txt 2>&1; a=$?
t=$(/venv/bin/python -m pytest -q -p no:cacheprovider 2>&1 | tail -1)
git stash -q -- pyplumio
/venv/bin/python _seed/demo.py > /tmp/demo_without.txt 2>&1; b=$?
git stash pop -q
echo "demo_with_change_rc=$a demo_without_change_rc=$b tests: $t"

#!/bin/bash
# usage: try_seed.sh <seed-name> <patch.diff> <check ids...>   -- apply patch to /repo, run the checks, revert,
# then run the same checks again on the restored tree (so that evidence/ always describes /repo itself; must be silent)
name=$1; patch=$2; shift 2
cd /repo || exit 2
git diff --quiet || { echo "repo dirty"; exit 2; }
git apply "$patch" || { echo "patch does not apply"; exit 2; }
for id in "$@"; do
  out=$(cd /verif && timeout 1200 bin/check $id --tier quick 2>&1 | grep -v conda | tail -3)
  echo "[$name] $id -> $out"
done
git -C /repo checkout -- . 
git -C /repo status --short | head -3
for id in "$@"; do
  out=$(cd /verif && timeout 1200 bin/check $id --tier quick 2>&1 | grep -v conda | grep -v KNOWN-FINDING | tail -3)
  [ -n "$out" ] && echo "[$name] $id on the restored tree -> $out"
done
exit 0

#!/usr/bin/env python3
"""Write MANIFEST.json from the per-property table below (kept here so entries stay consistent)."""
import json, os

NOTE = ("Trusted: Coq 8.16.1 kernel (vm_compute used, native_compute not); translator tools/gen_tables.py (tables regenerated from /repo on "
        "every run); extraction with ExtrOcamlBasic only + ocaml/driver.ml; the correspondence harness (differential testing, validates "
        "the model, never stands in for a theorem); CPython semantics where modelled. ")
TECH = "Coq theorem over an executable model + regenerated tables + model/implementation correspondence"

P = {
 "C01": ("Theorem C01_delivered_sound (closed): for every byte stream, every frame the reader model delivers satisfies the positional validity "
         "predicate of the property (delimiter, length 10..1000 = bytes consumed, XOR checksum, recipient, sender; delivered fields = those bytes) "
         "and the consumed pieces tile the stream. The same boolean relation is evaluated on what the real FrameReader does with generated streams.",
         "asyncio.StreamReader buffering is CPython's: chunk independence is exercised on the implementation only."),
 "C02": ("Theorems C02_envelope / C02_payload / C02_request / C02_all_kinds (closed): for every serialisable frame the model of Frame.bytes "
         "satisfies the positional envelope predicate; for every admissible field assignment of every parameterised request the payload is exactly "
         "the documented layout (incl. all 7x48 bitmaps); 33 distinct kinds in the generated table. Real Frame.bytes / FrameWriter output checked "
         "against the same predicate.", "response builders (program version, device available) are covered under C03."),
 "C03": ("Theorems C03_roundtrip, C03_reserialise, C03_eq on the frame model and C03_netinfo / C03_version (build from data then decode = identity for every network configuration / version triple, with the positional layout) - all closed; implementation "
         "checked for the same relations (Frame.bytes -> FrameReader -> fields; ==/!= on pairs differing in exactly one component).",
         "equality after lazy materialisation of _message/_data is outside the statement."),
 "C04": ("Theorems C04_one and C04_sequence (closed): the reader consumes exactly one well-formed frame whatever its class and, by induction, "
         "any sequence of well-formed frames is delivered/skipped frame by frame; real FrameReader + asyncio.StreamReader run on generated "
         "sequences under many chunkings with arrival interleaved with reader progress.",
         "chunk independence itself is a property of asyncio.StreamReader (CPython), exercised not proved."),
 "C19": ("Theorems C19_fixed (every representable value of every integer width/signedness, float/double bit pattern, IPv4/IPv6, NUL-terminated "
         "string: unpack(pack v ++ trailing) = (v, size), size = |pack v|), C19_var (length-prefixed strings/bytes up to 255 bytes), C19_bit "
         "(bit i of the byte, occupies the byte only at i=7, index cycles) - all closed; implementation checked for the same relation on generated values "
         "including non-ASCII text.", "text<->bytes (UTF-8), inet_* formatting and double<->single conversion are CPython's."),
 "C05": ("Theorems (closed) for the parameter blocks: C05_ecomax_params, C05_mixer_params, C05_thermostat_params (1- and 2-byte slots from the "
         "generated table, profile slot, per-thermostat blocks), C05_thermostat_none, C05_schedules - for every abstract value (any start, count, "
         "undefined holes, any trailing bytes) decoding the wire layout returns exactly the defined slots with their positions. Theorems (closed) "
         "for the messages: C05_sensor (the sixteen chained section decoders of the sensor-data message recover the documented view of every "
         "well-formed value - versions, state, outputs/flags words, temperatures with NaN / out-of-table entries dropped, statuses, pending alerts, "
         "fuel level with its 101 offset, fan / load / power / consumption with their undefined markers, six module versions, lambda, thermostats "
         "with contact bits, mixers - and stop exactly at the end of the encoding, any trailing bytes), C05_schema, C05_alerts (31-day-month calendar, "
         "open-ended alerts), C05_password, C05_regdata_body / C05_regdata (regulator data over any schema of the 17 generated type ids: "
         "consecutive flags share bytes LSB first, eight to a byte, every other entry starts on a fresh byte and is the packed form of its type; "
         "whole message with version word and frame versions; the Coq layout is compared with the generator's on every case), C05_uid (the UID "
         "text is the canonical base-32 numeral, no leading zero, of the little-endian number UID bytes ++ CRC-16; the CRC stays a 16-bit word) "
         "and C05_product (whole product-information message); C05_regdata_history: a model of the lazily decoded, cached frame data - however "
         "often a frame was looked at before it was handed to its device, afterwards it decodes with that device's schema (C05_context_pinned_refuted: D25). "
         "Every kind is also run against the real frame classes on generated values and on "
         "every capture of tests/testdata; determinism and payload immutability are checked on the implementation.",
         "the CRC-16 polynomial arithmetic and the 32-character alphabet are the model's definitions (validated by correspondence on generated "
         "and captured UIDs); text decoding and float32 widening are CPython's."),
 "C06": ("Theorems C06_reject (a request outside [min,max] raises, nothing is ever transmitted for that call, held triple untouched - also when "
         "the request equals an out-of-range held value) and C06_transmitted (for every history of timer expiries and reports, every set request of "
         "the call carries a value within the bounds held at the call) - closed; implementation checked on every description of every table with "
         "int / displayed-float / float+-1e-7 / bool / 'on' / 'off' requests, the raw encoding of float requests computed by the PrimFloat model.",
         "bounds are those held when set() is called; schedule parameters are exercised under C07/C18."),
 "C07": ("Theorems (closed): C07_tables (names are unique in every generated parameter table), C07_positions (after ANY sequence of parameter "
         "responses every named parameter is stored with the index of the table position its name has - invariant over the handler model incl. "
         "create-then-update), C07_unknown (a position without description changes nothing), C07_request (the payload built for a parameter "
         "addresses index / mixer index / index+1+offset with the parameter's width; control and profile requests), C07_thermostat_partial "
         "(hole-free thermostat responses give offset t x slots) and C07_thermostat_refuted (the full thermostat clause is false: known finding D8); "
         "schedules: C07_schedule_route (every entry of the generated schedule-parameter table is routed, by the part of its name before the first "
         "'_schedule_', to schedule j/2 - a complete check over the generated tables although some schedule names are prefixes of others), "
         "C07_schedule_table, C07_schedules_kept (the dataset keeps every schedule any response has listed; the pinned replacement is refuted: D21). "
         "Real EcoMAX / Mixer / Thermostat objects are fed payloads rendered by the Coq spec encoders (parameter, mixer, thermostat and schedule "
         "responses, create-then-update); the request of EVERY named parameter is compared with its table position, and the value held under "
         "each name with the value the latest response carried at that position.",
         "known finding D8 (thermostat offset with undefined holes) is open."),
 "C08": ("Theorem C08_all_histories (closed): for every tracking oracle, triple, in-range request differing from the held value, retry count and "
         "every finite history of timer expiries and controller reports, the outputs of the set-call model satisfy the monitor of the property "
         "(requested value only, at most `retries` transmissions, one per expiry, refresh iff not tracking, True only after a differing report, False "
         "only after `retries` unconfirmed transmissions) - by a simulation invariant; C08_hop_refines / C08_hop: a finer model in which controller "
         "reports are handled INSIDE a transmission step (while the request is being built in the thread pool) equals the coarse model on the history "
         "with those reports right after the step, so the monitor accepts those histories too (C08_hop_late_refuted: reading the value after the "
         "suspension instead makes a request carry the old value); real Number/Switch objects run the same histories under the "
         "virtual-time loop and are compared point by point.",
         "partial for scheduling: the order in which a report and a timer expiring at the same instant are served is chosen by the harness (both orders generated)."),
 "C15": ("Theorems C15_refines (for every set of unsupported kinds and every history of announcements over request kinds and unknown codes, the "
         "handler model emits exactly the requests the abstract specification demands - one per announced code that is a known request kind, "
         "supported, and whose recorded version differs - and records them; by an abstraction function into a total map), C15_idempotent, "
         "C15_silent - closed; implementation driven through the frame_versions event and through real sensor-data frames.",
         "announcements naming known response/message kinds are outside the quantifier (handler raises TypeError, observation O1)."),
 "C16": ("Theorem C16_all_patterns: for all 4^8 assignments of {never, attempt 1, 2, 3} to the eight generated set-up kinds, with and without "
         "mixers, the set-up model is loaded within retries x timeout, lists every unanswered kind as failed, lists nothing else when product "
         "information was answered (only the product-dependent kinds otherwise), transmits every unanswered request `retries` times and has the "
         "data of every answered, non-failed kind - finite domain swept completely by vm_compute and lifted with forallb_forall (closed); real "
         "EcoMAX.async_setup driven by a scripted controller with captured response frames under the virtual-time loop and compared.",
         "virtual time stands for real time; retries/timeouts other than the defaults (3, 3.0 s) are not swept."),
 "C17": ("Theorems C17_inverse / C17_accept: for every number description of the generated tables and every raw value below 256^size, the displayed "
         "value exists and writing it back yields that raw value - complete kernel evaluation (vm_compute over PrimFloat, 65536 + 3x256 raw values of "
         "the 4 distinct scalings, lifted by forallb_forall; the bound is in the statement). Depends on the kernel float/int63 primitives only. "
         "Implementation compared bit-exactly (display, bounds, transmitted raw) on every description.",
         "Python round()/int() semantics are modelled (exact Z arithmetic on mantissa/exponent + one IEEE division) and validated against CPython on every run."),
 "C18": ("Theorems C18_edit (for every 48-slot day, state and half-hour aligned times the result has 48 slots and differs from the day exactly on "
         "[slot(start), slot(end)] - 00:00 end = last slot - where it equals the requested state; otherwise None), C18_reject (invalid state or "
         "time never edits), C18_decode_encode / C18_encode_decode (bitmap codec is a bijection between 7x48 bits and 42 bytes, both directions), "
         "C18_commit (payload = 01 idx switch param ++ bitmap, 46 bytes) - closed; implementation: exhaustive 48x48x4 edits, invalid inputs, and "
         "real SchedulesResponse -> EcoMAX -> Schedule edits -> commit() frames compared with the model.",
         "datetime.strptime parsing of HH:MM is CPython's; weekday mapping is checked by correspondence through the real device."),
 "C09": ("Theorem C09_containment (closed): for every number of consumers >= 1 and every sequence of frames (tags distinct) the consumer-side model "
         "hands every valid frame to its device exactly once in arrival order, queues exactly one reply of the matching kind per controller "
         "request addressed to the requester, keeps every consumer alive and the read queue balanced (invariant by induction); C09_pinned_refuted "
         "shows the unguarded (pinned) behaviour violates it. Real AsyncProtocol + FrameReader + fake transport under the virtual-time loop run "
         "generated sequences; replies, device deliveries, queue balance, producer survival, shutdown completion and the device-available payload "
         "(against the Coq netinfo encoder) are compared.",
         "partial: payload decodability is decided by the Coq decoders of C05 for the seven kinds that have one (compared frame by frame with the real "
         "decoder's verdict) and is an oracle (the real decoder on a fresh device) for the others; CPython task scheduling inside one loop iteration is not modelled."),
 "C10": ("Theorems C10_unique (for every sequence of frame arrivals, class-loading completions and user get() calls, the locked device-entry "
         "model creates at most one object, starts set-up exactly once per object, and every handled frame and every get() lands on that object) "
         "and C10_complete (once loading completed nothing is left waiting and every arrived frame has been handled), C10_getters (every caller of "
         "get() has been answered once the entry is published) - closed, by invariant; "
         "C10_pinned_refuted for the unserialised (pinned) behaviour. Real AsyncProtocol with run_in_executor replaced by harness-held futures: "
         "exhaustive enumeration of 1..4 frames x 1..3 consumers x completion position x 0..2 get() positions (645 schedules).",
         "partial: thread-pool timing is reduced to the position of the completion event; CPython's ready-queue order within one iteration is not an input."),
 "C11": ("Theorem C11_cycles (closed): for every sequence of loss/reconnect cycles (any number of known devices, any number of failing open attempts) "
         "the connection model announces connected=False once per known device, closes the transport once, runs one reconnect chain whose attempts "
         "after a failure are at least the back-off interval apart, sends start-master once, announces connected=True to the same devices and ends "
         "every cycle with 1 producer and consumers_count consumers (invariant over cycles); C11_pinned_refuted for the pinned task growth. "
         "C11_sm: an event-level state machine (faults, open results, back-off expiries, new devices in ANY order and number) whose chronological "
         "log is accepted by the monitor of the promise and whose task / transport counts stay those of one connection (inductive invariant); "
         "C11_sm_refines: the per-cycle model is that machine on the events of one cycle; C11_nobreak_refuted / C11_unguarded_refuted. "
         "Real Connection (scripted opens) + AsyncProtocol + fake transports under the virtual-time loop: faults at the k-th read/write (EOF, "
         "OSError, 10 s silence, silence / end of stream inside a frame, failing write) x failed reconnects x repeated cycles with traffic, compared cycle by cycle; "
         "the chronological log of every run is also judged by the monitor of the event-level model.",
         "partial: sockets/serial ports and wait_for cancellation inside a real transport are not modelled (faults injected at the StreamReader/"
         "StreamWriter boundary); the interleaving of a fault with in-flight frame handling is exercised, not modelled."),
 "C12": ("Theorem C12_terminates (closed): for every state (connected or not, any number of queued / unprocessed frames, silent or talking "
         "controller, reconnect chain pending or not, any pending tasks of devices, mixers and thermostats with any indexes) the close() model "
         "returns within the drain bound (20 s) + transport close timeout, leaves no task pending and the transport closed; C12_cancel_all (every "
         "registered live task is cancelled whatever finished tasks are still registered and in whatever order the set is walked); the transport may "
         "confirm its closing after any delay or never (the wait is bounded by the 10 s write timeout and its time-out is absorbed); six refutation "
         "theorems show each pinned / seeded behaviour (unbounded join, device shutdown only when connected, index-merged sub-devices, short-circuiting "
         "cancel_tasks, tasks cancelled only before the shutdown, close-wait time-out escaping) violates it. Real "
         "Connection.close() is issued at the end of every prefix of generated histories under the virtual-time loop (quiescent deadlock "
         "detection), observing return, duration, asyncio.all_tasks() afterwards and transport close calls.",
         "partial: the model maps the state read from the implementation just before close() to the outcome; it does not model the interleaving "
         "of close() with a connection loss in progress (such a race, D19, was found by the harness and repaired; D20, close() in the iteration of a "
         "reconnect hand-over, and D22, close() at the instant the read timeout fires, likewise - hand-over histories are repeated because the walk "
         "order of the task set is not controllable)."),
 "C13": ("Theorems over every operation sequence of the event-manager model (subscribe, subscribe_once, unsubscribe, dispatch tasks, resumption "
         "of suspended callbacks, get with timeout, clock advance; induction with invariants, closed): C13_once (a subscribe_once callback is awaited "
         "at most once), C13_snapshot + C13_spawn_snapshot (every awaited callback belongs to the snapshot its dispatch took when it started, which "
         "is the subscription list of that moment), C13_unsubscribe, C13_getter (a getter only returns values stored by some dispatch), and C13_monitor: "
         "the chronological log of EVERY operation sequence is accepted by the monitor P13 of the whole property (callbacks of the snapshot in "
         "subscription order skipping only unsubscribed once-wrappers, each handed the value returned by the previous one, store after the whole "
         "snapshot, every waiter woken at once, getters return the stored value, a wait times out only while no value exists) - a refinement proof "
         "with the monitor state as a function of the model state. The same monitor is evaluated on the implementation's log of every history.",
         "CPython's ready-queue order within one loop iteration is fixed by letting the loop settle after each operation; the model/implementation "
         "tie is the correspondence of logs on the explored histories."),
 "C14": ("Theorems C14_noise (documented outcomes, progress, bounded wait <= 1000 bytes after the delimiter, tiling, iteration ends with the "
         "broken-stream signal) C14_resync_clean and C14_resync_interior_free (after ANY noise a run of k >= 2 + 1000/|frame| copies of a deliverable frame whose "
         "encoding has no 0x68 after its first byte is picked up - induction over the calls of the iteration) - closed; for frames with an interior "
         "delimiter the clause is refuted in Coq (C14_resync_refuted) and recorded as known finding D16; implementation checked for P14 and for "
         "the resync bound on every generated run.",
         "the resynchronisation clause holds (proved) for frames without an interior 0x68 and is a known finding (D16) otherwise. "
         "Producer-loop survival: `producer` sessions through the real AsyncProtocol here, undecodable payloads under C09."),
 "C20": ("Theorems over all finite call sequences (induction, closed): C20_on_change, C20_debounce, C20_throttle (deliveries are exactly those the "
         "monitor of the promise allows, values unmodified and in order), C20_throttle_gaps (consecutive deliveries at least the interval apart), "
         "C20_delta (delivered differences sum to last baseline - first value, current value within tolerance of the baseline), C20_aggregate "
         "(delivered sums + pending remainder = sum of inputs), C20_aggregate_mixed (for ALL sequences: refused strings / lists are no inputs - the "
         "deliveries and the final state are those of the numeric calls alone), C20_overlap (overlapping calls - a slow callback, further calls while it "
         "runs - deliver and leave behind exactly what the same calls do in sequence; C20_aggregate_late_reset_refuted for the defect D24), C20_chain (the inner filter of a chain sees exactly the outer filter's deliveries); "
         "real filters run the same sequences with time.monotonic patched, compared delivery by delivery.",
         "numbers are integers on the grid 2^-60 (multiples of 1/64 of bounded magnitude, and the doubles 0.05, 0.1, 0.2 ... so that a difference of "
         "exactly one tolerance - the double 0.1 - is expressible); on the generated values CPython float arithmetic and isclose agree with exact "
         "arithmetic; behaviour under float rounding of arbitrary doubles is not covered."),
}

def main():
    root = os.path.dirname(os.path.dirname(os.path.abspath(__file__)))
    checks = []
    for pid in sorted(P):
        text, note = P[pid]
        checks.append({
            "property_id": pid,
            "quick_cmd": f"bin/check {pid} --tier quick",
            "thorough_cmd": f"bin/check {pid} --tier thorough",
            "evidence_file": f"evidence/{pid}.json",
            "replay_cmd_template": f"bin/check {pid} --replay {{path}}",
            "engine": "coq-model",
            "level_claimed": {"category": "proof", "text": text, "design_ref": f"DESIGN.md §6 {pid}"},
            "level_note": NOTE + note,
            "technique": TECH,
        })
    m = {
        "version": 1,
        "setup_cmd": "make -C /verif setup",
        "hooks": {
            "guard": "PYPLUMIO_VERIF",
            "enable": "no source hooks: checks import /repo directly (PYTHONPATH=/repo) and observe it from outside (fake streams, virtual-time loop)",
            "baseline_off_cmd": "cd /repo && /venv/bin/python -m pytest -ra -q -p no:cacheprovider --timeout=900",
            "source_commits": [],
            "add_only": True,
        },
        "engines": [
            {"name": "coq-model", "path": "coq/", "serves_properties": sorted(P),
             "kind_free_text": "Coq 8.16.1 development: executable Gallina model, boolean spec relations, theorems; tables regenerated from /repo by tools/gen_tables.py"},
            {"name": "correspondence", "path": "harness/", "serves_properties": sorted(P),
             "kind_free_text": "differential execution of the extracted model (OCaml) against the real implementation under a virtual-time asyncio loop; the extracted spec relation is evaluated on the implementation's behaviour"},
        ],
        "checks": checks,
        "not_applicable": [],
        "notes": "All 20 properties have a registered check; not_applicable is empty. Open known findings (KNOWN_FINDINGS.json; the check prints a KNOWN-FINDING line and exits 0): D8 (C07, thermostat write offset with undefined slots), D16 (C14, resynchronisation of frames with an interior start delimiter), D23 (C06, creation race of parameter objects). Fixed in /repo by separate `fix:` commits: D1-D7, D9-D15, D17-D22, D24, D25 (DESIGN.md section 11). tools/full_pass.sh, tools/refactor_pass.sh and tools/thorough_pass.sh re-run everything (all checks with several generator seeds, every stored seeded change, every stored behaviour-preserving refactoring, the thorough tier).",
    }
    with open(os.path.join(root, "MANIFEST.json"), "w") as f:
        json.dump(m, f, indent=1)

if __name__ == "__main__":
    main()

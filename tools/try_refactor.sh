#!/bin/bash
# usage: try_refactor.sh <name> <patch.diff>  -- apply a behaviour-preserving patch to /repo, run ALL quick checks, revert; any output line is an alarm
name=$1; patch=$2
cd /repo || exit 2
git diff --quiet || { echo "repo dirty"; exit 2; }
git apply "$patch" || { echo "[$name] patch does not apply"; exit 2; }
for i in $(seq -w 1 20); do
  out=$(cd /verif && timeout 1800 bin/check C$i --tier quick 2>&1 | grep -v conda | grep "VIOLATION" | cut -c1-200)
  [ -n "$out" ] && echo "[$name] C$i -> $out"
done
git -C /repo checkout -- .
echo "[$name] done"

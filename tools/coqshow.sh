#!/bin/bash
# usage: coqshow.sh File.v LINE  -- show goals after line LINE (relative to coq/)
cd /verif/coq; export OCAMLRUNPARAM='s=4M,h=256M'
head -$2 $1 > /tmp/show_$$.v; echo "Show. " >> /tmp/show_$$.v
coqc -Q . PV /tmp/show_$$.v 2>&1 | grep -v conda | grep -v "pending proofs" | tail -${3:-40}; rm -f /tmp/show_$$.*  /tmp/.show_$$.aux

#!/bin/bash
# usage: seed_round.sh <worktree prefix> <suffix letter> <property ids...>
# for each id: confirm the seed in its scratch worktree, store it under seeded/<id><suffix>/, run the property's quick check on it
pre=$1; suf=$2; shift 2
for p in "$@"; do
  wt=${pre}_$p
  [ -f $wt/_seed/patch.diff ] || { echo "[$p] no seed in $wt"; continue; }
  c=$(/verif/tools/confirm_seed.sh $wt 2>&1 | grep -v conda | tail -1)
  echo "[$p$suf] confirm: $c"
  case "$c" in *"demo_with_change_rc=1 demo_without_change_rc=0 tests: 219 passed"*) ;; *) echo "[$p$suf] NOT CONFIRMED"; continue;; esac
  mkdir -p /verif/seeded/$p$suf
  cp $wt/_seed/patch.diff $wt/_seed/demo.py $wt/_seed/meta.json /verif/seeded/$p$suf/
  /verif/tools/try_seed.sh $p$suf /verif/seeded/$p$suf/patch.diff $p 2>&1 | grep -v conda | cut -c1-220
done

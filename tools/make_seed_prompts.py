#!/usr/bin/env python3
"""usage: make_seed_prompts.py <round number>  -- writes /tmp/agent<round>_Cnn.txt (prompt for an independent author of a breaking change:
the property text and abridged summaries of the earlier changes for that property; nothing else from /verif) and creates the scratch
worktrees /tmp/wt<round>_Cnn."""
import glob, json, subprocess, sys

rnd = sys.argv[1]
props = [json.loads(l) for l in open('/verif/properties.jsonl')]
for p in props:
    pid = p['id']
    wt = f'/tmp/wt{rnd}_{pid}'
    earlier = []
    for d in sorted(glob.glob(f'/verif/seeded/{pid}?')):
        try:
            m = json.load(open(d + '/meta.json'))
        except Exception:
            continue
        summ = ' '.join(str(m.get('summary', '')).split())
        earlier.append('(%d) %s' % (len(earlier) + 1, summ[:420] + ('...' if len(summ) > 420 else '')))
    text = f"""You are an experienced Python developer. You work ONLY inside the scratch git worktree {wt} (a checkout of the
PyPlumIO library, package directory `pyplumio/`, tests in `tests/`). Python is /venv/bin/python. Run the test-suite with:
  cd {wt} && /venv/bin/python -m pytest -q -p no:cacheprovider
(219 tests, all passing now). Never touch /repo, /verif or anything outside {wt}; do not read /verif.

A semantic property of the library, which its users rely on:

  [{pid}] {p['title']}
  {p['statement']}
  It is meant for: {p['quantifier']['text']}

YOUR TASK: make ONE realistic change to the library code under {wt}/pyplumio (the kind of refactoring, optimisation, clean-up, small
feature or "fix" a maintainer could plausibly write and a reviewer could plausibly accept) that BREAKS this property, while
  * the package still imports and the whole existing test-suite still passes unchanged (do not edit tests), and
  * the breakage needs something specific to show up (a particular input, boundary value, history of calls on the same objects,
    timing / ordering, fault, or interplay of two modules) -- ordinary use and the existing tests do not notice it.

Other authors have already produced the following changes for this property. Yours must differ from ALL of them in site,
mechanism, or the clause / corner of the quantifier it attacks (histories on the same objects, the interplay of two modules,
rarely used public API, error paths and boundary values are especially welcome):
{chr(10).join(earlier) if earlier else '(none yet)'}

DELIVERABLES, in {wt}/_seed/ (create the directory):
  * patch.diff  -- exactly the output of `git diff -- pyplumio` in {wt} with your change applied;
  * demo.py     -- a self-contained script that puts {wt} FIRST on sys.path (sys.path.insert(0, '{wt}')) and demonstrates the
                   violation through the real library (real classes, public API where possible; an in-memory transport or a
                   virtual clock is fine, mocks of library code are not): it prints FAIL plus the concrete failing input / history
                   and exits 1 when the property is violated, prints PASS and exits 0 otherwise. It must run in well under a minute;
  * meta.json   -- {{"property": "{pid}", "summary": "<what you changed and why it looks harmless>", "needs": "<what it needs to
                   manifest>", "files": ["pyplumio/..."]}}.

VERIFY before you finish, and report the three results:
  1. with your change applied: `/venv/bin/python _seed/demo.py` prints FAIL and exits 1;
  2. `git apply -R _seed/patch.diff` (change reverted): demo prints PASS and exits 0; then `git apply _seed/patch.diff` again;
  3. with your change applied the full test-suite passes (219 passed).
Leave the worktree with your change applied. Keep the change small (one site, or two that each look fine alone)."""
    open(f'/tmp/agent{rnd}_{pid}.txt', 'w').write(text)
    subprocess.run(['git', '-C', '/repo', 'worktree', 'add', '--detach', '-q', wt, 'HEAD'], check=False)
print('prompts and worktrees ready')

#!/bin/bash
# quick checks with VERIF_SEED 0..2, then every stored seed, then the quick checks again (evidence of the unchanged tree); any output line besides "done" lines is something to look at
cd /verif
for s in 0 1 2; do
  for i in $(seq -w 1 20); do
    out=$(VERIF_SEED=$s timeout 1500 bin/check C$i --tier quick 2>&1 | grep -v conda | grep -v KNOWN-FINDING | tail -2 | cut -c1-200)
    [ -n "$out" ] && echo "seed $s C$i: $out"
  done
  echo "seed $s done $(date +%H:%M)"
done
tools/regress_seeds.sh
for i in $(seq -w 1 20); do
  out=$(timeout 1500 bin/check C$i --tier quick 2>&1 | grep -v conda | grep -v KNOWN-FINDING | tail -2 | cut -c1-200)
  [ -n "$out" ] && echo "final C$i: $out"
done
echo "all done $(date +%H:%M)"

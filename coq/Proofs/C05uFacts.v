(* C05 (product information): the UID text is the canonical base-32 numeral, most significant digit first, of the
   little-endian number formed by the UID bytes followed by their CRC-16 (low byte first). *)
From Coq Require Import NArith ZArith List Bool Arith Lia ZifyBool ZifyNat ZifyN.
From PV Require Import Lib.Bytes Generated.Tables Model.Versions Model.DataTypes Model.SensorData Model.OtherKinds Spec.C05s Spec.C05u Proofs.C05sFacts.
Import ListNotations.
Open Scope N_scope.

Lemma fold_value l : forall a, fold_left (fun a d => 32 * a + d) l a = a * 32 ^ N.of_nat (length l) + digits_value l.
Proof.
  unfold digits_value. induction l as [|d l IH]; intros a; cbn [fold_left length].
  - cbn. lia.
  - rewrite IH, (IH (32 * 0 + d)). rewrite Nat2N.inj_succ, N.pow_succ_r'. set (P := 32 ^ N.of_nat (length l)). nia.
Qed.

Lemma value_cons d l : digits_value (d :: l) = d * 32 ^ N.of_nat (length l) + digits_value l.
Proof. unfold digits_value at 1. cbn [fold_left]. rewrite fold_value. replace (32 * 0 + d) with d by lia. reflexivity. Qed.

Lemma base5_value fuel : forall n acc, n < 32 ^ N.of_nat fuel ->
  digits_value (base5_digits fuel n acc) = n * 32 ^ N.of_nat (length acc) + digits_value acc.
Proof.
  induction fuel as [|k IH]; intros n acc Hn; cbn [base5_digits].
  - cbn in Hn. assert (n = 0) by lia. subst. lia.
  - destruct (N.eqb_spec n 0) as [->|Nz]; [lia|].
    rewrite Nat2N.inj_succ, N.pow_succ_r' in Hn.
    rewrite IH by (apply N.div_lt_upper_bound; lia).
    rewrite value_cons. cbn [length]. rewrite Nat2N.inj_succ, N.pow_succ_r'.
    pose proof (N.div_mod n 32 ltac:(lia)) as Hdm.
    set (P := 32 ^ N.of_nat (length acc)) in *. nia.
Qed.

Lemma base5_digits_small fuel : forall n acc, Forall (fun d => d < 32) acc -> Forall (fun d => d < 32) (base5_digits fuel n acc).
Proof.
  induction fuel as [|k IH]; intros n acc Ha; cbn [base5_digits]; [exact Ha|].
  destruct (n =? 0); [exact Ha|]. apply IH. constructor; [|exact Ha]. apply N.mod_lt. lia.
Qed.

Lemma base5_zero fuel acc : base5_digits fuel 0 acc = acc.
Proof. destruct fuel; reflexivity. Qed.

(* no leading zero digit *)
Lemma base5_head fuel : forall n acc, n < 32 ^ N.of_nat fuel -> n <> 0 -> hd 1 (base5_digits fuel n acc) <> 0.
Proof.
  induction fuel as [|k IH]; intros n acc Hn Nz; [cbn in Hn; lia|].
  cbn [base5_digits]. destruct (N.eqb_spec n 0) as [E|_]; [contradiction|].
  rewrite Nat2N.inj_succ, N.pow_succ_r' in Hn.
  destruct (N.eq_dec (n / 32) 0) as [E|NE].
  - rewrite E, base5_zero. cbn [hd]. apply N.div_small_iff in E; [|lia]. rewrite N.mod_small by exact E. exact Nz.
  - apply IH; [apply N.div_lt_upper_bound; lia|exact NE].
Qed.

Lemma lxor_word a b : a < 65536 -> b < 65536 -> N.lxor a b < 65536.
Proof.
  intros Ha Hb.
  destruct (N.eq_dec (N.lxor a b) 0) as [E|E]; [lia|].
  change 65536 with (2 ^ 16). apply N.log2_lt_pow2; [lia|].
  eapply N.le_lt_trans; [apply N.log2_lxor|].
  assert (forall x, x < 65536 -> N.log2 x < 16) as L.
  { intros x Hx. destruct (N.eq_dec x 0) as [->|Nz]; [reflexivity|].
    apply N.log2_lt_pow2; [lia|exact Hx]. }
  specialize (L a Ha) as La. specialize (L b Hb) as Lb. lia.
Qed.

Lemma crc16_bits_word fuel : forall crc, crc < 65536 -> crc16_bits fuel crc < 65536.
Proof.
  induction fuel as [|k IH]; intros crc H; cbn [crc16_bits]; [exact H|].
  apply IH. destruct (N.testbit crc 0).
  - apply lxor_word; [apply N.div_lt_upper_bound; lia|lia].
  - apply N.div_lt_upper_bound; lia.
Qed.

Lemma crc16_word buffer : Bytes buffer -> crc16 buffer < 65536.
Proof.
  intros Hb. unfold crc16.
  assert (G : forall l c, c < 65536 -> Bytes l -> fold_left (fun crc b => crc16_bits 8 (N.lxor crc b)) l c < 65536).
  { induction l as [|b l IH]; intros c Hc Hl; cbn [fold_left]; [exact Hc|].
    inversion Hl as [|? ? Hb' Hl']; subst. apply IH; [|exact Hl'].
    apply crc16_bits_word. apply lxor_word; lia. }
  apply G; [lia|exact Hb].
Qed.

Lemma pow_fuel L : 256 ^ N.of_nat L <= 32 ^ N.of_nat (2 * L + 2).
Proof.
  induction L as [|L IH]; [cbn; lia|].
  replace (2 * S L + 2)%nat with (S (S (2 * L + 2))) by lia.
  rewrite !Nat2N.inj_succ, !N.pow_succ_r'. nia.
Qed.

Theorem C05_uid : C05_uid_statement.
Proof.
  intros buffer Hb c ds. pose proof (crc16_word buffer Hb) as Hc. fold c in Hc.
  split; [exact Hc|].
  unfold ds, decode_uid. fold c. set (all := buffer ++ [c mod 256; c / 256]).
  assert (Hall : Bytes all).
  { unfold all. apply Bytes_app. split; [exact Hb|]. repeat constructor; [apply N.mod_lt; lia|apply N.div_lt_upper_bound; lia]. }
  assert (Hn : le_decode all < 32 ^ N.of_nat (2 * length all + 2)).
  { eapply N.lt_le_trans; [apply le_decode_bound; exact Hall|apply pow_fuel]. }
  split; [apply base5_digits_small; constructor|]. split.
  - rewrite base5_value by exact Hn. cbn [length]. unfold digits_value. cbn [fold_left]. cbn. lia.
  - destruct (N.eq_dec (le_decode all) 0) as [E|NE].
    + rewrite E, base5_zero. cbn. lia.
    + now apply base5_head.
Qed.

(* ---- the whole product-information message ---- *)

Theorem C05_product : C05_product_statement.
Proof.
  intros ty id uid logo image model trailing Hty Hid Hlogo Himage Hu Hm.
  unfold enc_product. set (m := _ ++ trailing).
  assert (H0 : skipn 0 m = [ty] ++ le2 id ++ [N.of_nat (length uid)] ++ uid ++ le2 logo ++ le2 image ++
                           [N.of_nat (length model)] ++ model ++ trailing).
  { unfold m. rewrite <- !app_assoc. reflexivity. }
  pose proof (skipn_split _ _ _ _ 1%nat H0 eq_refl) as H1.
  pose proof (skipn_split _ _ _ _ 2%nat H1 (le2_length id)) as H3. cbn [Nat.add] in H1, H3.
  pose proof (skipn_split _ _ _ _ 1%nat H3 eq_refl) as H4.
  pose proof (skipn_split _ _ _ _ _ H4 eq_refl) as H5.
  pose proof (skipn_split _ _ _ _ 2%nat H5 (le2_length logo)) as H6.
  pose proof (skipn_split _ _ _ _ 2%nat H6 (le2_length image)) as H7.
  pose proof (skipn_split _ _ _ _ 1%nat H7 eq_refl) as H8.
  unfold decode_product.
  rewrite (byte_at_skipn _ _ _ _ H0).
  rewrite (u16_at _ _ _ _ H1 ltac:(lia)).
  rewrite H3. cbn [app unpack_var]. rewrite Nat2N.id, firstn_app_exact by reflexivity.
  replace (3 + S (length uid))%nat with (3 + 1 + length uid)%nat by lia.
  rewrite (u16_at _ _ _ _ H5 ltac:(lia)).
  replace (5 + S (length uid))%nat with (3 + 1 + length uid + 2)%nat by lia.
  rewrite (u16_at _ _ _ _ H6 ltac:(lia)).
  replace (7 + S (length uid))%nat with (3 + 1 + length uid + 2 + 2)%nat by lia.
  rewrite H7. cbn [app unpack_var]. rewrite Nat2N.id, firstn_app_exact by reflexivity.
  replace (ty <=? 1) with true by lia. reflexivity.
Qed.

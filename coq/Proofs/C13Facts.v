From Coq Require Import ZArith NArith List Bool Lia Arith ZifyBool ZifyNat.
From PV Require Import Model.EventMgr Spec.C13.
Import ListNotations.

(* ---------- generic: invariants of erun ---------- *)
Lemma erun_app sc ops1 ops2 : erun sc (ops1 ++ ops2) = fold_left (estep sc) ops2 (erun sc ops1).
Proof. unfold erun. apply fold_left_app. Qed.

Lemma erun_ind sc (P : est -> Prop) : P einit -> (forall st op, P st -> P (estep sc st op)) -> forall ops, P (erun sc ops).
Proof.
  intros H0 Hs ops. unfold erun. assert (G : forall st, P st -> P (fold_left (estep sc) ops st)).
  { induction ops as [|o os IH]; intros st H; cbn [fold_left]; [exact H|]. apply IH. now apply Hs. }
  now apply G.
Qed.

Lemma sub_eqb_eq a b : sub_eqb a b = true <-> a = b.
Proof.
  destruct a, b; cbn [sub_eqb]; try (split; congruence).
  - rewrite Nat.eqb_eq. split; congruence.
  - rewrite andb_true_iff, !Nat.eqb_eq. split; [intros [-> ->]; reflexivity|intros E; injection E; auto].
Qed.
Lemma sub_eqb_refl a : sub_eqb a a = true.
Proof. now apply sub_eqb_eq. Qed.

(* ---------- the log only grows ---------- *)
Definition extends (l1 l2 : list lev) : Prop := exists top, l2 = top ++ l1.
Lemma extends_refl l : extends l l. Proof. now exists []. Qed.
Lemma extends_trans a b c : extends a b -> extends b c -> extends a c.
Proof. intros [t1 ->] [t2 ->]. exists (t2 ++ t1). now rewrite app_assoc. Qed.
Lemma extends_cons e l : extends l (e :: l). Proof. now exists [e]. Qed.
Lemma extends_app t l : extends l (t ++ l). Proof. now exists t. Qed.

(* what run_task adds on top of the log: no spawn entries; LCalled only for members of todo;
   LGot only right above an LStored of the same name and value *)
Definition no_spawn (top : list lev) : Prop := forall e, In e top -> match e with LSpawn _ _ _ _ => False | _ => True end.

Lemma run_task_log sc todo : forall tid name cur st,
  exists top, log (fst (run_task sc todo tid name cur st)) = top ++ log st /\ no_spawn top /\
    (forall t s x, In (LCalled t s x) top -> t = tid /\ In s todo) /\
    (forall w n x, In (LGot w n x) top -> In (LStored tid n x) top) /\
    (forall n x, get_data n (data (fst (run_task sc todo tid name cur st))) = Some x ->
                 get_data n (data st) = Some x \/ In (LStored tid n x) top) /\
    next_id (fst (run_task sc todo tid name cur st)) = next_id st.
Proof.
  induction todo as [|s rest IH]; intros tid name cur st.
  - cbn [run_task fst log data next_id].
    exists (rev (map (fun w => LGot (w_id w) name cur) (filter (fun w => Nat.eqb (w_name w) name) (waiters st))) ++ [LStored tid name cur]).
    split; [now rewrite <- app_assoc|]. split; [|split; [|split; [|split]]].
    + intros e He. apply in_app_iff in He. destruct He as [He|[<-|[]]]; [|exact I].
      apply in_rev, in_map_iff in He. destruct He as [w [<- _]]. exact I.
    + intros t s x He. apply in_app_iff in He. destruct He as [He|[He|[]]]; [|discriminate].
      apply in_rev, in_map_iff in He. destruct He as [w [He _]]. discriminate.
    + intros w n x He. apply in_app_iff in He. destruct He as [He|[He|[]]]; [|discriminate].
      apply in_rev, in_map_iff in He. destruct He as [w' [He _]]. injection He as _ <- <-.
      apply in_app_iff. right. now left.
    + intros n x Hd. clear -Hd. induction (data st) as [|[k v] t IHd]; cbn [set_data get_data] in Hd.
      * destruct (Nat.eqb name n) eqn:E; [|discriminate]. apply Nat.eqb_eq in E. subst. injection Hd as <-.
        right. apply in_app_iff. right. now left.
      * destruct (Nat.eqb k name) eqn:Ek.
        -- cbn [get_data] in Hd. apply Nat.eqb_eq in Ek. subst k. cbn [get_data].
           destruct (Nat.eqb name n) eqn:E.
           ++ apply Nat.eqb_eq in E. subst. injection Hd as <-. right. apply in_app_iff. right. now left.
           ++ left. exact Hd.
        -- cbn [get_data] in Hd |- *. destruct (Nat.eqb k n); [left; exact Hd|]. now apply IHd.
    + reflexivity.
  - cbn [run_task].
    set (proceed := match s with Plain _ => Some st | Once _ _ => _ end).
    assert (Hp : proceed = None \/ exists st1, proceed = Some st1 /\ log st1 = log st /\ data st1 = data st /\ next_id st1 = next_id st).
    { unfold proceed. destruct s as [c|c w]; [right; exists st; auto|].
      destruct (mem_sub _ _); [right; eexists; split; [reflexivity|cbn; auto]|now left]. }
    destruct Hp as [->|[st1 [-> (Hl & Hd & Hn)]]].
    + destruct (IH tid name cur st) as [top (H1 & H2 & H3 & H4 & H5 & H6)]. exists top.
      split; [exact H1|]. split; [exact H2|]. split; [|split; [exact H4|split; [exact H5|exact H6]]].
      intros t s' x Hin. destruct (H3 t s' x Hin) as [-> Hs]. split; [reflexivity|now right].
    + set (st2 := mkEst (subs st1) (data st1) (tasks st1) (waiters st1) (now st1) (next_id st1) (LCalled tid s cur :: log st1)).
      destruct (sc (sub_cb s)) as [k r]. destruct k as [|k].
      * destruct (IH tid name (apply_result r cur) st2) as [top (H1 & H2 & H3 & H4 & H5 & H6)].
        exists (top ++ [LCalled tid s cur]). unfold st2 in H1 at 2. cbn [log] in H1. rewrite H1, Hl.
        split; [now rewrite <- app_assoc|]. split; [|split; [|split; [|split]]].
        -- intros e He. apply in_app_iff in He. destruct He as [He|[<-|[]]]; [now apply H2|exact I].
        -- intros t s' x He. apply in_app_iff in He. destruct He as [He|[He|[]]].
           ++ destruct (H3 t s' x He) as [-> Hs]. split; [reflexivity|now right].
           ++ injection He as <- <- <-. split; [reflexivity|now left].
        -- intros w n x He. apply in_app_iff in He. destruct He as [He|[He|[]]]; [|discriminate].
           apply in_app_iff. left. now apply (H4 w n x).
        -- intros n x Hg. destruct (H5 n x Hg) as [Hg'|Hg'].
           ++ left. unfold st2 in Hg'. cbn [data] in Hg'. now rewrite Hd in Hg'.
           ++ right. apply in_app_iff. now left.
        -- rewrite H6. unfold st2. cbn [next_id]. exact Hn.
      * cbn [fst]. exists [LCalled tid s cur]. unfold st2. cbn [log data next_id]. rewrite Hl, Hd, Hn.
        split; [reflexivity|]. split; [|split; [|split; [|split]]].
        -- intros e [<-|[]]. exact I.
        -- intros t s' x [He|[]]. injection He as <- <- <-. split; [reflexivity|now left].
        -- intros w n x [He|[]]. discriminate.
        -- intros n x Hg. now left.
        -- reflexivity.
Qed.

(* ---------- getter soundness ---------- *)
Definition getter_inv (st : est) : Prop :=
  (forall w n x, In (LGot w n x) (log st) -> exists t, In (LStored t n x) (log st)) /\
  (forall n x, get_data n (data st) = Some x -> exists t, In (LStored t n x) (log st)).

Lemma getter_inv_run_task sc todo tid name cur st : getter_inv st -> getter_inv (fst (run_task sc todo tid name cur st)).
Proof.
  intros [G1 G2]. destruct (run_task_log sc todo tid name cur st) as [top (H1 & _ & _ & H4 & H5 & _)].
  split.
  - intros w n x Hin. rewrite H1 in *. apply in_app_iff in Hin. destruct Hin as [Hin|Hin].
    + exists tid. apply in_app_iff. left. now apply (H4 w n x).
    + destruct (G1 w n x Hin) as [t Ht]. exists t. apply in_app_iff. now right.
  - intros n x Hg. rewrite H1. destruct (H5 n x Hg) as [Hg'|Hg'].
    + destruct (G2 n x Hg') as [t Ht]. exists t. apply in_app_iff. now right.
    + exists tid. apply in_app_iff. now left.
Qed.

Lemma getter_inv_weaken st st' top : getter_inv st -> log st' = top ++ log st -> data st' = data st ->
  (forall w n x, In (LGot w n x) top -> get_data n (data st) = Some x) -> getter_inv st'.
Proof.
  intros [G1 G2] Hl Hd Ht. split.
  - intros w n x Hin. rewrite Hl in *. apply in_app_iff in Hin. destruct Hin as [Hin|Hin].
    + destruct (G2 n x (Ht w n x Hin)) as [t H]. exists t. apply in_app_iff. now right.
    + destruct (G1 w n x Hin) as [t H]. exists t. apply in_app_iff. now right.
  - intros n x Hg. rewrite Hd in Hg. destruct (G2 n x Hg) as [t H]. exists t. rewrite Hl. apply in_app_iff. now right.
Qed.

Lemma getter_inv_with_tasks st ts : getter_inv st -> getter_inv (with_tasks st ts).
Proof. intros H. exact H. Qed.

Lemma getter_inv_step sc st op : getter_inv st -> getter_inv (estep sc st op).
Proof.
  intros Inv. destruct op as [n c|n c|n s|n x|tid|n timeout|dt]; cbn [estep].
  - apply (getter_inv_weaken st _ [LSub n (Plain c)] Inv); try reflexivity. intros w m x [H|[]]. discriminate.
  - apply (getter_inv_weaken st _ [LSub n (Once c (next_id st))] Inv); try reflexivity. intros w m x [H|[]]. discriminate.
  - apply (getter_inv_weaken st _ [LUnsub n s (mem_sub s (get_subs n (subs st)))] Inv); try reflexivity. intros w m x [H|[]]. discriminate.
  - set (st1 := mkEst _ _ _ _ _ _ _).
    assert (Inv1 : getter_inv st1).
    { apply (getter_inv_weaken st st1 [LSpawn (next_id st) n x (get_subs n (subs st))] Inv); try reflexivity.
      intros w m y [H|[]]. discriminate. }
    pose proof (getter_inv_run_task sc (get_subs n (subs st)) (next_id st) n x st1 Inv1) as H.
    destruct (run_task sc _ _ _ _ st1) as [st2 t]. cbn [fst] in H. now apply getter_inv_with_tasks.
  - destruct (find_task tid (tasks st)) as [t|]; [|exact Inv].
    destruct (t_wait t) as [[k s]|]; [|exact Inv].
    destruct k as [|[|k]].
    + destruct (sc (sub_cb s)) as [k' r].
      pose proof (getter_inv_run_task sc (t_todo t) tid (t_name t) (apply_result r (t_cur t)) st Inv) as H.
      destruct (run_task sc _ _ _ _ st) as [st2 t']. cbn [fst] in H. now apply getter_inv_with_tasks.
    + destruct (sc (sub_cb s)) as [k' r].
      pose proof (getter_inv_run_task sc (t_todo t) tid (t_name t) (apply_result r (t_cur t)) st Inv) as H.
      destruct (run_task sc _ _ _ _ st) as [st2 t']. cbn [fst] in H. now apply getter_inv_with_tasks.
    + now apply getter_inv_with_tasks.
  - destruct (get_data n (data st)) as [x|] eqn:E.
    + apply (getter_inv_weaken st _ [LGot (next_id st) n x] Inv); try reflexivity.
      intros w m y [H|[]]. injection H as _ <- <-. exact E.
    + apply (getter_inv_weaken st _ [LWait (next_id st) n] Inv); try reflexivity. intros w m y [H|[]]. discriminate.
  - set (top := rev (map (fun w => LTimeout (w_id w) (w_name w)) _)).
    apply (getter_inv_weaken st _ top Inv); try reflexivity.
    intros w m y Hin. unfold top in Hin. apply in_rev, in_map_iff in Hin. destruct Hin as [w' [H _]]. discriminate.
Qed.

Theorem C13_getter : C13_getter_statement.
Proof.
  intros sc ops w n x Hin.
  assert (Inv : getter_inv (erun sc ops)).
  { apply erun_ind; [split; [intros ? ? ? []|intros ? ? H; discriminate H]|intros st op; apply getter_inv_step]. }
  destruct Inv as [G1 _]. destruct (G1 w n x Hin) as [t Ht].
  apply existsb_exists. exists (LStored t n x). split; [exact Ht|]. cbn. now rewrite Nat.eqb_refl, Z.eqb_refl.
Qed.

(* ---------- snapshots ---------- *)
Lemma snapshot_of_app tid top l : no_spawn top -> snapshot_of tid (top ++ l) = snapshot_of tid l.
Proof.
  induction top as [|e top IH]; intros H; [reflexivity|]. cbn [app snapshot_of].
  assert (no_spawn top) as Ht by (intros e' He'; apply H; now right).
  pose proof (H e (or_introl eq_refl)) as He. destruct e; try (now apply IH). destruct He.
Qed.

Lemma run_task_task sc todo : forall tid name cur st,
  t_id (snd (run_task sc todo tid name cur st)) = tid /\ incl (t_todo (snd (run_task sc todo tid name cur st))) todo /\
  tasks (fst (run_task sc todo tid name cur st)) = tasks st.
Proof.
  induction todo as [|s rest IH]; intros tid name cur st.
  - cbn. repeat split. intros x [].
  - cbn [run_task].
    set (proceed := match s with Plain _ => Some st | Once _ _ => _ end).
    assert (Hp : proceed = None \/ exists st1, proceed = Some st1 /\ tasks st1 = tasks st).
    { unfold proceed. destruct s as [c|c w]; [right; exists st; auto|].
      destruct (mem_sub _ _); [right; eexists; split; [reflexivity|reflexivity]|now left]. }
    destruct Hp as [->|[st1 [-> Ht]]].
    + destruct (IH tid name cur st) as (H1 & H2 & H3). repeat split; [exact H1| |exact H3].
      intros x Hx. right. now apply H2.
    + destruct (sc (sub_cb s)) as [k r]. destruct k as [|k].
      * match goal with |- context [run_task sc rest tid name ?c ?s2] => destruct (IH tid name c s2) as (H1 & H2 & H3) end.
        repeat split; [exact H1| |rewrite H3; exact Ht]. intros x Hx. right. now apply H2.
      * cbn. repeat split; [|exact Ht]. intros x Hx. now right.
Qed.

Definition snap_inv (st : est) : Prop :=
  (forall t n x sn, In (LSpawn t n x sn) (log st) -> t < next_id st) /\
  (forall t, In t (tasks st) -> t_id t < next_id st /\
      exists snap, snapshot_of (t_id t) (log st) = Some snap /\ incl (t_todo t) snap) /\
  (forall tid s x, In (LCalled tid s x) (log st) -> exists snap, snapshot_of tid (log st) = Some snap /\ In s snap).

Lemma snap_inv_top st st' top : snap_inv st -> log st' = top ++ log st -> no_spawn top ->
  (forall t s x, ~ In (LCalled t s x) top) -> tasks st' = tasks st -> next_id st <= next_id st' -> snap_inv st'.
Proof.
  intros (A & B & C) Hl Hn Hc Ht Hid. split; [|split].
  - intros t n x sn Hin. rewrite Hl in Hin. apply in_app_iff in Hin. destruct Hin as [Hin|Hin].
    + specialize (Hn _ Hin). destruct Hn.
    + specialize (A _ _ _ _ Hin). lia.
  - intros t Hin. rewrite Ht in Hin. destruct (B t Hin) as [H1 [snap [H2 H3]]]. split; [lia|].
    exists snap. rewrite Hl, snapshot_of_app by exact Hn. auto.
  - intros tid s x Hin. rewrite Hl in Hin. apply in_app_iff in Hin. destruct Hin as [Hin|Hin]; [now apply Hc in Hin|].
    destruct (C tid s x Hin) as [snap [H1 H2]]. exists snap. rewrite Hl, snapshot_of_app by exact Hn. auto.
Qed.

(* running a task whose todo is covered by its snapshot keeps the invariant *)
Lemma snap_inv_run sc todo tid name cur st snap :
  snap_inv st -> snapshot_of tid (log st) = Some snap -> incl todo snap -> tid < next_id st ->
  let r := run_task sc todo tid name cur st in
  snap_inv (with_tasks (fst r) (put_task (snd r) (tasks (fst r)))).
Proof.
  intros (A & B & C) Hs Hi Hlt r.
  destruct (run_task_log sc todo tid name cur st) as [top (H1 & H2 & H3 & _ & _ & H6)].
  destruct (run_task_task sc todo tid name cur st) as (T1 & T2 & T3).
  fold r in H1, H6, T1, T2, T3.
  unfold with_tasks. split; [|split]; cbn [log tasks next_id].
  - intros t n x sn Hin. rewrite H1 in Hin. apply in_app_iff in Hin. destruct Hin as [Hin|Hin].
    + specialize (H2 _ Hin). destruct H2.
    + rewrite H6. now apply (A t n x sn).
  - intros t Hin. unfold put_task in Hin. destruct Hin as [<-|Hin].
    + rewrite T1, H6. split; [exact Hlt|]. exists snap. rewrite H1, snapshot_of_app by exact H2.
      split; [exact Hs|]. intros y Hy. apply Hi. now apply T2.
    + apply filter_In in Hin. destruct Hin as [Hin _]. rewrite T3 in Hin.
      destruct (B t Hin) as [Hb [sn [Hb1 Hb2]]]. rewrite H6. split; [exact Hb|].
      exists sn. rewrite H1, snapshot_of_app by exact H2. auto.
  - intros t s x Hin. rewrite H1 in Hin. apply in_app_iff in Hin. destruct Hin as [Hin|Hin].
    + destruct (H3 t s x Hin) as [-> Hs']. exists snap. rewrite H1, snapshot_of_app by exact H2. auto.
    + destruct (C t s x Hin) as [sn [Hc1 Hc2]]. exists sn. rewrite H1, snapshot_of_app by exact H2. auto.
Qed.

Lemma find_task_spec tid l t : find_task tid l = Some t -> In t l /\ t_id t = tid.
Proof.
  unfold find_task. intros H. apply find_some in H. destruct H as [H1 H2]. apply Nat.eqb_eq in H2. auto.
Qed.

Lemma snap_inv_step sc st op : snap_inv st -> snap_inv (estep sc st op).
Proof.
  intros Inv. destruct op as [n c|n c|n s|n x|tid|n timeout|dt]; cbn [estep].
  - apply (snap_inv_top st _ [LSub n (Plain c)] Inv); try reflexivity; cbn [next_id]; try lia.
    + intros e [<-|[]]. exact I.
    + intros t s x [H|[]]. discriminate.
  - apply (snap_inv_top st _ [LSub n (Once c (next_id st))] Inv); try reflexivity; cbn [next_id]; try lia.
    + intros e [<-|[]]. exact I.
    + intros t s x [H|[]]. discriminate.
  - apply (snap_inv_top st _ [LUnsub n s (mem_sub s (get_subs n (subs st)))] Inv); try reflexivity; cbn [next_id]; try lia.
    + intros e [<-|[]]. exact I.
    + intros t s' x [H|[]]. discriminate.
  - set (snap := get_subs n (subs st)).
    set (st1 := mkEst (subs st) (data st) (tasks st) (waiters st) (now st) (S (next_id st)) (LSpawn (next_id st) n x snap :: log st)).
    assert (Inv1 : snap_inv st1).
    { destruct Inv as (A & B & C). split; [|split]; unfold st1; cbn [log tasks next_id].
      - intros t m y sn [H|H]; [injection H as <- _ _ _; lia|]. specialize (A _ _ _ _ H). lia.
      - intros t Hin. destruct (B t Hin) as [H1 [sn [H2 H3]]]. split; [lia|]. exists sn. cbn [snapshot_of].
        replace (Nat.eqb (next_id st) (t_id t)) with false by (symmetry; apply Nat.eqb_neq; lia). auto.
      - intros t s y [H|H]; [discriminate|]. destruct (C t s y H) as [sn [H1 H2]]. exists sn. cbn [snapshot_of].
        destruct (Nat.eqb (next_id st) t) eqn:E; [|auto].
        apply Nat.eqb_eq in E. subst t.
        (* a call by a task id that is not yet allocated: impossible, its snapshot entry would be older *)
        exfalso. clear -A H1. assert (G : forall l, (forall t n x sn, In (LSpawn t n x sn) l -> t < next_id st) ->
           snapshot_of (next_id st) l = Some sn -> False).
        { induction l as [|e l IHl]; intros Ha Hs; [discriminate|]. cbn [snapshot_of] in Hs.
          destruct e; try (apply IHl; [intros; eapply Ha; right; eauto|exact Hs]).
          destruct (Nat.eqb tid (next_id st)) eqn:E.
          - apply Nat.eqb_eq in E. subst. specialize (Ha _ _ _ _ (or_introl eq_refl)). lia.
          - apply IHl; [intros; eapply Ha; right; eauto|exact Hs]. }
        exact (G _ A H1). }
    pose proof (snap_inv_run sc snap (next_id st) n x st1 snap Inv1) as H.
    assert (snapshot_of (next_id st) (log st1) = Some snap) as Hs by (unfold st1; cbn [log snapshot_of]; now rewrite Nat.eqb_refl).
    specialize (H Hs (incl_refl _) ltac:(unfold st1; cbn [next_id]; lia)). cbn zeta in H.
    destruct (run_task sc snap (next_id st) n x st1) as [st2 t]. exact H.
  - destruct (find_task tid (tasks st)) as [t|] eqn:Ef; [|exact Inv].
    destruct (find_task_spec _ _ _ Ef) as [Hin Hid].
    destruct (t_wait t) as [[k s]|]; [|exact Inv].
    pose proof Inv as (A & B & C). destruct (B t Hin) as [Hlt [snap [Hs Hi]]]. rewrite Hid in Hlt, Hs.
    assert (forall r, snap_inv (let '(st2, t') := run_task sc (t_todo t) tid (t_name t) (apply_result r (t_cur t)) st in
                               with_tasks st2 (put_task t' (tasks st2)))) as K.
    { intros r. pose proof (snap_inv_run sc (t_todo t) tid (t_name t) (apply_result r (t_cur t)) st snap Inv Hs Hi Hlt) as H.
      cbn zeta in H. destruct (run_task sc _ _ _ _ st) as [st2 t']. exact H. }
    destruct k as [|[|k]].
    + destruct (sc (sub_cb s)) as [k' r]. apply K.
    + destruct (sc (sub_cb s)) as [k' r]. apply K.
    + (* one suspension fewer: same todo *)
      split; [|split]; unfold with_tasks; cbn [log tasks next_id]; [exact A| |exact C].
      intros t0 Hin0. unfold put_task in Hin0. destruct Hin0 as [<-|Hin0].
      * cbn [t_id t_todo]. split; [exact Hlt|]. exists snap. auto.
      * apply filter_In in Hin0. destruct Hin0 as [Hin0 _]. now apply B.
  - destruct (get_data n (data st)) as [x|].
    + apply (snap_inv_top st _ [LGot (next_id st) n x] Inv); try reflexivity; cbn [next_id]; try lia.
      * intros e [<-|[]]. exact I.
      * intros t s y [H|[]]. discriminate.
    + apply (snap_inv_top st _ [LWait (next_id st) n] Inv); try reflexivity; cbn [next_id]; try lia.
      * intros e [<-|[]]. exact I.
      * intros t s y [H|[]]. discriminate.
  - set (top := rev (map (fun w => LTimeout (w_id w) (w_name w)) _)).
    apply (snap_inv_top st _ top Inv); try reflexivity; cbn [next_id]; try lia.
    + intros e Hin. unfold top in Hin. apply in_rev, in_map_iff in Hin. destruct Hin as [w [<- _]]. exact I.
    + intros t s y Hin. unfold top in Hin. apply in_rev, in_map_iff in Hin. destruct Hin as [w [H _]]. discriminate.
Qed.

Theorem C13_snapshot : C13_snapshot_statement.
Proof.
  intros sc ops tid s x Hin.
  assert (Inv : snap_inv (erun sc ops)).
  { apply erun_ind; [|intros st op; apply snap_inv_step]. split; [|split]; intros; cbn in *; contradiction. }
  destruct Inv as (_ & _ & C). now apply (C tid s x).
Qed.

Theorem C13_spawn_snapshot : C13_spawn_snapshot_statement.
Proof.
  intros sc ops n x. cbn zeta. set (st := erun sc ops). cbn [estep].
  set (snap := get_subs n (subs st)).
  set (st1 := mkEst (subs st) (data st) (tasks st) (waiters st) (now st) (S (next_id st)) (LSpawn (next_id st) n x snap :: log st)).
  destruct (run_task_log sc snap (next_id st) n x st1) as [top (H1 & H2 & _)].
  destruct (run_task sc snap (next_id st) n x st1) as [st2 t]. cbn [fst] in H1.
  unfold with_tasks. cbn [log]. rewrite H1, snapshot_of_app by exact H2.
  unfold st1. cbn [log snapshot_of]. now rewrite Nat.eqb_refl.
Qed.

(* ---------- unsubscribe ---------- *)
Lemma get_set_subs n v l : get_subs n (set_subs n v l) = v.
Proof.
  induction l as [|[k u] t IH]; cbn [set_subs get_subs]; [now rewrite Nat.eqb_refl|].
  destruct (Nat.eqb k n) eqn:E; cbn [get_subs]; rewrite E; [reflexivity|exact IH].
Qed.

Lemma remove_first_count s l : length (filter (sub_eqb s) l) <= 1 -> mem_sub s (remove_first s l) = false.
Proof.
  induction l as [|a t IH]; intros H; [reflexivity|]. cbn [remove_first filter] in *.
  destruct (sub_eqb a s) eqn:E.
  - apply sub_eqb_eq in E. subst a. rewrite sub_eqb_refl in H. cbn [length] in H.
    unfold mem_sub. destruct (existsb (sub_eqb s) t) eqn:Ex; [|reflexivity].
    apply existsb_exists in Ex. destruct Ex as [y [Hy Ey]].
    assert (In y (filter (sub_eqb s) t)) as Hf by (apply filter_In; auto).
    destruct (filter (sub_eqb s) t); [destruct Hf|cbn [length] in H; lia].
  - assert (sub_eqb s a = false) as E'.
    { destruct (sub_eqb s a) eqn:E2; [|reflexivity]. apply sub_eqb_eq in E2. subst. now rewrite sub_eqb_refl in E. }
    rewrite E' in H. unfold mem_sub in *. cbn [existsb]. rewrite E'. now apply IH.
Qed.

Theorem C13_unsubscribe : C13_unsubscribe_statement.
Proof.
  intros sc ops n s H. rewrite erun_app. cbn [fold_left estep subs].
  destruct (mem_sub s (get_subs n (subs (erun sc ops)))) eqn:E.
  - rewrite get_set_subs. now apply remove_first_count.
  - exact E.
Qed.

(* ---------- once means once ---------- *)
Definition all_subs (l : list (nat * list sub)) : list sub := concat (map snd l).
Definition cnt (f : sub -> bool) (l : list sub) : nat := length (filter f l).
Definition calls (c w : nat) (l : list lev) : nat := length (filter (called_once c w) l).

Lemma cnt_app f a b : cnt f (a ++ b) = cnt f a + cnt f b.
Proof. unfold cnt. now rewrite filter_app, app_length. Qed.

Lemma cnt_set_subs f n v l : cnt f (all_subs (set_subs n v l)) + cnt f (get_subs n l) = cnt f (all_subs l) + cnt f v.
Proof.
  unfold all_subs. induction l as [|[k u] t IH]; cbn [set_subs get_subs map concat snd].
  - rewrite app_nil_r. unfold cnt at 2 3. cbn. lia.
  - destruct (Nat.eqb k n); cbn [map concat snd]; rewrite !cnt_app; lia.
Qed.

Lemma sub_eqb_sym a b : sub_eqb a b = sub_eqb b a.
Proof.
  destruct (sub_eqb a b) eqn:E.
  - apply sub_eqb_eq in E. subst. now rewrite sub_eqb_refl.
  - destruct (sub_eqb b a) eqn:E2; [|reflexivity]. apply sub_eqb_eq in E2. subst. now rewrite sub_eqb_refl in E.
Qed.

Lemma cnt_remove_first_same s l : mem_sub s l = true -> cnt (sub_eqb s) (remove_first s l) + 1 = cnt (sub_eqb s) l.
Proof.
  unfold cnt, mem_sub. induction l as [|a t IH]; intros H; [discriminate|]. cbn [existsb remove_first filter] in *.
  rewrite (sub_eqb_sym a s). destruct (sub_eqb s a) eqn:E; cbn [length]; [lia|].
  cbn [orb] in H. cbn [filter]. rewrite E. now apply IH.
Qed.

Lemma cnt_remove_first_other f s l : f s = false -> cnt f (remove_first s l) = cnt f l.
Proof.
  unfold cnt. intros Hf. induction l as [|a t IH]; [reflexivity|]. cbn [remove_first filter].
  destruct (sub_eqb a s) eqn:E.
  - apply sub_eqb_eq in E. subst a. now rewrite Hf.
  - cbn [filter]. destruct (f a); cbn [length]; now rewrite IH.
Qed.

Lemma cnt_remove_first_le f s l : cnt f (remove_first s l) <= cnt f l.
Proof.
  unfold cnt. induction l as [|a t IH]; [reflexivity|]. cbn [remove_first filter].
  destruct (sub_eqb a s); [destruct (f a); cbn [length]; lia|]. cbn [filter]. destruct (f a); cbn [length]; lia.
Qed.

Definition once_ok (subsl : list (nat * list sub)) (lg : list lev) (nid : nat) : Prop :=
  forall c w, cnt (sub_eqb (Once c w)) (all_subs subsl) + calls c w lg <= 1 /\
              (1 <= cnt (sub_eqb (Once c w)) (all_subs subsl) + calls c w lg -> w < nid).

Lemma calls_cons_other c w e l : called_once c w e = false -> calls c w (e :: l) = calls c w l.
Proof. unfold calls. cbn [filter]. now intros ->. Qed.

Lemma run_task_once sc todo : forall tid name cur st,
  once_ok (subs st) (log st) (next_id st) ->
  once_ok (subs (fst (run_task sc todo tid name cur st))) (log (fst (run_task sc todo tid name cur st)))
          (next_id (fst (run_task sc todo tid name cur st))).
Proof.
  induction todo as [|s rest IH]; intros tid name cur st H.
  - cbn [run_task fst subs log next_id]. intros c w. specialize (H c w).
    assert (calls c w (rev (map (fun w0 => LGot (w_id w0) name cur) (filter (fun w0 => Nat.eqb (w_name w0) name) (waiters st))) ++
                       LStored tid name cur :: log st) = calls c w (log st)) as ->; [|exact H].
    unfold calls. rewrite filter_app, app_length. cbn [filter called_once].
    assert (filter (called_once c w) (rev (map (fun w0 => LGot (w_id w0) name cur) (filter (fun w0 => Nat.eqb (w_name w0) name) (waiters st)))) = []) as ->; [|reflexivity].
    induction (filter (fun w0 => Nat.eqb (w_name w0) name) (waiters st)) as [|a l IHl]; [reflexivity|].
    cbn [map rev]. rewrite filter_app, IHl. reflexivity.
  - cbn [run_task]. destruct s as [c0|c0 w0].
    + (* plain callback: no effect on the counts of wrappers *)
      set (st2 := mkEst (subs st) (data st) (tasks st) (waiters st) (now st) (next_id st) (LCalled tid (Plain c0) cur :: log st)).
      assert (H2 : once_ok (subs st2) (log st2) (next_id st2)).
      { intros c w. unfold st2. cbn [subs log next_id]. rewrite calls_cons_other by reflexivity. apply H. }
      destruct (sc (sub_cb (Plain c0))) as [k r]. destruct k as [|k]; [now apply IH|exact H2].
    + destruct (mem_sub (Once c0 w0) (get_subs name (subs st))) eqn:Em; [|now apply IH].
      set (subs1 := set_subs name (remove_first (Once c0 w0) (get_subs name (subs st))) (subs st)).
      set (st2 := mkEst subs1 (data st) (tasks st) (waiters st) (now st) (next_id st) (LCalled tid (Once c0 w0) cur :: log st)).
      assert (H2 : once_ok (subs st2) (log st2) (next_id st2)).
      { intros c w. unfold st2. cbn [subs log next_id]. specialize (H c w).
        pose proof (cnt_set_subs (sub_eqb (Once c w)) name (remove_first (Once c0 w0) (get_subs name (subs st))) (subs st)) as E.
        fold subs1 in E.
        destruct (sub_eqb (Once c w) (Once c0 w0)) eqn:Es.
        - apply sub_eqb_eq in Es. injection Es as -> ->.
          pose proof (cnt_remove_first_same (Once c0 w0) _ Em) as R.
          assert (calls c0 w0 (LCalled tid (Once c0 w0) cur :: log st) = S (calls c0 w0 (log st))) as ->.
          { unfold calls. cbn [filter called_once]. now rewrite !Nat.eqb_refl. }
          lia.
        - pose proof (cnt_remove_first_other (sub_eqb (Once c w)) (Once c0 w0) (get_subs name (subs st)) Es) as R.
          rewrite calls_cons_other.
          2:{ cbn [called_once]. cbn [sub_eqb] in Es. exact Es. }
          lia. }
      destruct (sc (sub_cb (Once c0 w0))) as [k r]. destruct k as [|k]; [now apply IH|exact H2].
Qed.

Lemma once_ok_top subsl lg nid top nid' : once_ok subsl lg nid ->
  (forall c w e, In e top -> called_once c w e = false) -> nid <= nid' -> once_ok subsl (top ++ lg) nid'.
Proof.
  intros H Ht Hn c w. specialize (H c w).
  assert (calls c w (top ++ lg) = calls c w lg) as ->.
  { unfold calls. rewrite filter_app, app_length.
    assert (filter (called_once c w) top = []) as ->; [|reflexivity].
    clear -Ht. induction top as [|e t IH]; [reflexivity|]. cbn [filter]. rewrite (Ht c w e (or_introl eq_refl)).
    apply IH. intros c' w' e' He'. apply Ht. now right. }
  lia.
Qed.

Lemma once_inv_step sc st op : once_ok (subs st) (log st) (next_id st) ->
  once_ok (subs (estep sc st op)) (log (estep sc st op)) (next_id (estep sc st op)).
Proof.
  intros H. destruct op as [n c|n c|n s|n x|tid|n timeout|dt]; cbn [estep].
  - cbn [subs log next_id]. intros c0 w0. specialize (H c0 w0).
    pose proof (cnt_set_subs (sub_eqb (Once c0 w0)) n (get_subs n (subs st) ++ [Plain c]) (subs st)) as E.
    rewrite cnt_app in E. replace (cnt (sub_eqb (Once c0 w0)) [Plain c]) with 0 in E by reflexivity.
    rewrite calls_cons_other by reflexivity. lia.
  - cbn [subs log next_id]. intros c0 w0. pose proof (H c0 w0) as Hc.
    pose proof (cnt_set_subs (sub_eqb (Once c0 w0)) n (get_subs n (subs st) ++ [Once c (next_id st)]) (subs st)) as E.
    rewrite cnt_app in E.
    replace (cnt (sub_eqb (Once c0 w0)) [Once c (next_id st)]) with (if sub_eqb (Once c0 w0) (Once c (next_id st)) then 1 else 0) in E
      by (unfold cnt; cbn [filter]; destruct (sub_eqb (Once c0 w0) (Once c (next_id st))); reflexivity).
    rewrite calls_cons_other by reflexivity.
    destruct (sub_eqb (Once c0 w0) (Once c (next_id st))) eqn:Es.
    + apply sub_eqb_eq in Es. injection Es as -> ->. destruct Hc as [Hc1 Hc2].
      assert (cnt (sub_eqb (Once c (next_id st))) (all_subs (subs st)) + calls c (next_id st) (log st) = 0) by lia. lia.
    + lia.
  - cbn [subs log next_id]. intros c0 w0. specialize (H c0 w0). rewrite calls_cons_other by reflexivity.
    destruct (mem_sub s (get_subs n (subs st))); [|exact H].
    pose proof (cnt_set_subs (sub_eqb (Once c0 w0)) n (remove_first s (get_subs n (subs st))) (subs st)) as E.
    pose proof (cnt_remove_first_le (sub_eqb (Once c0 w0)) s (get_subs n (subs st))) as R. lia.
  - set (st1 := mkEst _ _ _ _ _ _ _).
    assert (H1 : once_ok (subs st1) (log st1) (next_id st1)).
    { unfold st1. cbn [subs log next_id]. apply (once_ok_top (subs st) (log st) (next_id st) [LSpawn (next_id st) n x (get_subs n (subs st))]); [exact H| |lia].
      intros c w e [<-|[]]. reflexivity. }
    pose proof (run_task_once sc (get_subs n (subs st)) (next_id st) n x st1 H1) as R.
    destruct (run_task sc _ _ _ _ st1) as [st2 t]. exact R.
  - destruct (find_task tid (tasks st)) as [t|]; [|exact H].
    destruct (t_wait t) as [[k s]|]; [|exact H].
    destruct k as [|[|k]]; [| |exact H].
    + destruct (sc (sub_cb s)) as [k' r].
      pose proof (run_task_once sc (t_todo t) tid (t_name t) (apply_result r (t_cur t)) st H) as R.
      destruct (run_task sc _ _ _ _ st) as [st2 t']. exact R.
    + destruct (sc (sub_cb s)) as [k' r].
      pose proof (run_task_once sc (t_todo t) tid (t_name t) (apply_result r (t_cur t)) st H) as R.
      destruct (run_task sc _ _ _ _ st) as [st2 t']. exact R.
  - destruct (get_data n (data st)) as [x|]; cbn [subs log next_id].
    + apply (once_ok_top (subs st) (log st) (next_id st) [LGot (next_id st) n x]); [exact H| |lia].
      intros c w e [<-|[]]. reflexivity.
    + apply (once_ok_top (subs st) (log st) (next_id st) [LWait (next_id st) n]); [exact H| |lia].
      intros c w e [<-|[]]. reflexivity.
  - cbn [subs log next_id]. apply (once_ok_top (subs st) (log st) (next_id st)); [exact H| |lia].
    intros c w e Hin. apply in_rev, in_map_iff in Hin. destruct Hin as [w' [<- _]]. reflexivity.
Qed.

Theorem C13_once : C13_once_statement.
Proof.
  intros sc ops c w.
  assert (Inv : once_ok (subs (erun sc ops)) (log (erun sc ops)) (next_id (erun sc ops))).
  { apply (erun_ind sc (fun st => once_ok (subs st) (log st) (next_id st))); [|intros st op; apply once_inv_step].
    intros c' w'. cbn. lia. }
  specialize (Inv c w). unfold calls in Inv. lia.
Qed.

From Coq Require Import NArith ZArith List Bool Lia Arith ZifyBool ZifyNat ZifyN.
From PV Require Import Lib.Bytes Generated.Tables Model.Schedule Model.ParamBlocks Spec.C02 Spec.C05p.
Import ListNotations.
Ltac Zify.zify_post_hook ::= Z.to_euclidean_division_equations.
Open Scope N_scope.

Lemma slice_app_exact (pre x more : list N) n : n = length x -> slice (length pre) n (pre ++ x ++ more) = x.
Proof. intros ->. unfold slice. rewrite skipn_app_exact by reflexivity. now apply firstn_app_exact. Qed.

Lemma slice_app_shift (pre x more : list N) off n : slice (length pre + off) n (pre ++ x ++ more) = slice off n (x ++ more).
Proof.
  unfold slice. f_equal. rewrite skipn_app. rewrite skipn_all2 by lia. cbn [app].
  f_equal. lia.
Qed.

Lemma existsb_repeat_255 n : existsb (fun x => negb (x =? byte_undefined)) (repeat 255 n) = false.
Proof. induction n as [|n IH]; [reflexivity|]. cbn [repeat existsb]. now rewrite IH. Qed.

Lemma slice_pre (pre l : list N) k n : slice (length pre + k) n (pre ++ l) = slice k n l.
Proof. unfold slice. f_equal. rewrite skipn_app. rewrite skipn_all2 by lia. cbn [app]. f_equal. lia. Qed.

Lemma slice_pre0 (pre l : list N) n : slice (length pre) n (pre ++ l) = slice 0 n l.
Proof. rewrite <- (slice_pre pre l 0 n). f_equal. lia. Qed.

(* one-byte slots *)
Lemma unpack1_enc pre s more : slot_ok 1 s = true ->
  unpack_parameter (pre ++ enc_slot 1 s ++ more) (length pre) 1 = s.
Proof.
  intros H. unfold unpack_parameter.
  replace (1 + length pre)%nat with (length pre + 1)%nat by lia.
  replace (2 * 1 + length pre)%nat with (length pre + 2)%nat by lia.
  cbn [Nat.mul Nat.add].
  rewrite !slice_pre, !slice_pre0.
  destruct s as [[[v mn] mx]|]; cbn [enc_slot slot_ok] in *.
  - change (256 ^ N.of_nat 1) with 256 in H. unfold top in H. change (256 ^ N.of_nat 1 - 1) with 255 in H.
    cbn [le_encode app]. unfold slice. cbn [skipn firstn existsb le_decode]. unfold byte_undefined.
    assert (v mod 256 = v /\ mn mod 256 = mn /\ mx mod 256 = mx) as (-> & -> & ->) by lia.
    replace (negb (v =? 255) || (negb (mn =? 255) || (negb (mx =? 255) || false))) with true by lia.
    do 2 f_equal; [f_equal|]; lia.
  - unfold slice. cbn [repeat Nat.mul Nat.add app skipn firstn existsb]. reflexivity.
Qed.

Lemma enc_slot1_length s : length (enc_slot 1 s) = 3%nat.
Proof. destruct s as [[[v mn] mx]|]; reflexivity. Qed.

Lemma unpack_slots_enc slots : forall pre index more, forallb (slot_ok 1) slots = true ->
  unpack_slots (pre ++ concat (map (enc_slot 1) slots) ++ more) (length pre) index (length slots) =
  (view_slots index slots, (length pre + 3 * length slots)%nat).
Proof.
  induction slots as [|s slots IH]; intros pre index more H.
  - cbn. f_equal. lia.
  - cbn [forallb] in H. apply andb_true_iff in H. destruct H as [Hs H].
    cbn [length unpack_slots map concat].
    rewrite <- app_assoc.
    rewrite (unpack1_enc pre s (concat (map (enc_slot 1) slots) ++ more) Hs).
    specialize (IH (pre ++ enc_slot 1 s) (index + 1) more H).
    rewrite app_length, enc_slot1_length in IH. rewrite <- app_assoc in IH.
    replace (3 + length pre)%nat with (length pre + 3)%nat by lia. rewrite IH.
    destruct s as [p|]; cbn [view_slots]; f_equal; lia.
Qed.

Theorem C05_ecomax_params : C05_ecomax_params_statement.
Proof.
  intros b0 start slots trailing W. unfold wf_slots in W. apply andb_true_iff in W. destruct W as [Hs Hl].
  unfold decode_ecomax_params, enc_ecomax_params. cbn [app nth_error].
  rewrite Nat2N.id.
  change (b0 :: start :: N.of_nat (length slots) :: concat (map (enc_slot 1) slots) ++ trailing)
    with ([b0; start; N.of_nat (length slots)] ++ concat (map (enc_slot 1) slots) ++ trailing).
  pose proof (unpack_slots_enc slots [b0; start; N.of_nat (length slots)] start trailing Hs) as E.
  cbn [length] in E. rewrite E. reflexivity.
Qed.

Lemma block_length count b : Nat.eqb (length b) count = true -> length (concat (map (enc_slot 1) b)) = (3 * count)%nat.
Proof.
  intros H. apply Nat.eqb_eq in H. subst count. induction b as [|s b IH]; [reflexivity|].
  cbn [map concat length]. rewrite app_length, enc_slot1_length, IH. lia.
Qed.

Lemma unpack_mixers_enc count blocks : forall pre start i more,
  forallb (fun b => Nat.eqb (length b) count && forallb (slot_ok 1) b) blocks = true ->
  unpack_mixers (pre ++ concat (map (fun b => concat (map (enc_slot 1) b)) blocks) ++ more) (length pre) start count i (length blocks) =
  view_blocks start i blocks.
Proof.
  induction blocks as [|b blocks IH]; intros pre start i more H; [reflexivity|].
  cbn [forallb] in H. apply andb_true_iff in H. destruct H as [Hb H]. apply andb_true_iff in Hb. destruct Hb as [Hlen Hok].
  cbn [length unpack_mixers map concat view_blocks].
  rewrite <- app_assoc.
  pose proof Hlen as Hlen'. apply Nat.eqb_eq in Hlen'.
  rewrite <- Hlen' at 1.
  rewrite (unpack_slots_enc b pre start (concat (map (fun b0 => concat (map (enc_slot 1) b0)) blocks) ++ more) Hok).
  specialize (IH (pre ++ concat (map (enc_slot 1) b)) start (i + 1) more H).
  rewrite app_length, (block_length count b Hlen) in IH. rewrite <- app_assoc in IH.
  rewrite Hlen'. rewrite IH. destruct (view_slots start b); reflexivity.
Qed.

Theorem C05_mixer_params : C05_mixer_params_statement.
Proof.
  intros b0 start count blocks trailing W. unfold wf_blocks in W.
  rewrite !andb_true_iff in W. destruct W as [[Hb Hc] Hl].
  unfold decode_mixer_params, enc_mixer_params. cbn [app nth_error]. rewrite !Nat2N.id.
  change (b0 :: start :: N.of_nat count :: N.of_nat (length blocks) :: concat (map (fun b => concat (map (enc_slot 1) b)) blocks) ++ trailing)
    with ([b0; start; N.of_nat count; N.of_nat (length blocks)] ++ concat (map (fun b => concat (map (enc_slot 1) b)) blocks) ++ trailing).
  pose proof (unpack_mixers_enc count blocks [b0; start; N.of_nat count; N.of_nat (length blocks)] start 0 trailing Hb) as E.
  cbn [length] in E. now rewrite E.
Qed.

(* ---- thermostat parameters ---- *)
Lemma enc_slot_length size s : (size = 1 \/ size = 2)%nat -> length (enc_slot size s) = (3 * size)%nat.
Proof.
  intros H. destruct s as [[[v mn] mx]|]; cbn [enc_slot].
  - rewrite !app_length, !le_encode_length. lia.
  - apply repeat_length.
Qed.

Lemma unpack2_enc pre s more : slot_ok 2 s = true ->
  unpack_parameter (pre ++ enc_slot 2 s ++ more) (length pre) 2 = s.
Proof.
  intros H. unfold unpack_parameter.
  replace (2 + length pre)%nat with (length pre + 2)%nat by lia.
  replace (2 * 2 + length pre)%nat with (length pre + 4)%nat by lia.
  cbn [Nat.mul Nat.add].
  rewrite !slice_pre, !slice_pre0.
  destruct s as [[[v mn] mx]|]; cbn [enc_slot slot_ok] in *.
  - change (256 ^ N.of_nat 2) with 65536 in H. unfold top in H. change (256 ^ N.of_nat 2 - 1) with 65535 in H.
    cbn [le_encode app]. unfold slice. cbn [skipn firstn existsb le_decode]. unfold byte_undefined.
    replace (negb (v mod 256 =? 255) || (negb (v / 256 mod 256 =? 255) || (negb (mn mod 256 =? 255) ||
             (negb (mn / 256 mod 256 =? 255) || (negb (mx mod 256 =? 255) || (negb (mx / 256 mod 256 =? 255) || false))))))
      with true by lia.
    do 2 f_equal; [f_equal|]; lia.
  - unfold slice. cbn [repeat Nat.mul Nat.add app skipn firstn existsb]. reflexivity.
Qed.

Lemma thermostat_size_12 index k : thermostat_size index = Some k -> (k = 1 \/ k = 2)%nat.
Proof.
  unfold thermostat_size. destruct (nth_error thermostat_params (N.to_nat index)) as [d|] eqn:E; [|discriminate].
  intros H. injection H as <-.
  assert (forallb (fun d => (pd_size d =? 1) || (pd_size d =? 2)) thermostat_params = true) as A by (vm_compute; reflexivity).
  rewrite forallb_forall in A. specialize (A d (nth_error_In _ _ E)). lia.
Qed.

Lemma unpack_tslots_enc slots : forall pre index more, wf_tslots index slots = true ->
  unpack_tslots (pre ++ enc_tslots index slots ++ more) (length pre) index (length slots) =
  Some (view_slots index slots, (length pre + length (enc_tslots index slots))%nat).
Proof.
  induction slots as [|s slots IH]; intros pre index more H.
  - cbn. do 2 f_equal. lia.
  - cbn [wf_tslots] in H. destruct (thermostat_size index) as [k|] eqn:Ek; [|discriminate H].
    apply andb_true_iff in H. destruct H as [Hs H].
    pose proof (thermostat_size_12 index k Ek) as Hk.
    cbn [length unpack_tslots enc_tslots]. rewrite Ek. unfold tsize. rewrite Ek.
    rewrite <- app_assoc.
    specialize (IH (pre ++ enc_slot k s) (index + 1) more H).
    rewrite app_length, (enc_slot_length k s Hk) in IH. rewrite <- app_assoc in IH. rewrite IH.
    assert (unpack_parameter (pre ++ enc_slot k s ++ enc_tslots (index + 1) slots ++ more) (length pre) k = s) as ->.
    { destruct Hk as [-> | ->]; [now apply unpack1_enc|now apply unpack2_enc]. }
    rewrite app_length, (enc_slot_length k s Hk).
    destruct s as [p|]; cbn [view_slots]; do 2 f_equal; lia.
Qed.

Lemma unpack_thermostats_enc per blocks : forall pre t more,
  forallb (fun b => Nat.eqb (length b) per && wf_tslots 0 b) blocks = true ->
  unpack_thermostats (pre ++ concat (map (enc_tslots 0) blocks) ++ more) (length pre) 0 per t (length blocks) =
  Some (view_blocks 0 t blocks).
Proof.
  induction blocks as [|b blocks IH]; intros pre t more H; [reflexivity|].
  cbn [forallb] in H. apply andb_true_iff in H. destruct H as [Hb H]. apply andb_true_iff in Hb. destruct Hb as [Hlen Hok].
  apply Nat.eqb_eq in Hlen.
  cbn [length unpack_thermostats map concat view_blocks]. rewrite <- app_assoc.
  rewrite <- Hlen at 1.
  rewrite (unpack_tslots_enc b pre 0 (concat (map (enc_tslots 0) blocks) ++ more) Hok).
  specialize (IH (pre ++ enc_tslots 0 b) (t + 1) more H).
  rewrite app_length in IH. rewrite <- app_assoc in IH. rewrite IH.
  destruct (view_slots 0 b); reflexivity.
Qed.

Theorem C05_thermostat_params : C05_thermostat_params_statement.
Proof.
  intros b0 per profile blocks trailing W. unfold wf_thermostat in W.
  rewrite !andb_true_iff in W. destruct W as [[[Hp Hn] Ht] Hb].
  unfold decode_thermostat_params, enc_thermostat_params.
  replace (N.of_nat (length blocks) =? 0) with false by lia.
  cbn [app nth_error].
  replace (N.to_nat ((0 + N.of_nat (length blocks * per + 1) - 1) / N.of_nat (length blocks)) - N.to_nat 0)%nat with per.
  2:{ replace (0 + N.of_nat (length blocks * per + 1) - 1) with (N.of_nat per * N.of_nat (length blocks)) by lia.
      rewrite N.div_mul by lia. lia. }
  rewrite Nat2N.id.
  assert (E6 : Nat.add (length [b0; 0; N.of_nat (length blocks * per + 1)]) (length (enc_slot 1 profile)) = 6%nat)
    by (rewrite enc_slot1_length; reflexivity).
  pose proof (unpack_thermostats_enc per blocks ([b0; 0; N.of_nat (length blocks * per + 1)] ++ enc_slot 1 profile) 0 trailing Hb) as E.
  rewrite app_length, E6 in E. rewrite <- !app_assoc in E. cbn [app] in E. cbn [app]. rewrite <- !app_assoc. rewrite E.
  pose proof (unpack1_enc [b0; 0; N.of_nat (length blocks * per + 1)] profile (concat (map (enc_tslots 0) blocks) ++ trailing) Hp) as P.
  cbn [length app] in P. rewrite P. reflexivity.
Qed.

Theorem C05_thermostat_none : C05_thermostat_none_statement.
Proof. intros m. reflexivity. Qed.

(* ---- schedules ---- *)
From PV Require Import Spec.C18 Proofs.C02Facts Proofs.C18Facts.

Lemma spec_bitmap_42 w : week_ok w = true -> length (spec_bitmap w) = 42%nat.
Proof.
  intros H. rewrite spec_bitmap_length. unfold week_ok in H. apply andb_true_iff in H. destruct H as [H _].
  apply Nat.eqb_eq in H. now rewrite H.
Qed.

Lemma decode_spec_bitmap w : week_ok w = true -> decode_bitmap (spec_bitmap w) = w.
Proof.
  intros H. pose proof H as H'. unfold week_ok in H'. apply andb_true_iff in H'. destruct H' as [_ H48].
  rewrite <- (encode_bitmap_spec w H48). now apply C18_decode_encode.
Qed.

Lemma enc_sched_length s : wf_sched s = true -> length (enc_sched s) = 47%nat.
Proof.
  unfold wf_sched. intros H. apply andb_true_iff in H. destruct H as [_ Hw].
  unfold enc_sched. rewrite !app_length, enc_slot1_length, (spec_bitmap_42 _ Hw). reflexivity.
Qed.

Lemma nth_error_pre (pre l : list N) k : nth_error (pre ++ l) (length pre + k) = nth_error l k.
Proof. rewrite nth_error_app2 by lia. f_equal. lia. Qed.

Lemma unpack_schedules_enc ss : forall pre more, forallb wf_sched ss = true ->
  unpack_schedules (pre ++ concat (map enc_sched ss) ++ more) (length pre) (length ss) =
  Some (map (fun s => (sv_index s, sv_week s)) ss, view_sched_params ss).
Proof.
  induction ss as [|s ss IH]; intros pre more H; [reflexivity|].
  cbn [forallb] in H. apply andb_true_iff in H. destruct H as [Hs H].
  pose proof Hs as Hs'. unfold wf_sched in Hs'. apply andb_true_iff in Hs'. destruct Hs' as [Hp Hw].
  cbn [length unpack_schedules map concat view_sched_params]. rewrite <- app_assoc.
  set (tail := concat (map enc_sched ss) ++ more).
  replace (length pre) with (length pre + 0)%nat at 1 by lia. rewrite nth_error_pre.
  rewrite nth_error_pre.
  unfold enc_sched at 1 2. cbn [app nth_error].
  assert (L : length (pre ++ enc_sched s ++ tail) = (length pre + 47 + length tail)%nat)
    by (rewrite !app_length, (enc_sched_length s Hs); lia).
  rewrite L. replace (Nat.ltb (length pre + 47 + length tail) (length pre + 5 + 42)) with false by (symmetry; apply Nat.ltb_ge; lia).
  specialize (IH (pre ++ enc_sched s) more H). rewrite app_length, (enc_sched_length s Hs) in IH.
  rewrite <- app_assoc in IH. fold tail in IH. rewrite IH.
  (* the parameter slot and the bitmap of this schedule *)
  assert (Ep : unpack_parameter (pre ++ enc_sched s ++ tail) (length pre + 2) 1 = sv_param s).
  { unfold enc_sched. 
    replace (pre ++ ([sv_index s; sv_switch s] ++ enc_slot 1 (sv_param s) ++ spec_bitmap (sv_week s)) ++ tail)
      with ((pre ++ [sv_index s; sv_switch s]) ++ enc_slot 1 (sv_param s) ++ (spec_bitmap (sv_week s) ++ tail))
      by (rewrite <- !app_assoc; reflexivity).
    replace (length pre + 2)%nat with (length (pre ++ [sv_index s; sv_switch s])) by (rewrite app_length; reflexivity).
    now apply unpack1_enc. }
  assert (Eb : slice (length pre + 5) 42 (pre ++ enc_sched s ++ tail) = spec_bitmap (sv_week s)).
  { rewrite slice_pre. unfold enc_sched, slice.
    replace (([sv_index s; sv_switch s] ++ enc_slot 1 (sv_param s) ++ spec_bitmap (sv_week s)) ++ tail)
      with (([sv_index s; sv_switch s] ++ enc_slot 1 (sv_param s)) ++ spec_bitmap (sv_week s) ++ tail)
      by (rewrite <- !app_assoc; reflexivity).
    rewrite skipn_app_exact by (rewrite app_length, enc_slot1_length; reflexivity).
    apply firstn_app_exact. symmetry. now apply spec_bitmap_42. }
  rewrite Ep, Eb, (decode_spec_bitmap _ Hw).
  destruct (sv_param s); reflexivity.
Qed.

Theorem C05_schedules : C05_schedules_statement.
Proof.
  intros b0 start ss trailing W Hl. unfold decode_schedules, enc_schedules. cbn [app nth_error]. rewrite Nat2N.id.
  pose proof (unpack_schedules_enc ss [b0; start; N.of_nat (length ss)] trailing W) as E. cbn [length app] in E. exact E.
Qed.

From Coq Require Import NArith ZArith List Bool Lia Arith ZifyBool ZifyNat ZifyN.
From PV Require Import Lib.Bytes Model.DataTypes Model.Structs Spec.C03s.
Import ListNotations.
Ltac Zify.zify_post_hook ::= Z.to_euclidean_division_equations.
Open Scope N_scope.

Lemma addr4_shape a : addr4 a = true -> exists a0 a1 a2 a3, a = [a0; a1; a2; a3] /\ a0 < 256 /\ a1 < 256 /\ a2 < 256 /\ a3 < 256.
Proof.
  unfold addr4. rewrite andb_true_iff. intros [Hl Hb]. apply Nat.eqb_eq in Hl. apply bytesb_Bytes in Hb.
  destruct a as [|a0 [|a1 [|a2 [|a3 [|? ?]]]]]; try discriminate Hl.
  rewrite !Bytes_cons in Hb. exists a0, a1, a2, a3. intuition.
Qed.

Lemma negb_bbyte b : negb (bbyte b =? 0) = b.
Proof. destruct b; reflexivity. Qed.

Theorem C03_netinfo : C03_netinfo_statement.
Proof.
  intros n W. destruct n as [eip emask egw est wip wmask wgw srv enc q wst ssid].
  unfold wf_netinfo in W. cbn [e_ip e_mask e_gw w_ip w_mask w_gw w_enc w_quality w_ssid] in W.
  rewrite !andb_true_iff in W. destruct W as [[[[[[[[[H1 H2] H3] H4] H5] H6] He] Hq] Hl] Hs].
  destruct (addr4_shape _ H1) as (a0 & a1 & a2 & a3 & -> & ? & ? & ? & ?).
  destruct (addr4_shape _ H2) as (b0 & b1 & b2 & b3 & -> & ? & ? & ? & ?).
  destruct (addr4_shape _ H3) as (c0 & c1 & c2 & c3 & -> & ? & ? & ? & ?).
  destruct (addr4_shape _ H4) as (d0 & d1 & d2 & d3 & -> & ? & ? & ? & ?).
  destruct (addr4_shape _ H5) as (e0 & e1 & e2 & e3 & -> & ? & ? & ? & ?).
  destruct (addr4_shape _ H6) as (f0 & f1 & f2 & f3 & -> & ? & ? & ? & ?).
  unfold encode_netinfo, pack_var. cbn [e_ip e_mask e_gw e_status w_ip w_mask w_gw n_server w_enc w_quality w_status w_ssid].
  rewrite Hl, Hs. cbn [andb length Nat.eqb app].
  assert (Hb : bytesb [a0; a1; a2; a3; b0; b1; b2; b3; c0; c1; c2; c3; d0; d1; d2; d3; e0; e1; e2; e3; f0; f1; f2; f3] = true).
  { apply bytesb_Bytes. rewrite !Bytes_cons. repeat split; try assumption. constructor. }
  rewrite Hb. unfold byteb. replace (enc <? 256) with true by lia. rewrite Hq. cbn [andb].
  eexists. split; [reflexivity|]. split; [|split; [|split; [|split]]].
  - unfold decode_netinfo, slice, byte_at, take. cbn [Nat.add skipn length Nat.ltb Nat.leb firstn nth_error unpack_var].
    rewrite Nat2N.id. rewrite firstn_all. rewrite He. rewrite !negb_bbyte. reflexivity.
  - cbn [length]. lia.
  - reflexivity.
  - reflexivity.
  - reflexivity.
Qed.

Lemma len2 (l : list N) : length l = 2%nat -> exists a b, l = [a; b].
Proof. destruct l as [|a [|b [|? ?]]]; try discriminate. eauto. Qed.
Lemma len3 (l : list N) : length l = 3%nat -> exists a b c, l = [a; b; c].
Proof. destruct l as [|a [|b [|c [|? ?]]]]; try discriminate. eauto. Qed.

Theorem C03_version : C03_version_statement.
Proof.
  intros v sender W Hs. destruct v as [tag st dev sig s1 s2 s3].
  unfold wf_version in W. cbn [v_tag v_struct v_dev v_sig v_s1 v_s2 v_s3] in W.
  rewrite !andb_true_iff in W. destruct W as [[[[[[[[[L1 L2] L3] B1] B2] B3] Hst] H1] H2] H3].
  apply Nat.eqb_eq in L1, L2, L3.
  destruct (len2 _ L1) as (t0 & t1 & ->). destruct (len2 _ L2) as (d0 & d1 & ->). destruct (len3 _ L3) as (g0 & g1 & g2 & ->).
  unfold encode_version. cbn [v_tag v_struct v_dev v_sig v_s1 v_s2 v_s3 length Nat.eqb andb app].
  assert (bytesb [t0; t1; d0; d1; g0; g1; g2] = true) as ->.
  { apply bytesb_Bytes. apply bytesb_Bytes in B1, B2, B3. rewrite !Bytes_cons in *. intuition. }
  rewrite Hst, H1, H2, H3. unfold byteb. replace (sender <? 256) with true by lia. cbn [andb le_encode app].
  eexists. split; [reflexivity|]. split; [|split; reflexivity].
  unfold decode_version, take. cbn [length Nat.ltb Nat.leb firstn skipn nth le_decode].
  f_equal. f_equal; lia.
Qed.

(* The reader consumes exactly one well-formed frame and classifies it; sequences; re-serialisation. *)
From Coq Require Import NArith ZArith List Bool Lia Arith ZifyBool ZifyNat ZifyN.
From PV Require Import Lib.Bytes Generated.Tables Model.Frame Model.Reader Spec.C01 Spec.Envelope Spec.C03 Spec.C04 Spec.C14 Proofs.ReaderFacts.
Import ListNotations.
Ltac Zify.zify_post_hook ::= Z.to_euclidean_division_equations.
Open Scope N_scope.

Lemma enc_length f : length (enc f) = (10 + length (f_payload f))%nat.
Proof. unfold enc, enc_pre. rewrite !app_length. cbn [length]. lia. Qed.

Lemma wf_frame_spec f : wf_frame f = true ->
  f_kind f < 256 /\ f_rcpt f < 256 /\ f_sender f < 256 /\ f_etype f < 256 /\ f_ever f < 256 /\
  Bytes (f_payload f) /\ (length (f_payload f) <= 990)%nat.
Proof.
  unfold wf_frame, byteb. rewrite !andb_true_iff. intros [[[[[[? ?] ?] ?] ?] Hp] ?].
  apply bytesb_Bytes in Hp. repeat split; try lia. exact Hp.
Qed.

(* model of Frame.bytes = the spec layout, for every well-formed frame *)
Lemma frame_bytes_enc f : wf_frame f = true -> frame_bytes f = Some (enc f).
Proof.
  intros W. pose proof (wf_frame_spec f W) as (Hk & Hr & Hs & Ht & Hv & Hp & Hl).
  unfold frame_bytes, pack_header, frame_length, header_size, byteb.
  replace (7 + 1 + N.of_nat (length (f_payload f)) + 1 + 1) with (10 + N.of_nat (length (f_payload f))) by lia.
  replace (10 + N.of_nat (length (f_payload f)) <? 65536) with true by lia.
  replace (f_rcpt f <? 256) with true by lia. replace (f_sender f <? 256) with true by lia.
  replace (f_etype f <? 256) with true by lia. replace (f_ever f <? 256) with true by lia.
  replace (f_kind f <? 256) with true by lia.
  cbn [andb]. apply bytesb_Bytes in Hp. rewrite Hp.
  unfold enc, enc_pre, frame_start, frame_end. cbn [le_encode app].
  set (n := 10 + N.of_nat (length (f_payload f))).
  replace (n / 256 mod 256) with (n / 256) by lia.
  reflexivity.
Qed.

Lemma known_device_lit a : known_device a = memN a [0; 69; 81; 86].
Proof. reflexivity. Qed.
Lemma for_us_lit a : for_us a = memN a [86; 0].
Proof. unfold for_us, memN, addr_econet, addr_all. cbn [existsb]. now rewrite orb_false_r. Qed.

(* flagship: one call on a well-formed frame followed by anything *)
Lemma read_one_enc f rest : wf_frame f = true -> read_one (enc f ++ rest) = (classify f, rest).
Proof.
  intros W. pose proof (wf_frame_spec f W) as (Hk & Hr & Hs & Ht & Hv & Hp & Hl).
  destruct f as [k r s et ev p]. cbn [f_kind f_rcpt f_sender f_etype f_ever f_payload] in *.
  unfold enc, enc_pre. cbn [f_kind f_rcpt f_sender f_etype f_ever f_payload].
  set (n := 10 + N.of_nat (length p)).
  set (c := bcc ([104; n mod 256; n / 256; r; s; et; ev; k] ++ p)).
  unfold read_one. cbn [app scan]. change (104 =? frame_start) with true. cbv iota.
  set (t := n mod 256 :: n / 256 :: r :: s :: et :: ev :: k :: (p ++ [c; 22]) ++ rest).
  replace (N.of_nat (length t) <? header_size - 1) with false
    by (unfold t, header_size; cbn [length]; lia).
  subst t. cbn [firstn skipn].
  set (h := [n mod 256; n / 256; r; s; et; ev]).
  change (nth 2 h 0) with r. change (nth 3 h 0) with s. change (nth 4 h 0) with et. change (nth 5 h 0) with ev.
  assert (Hh : hdr_len h = n).
  { unfold hdr_len, h. cbn [firstn le_decode]. lia. }
  rewrite Hh.
  replace ((max_frame_length <? n) || (n <? min_frame_length)) with false
    by (unfold max_frame_length, min_frame_length, n; lia).
  set (body := k :: p ++ [c; 22]).
  replace (N.to_nat (n - header_size)) with (length body)
    by (unfold body, header_size, n; cbn [length]; rewrite app_length; cbn [length]; lia).
  replace (k :: (p ++ [c; 22]) ++ rest) with (body ++ rest) by reflexivity.
  replace (Nat.ltb (length (body ++ rest)) (length body)) with false
    by (rewrite app_length; symmetry; apply Nat.ltb_ge; lia).
  rewrite (firstn_app_exact body rest) by reflexivity.
  rewrite (skipn_app_exact body rest) by reflexivity.
  unfold classify. cbn [f_kind f_rcpt f_sender f_etype f_ever f_payload].
  rewrite for_us_lit, known_device_lit.
  destruct (memN r [86; 0]); cbn [negb]; [|reflexivity].
  destruct (memN s [0; 69; 81; 86]); cbn [negb]; [|reflexivity].
  set (buf := frame_start :: h ++ body).
  assert (Eb : buf = ([104; n mod 256; n / 256; r; s; et; ev; k] ++ p) ++ [c; 22]).
  { unfold buf, body, h, frame_start. reflexivity. }
  assert (Lb : (length buf - 2)%nat = length ([104; n mod 256; n / 256; r; s; et; ev; k] ++ p)).
  { rewrite Eb, app_length. cbn [length]. lia. }
  rewrite Lb, Eb. rewrite firstn_app_exact by reflexivity.
  rewrite (nth_app_exact _ [22] c 0) by reflexivity.
  fold c. rewrite N.eqb_refl. cbn [negb].
  unfold body. cbn [nth].
  destruct (known_kind k); cbn [negb]; [|reflexivity].
  do 2 f_equal. f_equal. cbn [length skipn].
  rewrite app_length. cbn [length].
  replace (S (length p + 2) - 3)%nat with (length p) by lia.
  now apply firstn_app_exact.
Qed.

(* C04: any sequence of well-formed frames is read frame by frame *)
Lemma consumed_self (s : list N) : consumed s [] = s.
Proof. unfold consumed. cbn [length]. rewrite Nat.sub_0_r. apply firstn_all. Qed.

Lemma read_all_fuel_seq fs : forall fuel, Forall (fun f => wf_frame f = true) fs -> (length fs < fuel)%nat ->
  map snd (read_all_fuel fuel (concat (map enc fs))) = map classify fs ++ [Broken] /\
  map fst (read_all_fuel fuel (concat (map enc fs))) = map enc fs ++ [[]].
Proof.
  induction fs as [|f fs IH]; intros fuel W Hf.
  - destruct fuel as [|k]; [cbn in Hf; lia|]. cbn. split; reflexivity.
  - destruct fuel as [|k]; [cbn in Hf; lia|].
    inversion W as [|? ? Wf Wfs]; subst.
    cbn [map concat read_all_fuel]. rewrite (read_one_enc f _ Wf).
    destruct (IH k Wfs ltac:(cbn [length] in Hf; lia)) as [IH1 IH2].
    rewrite consumed_app.
    assert (classify f <> Broken) as Nb.
    { unfold classify. repeat match goal with |- context [if ?b then _ else _] => destruct b end; discriminate. }
    destruct (classify f) eqn:Ec; try congruence; cbn [map fst snd app]; rewrite IH1, IH2; split; reflexivity.
Qed.

Lemma concat_enc_length fs : (length fs <= length (concat (map enc fs)))%nat.
Proof.
  induction fs as [|f fs IH]; cbn [map concat length]; [lia|].
  rewrite app_length, enc_length. lia.
Qed.

Theorem read_all_sequence fs : Forall (fun f => wf_frame f = true) fs ->
  map snd (read_all (concat (map enc fs))) = map classify fs ++ [Broken] /\
  map fst (read_all (concat (map enc fs))) = map enc fs ++ [[]].
Proof.
  intros W. unfold read_all. apply read_all_fuel_seq; [exact W|].
  pose proof (concat_enc_length fs). lia.
Qed.

(* C03: round trip *)
Lemma classify_deliverable f : deliverable f = true -> classify f = Delivered f.
Proof.
  unfold deliverable, classify. rewrite !andb_true_iff. intros [[-> ->] ->]. reflexivity.
Qed.

Theorem roundtrip f rest : wf_frame f = true -> deliverable f = true ->
  frame_bytes f = Some (enc f) /\ read_one (enc f ++ rest) = (Delivered f, rest).
Proof.
  intros W D. split; [now apply frame_bytes_enc|].
  rewrite read_one_enc by exact W. now rewrite classify_deliverable.
Qed.

(* ---------- C04 in its boolean form ---------- *)
Lemma frame_eqb_refl f : frame_eqb f f = true.
Proof.
  unfold frame_eqb. rewrite !N.eqb_refl. cbn [andb]. now apply list_eqb_N_eq.
Qed.

Lemma frame_eqb_eq f g : frame_eqb f g = true <-> f = g.
Proof.
  split; [|intros ->; apply frame_eqb_refl].
  unfold frame_eqb. rewrite !andb_true_iff, !N.eqb_eq, list_eqb_N_eq.
  destruct f, g; cbn. intros [[[[[-> ->] ->] ->] ->] ->]. reflexivity.
Qed.

Lemma P04_from_maps fs outs :
  map snd outs = map classify fs ++ [Broken] -> map fst outs = map enc fs ++ [[]] ->
  P04_list fs outs = true.
Proof.
  revert outs; induction fs as [|f fs IH]; intros outs H1 H2.
  - destruct outs as [|[c o] [|? ?]]; cbn [map app fst snd] in H1, H2; try discriminate.
    injection H1 as ->. injection H2 as ->. reflexivity.
  - destruct outs as [|[c o] outs]; cbn [map app fst snd] in H1, H2; [discriminate|].
    injection H1 as -> H1. injection H2 as -> H2.
    cbn [P04_list]. rewrite (IH outs H1 H2).
    replace (list_eqb N.eqb (enc f) (enc f)) with true by (symmetry; now apply list_eqb_N_eq).
    rewrite !andb_true_r.
    destruct (classify f); try reflexivity. cbn [observe04 obs04_eqb]. apply frame_eqb_refl.
Qed.

Theorem C04_sequence : C04_statement.
Proof.
  intros fs W. destruct (read_all_sequence fs W) as [H1 H2]. now apply P04_from_maps.
Qed.

(* ---------- C03: re-serialisation ---------- *)
Lemma split_frame_shape (l : list N) : (10 <= length l)%nat ->
  exists b0 b1 b2 b3 b4 b5 b6 b7 p x y, l = [b0; b1; b2; b3; b4; b5; b6; b7] ++ p ++ [x; y].
Proof.
  intros H.
  destruct l as [|b0 [|b1 [|b2 [|b3 [|b4 [|b5 [|b6 [|b7 m]]]]]]]]; cbn [length] in H; try lia.
  assert (m <> []) as Hm by (destruct m; cbn [length] in H; [lia|discriminate]).
  destruct (exists_last Hm) as [m' [y ->]].
  assert (m' <> []) as Hm'.
  { destruct m'; [cbn [length app] in H; lia|discriminate]. }
  destruct (exists_last Hm') as [p [x ->]].
  exists b0, b1, b2, b3, b4, b5, b6, b7, p, x, y. rewrite <- app_assoc. reflexivity.
Qed.

Lemma split_start_suffix c fb : split_start c = Some fb -> exists junk, c = junk ++ fb /\ hd 0 fb = 104.
Proof.
  revert fb; induction c as [|b c IH]; intros fb H; cbn [split_start] in H; [discriminate|].
  destruct (b =? 104) eqn:E.
  - injection H as <-. exists []. split; [reflexivity|cbn; lia].
  - destruct (IH fb H) as [j [-> Hh]]. exists (b :: j). split; [reflexivity|exact Hh].
Qed.

Lemma valid_delivery_reserialise c f : Bytes c -> valid_delivery c f = true ->
  exists fb, split_start c = Some fb /\ (last fb 0 = 22 -> frame_bytes f = Some fb).
Proof.
  intros Hc. unfold valid_delivery. destruct (split_start c) as [fb|] eqn:Hs; [|discriminate].
  intros V. exists fb. split; [reflexivity|]. intros Hlast.
  destruct (split_start_suffix _ _ Hs) as [junk [-> Hhd]].
  apply Bytes_app in Hc. destruct Hc as [_ Hfb].
  rewrite !andb_true_iff in V.
  destruct V as [[[[[[[[[[[L1 L2] Hlen] Hck] _] _] Ek] Er] Es] Et] Ev] Ep].
  apply Nat.leb_le in L1. apply Nat.leb_le in L2.
  destruct (split_frame_shape fb L1) as (b0 & b1 & b2 & b3 & b4 & b5 & b6 & b7 & p & x & y & ->).
  assert (Ln : length ([b0; b1; b2; b3; b4; b5; b6; b7] ++ p ++ [x; y]) = (10 + length p)%nat).
  { rewrite !app_length. cbn [length]. lia. }
  rewrite Ln in *.
  rewrite app_assoc, last_last_two in Hlast. subst y.
  replace (10 + length p - 2)%nat with (length ([b0; b1; b2; b3; b4; b5; b6; b7] ++ p)) in Hck
    by (rewrite app_length; cbn [length]; lia).
  rewrite app_assoc in Hck.
  rewrite firstn_app_exact in Hck by reflexivity.
  rewrite (nth_app_exact _ [22] x 0) in Hck by reflexivity.
  replace (10 + length p - 10)%nat with (length p) in Ep by lia.
  cbn [app skipn nth hd] in *. subst b0.
  rewrite firstn_app_exact in Ep by reflexivity.
  apply list_eqb_N_eq in Ep.
  destruct f as [k r s et ev pl]. cbn [f_kind f_rcpt f_sender f_etype f_ever f_payload] in *. subst pl.
  rewrite !Bytes_cons, Bytes_app, !Bytes_cons in Hfb.
  destruct Hfb as (_ & Hb1 & Hb2 & Hb3 & Hb4 & Hb5 & Hb6 & Hb7 & Hp & Hx & _).
  assert (W : wf_frame (mkFrame k r s et ev p) = true).
  { unfold wf_frame, byteb. cbn [f_kind f_rcpt f_sender f_etype f_ever f_payload].
    apply bytesb_Bytes in Hp. rewrite Hp. rewrite !andb_true_iff. repeat split; lia. }
  rewrite (frame_bytes_enc _ W). f_equal.
  unfold enc, enc_pre. cbn [f_kind f_rcpt f_sender f_etype f_ever f_payload].
  assert (b1 = (10 + N.of_nat (length p)) mod 256 /\ b2 = (10 + N.of_nat (length p)) / 256) as [E1 E2] by lia.
  assert (k = b7 /\ r = b3 /\ s = b4 /\ et = b5 /\ ev = b6) as (-> & -> & -> & -> & ->) by lia.
  rewrite <- E1, <- E2. cbn [app]. do 8 f_equal.
  f_equal. f_equal.
  apply N.eqb_eq in Hck. symmetry. exact Hck.
Qed.

Theorem reserialise s f rest : Bytes s -> read_one s = (Delivered f, rest) ->
  exists junk fb, consumed s rest = junk ++ fb /\ split_start (consumed s rest) = Some fb /\
    (last fb 0 = 22 -> frame_bytes f = Some fb).
Proof.
  intros Hs R. pose proof (read_one_delivered _ _ _ R) as V.
  destruct (read_one_suffix _ _ _ R) as [c Ec].
  assert (consumed s rest = c) as Cc by (subst s; apply consumed_app).
  rewrite Cc in *.
  assert (Bytes c) as Hc by (subst s; apply Bytes_app in Hs; tauto).
  destruct (valid_delivery_reserialise c f Hc V) as [fb [Hsp Hre]].
  destruct (split_start_suffix _ _ Hsp) as [junk [E _]].
  exists junk, fb. repeat split; assumption.
Qed.

(* ---------- C14 ---------- *)
Lemma nostart_forallb l : forallb (fun b => negb (b =? 104)) l = true -> nostart l.
Proof.
  unfold nostart. rewrite forallb_forall, Forall_forall. intros H x Hx. specialize (H x Hx).
  unfold frame_start. lia.
Qed.

Theorem resync_clean noise f rest : wf_frame f = true -> forallb (fun b => negb (b =? 104)) noise = true ->
  read_one (noise ++ enc f ++ rest) = (classify f, rest).
Proof.
  intros W Hn. apply nostart_forallb in Hn.
  pose proof (read_one_enc f rest W) as R.
  unfold read_one in *.
  assert (E : enc f ++ rest = frame_start :: tl (enc f ++ rest)) by reflexivity.
  rewrite E at 1. rewrite (scan_app_nostart noise _ Hn).
  rewrite E in R at 1. cbn [scan] in R. rewrite N.eqb_refl in R. exact R.
Qed.

Lemma P14_call_ok s o rest : read_one s = (o, rest) -> o <> Broken -> P14_call (consumed s rest) o = true.
Proof.
  intros R Nb. destruct (read_one_shape _ _ _ R Nb) as (junk & x & -> & Hj & Hx).
  rewrite consumed_app. unfold P14_call. rewrite (split_start_app junk x Hj). cbn [length].
  assert (Nat.leb 1 (S (length x)) && Nat.leb (S (length x)) 1000 = true) as -> by lia.
  destruct o; reflexivity.
Qed.

Lemma read_all_fuel_P14 fuel s : (length s < fuel)%nat ->
  forallb (fun co => P14_call (fst co) (snd co)) (read_all_fuel fuel s) = true.
Proof.
  revert s; induction fuel as [|k IH]; intros s Hf; [lia|].
  cbn [read_all_fuel]. destruct (read_one s) as [o rest] eqn:R.
  assert (o = Broken \/ o <> Broken) as [->|Nb] by (destruct o; (now left) || (right; discriminate)).
  - reflexivity.
  - pose proof (read_one_progress _ _ _ R Nb) as Hp.
    pose proof (P14_call_ok _ _ _ R Nb) as Hc.
    specialize (IH rest ltac:(lia)).
    assert (forallb (fun co => P14_call (fst co) (snd co)) ((consumed s rest, o) :: read_all_fuel k rest) = true) as G.
    { cbn [forallb fst snd]. now rewrite Hc, IH. }
    destruct o; try exact G. congruence.
Qed.

Theorem C14_noise : C14_statement.
Proof.
  intros s. unfold P14, read_all.
  rewrite (read_all_fuel_P14 (S (length s)) s ltac:(lia)).
  destruct (read_all_fuel_sound (S (length s)) s ltac:(lia)) as [_ H2]. rewrite H2.
  replace (list_eqb N.eqb s s) with true by (symmetry; now apply list_eqb_N_eq).
  destruct (read_all_fuel_last (S (length s)) s ltac:(lia)) as [l [c ->]].
  rewrite rev_app_distr. reflexivity.
Qed.

Theorem C14_resync_clean : C14_resync_clean_statement.
Proof. intros noise f rest W H. now apply resync_clean. Qed.

Theorem C03_roundtrip : C03_roundtrip_statement.
Proof. intros f rest W D. exists (enc f). now apply roundtrip. Qed.

Theorem C03_reserialise : C03_reserialise_statement.
Proof. intros s f rest Hs R. now apply reserialise. Qed.

Theorem C03_eq : C03_eq_statement.
Proof. split; [apply frame_eqb_eq|apply frame_eqb_refl]. Qed.

Theorem C04_one : C04_one_statement.
Proof. intros f rest W. now apply read_one_enc. Qed.

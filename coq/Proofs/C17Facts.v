(* Exhaustive sweep, inside the kernel, of every (scaling, raw value): finite domain, bound stated. *)
From Coq Require Import ZArith NArith List Bool Lia PrimFloat String.
From PV Require Import Lib.PyFloat Generated.Tables Model.Param Model.ParamSet Spec.C08 Spec.C17.
Import ListNotations.
Open Scope Z_scope.

(* a description's scaling key *)
Definition key := (Z * Z * Z * N * N)%type.
Definition key_of (d : pdesc) : key := (pd_mm d, pd_me d, pd_offset d, pd_precision d, pd_size d).
Definition key_eqb (a b : key) : bool :=
  let '(a1, a2, a3, a4, a5) := a in let '(b1, b2, b3, b4, b5) := b in
  (a1 =? b1) && (a2 =? b2) && (a3 =? b3) && (a4 =? b4)%N && (a5 =? b5)%N.
Definition desc_of_key (k : key) : pdesc :=
  let '(mm, me, off, prec, size) := k in
  {| pd_name := ""%string; pd_switch := false; pd_mm := mm; pd_me := me; pd_offset := off; pd_precision := prec; pd_size := size |}.

Lemma key_eqb_eq a b : key_eqb a b = true -> a = b.
Proof.
  destruct a as [[[[a1 a2] a3] a4] a5], b as [[[[b1 b2] b3] b4] b5]. cbn [key_eqb].
  rewrite !andb_true_iff, !Z.eqb_eq, !N.eqb_eq. intros [[[[-> ->] ->] ->] ->]. reflexivity.
Qed.

Lemma inverse_ok_key d raw : inverse_ok d raw = inverse_ok (desc_of_key (key_of d)) raw.
Proof. reflexivity. Qed.

Fixpoint dedup (l : list key) : list key :=
  match l with
  | [] => []
  | k :: t => if existsb (key_eqb k) t then dedup t else k :: dedup t
  end.

Definition keys : list key := Eval vm_compute in dedup (map key_of number_descs).

Fixpoint zr (fuel : nat) (start : Z) : list Z :=
  match fuel with O => [] | S k => start :: zr k (start + 1) end.
Definition zrange (n : Z) : list Z := zr (Z.to_nat n) 0.

Lemma zr_in fuel : forall start raw, start <= raw < start + Z.of_nat fuel -> In raw (zr fuel start).
Proof.
  induction fuel as [|k IH]; intros start raw H; [lia|]. cbn [zr].
  destruct (Z.eq_dec raw start) as [->|Hne]; [now left|]. right. apply IH. lia.
Qed.

Lemma zrange_in n raw : 0 <= raw < n -> In raw (zrange n).
Proof. intros H. unfold zrange. apply zr_in. lia. Qed.

Definition sweep (k : key) : bool :=
  let d := desc_of_key k in forallb (inverse_ok d) (zrange (256 ^ Z.of_N (pd_size d))).

(* the sweep itself: every raw value of every distinct scaling *)
Lemma sweep_all : forallb sweep keys = true.
Proof. vm_cast_no_check (eq_refl true). Qed.

Lemma keys_cover : forallb (fun d => existsb (key_eqb (key_of d)) keys) number_descs = true.
Proof. vm_compute. reflexivity. Qed.

Theorem C17_inverse : C17_inverse_statement.
Proof.
  intros d Hd raw Hraw.
  pose proof keys_cover as Hc. rewrite forallb_forall in Hc. specialize (Hc d Hd).
  apply existsb_exists in Hc. destruct Hc as [k [Hk Ek]]. apply key_eqb_eq in Ek.
  pose proof sweep_all as Hs. rewrite forallb_forall in Hs. specialize (Hs k Hk).
  unfold sweep in Hs. rewrite forallb_forall in Hs.
  assert (Hin : In raw (zrange (256 ^ Z.of_N (pd_size (desc_of_key k))))).
  { apply zrange_in. subst k. exact Hraw. }
  specialize (Hs raw Hin). subst k. rewrite <- inverse_ok_key in Hs.
  unfold inverse_ok in Hs.
  destruct (display d raw) as [x|]; [|discriminate]. exists x. split; [reflexivity|].
  destruct (to_raw d x) as [r|]; [|discriminate]. f_equal. lia.
Qed.

Theorem C17_accept : C17_accept_statement.
Proof.
  intros d Hd t raw Hraw. destruct (C17_inverse d Hd raw Hraw) as [x [H1 H2]].
  exists x, raw. repeat split; assumption.
Qed.

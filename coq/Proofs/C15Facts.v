From Coq Require Import NArith ZArith List Bool Lia Arith ZifyBool ZifyN.
From PV Require Import Lib.Bytes Generated.Tables Model.Frame Model.Versions Spec.C15.
Import ListNotations.
Open Scope N_scope.

Definition abs (m : list (N * N)) : vmap := fun c => lookup c m.

Definition keys_nodup (d : list (N * N)) : Prop := NoDup (map fst d).

Lemma dict_set_keys k v d : forall x, In x (map fst (dict_set k v d)) <-> x = k \/ In x (map fst d).
Proof.
  induction d as [|[k' v'] t IH]; intros x; cbn [dict_set map fst In].
  - intuition congruence.
  - destruct (k' =? k) eqn:E; cbn [map fst In].
    + apply N.eqb_eq in E. subst. intuition congruence.
    + rewrite IH. intuition congruence.
Qed.

Lemma dict_set_nodup k v d : keys_nodup d -> keys_nodup (dict_set k v d).
Proof.
  unfold keys_nodup. induction d as [|[k' v'] t IH]; intros H; cbn [dict_set map fst].
  - repeat constructor. intros [].
  - inversion H as [|? ? Hn Ht]; subst. destruct (k' =? k) eqn:E; cbn [map fst].
    + apply N.eqb_eq in E. subst. constructor; assumption.
    + constructor; [|now apply IH]. rewrite dict_set_keys. intros [->|Hin]; [rewrite N.eqb_refl in E; discriminate|contradiction].
Qed.

Lemma dict_of_nodup pairs : keys_nodup (dict_of pairs).
Proof.
  unfold dict_of. assert (G : forall d, keys_nodup d -> keys_nodup (fold_left (fun d kv => dict_set (fst kv) (snd kv) d) pairs d)).
  { induction pairs as [|p ps IH]; intros d Hd; cbn [fold_left]; [exact Hd|]. apply IH. now apply dict_set_nodup. }
  apply G. constructor.
Qed.

Lemma dict_set_wf k v d : (request_kind k || negb (known_kind k) = true) ->
  forallb (fun kv => request_kind (fst kv) || negb (known_kind (fst kv))) d = true ->
  forallb (fun kv => request_kind (fst kv) || negb (known_kind (fst kv))) (dict_set k v d) = true.
Proof.
  intros Hk. induction d as [|[k' v'] t IH]; intros H; cbn [dict_set forallb fst].
  - now rewrite Hk.
  - cbn [forallb fst] in H. apply andb_true_iff in H. destruct H as [H1 H2].
    destruct (k' =? k); cbn [forallb fst]; [now rewrite Hk, H2|]. now rewrite H1, IH.
Qed.

Lemma dict_of_wf pairs : wf_ann pairs = true -> wf_ann (dict_of pairs) = true.
Proof.
  unfold wf_ann, dict_of.
  assert (G : forall d, forallb (fun kv => request_kind (fst kv) || negb (known_kind (fst kv))) d = true ->
     forallb (fun kv => request_kind (fst kv) || negb (known_kind (fst kv))) pairs = true ->
     forallb (fun kv => request_kind (fst kv) || negb (known_kind (fst kv))) (fold_left (fun d kv => dict_set (fst kv) (snd kv) d) pairs d) = true).
  { induction pairs as [|p ps IH]; intros d Hd Hp; cbn [fold_left]; [exact Hd|].
    cbn [forallb] in Hp. apply andb_true_iff in Hp. destruct Hp as [Hp1 Hp2].
    apply IH; [|exact Hp2]. now apply dict_set_wf. }
  intros H. now apply G.
Qed.

Lemma request_kind_known c : request_kind c = true -> known_kind c = true.
Proof.
  unfold request_kind, known_kind, memN. rewrite !existsb_exists. intros [[k kd] [Hin H]].
  cbn [fst snd] in H. apply andb_true_iff in H. destruct H as [H _]. apply N.eqb_eq in H.
  exists k. split; [now apply (in_map fst) in Hin|subst; apply N.eqb_refl].
Qed.

Lemma has_version_abs m c v : has_version m c v = opt_eqb (abs m c) (Some v).
Proof. unfold has_version, abs. destruct (lookup c m); reflexivity. Qed.

(* one pass over a duplicate-free, well-formed dict refines the specification *)
Lemma announce_pairs_spec unsup : forall l m, NoDup (map fst l) ->
  forallb (fun kv => request_kind (fst kv) || negb (known_kind (fst kv))) l = true ->
  let '(m', o, a) := announce_pairs unsup m l in
  a = false /\
  o = map fst (filter (fun kv => needs unsup (abs m) (fst kv) (snd kv)) l) /\
  (forall c, abs m' c = match lookup c l with
                        | Some v => if needs unsup (abs m) c v then Some v else abs m c
                        | None => abs m c
                        end).
Proof.
  induction l as [|[c v] t IH]; intros m Hnd Hwf.
  - cbn. repeat split.
  - cbn [map fst] in Hnd. inversion Hnd as [|? ? Hnotin Hnd']; subst.
    cbn [forallb fst] in Hwf. apply andb_true_iff in Hwf. destruct Hwf as [Hc Hwf].
    cbn [announce_pairs filter fst snd lookup].
    assert (Hlk : forall c', In c' (map fst t) -> (c =? c') = false).
    { intros c' Hin. destruct (c =? c') eqn:E; [|reflexivity]. apply N.eqb_eq in E. subst. contradiction. }
    assert (Hother : forall m2, (forall c', c' <> c -> abs m2 c' = abs m c') ->
       forall kv, In kv t -> needs unsup (abs m2) (fst kv) (snd kv) = needs unsup (abs m) (fst kv) (snd kv)).
    { intros m2 Hm2 [k w] Hin. unfold needs. cbn [fst snd]. rewrite Hm2; [reflexivity|].
      intros ->. apply Hnotin. now apply (in_map fst) in Hin. }
    unfold needs at 1. rewrite <- has_version_abs.
    destruct (request_kind c) eqn:Er.
    + rewrite (request_kind_known c Er). cbn [andb].
      destruct (negb (memN c unsup) && negb (has_version m c v)) eqn:En.
      * specialize (IH ((c, v) :: m) Hnd' Hwf).
        destruct (announce_pairs unsup ((c, v) :: m) t) as [[m' o] a]. destruct IH as (Ha & Ho & Hm).
        split; [exact Ha|]. split.
        -- cbn [map fst]. f_equal. rewrite Ho. f_equal. apply filter_ext_in. intros kv Hin.
           apply Hother; [|exact Hin]. intros c' Hne. unfold abs. cbn [lookup].
           destruct (c =? c') eqn:E; [apply N.eqb_eq in E; congruence|reflexivity].
        -- intros c'. rewrite Hm. destruct (c =? c') eqn:E.
           ++ apply N.eqb_eq in E. subst c'.
              assert (lookup c t = None) as ->.
              { clear -Hnotin. induction t as [|[k w] t IH]; [reflexivity|]. cbn [lookup map fst In] in *.
                destruct (k =? c) eqn:E; [apply N.eqb_eq in E; subst; tauto|]. apply IH. tauto. }
              replace (abs ((c, v) :: m) c) with (Some v) by (unfold abs; cbn [lookup]; now rewrite N.eqb_refl).
              unfold needs. rewrite Er, <- has_version_abs. cbn [andb]. now rewrite En.
           ++ destruct (lookup c' t) as [w|] eqn:El.
              ** assert (In (c', w) t) as Hin.
                 { clear -El. induction t as [|[k x] t IH]; [discriminate|]. cbn [lookup] in El.
                   destruct (k =? c') eqn:E; [apply N.eqb_eq in E; injection El as ->; subst; now left|right; now apply IH]. }
                 assert (Hx : needs unsup (abs ((c, v) :: m)) c' w = needs unsup (abs m) c' w).
                 { apply (Hother ((c, v) :: m)) with (kv := (c', w)); [|exact Hin].
                   intros c2 Hne; unfold abs; cbn [lookup].
                   destruct (c =? c2) eqn:E2; [apply N.eqb_eq in E2; congruence|reflexivity]. }
                 rewrite Hx.
                 replace (abs ((c, v) :: m) c') with (abs m c') by (unfold abs; cbn [lookup]; now rewrite E).
                 reflexivity.
              ** unfold abs. cbn [lookup]. now rewrite E.
      * specialize (IH m Hnd' Hwf).
        destruct (announce_pairs unsup m t) as [[m' o] a]. destruct IH as (Ha & Ho & Hm).
        split; [exact Ha|]. split; [exact Ho|].
        intros c'. rewrite Hm. destruct (c =? c') eqn:E; [|reflexivity].
        apply N.eqb_eq in E. subst c'.
        assert (lookup c t = None) as ->.
        { clear -Hnotin. induction t as [|[k w] t IH]; [reflexivity|]. cbn [lookup map fst In] in *.
          destruct (k =? c) eqn:E; [apply N.eqb_eq in E; subst; tauto|]. apply IH. tauto. }
        unfold needs. rewrite Er, <- has_version_abs. cbn [andb]. now rewrite En.
    + (* not a request kind: by well-formedness it is an unknown code *)
      cbn [orb] in Hc. assert (known_kind c = false) as Hk by (destruct (known_kind c); [discriminate|reflexivity]).
      rewrite Hk. cbn [andb].
      specialize (IH m Hnd' Hwf).
      destruct (announce_pairs unsup m t) as [[m' o] a]. destruct IH as (Ha & Ho & Hm).
      split; [exact Ha|]. split; [exact Ho|].
      intros c'. rewrite Hm. destruct (c =? c') eqn:E; [|reflexivity].
      apply N.eqb_eq in E. subst c'.
      assert (lookup c t = None) as ->.
      { clear -Hnotin. induction t as [|[k w] t IH]; [reflexivity|]. cbn [lookup map fst In] in *.
        destruct (k =? c) eqn:E; [apply N.eqb_eq in E; subst; tauto|]. apply IH. tauto. }
      unfold needs. rewrite Er. reflexivity.
Qed.

Lemma spec_out_ext unsup r1 r2 a : (forall c, r1 c = r2 c) -> spec_out unsup r1 a = spec_out unsup r2 a.
Proof.
  intros H. unfold spec_out. f_equal. apply filter_ext. intros kv. unfold needs. now rewrite H.
Qed.

Lemma spec_rec_ext unsup r1 r2 a : (forall c, r1 c = r2 c) -> forall c, spec_rec unsup r1 a c = spec_rec unsup r2 a c.
Proof.
  intros H c. unfold spec_rec. destruct (lookup c (dict_of a)); [|apply H]. unfold needs. now rewrite !H.
Qed.

Lemma spec_all_ext unsup h : forall r1 r2, (forall c, r1 c = r2 c) -> spec_all unsup r1 h = spec_all unsup r2 h.
Proof.
  induction h as [|a t IH]; intros r1 r2 H; [reflexivity|]. cbn [spec_all]. f_equal.
  - now apply spec_out_ext.
  - apply IH. now apply spec_rec_ext.
Qed.

Lemma outs_eqb_refl l : outs_eqb l l = true.
Proof. induction l as [|x l IH]; [reflexivity|]. cbn [outs_eqb]. rewrite IH, andb_true_r. now apply list_eqb_N_eq. Qed.

Lemma announce_all_spec unsup h : forall m, forallb wf_ann h = true ->
  fst (announce_all unsup m h) = spec_all unsup (abs m) h.
Proof.
  induction h as [|a t IH]; intros m Hwf; [reflexivity|].
  cbn [forallb] in Hwf. apply andb_true_iff in Hwf. destruct Hwf as [Ha Ht].
  cbn [announce_all spec_all]. unfold announce.
  pose proof (announce_pairs_spec unsup (dict_of a) m (dict_of_nodup a) (dict_of_wf a Ha)) as S.
  destruct (announce_pairs unsup m (dict_of a)) as [[m1 o] ab]. destruct S as (_ & Ho & Hm).
  specialize (IH m1 Ht). destruct (announce_all unsup m1 t) as [os m2]. cbn [fst] in *.
  f_equal; [exact Ho|]. rewrite IH. apply spec_all_ext. intros c. rewrite Hm. reflexivity.
Qed.

Theorem C15_refines : C15_statement.
Proof.
  intros unsup h Hwf. unfold P15. rewrite (announce_all_spec unsup h [] Hwf).
  rewrite (spec_all_ext unsup h (abs []) (fun _ => None)) by reflexivity. apply outs_eqb_refl.
Qed.

Lemma lookup_in c v d : In (c, v) d -> NoDup (map fst d) -> lookup c d = Some v.
Proof.
  induction d as [|[k w] t IH]; intros Hin Hnd; [destruct Hin|].
  cbn [map fst] in Hnd. inversion Hnd as [|? ? Hn Hnd']; subst. cbn [lookup].
  destruct Hin as [E|Hin].
  - injection E as -> ->. now rewrite N.eqb_refl.
  - destruct (k =? c) eqn:E; [|now apply IH]. apply N.eqb_eq in E. subst. exfalso. apply Hn. now apply (in_map fst) in Hin.
Qed.

Lemma filter_nil {A} (f : A -> bool) l : (forall x, In x l -> f x = false) -> filter f l = [].
Proof.
  induction l as [|x l IH]; intros H; [reflexivity|]. cbn [filter]. rewrite (H x (or_introl eq_refl)).
  apply IH. intros y Hy. apply H. now right.
Qed.

Theorem C15_idempotent : C15_idempotent_statement.
Proof.
  intros unsup rec a _. unfold spec_out.
  assert (filter (fun kv => needs unsup (spec_rec unsup rec a) (fst kv) (snd kv)) (dict_of a) = []) as ->; [|reflexivity].
  apply filter_nil. intros [c v] Hin. cbn [fst snd].
  unfold needs at 1, spec_rec. rewrite (lookup_in c v _ Hin (dict_of_nodup a)).
  destruct (needs unsup rec c v) eqn:En.
  - cbn [opt_eqb]. rewrite N.eqb_refl. cbn. now rewrite !andb_false_r.
  - unfold needs in En. destruct (request_kind c); [|reflexivity]. destruct (negb (memN c unsup)); [|reflexivity].
    cbn [andb] in *. now rewrite En.
Qed.

Theorem C15_silent : C15_silent_statement.
Proof.
  intros unsup rec a c Hin. unfold spec_out in Hin. apply in_map_iff in Hin. destruct Hin as [[k v] [<- Hf]].
  apply filter_In in Hf. destruct Hf as [_ Hn]. cbn [fst snd] in *. unfold needs in Hn.
  apply andb_true_iff in Hn. destruct Hn as [Hn _]. apply andb_true_iff in Hn. destruct Hn as [H1 H2].
  split; [exact H1|]. now destruct (memN k unsup).
Qed.

Lemma spec_hist_ext h : forall unsup r1 r2, (forall c, r1 c = r2 c) -> spec_hist unsup r1 h = spec_hist unsup r2 h.
Proof.
  induction h as [|[a|u] t IH]; intros unsup r1 r2 H; [reflexivity| |].
  - cbn [spec_hist]. f_equal; [now apply spec_out_ext|]. apply IH. now apply spec_rec_ext.
  - cbn [spec_hist]. f_equal. now apply IH.
Qed.

Lemma announce_hist_spec h : forall unsup m, forallb wf_hev h = true ->
  announce_hist unsup m h = spec_hist unsup (abs m) h.
Proof.
  induction h as [|[a|u] t IH]; intros unsup m Hwf; [reflexivity| |].
  - cbn [forallb wf_hev] in Hwf. apply andb_true_iff in Hwf. destruct Hwf as [Ha Ht].
    cbn [announce_hist spec_hist]. unfold announce.
    pose proof (announce_pairs_spec unsup (dict_of a) m (dict_of_nodup a) (dict_of_wf a Ha)) as S.
    destruct (announce_pairs unsup m (dict_of a)) as [[m1 o] ab]. destruct S as (_ & Ho & Hm).
    f_equal; [exact Ho|]. rewrite (IH unsup m1 Ht). apply spec_hist_ext. intros c. rewrite Hm. reflexivity.
  - cbn [forallb wf_hev] in Hwf. cbn [announce_hist spec_hist]. f_equal. now apply IH.
Qed.

Theorem C15_hist : C15_hist_statement.
Proof.
  intros h Hwf. unfold P15h. rewrite (announce_hist_spec h [] [] Hwf).
  rewrite (spec_hist_ext h [] (abs []) (fun _ => None)) by reflexivity. apply outs_eqb_refl.
Qed.

From Coq Require Import NArith List Bool Arith Lia.
From PV Require Import Generated.Tables Model.Conn Model.ConnSM Spec.C11 Proofs.C11Facts.
Import ListNotations.
Local Open Scope nat_scope.

Lemma mon_run_app a : forall st b,
  mon_run st (a ++ b) = match mon_run st a with Some st' => mon_run st' b | None => None end.
Proof.
  induction a as [|e a IH]; intros st b; [reflexivity|].
  cbn [app mon_run]. destruct (mon_step st e); [apply IH|reflexivity].
Qed.

Lemma mon_downs_from n n0 : forall j k, k + j = n0 -> 
  mon_run (MDown k n0, n) (map LDown (seq k j) ++ [LClose]) = Some (MClosed, n).
Proof.
  induction j as [|j IH]; intros k H.
  - cbn [seq map app mon_run mon_step]. replace (Nat.eqb k n0) with true by (symmetry; apply Nat.eqb_eq; lia). reflexivity.
  - cbn [seq map app mon_run mon_step]. rewrite Nat.eqb_refl. replace (Nat.ltb k n0) with true by (symmetry; apply Nat.ltb_lt; lia).
    cbn [andb]. apply IH. lia.
Qed.

Lemma mon_downs m n : mon_run (MUp m m, n) (downs n ++ [LClose]) = Some (MClosed, n).
Proof.
  unfold downs. destruct n as [|n].
  - cbn [seq map app mon_run mon_step]. now rewrite Nat.eqb_refl.
  - cbn [seq map app mon_run mon_step]. rewrite Nat.eqb_refl. cbn [Nat.eqb Nat.ltb Nat.leb andb].
    apply (mon_downs_from (S n) (S n) n 1). lia.
Qed.

Lemma mon_ups_from n m : forall j k, k + j = m -> mon_run (MUp k m, n) (map LUp (seq k j)) = Some (MUp m m, n).
Proof.
  induction j as [|j IH]; intros k H.
  - cbn [seq map mon_run]. replace k with m by lia. reflexivity.
  - cbn [seq map mon_run mon_step]. rewrite Nat.eqb_refl. replace (Nat.ltb k m) with true by (symmetry; apply Nat.ltb_lt; lia).
    cbn [andb]. apply IH. lia.
Qed.

Definition phase_ok (s : cst) (ph : mphase) : Prop :=
  if c_connected s then exists m, ph = MUp m m
  else if c_sleeping s then ph = MSleep else ph = MClosed \/ ph = MWait.

Definition Inv (s : cst) : Prop :=
  stable s /\ exists ph, mon_run (MUp 0 0, 0) (clog s) = Some (ph, c_devices s) /\ phase_ok s ph.

Lemma clog_app s l : rev (rev l ++ c_log s) = clog s ++ l.
Proof. unfold clog. now rewrite rev_app_distr, rev_involutive. Qed.

Lemma Inv_step s e : Inv s -> Inv (cstep true true s e).
Proof.
  intros HI. pose proof HI as [[Hc [Hup Hdn]] [ph [Hm Hp]]]. unfold phase_ok in Hp.
  destruct e as [|ok| |]; unfold cstep.
  - (* EFault *)
    destruct (c_producers s) as [|p] eqn:Ep.
    { exact HI. }
    destruct (c_connected s) eqn:Ec.
    2:{ destruct (Hdn eq_refl) as [H0 _]. congruence. }
    destruct (Hup eq_refl) as (H1 & H2 & H3 & H4). destruct Hp as [m ->].
    cbn [orb]. split.
    + unfold stable. cbn [c_consumers c_connected c_producers c_transports c_opening c_sleeping].
      split; [exact Hc|]. split; [discriminate|]. intros _. rewrite H2, H4. split; [lia|split; reflexivity].
    + exists MClosed. unfold clog. cbn [c_log c_devices]. rewrite clog_app, mon_run_app. fold (clog s). rewrite Hm.
      split; [apply mon_downs|]. unfold phase_ok. cbn [c_connected c_sleeping]. rewrite H4. now left.
  - (* EOpen *)
    destruct (c_opening s) eqn:Eo.
    2:{ exact HI. }
    destruct (c_connected s) eqn:Ec.
    { destruct (Hup eq_refl) as (_ & _ & H3 & _). congruence. }
    destruct (Hdn eq_refl) as (H1 & H2 & H3). try rewrite Eo in H3.
    assert (Hs : c_sleeping s = false) by (destruct (c_sleeping s); [discriminate H3|reflexivity]).
    rewrite Hs in Hp. destruct ok.
    + split.
      * unfold stable. cbn [c_consumers c_connected c_producers c_transports c_opening c_sleeping].
        rewrite Hc, H1, H2, Hs. split; [apply Nat.max_id|]. split; [intros _; repeat split|discriminate].
      * exists (MUp (c_devices s) (c_devices s)). unfold clog. cbn [c_log c_devices]. rewrite clog_app, mon_run_app. fold (clog s). rewrite Hm.
        split.
        -- cbn [app mon_run]. assert (E : mon_step (ph, c_devices s) (LOpen true) = Some (MEst, c_devices s)) by (destruct Hp as [-> | ->]; reflexivity).
           rewrite E. cbn [mon_run mon_step]. unfold ups. apply (mon_ups_from (c_devices s) (c_devices s) (c_devices s) 0). lia.
        -- unfold phase_ok. cbn [c_connected]. now exists (c_devices s).
    + split.
      * unfold stable. cbn [c_consumers c_connected c_producers c_transports c_opening c_sleeping].
        rewrite ?Ec. split; [exact Hc|]. split; [discriminate|]. intros _. repeat split; assumption.
      * exists MSleep. unfold clog. cbn [c_log c_devices]. change (LOpen false :: c_log s) with (rev [LOpen false] ++ c_log s).
        rewrite clog_app, mon_run_app. fold (clog s). rewrite Hm. split.
        -- cbn [mon_run]. destruct Hp as [-> | ->]; reflexivity.
        -- unfold phase_ok. cbn [c_connected c_sleeping]. now rewrite ?Ec.
  - (* EBackoff *)
    destruct (c_sleeping s) eqn:Es.
    2:{ exact HI. }
    destruct (c_connected s) eqn:Ec.
    { destruct (Hup eq_refl) as (_ & _ & _ & H4). congruence. }
    destruct (Hdn eq_refl) as (H1 & H2 & H3). subst ph. split.
    + unfold stable. cbn [c_consumers c_connected c_producers c_transports c_opening c_sleeping]. rewrite ?Ec.
      split; [exact Hc|]. split; [discriminate|]. intros _. repeat split; assumption.
    + exists MWait. unfold clog. cbn [c_log c_devices]. change (LBackoff :: c_log s) with (rev [LBackoff] ++ c_log s).
      rewrite clog_app, mon_run_app. fold (clog s). rewrite Hm. split; [reflexivity|].
      unfold phase_ok. cbn [c_connected c_sleeping]. rewrite ?Ec. now right.
  - (* ENewDevice *)
    split.
    + unfold stable. cbn [c_consumers c_connected c_producers c_transports c_opening c_sleeping]. split; [exact Hc|split; assumption].
    + exists ph. unfold clog. cbn [c_log c_devices]. change (LNew :: c_log s) with (rev [LNew] ++ c_log s).
      rewrite clog_app, mon_run_app. fold (clog s). rewrite Hm. split; [reflexivity|].
      unfold phase_ok. cbn [c_connected c_sleeping]. exact Hp.
Qed.

Lemma Inv_run evs : forall s, Inv s -> Inv (fold_left (cstep true true) evs s).
Proof. induction evs as [|e r IH]; intros s H; [exact H|]. cbn [fold_left]. apply IH, Inv_step, H. Qed.

Lemma Inv_init : Inv cinit.
Proof.
  split.
  - unfold stable, cinit. cbn. split; [reflexivity|]. split; [intros _; repeat split|discriminate].
  - exists (MUp 0 0). split; [reflexivity|]. unfold phase_ok. cbn. now exists 0.
Qed.

Theorem C11_sm : C11_sm_statement.
Proof.
  intros evs. cbv zeta. destruct (Inv_run evs cinit Inv_init) as [Hs [ph [Hm _]]]. fold (crun true true evs) in *.
  split; [|exact Hs]. unfold mon_ok. now rewrite Hm.
Qed.

(* ---- the per-cycle model is the event-level model on the events of one cycle ---- *)
Fixpoint flog (fails : nat) : list lev :=
  match fails with O => [] | S k => LOpen false :: LBackoff :: flog k end.
Definition elog (d fails : nat) : list lev := downs d ++ [LClose] ++ flog fails ++ [LOpen true; LStartMaster] ++ ups d.

Lemma run_attempts fails : forall s, c_opening s = true -> c_sleeping s = false ->
  fold_left (cstep true true) (attempts fails) s =
  mkC true (S (c_producers s)) (Nat.max (c_consumers s) (N.to_nat consumers_count)) (c_devices s) (S (c_transports s)) false false
      (rev (flog fails ++ [LOpen true; LStartMaster] ++ ups (c_devices s)) ++ c_log s).
Proof.
  induction fails as [|k IH]; intros s Ho Hs.
  - cbn [attempts fold_left cstep flog app]. rewrite Ho, Hs. reflexivity.
  - cbn [attempts fold_left].
    set (s1 := mkC (c_connected s) (c_producers s) (c_consumers s) (c_devices s) (c_transports s) false true (LOpen false :: c_log s)).
    assert (E1 : cstep true true s (EOpen false) = s1) by (unfold cstep; rewrite Ho; reflexivity).
    set (s2 := mkC (c_connected s) (c_producers s) (c_consumers s) (c_devices s) (c_transports s) true false (LBackoff :: LOpen false :: c_log s)).
    assert (E2 : cstep true true s1 EBackoff = s2) by reflexivity.
    rewrite E1, E2, IH by reflexivity. subst s2. cbn [c_producers c_consumers c_devices c_transports c_log flog].
    f_equal. cbn [app rev]. rewrite <- !app_assoc. reflexivity.
Qed.

Lemma ds_downs l : flat_map (fun e => match e with LDown i => [i] | _ => [] end) (map LDown l) = l.
Proof. induction l as [|x l IH]; [reflexivity|]. cbn. now rewrite IH. Qed.
Lemma ds_ups l : flat_map (fun e => match e with LDown i => [i] | _ => [] end) (map LUp l) = [].
Proof. induction l as [|x l IH]; [reflexivity|]. cbn. exact IH. Qed.
Lemma us_ups l : flat_map (fun e => match e with LUp i => [i] | _ => [] end) (map LUp l) = l.
Proof. induction l as [|x l IH]; [reflexivity|]. cbn. now rewrite IH. Qed.
Lemma us_downs l : flat_map (fun e => match e with LUp i => [i] | _ => [] end) (map LDown l) = [].
Proof. induction l as [|x l IH]; [reflexivity|]. cbn. exact IH. Qed.
Lemma ds_flog k : flat_map (fun e => match e with LDown i => [i] | _ => [] end) (flog k) = [].
Proof. induction k as [|k IH]; [reflexivity|]. cbn. exact IH. Qed.
Lemma us_flog k : flat_map (fun e => match e with LUp i => [i] | _ => [] end) (flog k) = [].
Proof. induction k as [|k IH]; [reflexivity|]. cbn. exact IH. Qed.

Lemma count_map (p : lev -> bool) (f : nat -> lev) l : (forall i, p (f i) = false) -> filter p (map f l) = [].
Proof. intros H. induction l as [|x l IH]; [reflexivity|]. cbn. now rewrite H. Qed.
Lemma count_flog (p : lev -> bool) k : p (LOpen false) = false -> p LBackoff = false -> filter p (flog k) = [].
Proof. intros H1 H2. induction k as [|k IH]; [reflexivity|]. cbn. now rewrite H1, H2. Qed.

Lemma opens_of_skip (f : nat -> lev) l first b rest :
  (forall i, match f i with LOpen _ | LBackoff => False | _ => True end) ->
  opens_of first b (map f l ++ rest) = opens_of first b rest.
Proof.
  intros H. induction l as [|x l IH]; [reflexivity|]. cbn [map app opens_of].
  specialize (H x). destruct (f x); try contradiction; exact IH.
Qed.

Lemma opens_of_flog k : forall first d,
  opens_of first (negb first) (flog k ++ [LOpen true; LStartMaster] ++ ups d) = opens k first.
Proof.
  induction k as [|k IH]; intros first d.
  - cbn [flog app opens_of opens]. unfold ups.
    rewrite <- (app_nil_r (map LUp (seq 0 d))). rewrite (opens_of_skip LUp) by (intros i; exact I). cbn [opens_of].
    destruct first; reflexivity.
  - cbn [flog app opens_of opens]. pose proof (IH false d) as H. cbn [negb app] in H. rewrite H. destruct first; reflexivity.
Qed.

Theorem C11_sm_refines : C11_sm_refines_statement.
Proof.
  intros d fails. cbv zeta. unfold cycle_events. cbn [fold_left].
  assert (E : cstep true true (connected_with d) EFault =
              mkC false 0 (N.to_nat consumers_count) d 0 true false (rev (downs d ++ [LClose]) ++ [])).
  { unfold cstep, connected_with. cbn [c_producers c_connected orb c_consumers c_devices c_transports c_sleeping c_log Nat.pred]. reflexivity. }
  rewrite E.
  rewrite (run_attempts fails (mkC false 0 (N.to_nat consumers_count) d 0 true false (rev (downs d ++ [LClose]) ++ [])) eq_refl eq_refl).
  cbn [c_producers c_consumers c_devices c_transports c_log c_connected]. rewrite app_nil_r.
  split; [|split; reflexivity].
  unfold cout_of, clog. cbn [c_log c_producers c_consumers]. rewrite rev_app_distr, !rev_involutive.
  unfold do_cycle. cbn [ci_devices ci_fails]. rewrite Nat.max_id.
  f_equal.
  - rewrite !flat_map_app. unfold downs, ups. rewrite ds_downs, ds_flog, ds_ups. cbn. now rewrite !app_nil_r.
  - rewrite !filter_app. unfold downs, ups. rewrite (count_map _ LDown), (count_map _ LUp), count_flog by (intros; reflexivity). reflexivity.
  - unfold downs. rewrite <- app_assoc. rewrite (opens_of_skip LDown) by (intros i; exact I). cbn [app opens_of].
    apply (opens_of_flog fails true d).
  - rewrite !filter_app. unfold downs, ups. rewrite (count_map _ LDown), (count_map _ LUp), count_flog by (intros; reflexivity). reflexivity.
  - rewrite !flat_map_app. unfold downs, ups. rewrite us_downs, us_flog, us_ups. reflexivity.
Qed.

(* a producer that keeps running after a fault: after the re-establishment two producers read the same transport *)
Theorem C11_nobreak_refuted :
  c_producers (crun false true (cycle_events 0)) = 2.
Proof. vm_compute. reflexivity. Qed.
(* connection_lost() without its connected guard: a second fault report announces the loss again and starts a second chain *)
Theorem C11_unguarded_refuted :
  mon_ok (clog (crun false false [ENewDevice; EFault; EFault])) = false.
Proof. vm_compute. reflexivity. Qed.

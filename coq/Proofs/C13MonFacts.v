(* C13, the whole property: the chronological log of EVERY operation sequence of the event-manager
   model is accepted by the monitor P13 (ordered callbacks of the snapshot, value threading, once
   wrappers, store after the snapshot, waiters woken at once, getters, timeouts).  Refinement proof:
   the monitor state is a function of the model state. *)
From Coq Require Import ZArith NArith List Bool Arith Lia.
From PV Require Import Model.EventMgr Spec.C13 Proofs.C13Facts.
Import ListNotations.

Definition m0 : mstate := mkMS [] [] [] [] [].
Definition mstep' (sc : script) (m : mstate) (e : lev) : option mstate := if owed_ok m e then mstep sc m e else None.
Fixpoint mfold (sc : script) (m : mstate) (evs : list lev) : option mstate :=
  match evs with
  | [] => Some m
  | e :: r => match mstep' sc m e with Some m' => mfold sc m' r | None => None end
  end.

Lemma mrun_mfold sc evs : forall m,
  mrun sc m evs = match mfold sc m evs with Some m' => match ms_owed m' with [] => true | _ => false end | None => false end.
Proof.
  induction evs as [|e r IH]; intros m; cbn [mrun mfold]; [reflexivity|].
  unfold mstep'. destruct (owed_ok m e); [|reflexivity]. destruct (mstep sc m e) as [m'|]; [apply IH|reflexivity].
Qed.

Lemma mfold_app sc a b : forall m,
  mfold sc m (a ++ b) = match mfold sc m a with Some m' => mfold sc m' b | None => None end.
Proof.
  induction a as [|e a IH]; intros m; cbn [app mfold]; [reflexivity|].
  destruct (mstep' sc m e) as [m'|]; [apply IH|reflexivity].
Qed.

Lemma mfold_snoc sc l e m m1 m2 : mfold sc m l = Some m1 -> mstep' sc m1 e = Some m2 -> mfold sc m (l ++ [e]) = Some m2.
Proof. intros H1 H2. rewrite mfold_app, H1. cbn [mfold]. now rewrite H2. Qed.

Definition abs_task (sc : script) (t : dtask) : mtask :=
  mkMT (t_id t) (t_name t) (t_cur t) (t_todo t)
       (match t_wait t with Some (_, s) => Some (snd (sc (sub_cb s))) | None => None end) (t_done t).
Definition wpair (w : waiter) : nat * nat := (w_id w, w_name w).

Record Rel (sc : script) (st : est) (m : mstate) : Prop := mkRel {
  r_fold : mfold sc m0 (rev (log st)) = Some m;
  r_subs : ms_subs m = subs st;
  r_data : ms_data m = data st;
  r_wait : ms_waiting m = map wpair (waiters st);
  r_owed : ms_owed m = [] }.

(* task tables agree, except for the task being run, which the monitor knows as mt *)
Definition TRelX (sc : script) (st : est) (m : mstate) (tid : nat) (mt : mtask) : Prop :=
  forall tid', find_mt tid' (ms_tasks m) =
               if Nat.eqb tid' tid then Some mt else option_map (abs_task sc) (find_task tid' (tasks st)).
Definition TRel (sc : script) (st : est) (m : mstate) : Prop :=
  forall tid', find_mt tid' (ms_tasks m) = option_map (abs_task sc) (find_task tid' (tasks st)).

Definition WFw (st : est) : Prop :=
  NoDup (map w_id (waiters st)) /\
  forall w, In w (waiters st) -> w_id w < next_id st /\ get_data (w_name w) (data st) = None.

(* ---- small facts ---- *)
Lemma find_filter_other {A} (p q : A -> bool) l : (forall x, p x = true -> q x = true) -> find p (filter q l) = find p l.
Proof.
  intros H. induction l as [|x l IH]; [reflexivity|]. cbn [filter find].
  destruct (q x) eqn:Q; cbn [find]; destruct (p x) eqn:P; try reflexivity; try exact IH.
  rewrite (H x P) in Q. discriminate.
Qed.

Lemma find_put_mt tid' t l : find_mt tid' (put_mt t l) = if Nat.eqb tid' (mt_id t) then Some t else find_mt tid' l.
Proof.
  unfold find_mt, put_mt. cbn [find]. rewrite (Nat.eqb_sym (mt_id t) tid').
  destruct (Nat.eqb tid' (mt_id t)) eqn:E; [reflexivity|].
  apply find_filter_other. intros x Hx. apply Nat.eqb_eq in Hx. rewrite Hx, E. reflexivity.
Qed.

Lemma find_put_task tid' t l : find_task tid' (put_task t l) = if Nat.eqb tid' (t_id t) then Some t else find_task tid' l.
Proof.
  unfold find_task, put_task. cbn [find]. rewrite (Nat.eqb_sym (t_id t) tid').
  destruct (Nat.eqb tid' (t_id t)) eqn:E; [reflexivity|].
  apply find_filter_other. intros x Hx. apply Nat.eqb_eq in Hx. rewrite Hx, E. reflexivity.
Qed.

Lemma subs_eqb_refl l : subs_eqb l l = true.
Proof. induction l as [|a l IH]; [reflexivity|]. cbn [subs_eqb]. now rewrite sub_eqb_refl, IH. Qed.

Lemma get_set_data n v l : get_data n (set_data n v l) = Some v.
Proof.
  induction l as [|[k u] l IH]; cbn [set_data get_data]; [now rewrite Nat.eqb_refl|].
  destruct (Nat.eqb k n) eqn:E; cbn [get_data]; rewrite E; [reflexivity|exact IH].
Qed.
Lemma get_set_data_other n n' v l : n' <> n -> get_data n' (set_data n v l) = get_data n' l.
Proof.
  intros Hn. induction l as [|[k u] l IH]; cbn [set_data get_data].
  - destruct (Nat.eqb n n') eqn:E; [apply Nat.eqb_eq in E; congruence|reflexivity].
  - destruct (Nat.eqb k n) eqn:E; cbn [get_data].
    + apply Nat.eqb_eq in E. subst k. destruct (Nat.eqb n n') eqn:E'; [apply Nat.eqb_eq in E'; congruence|reflexivity].
    + destruct (Nat.eqb k n'); [reflexivity|exact IH].
Qed.

(* the remaining snapshot as the monitor sees it: once-wrappers skipped so far, then the todo list *)
Definition skipped_ok (current : list sub) (skipped : list sub) : Prop :=
  Forall (fun a => match a with Once _ _ => mem_sub a current = false | Plain _ => False end) skipped.

Lemma advance_skip s current skipped rest :
  skipped_ok current skipped -> match s with Once _ _ => mem_sub s current = true | Plain _ => True end ->
  advance_to s current (skipped ++ s :: rest) = Some rest.
Proof.
  intros Hs Hm. induction skipped as [|a sk IH]; cbn [app advance_to].
  - now rewrite sub_eqb_refl.
  - inversion Hs as [|? ? Ha Hsk]; subst. destruct a as [c|c w]; [contradiction|].
    destruct (sub_eqb (Once c w) s) eqn:E.
    + apply sub_eqb_eq in E. subst s. rewrite Ha in Hm. discriminate.
    + rewrite Ha. now apply IH.
Qed.

Lemma all_skippable_ok current skipped : skipped_ok current skipped -> all_skippable current skipped = true.
Proof.
  intros H. unfold all_skippable. apply forallb_forall. intros a Ha. unfold skipped_ok in H. rewrite Forall_forall in H.
  specialize (H a Ha). destruct a; [contradiction|]. now rewrite H.
Qed.

Lemma mem_remove_first a s l : mem_sub a (remove_first s l) = true -> mem_sub a l = true.
Proof.
  unfold mem_sub. induction l as [|b l IH]; cbn [remove_first existsb]; [trivial|].
  destruct (sub_eqb b s); cbn [existsb]; intros H.
  - rewrite H. apply orb_true_r.
  - apply orb_true_iff in H as [H|H]; [now rewrite H|]. rewrite (IH H). apply orb_true_r.
Qed.

(* ---- waking the waiters of a name ---- *)
Lemma gots sc n cur woken : forall m,
  ms_owed m = map wpair woken -> NoDup (map w_id woken) -> get_data n (ms_data m) = Some cur ->
  mfold sc m (map (fun w => LGot (w_id w) n cur) woken) =
  Some (mkMS (ms_subs m) (ms_data m) (ms_tasks m) (ms_waiting m) []).
Proof.
  induction woken as [|w ws IH]; intros m Ho Hn Hd; cbn [map mfold].
  - destruct m as [a b c d o]. cbn in Ho. now subst o.
  - unfold mstep', owed_ok. rewrite Ho. cbn [map existsb wpair fst]. rewrite Nat.eqb_refl. cbn [orb].
    cbn [mstep]. rewrite Hd, Z.eqb_refl.
    cbn [map] in Hn. inversion Hn as [|? ? Hni Hnd]; subst.
    assert (Hf : filter (fun p : nat * nat => negb (Nat.eqb (fst p) (w_id w))) (map wpair (w :: ws)) = map wpair ws).
    { cbn [map filter wpair fst]. rewrite Nat.eqb_refl. cbn [negb].
      clear -Hni. induction ws as [|v ws IH]; [reflexivity|]. cbn [map filter wpair fst].
      destruct (Nat.eqb (w_id v) (w_id w)) eqn:E.
      - apply Nat.eqb_eq in E. exfalso. apply Hni. cbn [map]. now left.
      - cbn [negb]. f_equal. apply IH. intros H. apply Hni. cbn [map]. now right. }
    rewrite Ho, Hf. rewrite IH; [reflexivity|reflexivity|exact Hnd|exact Hd].
Qed.

Lemma filter_wpair (f : nat -> bool) ws :
  filter (fun p : nat * nat => f (snd p)) (map wpair ws) = map wpair (filter (fun w => f (w_name w)) ws).
Proof.
  induction ws as [|w ws IH]; [reflexivity|]. cbn [map filter]. unfold wpair at 1. cbn [snd].
  destruct (f (w_name w)); cbn [map]; now rewrite IH.
Qed.

Lemma NoDup_filter_ids (f : waiter -> bool) ws : NoDup (map w_id ws) -> NoDup (map w_id (filter f ws)).
Proof.
  induction ws as [|w ws IH]; intros Hnd; [constructor|]. cbn [map] in Hnd.
  inversion Hnd as [|? ? Hni Hnd']; subst. cbn [filter]. destruct (f w); [|now apply IH].
  cbn [map]. constructor; [|now apply IH]. intros Hin. apply Hni. apply in_map_iff in Hin as [v [Ev Hv]].
  apply filter_In in Hv as [Hv _]. apply in_map_iff. now exists v.
Qed.

(* ---- run_task against the monitor ---- *)
Lemma run_task_mon sc todo : forall tid name cur st m skipped cur0 pend,
  Rel sc st m -> WFw st ->
  TRelX sc st m tid (mkMT tid name cur0 (skipped ++ todo) pend false) ->
  match pend with Some r => apply_result r cur0 | None => cur0 end = cur ->
  skipped_ok (get_subs name (subs st)) skipped ->
  exists m', Rel sc (fst (run_task sc todo tid name cur st)) m' /\
             TRelX sc st m' tid (abs_task sc (snd (run_task sc todo tid name cur st))) /\
             WFw (fst (run_task sc todo tid name cur st)) /\
             tasks (fst (run_task sc todo tid name cur st)) = tasks st /\
             next_id (fst (run_task sc todo tid name cur st)) = next_id st /\
             t_id (snd (run_task sc todo tid name cur st)) = tid /\
             (t_wait (snd (run_task sc todo tid name cur st)) <> None -> t_done (snd (run_task sc todo tid name cur st)) = false).
Proof.
  induction todo as [|s rest IH]; intros tid name cur st m skipped cur0 pend HR HW HT Hcur Hsk.
  - cbn [run_task fst snd]. destruct HR as [Hfold Hsubs Hdata Hwait Howed]. destruct HW as [Hnd Hw].
    set (woken := filter (fun w => Nat.eqb (w_name w) name) (waiters st)).
    set (restw := filter (fun w => negb (Nat.eqb (w_name w) name)) (waiters st)).
    (* the LStored step *)
    pose (m1 := mkMS (ms_subs m) (set_data name cur (ms_data m))
                     (put_mt (mkMT tid name cur [] None true) (ms_tasks m))
                     (filter (fun p => negb (Nat.eqb (snd p) name)) (ms_waiting m))
                     (ms_owed m ++ filter (fun p => Nat.eqb (snd p) name) (ms_waiting m))).
    assert (S1 : mstep' sc m (LStored tid name cur) = Some m1).
    { unfold mstep', owed_ok. rewrite Howed. cbn [mstep]. rewrite (HT tid), Nat.eqb_refl.
      cbn [mt_done mt_name negb andb]. rewrite Nat.eqb_refl. cbn [andb].
      unfold mt_value. cbn [mt_pending mt_cur]. rewrite app_nil_r.
      replace (match pend with Some r => apply_result r cur0 | None => cur0 end) with cur.
      rewrite Z.eqb_refl. cbn [andb mt_rest].
      assert (Hsk' : all_skippable (get_subs name (ms_subs m)) skipped = true) by (rewrite Hsubs; now apply all_skippable_ok).
      rewrite Hsk'. reflexivity. }
    assert (Ew : filter (fun p : nat * nat => Nat.eqb (snd p) name) (map wpair (waiters st)) = map wpair woken)
      by (apply (filter_wpair (fun n => Nat.eqb n name))).
    assert (Er : filter (fun p : nat * nat => negb (Nat.eqb (snd p) name)) (map wpair (waiters st)) = map wpair restw)
      by (apply (filter_wpair (fun n => negb (Nat.eqb n name)))).
    assert (Hndw : NoDup (map w_id woken)) by (now apply NoDup_filter_ids).
    assert (G : mfold sc m1 (map (fun w => LGot (w_id w) name cur) woken) =
                Some (mkMS (ms_subs m1) (ms_data m1) (ms_tasks m1) (ms_waiting m1) [])).
    { apply gots; [|exact Hndw|].
      - unfold m1. cbn [ms_owed]. rewrite Howed, Hwait. cbn [app]. exact Ew.
      - unfold m1. cbn [ms_data]. apply get_set_data. }
    eexists. split; [|split; [|split; [|split; [|split; [|split]]]]].
    + constructor; cbn [log subs data waiters].
      * rewrite rev_app_distr, rev_involutive. cbn [rev]. rewrite <- app_assoc. cbn [app].
        rewrite mfold_app, Hfold. cbn [mfold]. rewrite S1. fold woken. exact G.
      * unfold m1. cbn [ms_subs]. exact Hsubs.
      * unfold m1. cbn [ms_data]. now rewrite Hdata.
      * unfold m1. cbn [ms_waiting]. rewrite Hwait. exact Er.
      * reflexivity.
    + intros tid'. unfold m1. cbn [ms_tasks]. rewrite find_put_mt. cbn [mt_id].
      destruct (Nat.eqb tid' tid) eqn:E; [reflexivity|]. specialize (HT tid'). now rewrite E in HT.
    + split; cbn [waiters next_id data].
      * now apply NoDup_filter_ids.
      * intros w Hin. apply filter_In in Hin as [Hin Hne]. destruct (Hw w Hin) as [Hlt Hnone]. split; [exact Hlt|].
        rewrite get_set_data_other; [exact Hnone|]. intros E. rewrite E, Nat.eqb_refl in Hne. discriminate.
    + reflexivity.
    + reflexivity.
    + reflexivity.
    + cbn [t_wait]. congruence.
  - cbn [run_task].
    destruct HR as [Hfold Hsubs Hdata Hwait Howed].
    set (current := get_subs name (subs st)) in *.
    (* is the callback awaited? *)
    assert (Hcase : (exists c w, s = Once c w /\ mem_sub s current = false) \/
                    match s with Once _ _ => mem_sub s current = true | Plain _ => True end).
    { destruct s as [c|c w]; [now right|]. destruct (mem_sub (Once c w) current) eqn:E; [now right|left; eauto]. }
    destruct Hcase as [(c & w & -> & Hnm)|Hmem].
    + (* skipped once-wrapper: no event *)
      fold current. rewrite Hnm.
      apply (IH tid name cur st m (skipped ++ [Once c w]) cur0 pend); try assumption.
      * now constructor.
      * now rewrite <- app_assoc.
      * unfold skipped_ok. apply Forall_app. split; [exact Hsk|]. constructor; [exact Hnm|constructor].
    + (* awaited *)
      set (subs1 := match s with
                    | Plain _ => subs st
                    | Once _ _ => set_subs name (remove_first s current) (subs st)
                    end).
      set (st2 := mkEst subs1 (data st) (tasks st) (waiters st) (now st) (next_id st) (LCalled tid s cur :: log st)).
      destruct (sc (sub_cb s)) as [k r] eqn:Esc.
      pose (mt1 := mkMT tid name cur rest (Some r) false).
      pose (m1 := mkMS (match s with Once _ _ => set_subs name (remove_first s current) (ms_subs m) | Plain _ => ms_subs m end)
                       (ms_data m) (put_mt mt1 (ms_tasks m)) (ms_waiting m) (ms_owed m)).
      assert (S1 : mstep' sc m (LCalled tid s cur) = Some m1).
      { unfold mstep', owed_ok. rewrite Howed. cbn [mstep]. rewrite (HT tid), Nat.eqb_refl.
        cbn [mt_done mt_name mt_rest].
        assert (Ecur : get_subs name (ms_subs m) = current) by (unfold current; now rewrite Hsubs). rewrite Ecur.
        rewrite (advance_skip s current skipped rest Hsk Hmem).
        unfold mt_value. cbn [mt_pending mt_cur]. rewrite Hcur, Z.eqb_refl. cbn [andb].
        rewrite Esc. cbn [snd]. destruct s as [c|c w]; [reflexivity|]. rewrite Hmem. reflexivity. }
      assert (HR2 : Rel sc st2 m1).
      { constructor; unfold st2, m1; cbn [log subs data waiters ms_subs ms_data ms_waiting ms_owed rev].
        - exact (mfold_snoc _ _ _ _ _ _ Hfold S1).
        - unfold subs1. rewrite Hsubs. now destruct s.
        - exact Hdata.
        - exact Hwait.
        - exact Howed. }
      assert (HW2 : WFw st2) by exact HW.
      assert (HT2 : TRelX sc st2 m1 tid (mkMT tid name cur ([] ++ rest) (Some r) false)).
      { intros tid'. unfold m1. cbn [ms_tasks app]. rewrite find_put_mt. cbn [mt_id mt1].
        destruct (Nat.eqb tid' tid) eqn:E; [reflexivity|]. specialize (HT tid'). rewrite E in HT. exact HT. }
      assert (Hproceed : match s with
                         | Plain _ => Some st
                         | Once _ _ => if mem_sub s current
                                       then Some (mkEst (set_subs name (remove_first s current) (subs st))
                                                        (data st) (tasks st) (waiters st) (now st) (next_id st) (log st))
                                       else None
                         end = Some (mkEst subs1 (data st) (tasks st) (waiters st) (now st) (next_id st) (log st))).
      { unfold subs1. destruct s as [c|c w]; [now destruct st|]. now rewrite Hmem. }
      rewrite Hproceed. cbn [subs data tasks waiters now next_id log]. fold st2.
      destruct k as [|k].
      * destruct (IH tid name (apply_result r cur) st2 m1 [] cur (Some r) HR2 HW2 HT2 eq_refl) as (m' & A & B & C & D & E & F & F2).
        { constructor. }
        exists m'. split; [exact A|]. split; [exact B|]. split; [exact C|]. split; [exact D|]. split; [exact E|split; [exact F|exact F2]].
      * cbn [fst snd]. exists m1. split; [exact HR2|]. split; [|split; [exact HW2|split; [reflexivity|split; [reflexivity|split; reflexivity]]]].
        unfold abs_task. cbn [t_id t_name t_cur t_todo t_wait t_done]. rewrite Esc. cbn [snd]. intros tid'. exact (HT2 tid').
Qed.

(* ---- timeouts ---- *)
Definition rm_ids (ids : list nat) (l : list (nat * nat)) : list (nat * nat) :=
  filter (fun p => negb (existsb (Nat.eqb (fst p)) ids)) l.

Lemma rm_cons a ids l : rm_ids ids (filter (fun p => negb (Nat.eqb (fst p) a)) l) = rm_ids (a :: ids) l.
Proof.
  unfold rm_ids. induction l as [|p l IH]; [reflexivity|]. cbn [filter existsb].
  destruct (Nat.eqb (fst p) a); cbn [negb orb filter]; [exact IH|].
  destruct (existsb (Nat.eqb (fst p)) ids); cbn [negb]; now rewrite IH.
Qed.

Lemma rm_absent a ids l : ~ In a (map fst l) -> rm_ids (a :: ids) l = rm_ids ids l.
Proof.
  unfold rm_ids. induction l as [|p l IH]; intros H; [reflexivity|]. cbn [filter existsb map] in *.
  destruct (Nat.eqb (fst p) a) eqn:E; [apply Nat.eqb_eq in E; exfalso; apply H; now left|].
  cbn [orb]. rewrite IH by (intros H'; apply H; now right). reflexivity.
Qed.

Lemma timeouts sc exp : forall m,
  (forall w, In w exp -> get_data (w_name w) (ms_data m) = None) -> ms_owed m = [] ->
  mfold sc m (map (fun w => LTimeout (w_id w) (w_name w)) exp) =
  Some (mkMS (ms_subs m) (ms_data m) (ms_tasks m) (rm_ids (map w_id exp) (ms_waiting m)) []).
Proof.
  induction exp as [|w ws IH]; intros m Hd Ho; cbn [map mfold].
  - unfold rm_ids. cbn [existsb negb]. destruct m as [a b c d o]. cbn in Ho |- *. subst o. f_equal. f_equal.
    induction d as [|p d IHd]; [reflexivity|]. cbn [filter]. now rewrite <- IHd.
  - unfold mstep', owed_ok. rewrite Ho. cbn [mstep]. rewrite (Hd w (or_introl eq_refl)).
    rewrite IH; cbn [ms_subs ms_data ms_tasks ms_waiting ms_owed].
    + now rewrite rm_cons.
    + intros v Hv. apply Hd. now right.
    + exact Ho.
Qed.

Lemma map_fst_wpair ws : map fst (map wpair ws) = map w_id ws.
Proof. induction ws as [|w ws IH]; [reflexivity|]. cbn [map wpair fst]. now rewrite IH. Qed.

Lemma rm_ids_cons ids p l :
  rm_ids ids (p :: l) = if negb (existsb (Nat.eqb (fst p)) ids) then p :: rm_ids ids l else rm_ids ids l.
Proof. reflexivity. Qed.

Lemma rm_expired (P : waiter -> bool) ws : NoDup (map w_id ws) ->
  rm_ids (map w_id (filter P ws)) (map wpair ws) = map wpair (filter (fun w => negb (P w)) ws).
Proof.
  induction ws as [|w ws IH]; intros Hnd; [reflexivity|]. cbn [map] in Hnd. inversion Hnd as [|? ? Hni Hnd']; subst.
  cbn [filter map]. rewrite rm_ids_cons. destruct (P w) eqn:Pw; cbn [negb map].
  - cbn [existsb wpair fst]. rewrite Nat.eqb_refl. cbn [orb negb].
    rewrite rm_absent by (now rewrite map_fst_wpair). now apply IH.
  - assert (E : existsb (Nat.eqb (fst (wpair w))) (map w_id (filter P ws)) = false).
    { apply not_true_is_false. intros H. apply existsb_exists in H as [i [Hi Ei]]. apply Nat.eqb_eq in Ei.
      cbn [wpair fst] in Ei. subst i. apply Hni. apply in_map_iff in Hi as [v [Ev Hv]].
      apply filter_In in Hv as [Hv _]. apply in_map_iff. now exists v. }
    rewrite E. cbn [negb]. f_equal. now apply IH.
Qed.

(* ---- the invariant ---- *)
Definition WFt (st : est) : Prop :=
  forall t, In t (tasks st) -> t_id t < next_id st /\ (t_wait t <> None -> t_done t = false).

Definition Inv (sc : script) (st : est) : Prop :=
  exists m, Rel sc st m /\ TRel sc st m /\ WFw st /\ WFt st.

Lemma find_task_fresh st : WFt st -> find_task (next_id st) (tasks st) = None.
Proof.
  intros H. destruct (find_task (next_id st) (tasks st)) as [t|] eqn:E; [|reflexivity].
  apply find_task_spec in E as [Hin Hid]. destruct (H t Hin) as [Hlt _]. lia.
Qed.

Lemma In_put_task t u l : In u (put_task t l) -> u = t \/ In u l.
Proof. unfold put_task. intros [<-|H]; [now left|]. apply filter_In in H as [H _]. now right. Qed.

Lemma NoDup_snoc (l : list nat) a : NoDup l -> ~ In a l -> NoDup (l ++ [a]).
Proof.
  induction l as [|b l IH]; intros Hl Ha; cbn [app]; [constructor; [intros []|constructor]|].
  inversion Hl as [|? ? Hb Hl']; subst. constructor.
  - intros H. apply in_app_iff in H as [H|[<-|[]]]; [now apply Hb|apply Ha; now left].
  - apply IH; [exact Hl'|]. intros H. apply Ha. now right.
Qed.

Lemma Inv_init sc : Inv sc einit.
Proof.
  exists m0. split; [|split; [|split]].
  - constructor; reflexivity.
  - intros tid. reflexivity.
  - split; [constructor|intros w []].
  - intros t [].
Qed.

(* an operation that logs one event and leaves tasks and waiters alone *)
Lemma Inv_one_event sc st m e m' st' :
  Rel sc st m -> mstep' sc m e = Some m' ->
  log st' = e :: log st -> ms_subs m' = subs st' -> ms_data m' = data st' ->
  ms_waiting m' = map wpair (waiters st') -> ms_owed m' = [] ->
  Rel sc st' m'.
Proof.
  intros HR S1 Hl H1 H2 H3 H4. constructor; try assumption.
  rewrite Hl. cbn [rev]. exact (mfold_snoc _ _ _ _ _ _ (r_fold _ _ _ HR) S1).
Qed.

Lemma finish_task sc st1 m' tid st2 t' :
  Rel sc st2 m' -> TRelX sc st1 m' tid (abs_task sc t') -> WFw st2 -> tasks st2 = tasks st1 ->
  t_id t' = tid -> (t_wait t' <> None -> t_done t' = false) -> tid < next_id st2 ->
  (forall t, In t (tasks st1) -> t_id t < next_id st2 /\ (t_wait t <> None -> t_done t = false)) ->
  Inv sc (with_tasks st2 (put_task t' (tasks st2))).
Proof.
  intros HR HT HW Ht Hid Hsus Hlt Hold. exists m'. split; [|split; [|split]].
  - destruct HR. constructor; assumption.
  - intros tid'. cbn [with_tasks tasks]. rewrite find_put_task, Hid, Ht, (HT tid'). now destruct (Nat.eqb tid' tid).
  - exact HW.
  - intros t Hin. cbn [with_tasks tasks next_id] in *. apply In_put_task in Hin as [->|Hin].
    + split; [now rewrite Hid|exact Hsus].
    + rewrite Ht in Hin. now apply Hold.
Qed.

Lemma Inv_step sc st op : Inv sc st -> Inv sc (estep sc st op).
Proof.
  intros (m & HR & HT & HW & HWt). pose proof HR as HR0. destruct HR as [Hfold Hsubs Hdata Hwait Howed].
  destruct op as [n c|n c|n s|n x|tid|n timeout|dt]; cbn [estep].
  - (* Subscribe *)
    pose (m1 := mkMS (set_subs n (get_subs n (ms_subs m) ++ [Plain c]) (ms_subs m)) (ms_data m) (ms_tasks m) (ms_waiting m) (ms_owed m)).
    assert (S1 : mstep' sc m (LSub n (Plain c)) = Some m1) by (unfold mstep', owed_ok; rewrite Howed; reflexivity).
    exists m1. split; [|split; [|split]]; [|exact HT|exact HW|exact HWt].
    apply (Inv_one_event sc st m _ m1 _ HR0 S1); cbn [log subs data waiters m1 ms_subs ms_data ms_waiting ms_owed];
      [reflexivity|now rewrite Hsubs|exact Hdata|exact Hwait|exact Howed].
  - (* SubscribeOnce *)
    pose (m1 := mkMS (set_subs n (get_subs n (ms_subs m) ++ [Once c (next_id st)]) (ms_subs m)) (ms_data m) (ms_tasks m) (ms_waiting m) (ms_owed m)).
    assert (S1 : mstep' sc m (LSub n (Once c (next_id st))) = Some m1) by (unfold mstep', owed_ok; rewrite Howed; reflexivity).
    exists m1. split; [|split; [|split]]; [|exact HT| |].
    + apply (Inv_one_event sc st m _ m1 _ HR0 S1); cbn [log subs data waiters m1 ms_subs ms_data ms_waiting ms_owed];
        [reflexivity|now rewrite Hsubs|exact Hdata|exact Hwait|exact Howed].
    + destruct HW as [Hnd Hw]. split; [exact Hnd|]. intros w Hin. destruct (Hw w Hin). cbn [next_id data]. split; [lia|assumption].
    + intros t Hin. destruct (HWt t Hin). cbn [next_id]. split; [lia|assumption].
  - (* Unsubscribe *)
    set (found := mem_sub s (get_subs n (subs st))).
    pose (m1 := mkMS (if found then set_subs n (remove_first s (get_subs n (ms_subs m))) (ms_subs m) else ms_subs m)
                     (ms_data m) (ms_tasks m) (ms_waiting m) (ms_owed m)).
    assert (S1 : mstep' sc m (LUnsub n s found) = Some m1).
    { unfold mstep', owed_ok. rewrite Howed. cbn [mstep].
      assert (E : mem_sub s (get_subs n (ms_subs m)) = found) by (unfold found; now rewrite Hsubs).
      rewrite E, Bool.eqb_reflx. reflexivity. }
    exists m1. split; [|split; [|split]]; [|exact HT|exact HW|exact HWt].
    apply (Inv_one_event sc st m _ m1 _ HR0 S1); cbn [log subs data waiters m1 ms_subs ms_data ms_waiting ms_owed];
      [reflexivity|now rewrite Hsubs|exact Hdata|exact Hwait|exact Howed].
  - (* Spawn *)
    set (tid := next_id st). set (snap := get_subs n (subs st)).
    set (st1 := mkEst (subs st) (data st) (tasks st) (waiters st) (now st) (S tid) (LSpawn tid n x snap :: log st)).
    pose (m1 := mkMS (ms_subs m) (ms_data m) (put_mt (mkMT tid n x snap None false) (ms_tasks m)) (ms_waiting m) (ms_owed m)).
    assert (S1 : mstep' sc m (LSpawn tid n x snap) = Some m1).
    { unfold mstep', owed_ok. rewrite Howed. cbn [mstep].
      assert (E : get_subs n (ms_subs m) = snap) by (unfold snap; now rewrite Hsubs). rewrite E, subs_eqb_refl.
      rewrite (HT tid). unfold tid. rewrite (find_task_fresh st HWt). reflexivity. }
    assert (HR1 : Rel sc st1 m1).
    { eapply (Inv_one_event sc st m _ m1 st1 HR0 S1); try reflexivity; assumption. }
    assert (HW1 : WFw st1).
    { destruct HW as [Hnd Hw]. split; [exact Hnd|]. intros w Hin. destruct (Hw w Hin). cbn. split; [unfold tid; lia|assumption]. }
    assert (HT1 : TRelX sc st1 m1 tid (mkMT tid n x ([] ++ snap) None false)).
    { intros tid'. unfold m1. cbn [ms_tasks app]. rewrite find_put_mt. cbn [mt_id].
      destruct (Nat.eqb tid' tid); [reflexivity|exact (HT tid')]. }
    destruct (run_task_mon sc snap tid n x st1 m1 [] x None HR1 HW1 HT1 eq_refl ltac:(constructor))
      as (m' & A & B & C & D & E & F & F2).
    destruct (run_task sc snap tid n x st1) as [st2 t'] eqn:Ert. cbn [fst snd] in *.
    apply (finish_task sc st1 m' tid st2 t'); try assumption.
    + rewrite E. cbn. unfold tid. lia.
    + intros t Hin. destruct (HWt t Hin) as [Hlt Hs]. rewrite E. cbn. split; [unfold tid; lia|exact Hs].
  - (* Resume *)
    destruct (find_task tid (tasks st)) as [t|] eqn:Eft; [|exists m; split; [exact HR0|split; [exact HT|split; [exact HW|exact HWt]]]].
    destruct (find_task_spec _ _ _ Eft) as [Hin Hid]. destruct (HWt t Hin) as [Hlt Hsus].
    destruct (t_wait t) as [[k s]|] eqn:Ew; [|exists m; split; [exact HR0|split; [exact HT|split; [exact HW|exact HWt]]]].
    specialize (Hsus ltac:(discriminate)).
    assert (Habs : abs_task sc t = mkMT tid (t_name t) (t_cur t) (t_todo t) (Some (snd (sc (sub_cb s)))) false).
    { unfold abs_task. now rewrite Ew, Hid, Hsus. }
    assert (Hfinal : forall r, r = snd (sc (sub_cb s)) ->
      Inv sc (let '(st2, t') := run_task sc (t_todo t) tid (t_name t) (apply_result r (t_cur t)) st in
              with_tasks st2 (put_task t' (tasks st2)))).
    { intros r Er.
      assert (HT1 : TRelX sc st m tid (mkMT tid (t_name t) (t_cur t) ([] ++ t_todo t) (Some r) false)).
      { intros tid'. rewrite (HT tid'). destruct (Nat.eqb tid' tid) eqn:E; [|reflexivity].
        apply Nat.eqb_eq in E. subst tid'. rewrite Eft. cbn [option_map app]. now rewrite Habs, Er. }
      destruct (run_task_mon sc (t_todo t) tid (t_name t) (apply_result r (t_cur t)) st m [] (t_cur t) (Some r) HR0 HW HT1 eq_refl ltac:(constructor))
        as (m' & A & B & C & D & E & F & F2).
      destruct (run_task sc (t_todo t) tid (t_name t) (apply_result r (t_cur t)) st) as [st2 t'] eqn:Ert. cbn [fst snd] in *.
      apply (finish_task sc st m' tid st2 t'); try assumption.
      - rewrite E. lia.
      - intros u Hu. rewrite E. now apply HWt. }
    destruct k as [|[|k]].
    + destruct (sc (sub_cb s)) as [k0 r] eqn:Esc. now apply Hfinal.
    + destruct (sc (sub_cb s)) as [k0 r] eqn:Esc. now apply Hfinal.
    + (* one more suspension of the same callback: no event *)
      exists m. split; [|split; [|split]].
      * constructor; assumption.
      * intros tid'. cbn [with_tasks tasks]. rewrite find_put_task. cbn [t_id].
        rewrite (HT tid'). destruct (Nat.eqb tid' tid) eqn:E; [|reflexivity].
        apply Nat.eqb_eq in E. subst tid'. rewrite Eft. cbn [option_map]. rewrite Habs. reflexivity.
      * exact HW.
      * intros u Hu. cbn [with_tasks tasks next_id] in *. apply In_put_task in Hu as [->|Hu]; [|now apply HWt].
        cbn [t_id t_wait t_done]. split; [lia|reflexivity].
  - (* Get *)
    destruct (get_data n (data st)) as [x|] eqn:Ed.
    + pose (m1 := mkMS (ms_subs m) (ms_data m) (ms_tasks m) (ms_waiting m)
                       (filter (fun p : nat * nat => negb (Nat.eqb (fst p) (next_id st))) (ms_owed m))).
      assert (S1 : mstep' sc m (LGot (next_id st) n x) = Some m1).
      { unfold mstep', owed_ok. rewrite Howed. cbn [mstep]. rewrite Hdata, Ed, Z.eqb_refl. unfold m1. now rewrite Howed, Hdata. }
      exists m1. split; [|split; [|split]]; [|exact HT| |].
      * apply (Inv_one_event sc st m _ m1 _ HR0 S1); cbn [log subs data waiters m1 ms_subs ms_data ms_waiting ms_owed];
          [reflexivity|exact Hsubs|exact Hdata|exact Hwait|now rewrite Howed].
      * destruct HW as [Hnd Hw]. split; [exact Hnd|]. intros w Hin. destruct (Hw w Hin). cbn [next_id data]. split; [lia|assumption].
      * intros t Hin. destruct (HWt t Hin). cbn [next_id]. split; [lia|assumption].
    + pose (m1 := mkMS (ms_subs m) (ms_data m) (ms_tasks m) (ms_waiting m ++ [(next_id st, n)]) (ms_owed m)).
      assert (S1 : mstep' sc m (LWait (next_id st) n) = Some m1).
      { unfold mstep', owed_ok. rewrite Howed. cbn [mstep]. rewrite Hdata, Ed. unfold m1. now rewrite Howed, Hdata. }
      exists m1. split; [|split; [|split]]; [|exact HT| |].
      * apply (Inv_one_event sc st m _ m1 _ HR0 S1); cbn [log subs data waiters m1 ms_subs ms_data ms_waiting ms_owed];
          [reflexivity|exact Hsubs|exact Hdata| |exact Howed].
        rewrite Hwait, map_app. reflexivity.
      * destruct HW as [Hnd Hw]. split.
        -- cbn [waiters]. rewrite map_app. cbn [map w_id]. apply NoDup_snoc; [exact Hnd|].
           intros Hin. apply in_map_iff in Hin as [v [Ev Hv]]. destruct (Hw v Hv). lia.
        -- intros w Hin. cbn [waiters next_id data] in *. apply in_app_iff in Hin as [Hin|[<-|[]]].
           ++ destruct (Hw w Hin). split; [lia|assumption].
           ++ cbn [w_id w_name]. split; [lia|exact Ed].
      * intros t Hin. destruct (HWt t Hin). cbn [next_id]. split; [lia|assumption].
  - (* Advance *)
    set (t' := (now st + Z.max 0 dt)%Z).
    set (P := fun w => match w_deadline w with Some d => (d <=? t')%Z | None => false end).
    assert (Erest : filter (fun w => match w_deadline w with Some d => negb (d <=? t')%Z | None => true end) (waiters st)
                    = filter (fun w => negb (P w)) (waiters st)).
    { apply filter_ext. intros w. unfold P. now destruct (w_deadline w). }
    rewrite Erest. fold P.
    destruct HW as [Hnd Hw].
    eexists. split; [|split; [|split]].
    + constructor; cbn [log subs data waiters].
      * rewrite rev_app_distr, rev_involutive, mfold_app, Hfold.
        apply timeouts; [|exact Howed].
        intros w Hin. apply filter_In in Hin as [Hin _]. rewrite Hdata. now destruct (Hw w Hin).
      * exact Hsubs.
      * exact Hdata.
      * cbn [ms_waiting]. rewrite Hwait. now apply rm_expired.
      * reflexivity.
    + exact HT.
    + split; [now apply NoDup_filter_ids|]. intros w Hin. apply filter_In in Hin as [Hin _]. cbn [next_id data]. now apply Hw.
    + exact HWt.
Qed.

Theorem C13_monitor : C13_monitor_statement.
Proof.
  intros sc ops. unfold P13. rewrite mrun_mfold. fold m0.
  destruct (erun_ind sc (Inv sc) (Inv_init sc) (fun st op => Inv_step sc st op) ops) as (m & HR & _).
  now rewrite (r_fold _ _ _ HR), (r_owed _ _ _ HR).
Qed.

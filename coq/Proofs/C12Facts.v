From Coq Require Import NArith List Bool Arith Lia ZArith ZifyBool ZifyNat ZifyN.
From PV Require Import Generated.Tables Model.Shutdown Spec.C12.
Import ListNotations.

Theorem C12_cancel_all : C12_cancel_all_statement.
Proof.
  intros walk. unfold running. induction walk as [|b r IH]; [reflexivity|]. destruct b; cbn [cancel_tasks filter]; exact IH.
Qed.

Theorem C12_terminates : C12_statement.
Proof.
  intros walk late stall s. unfold P12, close. rewrite C12_cancel_all. cbn [Nat.add]. cbn [r_returns r_seconds r_left r_writer_closed orb andb negb].
  rewrite !orb_true_r, !andb_false_r. cbn [andb negb]. rewrite Nat.eqb_refl, !andb_true_r.
  assert (Hw : (close_wait stall <= 10)%N).
  { unfold close_wait, writer_timeout. destruct stall as [d|]; lia. }
  unfold drain_bound, reader_timeout, writer_timeout.
  destruct (s_connected s); cbn [andb];
    destruct (negb (Nat.eqb (s_queued s) 0 && Nat.eqb (s_unread s) 0)); try destruct (s_talking s); lia.
Qed.

(* each pinned behaviour violates the property in some reachable state *)
Theorem C12_pinned_join_refuted :          (* disconnected, one queued request *)
  P12 (close false true true true true true [] 0 (Some 0%N) (mkCS false 1 0 false true 0 [] [])) = false.
Proof. vm_compute. reflexivity. Qed.
Theorem C12_pinned_disconnected_refuted :  (* closing while disconnected leaves device tasks *)
  P12 (close true false true true true true [] 0 (Some 0%N) (mkCS false 0 0 false true 2 [] [])) = false.
Proof. vm_compute. reflexivity. Qed.
Theorem C12_pinned_merge_refuted :         (* mixer 0 and thermostat 0 *)
  P12 (close true true false true true true [] 0 (Some 0%N) (mkCS true 0 0 false false 0 [(0, 1); (4, 1)]%nat [(0, 1)]%nat)) = false.
Proof. vm_compute. reflexivity. Qed.
Theorem C12_pinned_cancel_refuted :        (* a finished reconnect attempt met before its successor *)
  P12 (close true true true false true true [false; true] 0 (Some 0%N) (mkCS false 0 0 false true 0 [] [])) = false.
Proof. vm_compute. reflexivity. Qed.
Theorem C12_pinned_recancel_refuted :      (* a loss detected as close() is issued schedules one more reconnect attempt *)
  P12 (close true true true true false true [] 1 (Some 0%N) (mkCS true 1 0 false true 0 [] [])) = false.
Proof. vm_compute. reflexivity. Qed.
Theorem C12_pinned_closewait_refuted :     (* the transport never confirms that it is closed: the time-out escapes, close() raises *)
  P12 (close true true true true true false [] 0 None (mkCS true 0 0 false false 1 [] [])) = false.
Proof. vm_compute. reflexivity. Qed.
(* ... while a transport that confirms within the time-out is no problem even then, and the repaired close() needs at most
   the 10 s of the time-out more *)
Theorem C12_closewait_in_time : forall d s, (d < 10)%N ->
  close true true true true true false [] 0 (Some d) s = close true true true true true true [] 0 (Some d) s.
Proof.
  intros d s H. unfold close, confirms_in_time, writer_timeout. replace (d <? 10)%N with true by lia. now rewrite !andb_false_r.
Qed.

From Coq Require Import NArith List Bool Arith Lia ZArith ZifyBool ZifyNat ZifyN.
From PV Require Import Generated.Tables Model.Shutdown Spec.C12.
Import ListNotations.

Theorem C12_cancel_all : C12_cancel_all_statement.
Proof.
  intros walk. unfold running. induction walk as [|b r IH]; [reflexivity|]. destruct b; cbn [cancel_tasks filter]; exact IH.
Qed.

Theorem C12_terminates : C12_statement.
Proof.
  intros walk late s. unfold P12, close. rewrite C12_cancel_all. cbn [Nat.add]. cbn [r_returns r_seconds r_left r_writer_closed orb andb].
  rewrite !orb_true_r. cbn [andb]. rewrite Nat.eqb_refl, !andb_true_r.
  unfold drain_bound, reader_timeout, writer_timeout.
  destruct (s_connected s && negb (Nat.eqb (s_queued s) 0 && Nat.eqb (s_unread s) 0)); [|reflexivity].
  destruct (s_connected s && s_talking s); lia.
Qed.

(* each pinned behaviour violates the property in some reachable state *)
Theorem C12_pinned_join_refuted :          (* disconnected, one queued request *)
  P12 (close false true true true true [] 0 (mkCS false 1 0 false true 0 [] [])) = false.
Proof. vm_compute. reflexivity. Qed.
Theorem C12_pinned_disconnected_refuted :  (* closing while disconnected leaves device tasks *)
  P12 (close true false true true true [] 0 (mkCS false 0 0 false true 2 [] [])) = false.
Proof. vm_compute. reflexivity. Qed.
Theorem C12_pinned_merge_refuted :         (* mixer 0 and thermostat 0 *)
  P12 (close true true false true true [] 0 (mkCS true 0 0 false false 0 [(0, 1); (4, 1)]%nat [(0, 1)]%nat)) = false.
Proof. vm_compute. reflexivity. Qed.
Theorem C12_pinned_cancel_refuted :        (* a finished reconnect attempt met before its successor *)
  P12 (close true true true false true [false; true] 0 (mkCS false 0 0 false true 0 [] [])) = false.
Proof. vm_compute. reflexivity. Qed.
Theorem C12_pinned_recancel_refuted :      (* a loss detected as close() is issued schedules one more reconnect attempt *)
  P12 (close true true true true false [] 1 (mkCS true 1 0 false true 0 [] [])) = false.
Proof. vm_compute. reflexivity. Qed.

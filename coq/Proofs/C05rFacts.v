(* C05 (regulator data): dec_regdata recovers every admissible entry list from its wire layout. *)
From Coq Require Import NArith ZArith List Bool Arith Lia ZifyBool ZifyNat ZifyN.
From PV Require Import Lib.Bytes Generated.Tables Model.Versions Model.DataTypes Model.SensorData Model.OtherKinds
  Spec.C19 Proofs.C19Facts Spec.C05s Proofs.C05sFacts.
From PV Require Import Spec.C05r.
Import ListNotations.
Open Scope N_scope.

Lemma byte_of_bits_testbit bits : forall k, (k < length bits)%nat ->
  N.testbit (byte_of_bits bits) (N.of_nat k) = nth k bits false.
Proof.
  induction bits as [|b bits IH]; intros k Hk; cbn [length] in Hk; [lia|].
  cbn [byte_of_bits fold_right]. fold (byte_of_bits bits). destruct k as [|k].
  - cbn [nth N.of_nat]. apply N.testbit_0_r.
  - rewrite Nat2N.inj_succ, N.testbit_succ_r. cbn [nth]. apply IH. lia.
Qed.

Lemma dval_eqb_eq a b : dval_eqb a b = true -> a = b.
Proof.
  destruct a, b; cbn [dval_eqb]; intros H; try discriminate; try reflexivity.
  - apply Z.eqb_eq in H. now subst.
  - apply N.eqb_eq in H. now subst.
  - apply list_eqb_N_eq in H. now subst.
  - apply Bool.eqb_prop in H. now subst.
Qed.

(* a non-bit admissible entry unpacks from its packed form *)
Lemma unpack_packed t v rest :
  t <> DTBit -> match t with DTUndefined => v = DNone | _ => representable t v = true end ->
  unpack t 0 (packed t v ++ rest) = Some (v, length (packed t v)).
Proof.
  intros Hnb Hok. destruct t; try contradiction.
  1:{ subst v. reflexivity. }
  all: destruct (C19_fixed _ _ rest 0 Hok) as (p & v' & sz & Hp & Hu & HP);
    unfold packed; rewrite Hp, Hu; unfold P19 in HP; apply andb_prop in HP as [HP _]; apply andb_prop in HP as [Hv Hs];
    apply dval_eqb_eq in Hv; apply Nat.eqb_eq in Hs; now subst.
Qed.

Definition bit_of (e : rentry) : bool := match re_val e with DBool b => b | _ => false end.

(* the first byte of an encoding that starts with pending flags carries them *)
Lemma enc_first l : forall bits, bits <> [] -> (length bits < 8)%nat ->
  exists B tl, enc_entries bits l = B :: tl /\
               forall k, (k < length bits)%nat -> N.testbit B (N.of_nat k) = nth k bits false.
Proof.
  induction l as [|e r IH]; intros bits Hne Hlen.
  - cbn [enc_entries]. destruct bits as [|b bits]; [contradiction|]. cbn [flush].
    eexists _, []. split; [reflexivity|]. intros k Hk. now apply byte_of_bits_testbit.
  - cbn [enc_entries].
    assert (Hflush : forall x, exists B tl, flush bits ++ x = B :: tl /\
              forall k, (k < length bits)%nat -> N.testbit B (N.of_nat k) = nth k bits false).
    { intros x. destruct bits as [|b bits]; [contradiction|]. cbn [flush app].
      eexists _, _. split; [reflexivity|]. intros k Hk. now apply byte_of_bits_testbit. }
    destruct (ty_of e); try apply Hflush.
    fold (bit_of e). set (bits' := bits ++ [bit_of e]).
    assert (Hl' : length bits' = S (length bits)) by (unfold bits'; rewrite app_length; cbn [length]; lia).
    destruct (Nat.eqb_spec (length bits') 8) as [E8|N8].
    + eexists _, _. split; [reflexivity|]. intros k Hk.
      rewrite byte_of_bits_testbit by lia. unfold bits'. now rewrite app_nth1.
    + destruct (IH bits') as (B & tl & EB & HB).
      * unfold bits'. now destruct bits.
      * lia.
      * exists B, tl. split; [exact EB|]. intros k Hk. rewrite HB by lia. unfold bits'. now rewrite app_nth1.
Qed.

Definition schema_of (l : list rentry) : list (N * N) := map (fun e => (re_id e, re_code e)) l.
Definition vals_of (l : list rentry) : list (N * dval) := map (fun e => (re_id e, re_val e)) l.

Lemma dec_entries l : forall bits m off rest,
  (length bits < 8)%nat -> forallb entry_ok l = true ->
  skipn off m = enc_entries bits l ++ rest ->
  dec_regdata m off (N.of_nat (length bits)) (schema_of l) = Some (vals_of l).
Proof.
  induction l as [|e r IH]; intros bits m off rest Hlen Hok H; [reflexivity|].
  cbn [forallb] in Hok. apply andb_prop in Hok as [He Hr].
  cbn [schema_of vals_of map dec_regdata]. fold (schema_of r). fold (vals_of r).
  unfold entry_ok in He. cbn [enc_entries] in H. unfold ty_of in H.
  destruct (nth_error data_types (N.to_nat (re_code e))) as [t|] eqn:Et; [|discriminate He].
  destruct (match t with DTBit => true | _ => false end) eqn:Ebit.
  - (* a flag *)
    destruct t; try discriminate Ebit. clear Ebit.
    destruct (re_val e) as [| | | |b] eqn:Ev; try discriminate He.
    cbn [negb andb]. set (bits' := bits ++ [b]) in *.
    assert (Hl' : length bits' = S (length bits)) by (unfold bits'; rewrite app_length; cbn [length]; lia).
    assert (Hb : nth (length bits) bits' false = b) by (unfold bits'; now rewrite nth_middle).
    destruct (Nat.eqb_spec (length bits') 8) as [E8|N8].
    + rewrite H. cbn [app unpack]. rewrite byte_of_bits_testbit by lia. rewrite Hb.
      replace (N.of_nat (length bits) =? 7) with true by lia.
      unfold bit_next. replace (N.of_nat (length bits) =? 7) with true by lia.
      assert (H1 : skipn (off + 1) m = enc_entries [] r ++ rest) by (apply (skipn_split _ _ [_] _ 1%nat H); reflexivity).
      change 0 with (N.of_nat (@length bool [])).
      rewrite (IH [] m (off + 1)%nat rest ltac:(cbn; lia) Hr H1). reflexivity.
    + destruct (enc_first r bits') as (B & tl & EB & HB); [unfold bits'; now destruct bits|lia|].
      rewrite H, EB. cbn [app unpack]. rewrite HB by lia. rewrite Hb.
      replace (N.of_nat (length bits) =? 7) with false by lia.
      unfold bit_next. replace (N.of_nat (length bits) =? 7) with false by lia.
      replace (N.of_nat (length bits) + 1) with (N.of_nat (length bits')) by lia.
      replace (off + 0)%nat with off by lia.
      rewrite (IH bits' m off rest ltac:(lia) Hr H). reflexivity.
  - (* any other type: starts on a fresh byte *)
    assert (Hnb : t <> DTBit) by (intros ->; discriminate Ebit).
    assert (Hty : match t with DTUndefined => re_val e = DNone | _ => representable t (re_val e) = true end).
    { destruct t; try exact He; try contradiction. destruct (re_val e); try discriminate He. reflexivity. }
    assert (Henc : skipn off m = flush bits ++ packed t (re_val e) ++ enc_entries [] r ++ rest).
    { rewrite H. destruct t; try contradiction; now rewrite <- !app_assoc. }
    clear H. cbn [negb andb].
    set (p := packed t (re_val e)) in *.
    assert (Hstep : exists off1, (if 0 <? N.of_nat (length bits) then S off else off) = off1 /\
                                 skipn off1 m = p ++ enc_entries [] r ++ rest).
    { destruct bits as [|b0 bits]; cbn [length flush app] in *.
      - exists off. split; [reflexivity|exact Henc].
      - exists (S off). split; [replace (0 <? N.of_nat (S (length bits))) with true by lia; reflexivity|].
        replace (S off) with (off + 1)%nat by lia. apply (skipn_split _ _ [_] _ 1%nat Henc). reflexivity. }
    destruct Hstep as (off1 & Eoff & H1). rewrite Eoff.
    replace (if 0 <? N.of_nat (length bits) then 0 else N.of_nat (length bits)) with 0
      by (destruct (length bits); cbn; lia).
    rewrite H1. unfold p. rewrite (unpack_packed t (re_val e) _ Hnb Hty). fold p.
    pose proof (skipn_split _ _ _ _ _ H1 eq_refl) as H2.
    change 0 with (N.of_nat (@length bool [])).
    rewrite (IH [] m (off1 + length p)%nat rest ltac:(cbn; lia) Hr H2). reflexivity.
Qed.

Theorem C05_regdata_body : C05_regdata_body_statement.
Proof.
  intros pre l trailing Hok.
  change 0 with (N.of_nat (@length bool [])).
  apply (dec_entries l [] _ _ trailing); [cbn; lia|exact Hok|].
  rewrite skipn_app_exact by reflexivity. reflexivity.
Qed.

Theorem C05_regdata : C05_regdata_statement.
Proof.
  intros b0 b1 versions l trailing Hn Hv Hok Hne.
  fold (enc_versions versions).
  set (m := _ ++ _).
  assert (H0 : skipn 0 m = [b0] ++ [b1] ++ [0] ++ [1] ++ [N.of_nat (length versions)] ++ enc_versions versions ++
                           enc_entries [] l ++ trailing) by reflexivity.
  pose proof (skipn_split _ _ _ _ 1%nat H0 eq_refl) as H1.
  pose proof (skipn_split _ _ _ _ 1%nat H1 eq_refl) as H2.
  pose proof (skipn_split _ _ _ _ 1%nat H2 eq_refl) as H3.
  pose proof (skipn_split _ _ _ _ 1%nat H3 eq_refl) as H4.
  cbn [Nat.add] in H2, H3, H4.
  unfold decode_regdata. rewrite (byte_at_skipn _ _ _ _ H2), (byte_at_skipn _ _ _ _ H3). cbn [N.eqb Pos.eqb andb negb].
  destruct (dec_frame_versions_enc _ _ _ _ Hn Hv H4) as [E5 H5]. rewrite E5.
  destruct l as [|e r]; [contradiction|].
  change (map (fun e0 => (re_id e0, re_code e0)) (e :: r)) with ((re_id e, re_code e) :: map (fun e0 => (re_id e0, re_code e0)) r).
  change ((re_id e, re_code e) :: map (fun e0 => (re_id e0, re_code e0)) r) with (schema_of (e :: r)).
  pose proof (dec_entries (e :: r) [] m _ trailing ltac:(cbn; lia) Hok H5) as Hd.
  cbn [schema_of map length N.of_nat] in Hd |- *. rewrite Hd. reflexivity.
Qed.

From Coq Require Import ZArith List Bool Lia.
From PV Require Import Model.ParamSet Model.ParamSetHop Spec.C08 Proofs.ParamFacts.
Import ListNotations.
Open Scope Z_scope.

Lemma run_reports tracking during : forall s,
  run tracking s (map Report during) = (blanks during, fold_left upd during s).
Proof.
  induction during as [|t r IH]; intros s; [reflexivity|].
  cbn [map run step fold_left blanks]. fold (upd s t). rewrite IH. reflexivity.
Qed.

Lemma run_app tracking a : forall s b,
  run tracking s (a ++ b) =
  let '(oa, sa) := run tracking s a in let '(ob, sb) := run tracking sa b in (oa ++ ob, sb).
Proof.
  induction a as [|e a IH]; intros s b.
  - cbn [app run]. destruct (run tracking s b). reflexivity.
  - cbn [app run]. destruct (step tracking s e) as [s1 o]. rewrite IH.
    destruct (run tracking s1 a) as [oa sa]. destruct (run tracking sa b) as [ob sb]. reflexivity.
Qed.

(* with the value read before the suspension, the step interleaved with reports is the plain step followed by the reports *)
Lemma attempt_hop_early tracking s during :
  attempt_hop true tracking s during = let '(s1, o) := attempt tracking s in (fold_left upd during s1, o).
Proof.
  unfold attempt_hop, attempt. destruct (negb (pending s)); [reflexivity|]. destruct (left s); reflexivity.
Qed.

Lemma run_hop_early tracking evs : forall s, run_hop true tracking s evs = run tracking s (flatten evs).
Proof.
  induction evs as [|e rest IH]; intros s; [reflexivity|].
  destruct e as [during|t].
  - cbn [run_hop flatten flat_map]. change (flat_map _ rest) with (flatten rest).
    cbn [app run step].
    destruct (ph s).
    + rewrite attempt_hop_early. destruct (attempt tracking s) as [s1 o]. rewrite run_app, run_reports, IH.
      destruct (run tracking (fold_left upd during s1) (flatten rest)) as [os s2]. reflexivity.
    + rewrite run_app, run_reports, IH. destruct (run tracking (fold_left upd during s) (flatten rest)) as [os s2]. reflexivity.
  - cbn [run_hop flatten flat_map]. change (flat_map _ rest) with (flatten rest). cbn [app run step]. fold (upd s t).
    rewrite IH. destruct (run tracking (upd s t) (flatten rest)) as [os s2]. reflexivity.
Qed.

Theorem C08_hop_refines : C08_hop_refines_statement.
Proof.
  intros tracking t req retries during0 evs. unfold run_set_hop, run_set, start_hop, start.
  destruct ((req <? tlo t) || (thi t <? req)).
  - rewrite run_app, run_reports, run_hop_early. destruct (run tracking _ (flatten evs)) as [os s]. reflexivity.
  - destruct (req =? tv t).
    + rewrite run_app, run_reports, run_hop_early. destruct (run tracking _ (flatten evs)) as [os s]. reflexivity.
    + rewrite attempt_hop_early. destruct (attempt tracking _) as [s1 o]. rewrite run_app, run_reports, run_hop_early.
      destruct (run tracking _ (flatten evs)) as [os s]. reflexivity.
Qed.

Theorem C08_hop : C08_hop_statement.
Proof.
  intros tracking t req retries during0 evs Hr Hne. rewrite C08_hop_refines. now apply C08_all_histories.
Qed.

(* reading the value after the suspension: a stale report handled in the gap makes the request carry the OLD value *)
Theorem C08_hop_late_refuted :
  let t := mkTriple 50 0 100 in
  fst (run_set_hop false (fun _ => true) t 60 2 [t] []) = [[OSet 50]; []] /\
  P08 (fun _ => true) t 60 2 (Report t :: flatten []) (fst (run_set_hop false (fun _ => true) t 60 2 [t] [])) = false.
Proof. vm_compute. split; reflexivity. Qed.

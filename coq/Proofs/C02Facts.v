From Coq Require Import NArith ZArith List Bool Lia Arith ZifyBool ZifyNat ZifyN.
From PV Require Import Lib.Bytes Generated.Tables Model.Frame Model.Schedule Model.Requests Spec.Envelope Spec.C02.
Import ListNotations.
Ltac Zify.zify_post_hook ::= Z.to_euclidean_division_equations.
Open Scope N_scope.

Lemma tx_ok_spec f : tx_ok f = true ->
  f_kind f < 256 /\ f_rcpt f < 256 /\ f_sender f < 256 /\ f_etype f < 256 /\ f_ever f < 256 /\
  Bytes (f_payload f) /\ N.of_nat (length (f_payload f)) < 65526.
Proof.
  unfold tx_ok, byteb. rewrite !andb_true_iff. intros [[[[[[? ?] ?] ?] ?] Hp] ?].
  apply bytesb_Bytes in Hp. repeat split; try lia. exact Hp.
Qed.

Lemma frame_bytes_tx f : tx_ok f = true -> frame_bytes f = Some (enc f).
Proof.
  intros W. pose proof (tx_ok_spec f W) as (Hk & Hr & Hs & Ht & Hv & Hp & Hl).
  unfold frame_bytes, pack_header, frame_length, header_size, byteb.
  replace (7 + 1 + N.of_nat (length (f_payload f)) + 1 + 1) with (10 + N.of_nat (length (f_payload f))) by lia.
  replace (10 + N.of_nat (length (f_payload f)) <? 65536) with true by lia.
  replace (f_rcpt f <? 256) with true by lia. replace (f_sender f <? 256) with true by lia.
  replace (f_etype f <? 256) with true by lia. replace (f_ever f <? 256) with true by lia.
  replace (f_kind f <? 256) with true by lia.
  cbn [andb]. apply bytesb_Bytes in Hp. rewrite Hp.
  unfold enc, enc_pre, frame_start, frame_end. cbn [le_encode app].
  set (n := 10 + N.of_nat (length (f_payload f))).
  replace (n / 256 mod 256) with (n / 256) by lia.
  reflexivity.
Qed.

Lemma P02_env_enc f : tx_ok f = true -> P02_env f (enc f) = true.
Proof.
  intros W. pose proof (tx_ok_spec f W) as (Hk & Hr & Hs & Ht & Hv & Hp & Hl).
  destruct f as [k r s et ev p]. cbn [f_kind f_rcpt f_sender f_etype f_ever f_payload] in *.
  unfold P02_env, enc, enc_pre. cbn [f_kind f_rcpt f_sender f_etype f_ever f_payload].
  set (n := 10 + N.of_nat (length p)).
  set (pre := [104; n mod 256; n / 256; r; s; et; ev; k] ++ p).
  assert (Lp : length pre = (8 + length p)%nat) by (unfold pre; rewrite app_length; reflexivity).
  assert (L : length (pre ++ [bcc pre; 22]) = (10 + length p)%nat) by (rewrite app_length, Lp; cbn [length]; lia).
  rewrite L.
  replace (10 + length p - 2)%nat with (length pre) by lia.
  replace (10 + length p - 1)%nat with (S (length pre)) by lia.
  replace (10 + length p - 10)%nat with (length p) by lia.
  rewrite (firstn_app_exact pre [bcc pre; 22] (length pre)) by reflexivity.
  rewrite (nth_app_exact pre [22] (bcc pre) 0 (length pre)) by reflexivity.
  rewrite (nth_app_second pre (bcc pre) 22 0 (S (length pre))) by reflexivity.
  unfold pre. cbn [app nth skipn].
  rewrite (firstn_app_exact p [bcc (104 :: n mod 256 :: n / 256 :: r :: s :: et :: ev :: k :: p); 22]) by reflexivity.
  rewrite !N.eqb_refl. rewrite Nat.eqb_refl.
  replace (list_eqb N.eqb p p) with true by (symmetry; now apply list_eqb_N_eq).
  cbn [andb].
  rewrite !andb_true_iff. repeat split; unfold n; lia.
Qed.

Theorem C02_envelope : C02_envelope_statement.
Proof.
  intros f W. exists (enc f). split; [now apply frame_bytes_tx|now apply P02_env_enc].
Qed.

(* ---- payloads ---- *)
Lemma join8 b0 b1 b2 b3 b4 b5 b6 b7 :
  join_bits [b0; b1; b2; b3; b4; b5; b6; b7] =
  128 * bitval b0 + 64 * bitval b1 + 32 * bitval b2 + 16 * bitval b3 + 8 * bitval b4 + 4 * bitval b5 + 2 * bitval b6 + bitval b7.
Proof. destruct b0, b1, b2, b3, b4, b5, b6, b7; reflexivity. Qed.

Lemma encode_day_spec day : length day = 48%nat ->
  encode_day day = map (sched_byte day) [0; 1; 2; 3; 4; 5]%nat.
Proof.
  intros H.
  do 48 (destruct day as [|? day]; [discriminate H|]).
  destruct day; [|discriminate H].
  unfold encode_day. cbn [length chunks8 firstn skipn map]. rewrite !join8.
  unfold sched_byte. cbn [Nat.mul Nat.add nth]. reflexivity.
Qed.

Lemma encode_bitmap_spec days : forallb (fun d => Nat.eqb (length d) 48) days = true ->
  encode_bitmap days = spec_bitmap days.
Proof.
  unfold encode_bitmap, spec_bitmap. induction days as [|d ds IH]; intros H; [reflexivity|].
  cbn [forallb] in H. apply andb_true_iff in H. destruct H as [Hd Hds].
  cbn [map concat]. rewrite IH by exact Hds. f_equal. apply encode_day_spec. now apply Nat.eqb_eq.
Qed.

Theorem C02_payload : C02_payload_statement.
Proof.
  intros r H. destruct r as [c|c cnt st|i v|d i v|i off v size|v|st cnt|idx sw par days];
    cbn [req_ok payload_of spec_payload] in *.
  - reflexivity.
  - unfold bytearray_of, bytesb. cbn [forallb]. rewrite andb_true_r. now rewrite H.
  - unfold bytearray_of, bytesb. cbn [forallb]. rewrite andb_true_r. now rewrite H.
  - unfold bytearray_of, bytesb. cbn [forallb]. rewrite andb_true_r. apply andb_true_iff in H.
    destruct H as [H1 H3]. apply andb_true_iff in H1. destruct H1 as [H1 H2]. now rewrite H1, H2, H3.
  - rewrite !andb_true_iff in H. destruct H as [[H1 H2] H3].
    unfold bytearray_of, bytesb. cbn [forallb]. rewrite H1. cbn [andb].
    unfold to_bytes_le. rewrite H3.
    destruct (size =? 1) eqn:E1.
    + apply N.eqb_eq in E1. subst size. change (N.to_nat 1) with 1%nat. cbn [le_encode app].
      do 3 f_equal. change (256 ^ 1) with 256 in H3. lia.
    + destruct (size =? 2) eqn:E2; [|discriminate H2]. apply N.eqb_eq in E2. subst size.
      change (N.to_nat 2) with 2%nat. cbn [le_encode app].
      change (256 ^ 2) with 65536 in H3. replace (v / 256 mod 256) with (v / 256) by lia. reflexivity.
  - unfold bytearray_of, bytesb. cbn [forallb]. rewrite andb_true_r. now rewrite H.
  - unfold bytearray_of, bytesb. cbn [forallb]. rewrite andb_true_r. now rewrite H.
  - rewrite !andb_true_iff in H. destruct H as [[[H1 H2] H3] H4].
    unfold encode_schedule. rewrite H1, H2, H3. cbn [andb]. do 2 f_equal.
    unfold week_ok in H4. apply andb_true_iff in H4. destruct H4 as [_ H4].
    now apply encode_bitmap_spec.
Qed.

Lemma spec_bitmap_length days : length (spec_bitmap days) = (6 * length days)%nat.
Proof.
  unfold spec_bitmap. induction days as [|d ds IH]; [reflexivity|].
  cbn [map concat length]. rewrite app_length. cbn [length map] in *. lia.
Qed.

Lemma sched_byte_lt day j : sched_byte day j < 256.
Proof. unfold sched_byte, bitval. repeat match goal with |- context [if ?b then _ else _] => destruct b end; lia. Qed.

Lemma spec_bitmap_bytes days : Bytes (spec_bitmap days).
Proof.
  unfold spec_bitmap, Bytes. induction days as [|d ds IH]; [constructor|].
  cbn [map concat]. apply Forall_app. split; [|exact IH].
  repeat constructor; apply sched_byte_lt.
Qed.

Lemma spec_payload_ok r : req_ok r = true ->
  Bytes (spec_payload r) /\ N.of_nat (length (spec_payload r)) < 65526.
Proof.
  intros H. destruct r as [c|c cnt st|i v|d i v|i off v size|v|st cnt|idx sw par days];
    cbn [req_ok spec_payload] in *; unfold byteb in *.
  - split; [constructor|cbn; lia].
  - split; [repeat constructor; lia|cbn; lia].
  - split; [repeat constructor; lia|cbn; lia].
  - split; [repeat constructor; lia|cbn; lia].
  - rewrite !andb_true_iff in H. destruct H as [[H1 H2] H3].
    destruct (size =? 1) eqn:E1.
    + apply N.eqb_eq in E1. subst size. change (256 ^ 1) with 256 in H3. split; [repeat constructor; lia|cbn; lia].
    + destruct (size =? 2) eqn:E2; [|discriminate H2]. apply N.eqb_eq in E2. subst size.
      change (256 ^ 2) with 65536 in H3. split; [repeat constructor; lia|cbn; lia].
  - split; [repeat constructor; lia|cbn; lia].
  - split; [repeat constructor; lia|cbn; lia].
  - rewrite !andb_true_iff in H. destruct H as [[[H1 H2] H3] H4].
    unfold week_ok in H4. apply andb_true_iff in H4. destruct H4 as [H4 _]. apply Nat.eqb_eq in H4.
    split.
    + apply Bytes_app. split; [repeat constructor; lia|apply spec_bitmap_bytes].
    + rewrite app_length, spec_bitmap_length, H4. cbn. lia.
Qed.

Theorem C02_request : C02_request_statement.
Proof.
  intros r rcpt sender etype ever Hr Ha.
  unfold req_bytes, req_frame. rewrite (C02_payload r Hr).
  apply C02_envelope.
  destruct (spec_payload_ok r Hr) as [Hb Hl].
  unfold tx_ok. cbn [f_kind f_rcpt f_sender f_etype f_ever f_payload].
  apply bytesb_Bytes in Hb. rewrite Hb.
  rewrite !andb_true_iff in Ha. destruct Ha as [[[[-> ->] ->] ->] ->]. cbn [andb]. lia.
Qed.

(* the library defines exactly 33 frame kinds with pairwise distinct codes *)
Fixpoint nodupN (l : list N) : bool :=
  match l with [] => true | a :: t => negb (memN a t) && nodupN t end.
Theorem C02_all_kinds : length frame_types = 33%nat /\ nodupN (map fst frame_types) = true /\
  forallb (fun k => byteb (fst k)) frame_types = true.
Proof. vm_compute. repeat split. Qed.

From Coq Require Import NArith List Bool.
From PV Require Import Model.LazyData Lib.Bytes Model.OtherKinds Spec.C05r Proofs.C05rFacts.
Import ListNotations.

(* whatever was looked at before, once the frame has been assigned to a device its data are the decoding WITH that device --
   until it is assigned to another one *)
Lemma lrun_app {H D} reset (dec : option H -> D) a b :
  lrun reset dec (a ++ b) = fold_left (lstep reset dec) b (lrun reset dec a).
Proof. unfold lrun. apply fold_left_app. Qed.

Lemma accesses_keep {H D} (dec : option H -> D) (after : list (lop H)) : forall f h,
  lf_handler f = Some h -> (lf_cache f = None \/ lf_cache f = Some (dec (Some h))) ->
  Forall (fun o => o = LAccess) after ->
  ldata dec (fold_left (lstep true dec) after f) = dec (Some h).
Proof.
  induction after as [|o r IH]; intros f h Hh Hc Ha.
  - cbn [fold_left]. unfold ldata. destruct Hc as [-> | ->]; [now rewrite Hh|reflexivity].
  - inversion Ha as [|o' r' Ho Hr]; subst. cbn [fold_left]. apply IH with (h := h); [| |exact Hr].
    + unfold lstep. destruct (lf_cache f); [exact Hh|cbn [lf_handler]; exact Hh].
    + unfold lstep. destruct Hc as [E | E]; rewrite E; cbn [lf_cache]; [right; now rewrite Hh|now right].
Qed.

Theorem C05_context_gen {H D} (dec : option H -> D) before h after :
  Forall (fun o => o = LAccess) after ->
  ldata dec (lrun true dec (before ++ LAssign h :: after)) = dec (Some h).
Proof.
  intros Ha. rewrite lrun_app. cbn [fold_left]. apply accesses_keep with (h := h); [reflexivity|now left|exact Ha].
Qed.

(* the pinned behaviour: one look at the frame before the device is known, and the context-free decoding is what the device gets *)
Theorem C05_context_pinned_refuted {H D} (dec : option H -> D) h :
  ldata dec (lrun false dec [LAccess; LAssign h]) = dec None.
Proof. reflexivity. Qed.

Theorem C05_regdata_history : C05_regdata_history_statement.
Proof.
  intros before after b0 b1 versions l trailing H1 H2 H3 H4 Ha. cbv zeta.
  rewrite (C05_context_gen _ before _ after Ha). now apply C05rFacts.C05_regdata.
Qed.

From Coq Require Import NArith List Bool Arith Lia.
From PV Require Import Lib.Bytes Model.Pipeline Spec.C09.
Import ListNotations.
Open Scope N_scope.

(* invariant of the guarded pipeline: consumers stay alive, the queue stays balanced, and the
   handed frames / replies are the expected functions of the frames fed so far *)
Lemma guarded_run : forall fs s, (1 <= alive s)%nat ->
  let s' := fold_left (feed true) fs s in
  alive s' = alive s /\ unfinished s' = unfinished s /\ stuck s' = stuck s /\
  handed s' = handed s ++ map pf_tag (filter (fun f => has_device (pf_sender f)) fs) /\
  responses s' = responses s ++ flat_map (fun f => if has_device (pf_sender f) then reply f else []) fs.
Proof.
  induction fs as [|f fs IH]; intros s Ha; cbn [fold_left].
  - cbn. rewrite !app_nil_r. repeat split.
  - assert (exists k, alive s = S k) as [k Hk] by (destruct (alive s); [lia|eauto]).
    set (s1 := feed true s f).
    assert (H1 : alive s1 = alive s /\ unfinished s1 = unfinished s /\ stuck s1 = stuck s /\
                 handed s1 = handed s ++ (if has_device (pf_sender f) then [pf_tag f] else []) /\
                 responses s1 = responses s ++ (if has_device (pf_sender f) then reply f else [])).
    { unfold s1, feed. rewrite Hk. destruct (has_device (pf_sender f)).
      - destruct (pf_decodable f); cbn; rewrite ?Hk; repeat split.
      - rewrite !app_nil_r. rewrite Hk. repeat split. }
    destruct H1 as (A1 & A2 & A3 & A4 & A5).
    destruct (IH s1 ltac:(lia)) as (B1 & B2 & B3 & B4 & B5). cbn zeta in *.
    rewrite B1, B2, B3, B4, B5, A1, A2, A3, A4, A5. cbn [filter map flat_map].
    destruct (has_device (pf_sender f)); cbn [map app]; rewrite <- ?app_assoc; repeat split; reflexivity.
Qed.

Lemma reply_has_device f : reply f <> [] -> has_device (pf_sender f) = true.
Proof. unfold reply, has_device. destruct (pf_sender f =? 69) eqn:E; [intros _; reflexivity|congruence]. Qed.

Lemma flat_map_reply fs : flat_map (fun f => if has_device (pf_sender f) then reply f else []) fs = flat_map reply fs.
Proof.
  induction fs as [|f fs IH]; [reflexivity|]. cbn [flat_map]. rewrite IH. f_equal.
  destruct (has_device (pf_sender f)) eqn:E; [reflexivity|].
  destruct (reply f) eqn:R; [reflexivity|]. assert (reply f <> []) as H by congruence. apply reply_has_device in H. congruence.
Qed.

Lemma pairs_eqb_refl l : pairs_eqb l l = true.
Proof. induction l as [|[a b] l IH]; [reflexivity|]. cbn [pairs_eqb]. now rewrite !N.eqb_refl, IH. Qed.

(* filtering the handed tags by "tag of a valid frame" keeps exactly the valid frames, when tags are distinct *)
Lemma filter_valid_tags fs : NoDup (map pf_tag fs) ->
  forall sub, incl sub fs ->
  filter (fun t => existsb (fun f => (pf_tag f =? t) && valid f) fs) (map pf_tag sub) = map pf_tag (filter valid sub).
Proof.
  intros Hnd sub. induction sub as [|g sub IH]; intros Hi; [reflexivity|].
  cbn [map filter]. rewrite IH by (intros x Hx; apply Hi; now right).
  assert (In g fs) as Hg by (apply Hi; now left).
  assert (existsb (fun f => (pf_tag f =? pf_tag g) && valid f) fs = valid g) as ->.
  { destruct (valid g) eqn:Ev.
    - apply existsb_exists. exists g. split; [exact Hg|]. now rewrite N.eqb_refl, Ev.
    - destruct (existsb _ fs) eqn:Ex; [|reflexivity]. apply existsb_exists in Ex. destruct Ex as [f [Hf Hc]].
      apply andb_true_iff in Hc. destruct Hc as [Ht Hv]. apply N.eqb_eq in Ht.
      assert (f = g) as ->; [|congruence].
      clear -Hnd Hf Hg Ht. induction fs as [|a fs IHf]; [destruct Hf|]. cbn [map] in Hnd. inversion Hnd as [|? ? Hn Hnd']; subst.
      destruct Hf as [->|Hf], Hg as [->|Hg]; try reflexivity.
      + exfalso. apply Hn. rewrite Ht. now apply in_map.
      + exfalso. apply Hn. rewrite <- Ht. now apply in_map.
      + now apply IHf. }
  destruct (valid g); reflexivity.
Qed.

Theorem C09_containment : C09_statement.
Proof.
  intros n fs Hn Hd. unfold observe09, run_pipeline.
  destruct (guarded_run fs (mkP n 0 [] [] []) Hn) as (_ & U & _ & H & R). cbn zeta in *. cbn [unfinished handed responses app] in *.
  rewrite H, R, U, flat_map_reply. unfold P09.
  rewrite pairs_eqb_refl. cbn [Nat.eqb andb]. rewrite !andb_true_r.
  rewrite (filter_valid_tags fs Hd (filter (fun f => has_device (pf_sender f)) fs)) by (intros x Hx; apply filter_In in Hx; tauto).
  assert (filter valid (filter (fun f => has_device (pf_sender f)) fs) = filter valid fs) as ->.
  { clear. induction fs as [|f fs IH]; [reflexivity|]. cbn [filter]. unfold valid at 2.
    destruct (has_device (pf_sender f)) eqn:E; cbn [filter andb]; [unfold valid at 1; rewrite E; cbn [andb]; now rewrite IH|exact IH]. }
  now apply list_eqb_N_eq.
Qed.

(* the pinned behaviour (unguarded consumers): three undecodable frames kill three consumers and
   the valid frame after them is never handed to a device *)
Theorem C09_pinned_refuted :
  let bad t := mkPF t 69 53 false in
  let fs := [bad 1; bad 2; bad 3; mkPF 4 69 53 true] in
  let '(h, r, u) := observe09 fs (run_pipeline false 3 fs) in P09 fs h r u = false.
Proof. vm_compute. reflexivity. Qed.

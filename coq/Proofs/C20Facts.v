From Coq Require Import ZArith NArith List Bool Lia Arith ZifyBool ZifyNat.
From PV Require Import Model.FiltersOverlap Model.Filters Spec.C20.
Import ListNotations.
Open Scope Z_scope.

Lemma zlist_eqb_refl l : zlist_eqb l l = true.
Proof. induction l as [|x l IH]; [reflexivity|]. cbn [zlist_eqb]. now rewrite Z.eqb_refl, IH. Qed.

Lemma fval_eqb_refl x : fval_eqb x x = true.
Proof.
  destruct x; cbn [fval_eqb]; rewrite ?Z.eqb_refl; try reflexivity; [apply zlist_eqb_refl|].
  now rewrite Bool.eqb_reflx.
Qed.

Lemma ofval_eqb_refl o : ofval_eqb o o = true.
Proof. destruct o; [apply fval_eqb_refl|reflexivity]. Qed.

Lemma changed_stored l x : changed (stored l) x = changed l x.
Proof. destruct l, x; reflexivity. Qed.

(* ---- on_change ---- *)
Lemma on_change_gen calls : forall s last, f_value s = option_map stored last ->
  P_on_change last calls (fst (frun KOnChange s calls)) = true.
Proof.
  induction calls as [|[t x] cs IH]; intros s last Hs; [reflexivity|].
  cbn [frun fstep]. unfold is_changed. rewrite Hs.
  destruct last as [l|]; cbn [option_map].
  - rewrite changed_stored. destruct (changed l x) eqn:Ec.
    + specialize (IH (mkF (Some (stored x)) (f_calls s) (f_last s) (f_sum s)) (Some x) eq_refl).
      destruct (frun KOnChange _ cs) as [os s2]. cbn [fst P_on_change] in *. rewrite Ec.
      cbn [ofval_eqb]. now rewrite fval_eqb_refl, IH.
    + specialize (IH s (Some l) Hs). destruct (frun KOnChange s cs) as [os s2]. cbn [fst P_on_change] in *. rewrite Ec.
      cbn [ofval_eqb andb]. exact IH.
  - specialize (IH (mkF (Some (stored x)) (f_calls s) (f_last s) (f_sum s)) (Some x) eq_refl).
    destruct (frun KOnChange _ cs) as [os s2]. cbn [fst P_on_change] in *.
    cbn [ofval_eqb]. now rewrite fval_eqb_refl, IH.
Qed.

Theorem C20_on_change : C20_on_change_statement.
Proof. intros calls. apply (on_change_gen calls (finit KOnChange 0) None eq_refl). Qed.

(* ---- debounce ---- *)
Lemma debounce_gen n calls : forall s last, f_value s = option_map stored last ->
  P_debounce n last (f_calls s) calls (fst (frun (KDebounce n) s calls)) = true.
Proof.
  induction calls as [|[t x] cs IH]; intros s last Hs; [reflexivity|].
  cbn [frun fstep]. unfold is_changed. rewrite Hs.
  destruct last as [l|]; cbn [option_map orb].
  - rewrite changed_stored.
    set (calls' := if changed l x then S (f_calls s) else 0%nat).
    destruct (Nat.leb n calls') eqn:El.
    + specialize (IH (mkF (Some (stored x)) 0 (f_last s) (f_sum s)) (Some x) eq_refl).
      destruct (frun (KDebounce n) _ cs) as [os s2]. cbn [fst P_debounce f_calls] in *. fold calls'. rewrite El.
      cbn [ofval_eqb]. now rewrite fval_eqb_refl, IH.
    + specialize (IH (mkF (Some (stored l)) calls' (f_last s) (f_sum s)) (Some l) eq_refl).
      destruct (frun (KDebounce n) _ cs) as [os s2]. cbn [fst P_debounce f_calls] in *. fold calls'. rewrite El.
      cbn [ofval_eqb andb]. exact IH.
  - specialize (IH (mkF (Some (stored x)) 0 (f_last s) (f_sum s)) (Some x) eq_refl).
    destruct (frun (KDebounce n) _ cs) as [os s2]. cbn [fst P_debounce f_calls] in *.
    cbn [ofval_eqb]. now rewrite fval_eqb_refl, IH.
Qed.

Theorem C20_debounce : C20_debounce_statement.
Proof. intros n calls. apply (debounce_gen n calls (finit (KDebounce n) 0) None eq_refl). Qed.

(* ---- throttle ---- *)
Lemma throttle_gen sec calls : forall s, P_throttle sec (f_last s) calls (fst (frun (KThrottle sec) s calls)) = true.
Proof.
  induction calls as [|[t x] cs IH]; intros s; [reflexivity|].
  cbn [frun fstep].
  set (due := match f_last s with None => true | Some l => sec <=? t - l end).
  destruct due eqn:Ed.
  - specialize (IH (mkF (f_value s) (f_calls s) (Some t) (f_sum s))).
    destruct (frun (KThrottle sec) _ cs) as [os s2]. cbn [fst P_throttle]. fold due. rewrite Ed.
    cbn [f_last] in IH. cbn [ofval_eqb]. cbn [ofval_eqb fst f_value f_calls f_last] in *; now rewrite fval_eqb_refl, IH.
  - specialize (IH s). destruct (frun (KThrottle sec) s cs) as [os s2]. cbn [fst P_throttle]. fold due. rewrite Ed.
    cbn [ofval_eqb fst f_value f_calls f_last andb] in *; exact IH.
Qed.

Theorem C20_throttle : C20_throttle_statement.
Proof. intros sec calls. apply (throttle_gen sec calls (finit (KThrottle sec) 0)). Qed.

Lemma throttle_gaps_gen sec calls : forall s l, f_last s = Some l ->
  gaps_ok sec (l :: delivery_times calls (fst (frun (KThrottle sec) s calls))) = true.
Proof.
  induction calls as [|[t x] cs IH]; intros s l Hl; [reflexivity|].
  cbn [frun fstep]. rewrite Hl.
  destruct (sec <=? t - l) eqn:Ed.
  - specialize (IH (mkF (f_value s) (f_calls s) (Some t) (f_sum s)) t eq_refl).
    destruct (frun (KThrottle sec) _ cs) as [os s2]. cbn [fst delivery_times] in *.
    cbn [gaps_ok]. rewrite Ed. exact IH.
  - specialize (IH s l Hl). destruct (frun (KThrottle sec) s cs) as [os s2]. cbn [fst delivery_times] in *. exact IH.
Qed.

Theorem C20_throttle_gaps : C20_throttle_gaps_statement.
Proof.
  intros sec calls. destruct calls as [|[t x] cs]; [reflexivity|].
  cbn [frun fstep finit f_last].
  pose proof (throttle_gaps_gen sec cs (mkF None 0 (Some t) 0) t eq_refl) as H.
  destruct (frun (KThrottle sec) _ cs) as [os s2]. cbn [fst delivery_times] in *. exact H.
Qed.

(* ---- sums ---- *)
Lemma fold_sum_outs outs : forall acc,
  fold_left (fun acc o => match o with Some (FNum z) => acc + z | _ => acc end) outs acc =
  acc + sum_outs outs.
Proof.
  unfold sum_outs. induction outs as [|o os IH]; intros acc; cbn [fold_left]; [lia|].
  rewrite IH. rewrite (IH (match o with Some (FNum z) => 0 + z | _ => 0 end)).
  destruct o as [[z| | |]|]; lia.
Qed.

Lemma sum_outs_cons o os : sum_outs (o :: os) = match o with Some (FNum z) => z | _ => 0 end + sum_outs os.
Proof. unfold sum_outs at 1. cbn [fold_left]. rewrite fold_sum_outs. destruct o as [[z| | |]|]; lia. Qed.

Lemma fold_sum_calls calls : forall acc, fold_left (fun acc c => acc + num_of (snd c)) calls acc = acc + sum_calls calls.
Proof.
  unfold sum_calls. induction calls as [|c cs IH]; intros acc; cbn [fold_left]; [lia|].
  rewrite IH, (IH (0 + num_of (snd c))). lia.
Qed.

Lemma sum_calls_cons c cs : sum_calls (c :: cs) = num_of (snd c) + sum_calls cs.
Proof. unfold sum_calls at 1. cbn [fold_left]. rewrite fold_sum_calls. lia. Qed.

(* ---- delta ---- *)
Lemma last_cons_default {A} (l : list A) : forall a d, last (a :: l) d = last l a.
Proof.
  induction l as [|b l IH]; intros a d; [reflexivity|].
  change (last (a :: b :: l) d) with (last (b :: l) d). rewrite !IH. reflexivity.
Qed.

Lemma delta_gen calls : forall s b c dflt, f_value s = Some (FNum b) -> Z.abs (c - b) <= tol64 ->
  forallb (fun q => is_num (snd q)) calls = true ->
  let r := frun KDelta s calls in
  exists base, f_value (snd r) = Some (FNum base) /\ sum_outs (fst r) = base - b /\
    Z.abs (num_of (snd (last calls (dflt, FNum c))) - base) <= tol64.
Proof.
  induction calls as [|[t x] cs IH]; intros s b c dflt Hv Hc Hn.
  - exists b. cbn. repeat split; [exact Hv|lia|exact Hc].
  - cbn [forallb snd] in Hn. apply andb_true_iff in Hn. destruct Hn as [Hx Hn].
    destruct x as [z| | |]; try discriminate Hx.
    cbn [frun fstep]. unfold is_changed. rewrite Hv. cbn [changed].
    destruct (tol64 <? Z.abs (b - z)) eqn:Ec.
    + cbn [stored]. destruct (IH (mkF (Some (FNum z)) (f_calls s) (f_last s) (f_sum s)) z z t eq_refl ltac:(unfold tol64; lia) Hn)
        as [base (H1 & H2 & H3)].
      destruct (frun KDelta _ cs) as [os s2]. cbn [fst snd] in *.
      exists base. split; [exact H1|]. split.
      * rewrite sum_outs_cons. cbn [difference]. lia.
      * rewrite last_cons_default. exact H3.
    + destruct (IH s b z t Hv ltac:(unfold tol64 in *; lia) Hn) as [base (H1 & H2 & H3)].
      destruct (frun KDelta s cs) as [os s2]. cbn [fst snd] in *.
      exists base. split; [exact H1|]. split.
      * rewrite sum_outs_cons. lia.
      * rewrite last_cons_default. exact H3.
Qed.

Theorem C20_delta : C20_delta_statement.
Proof.
  intros x0 t0 calls Hn. cbn zeta. cbn [frun fstep finit]. unfold is_changed. cbn [f_value f_calls f_last f_sum stored].
  set (s1 := mkF (Some (FNum x0)) 0 None 0).
  destruct (delta_gen calls s1 x0 x0 t0 eq_refl ltac:(unfold tol64; lia) Hn) as [base (H1 & H2 & H3)].
  destruct (frun KDelta s1 calls) as [os s2]. cbn [fst snd] in *.
  exists base. split; [exact H1|]. split.
  - rewrite sum_outs_cons. lia.
  - rewrite last_cons_default. exact H3.
Qed.

(* ---- aggregate ---- *)
Lemma aggregate_gen sec calls : forall s, forallb (fun q => is_num (snd q)) calls = true ->
  let r := frun (KAggregate sec) s calls in
  sum_outs (fst r) + f_sum (snd r) = f_sum s + sum_calls calls.
Proof.
  induction calls as [|[t x] cs IH]; intros s Hn; [cbn; lia|].
  cbn [forallb snd] in Hn. apply andb_true_iff in Hn. destruct Hn as [Hx Hn].
  destruct x as [z| | |]; try discriminate Hx.
  cbn zeta. cbn [frun fstep]. rewrite sum_calls_cons. cbn [snd num_of].
  destruct (match f_last s with None => true | Some l => sec <=? t - l end).
  - specialize (IH (mkF (f_value s) (f_calls s) (Some t) 0) Hn). cbn zeta in IH.
    destruct (frun (KAggregate sec) _ cs) as [os s2]. cbn [fst snd f_sum] in *. rewrite sum_outs_cons. lia.
  - specialize (IH (mkF (f_value s) (f_calls s) (f_last s) (f_sum s + z)) Hn). cbn zeta in IH.
    destruct (frun (KAggregate sec) _ cs) as [os s2]. cbn [fst snd f_sum] in *. rewrite sum_outs_cons. lia.
Qed.

Theorem C20_aggregate : C20_aggregate_statement.
Proof.
  intros sec t0 calls Hn. pose proof (aggregate_gen sec calls (finit (KAggregate sec) t0) Hn) as H.
  cbv zeta in *. rewrite H. cbn [finit f_sum]. lia.
Qed.

Lemma aggregate_mixed_gen sec calls : forall s,
  let r := frun (KAggregate sec) s calls in
  let rn := frun (KAggregate sec) s (numeric_calls calls) in
  snd r = snd rn /\ deliveries (fst r) = deliveries (fst rn) /\
  sum_outs (fst r) + f_sum (snd r) = f_sum s + sum_calls calls.
Proof.
  induction calls as [|[t x] cs IH]; intros s; [cbn; repeat split; lia|].
  cbn zeta. unfold numeric_calls. cbn [filter snd]. rewrite sum_calls_cons. cbn [snd].
  destruct x as [z| | |]; cbn [is_num num_of].
  - cbn [frun fstep].
    destruct (match f_last s with None => true | Some l => sec <=? t - l end).
    + specialize (IH (mkF (f_value s) (f_calls s) (Some t) 0)). cbn zeta in IH. fold (numeric_calls cs).
      destruct (frun (KAggregate sec) _ cs) as [os s2]. destruct (frun (KAggregate sec) _ (numeric_calls cs)) as [osn s2n].
      cbn [fst snd f_sum] in *. destruct IH as (A & B & C). rewrite sum_outs_cons. unfold deliveries in *. cbn [flat_map].
      rewrite B. repeat split; [exact A|lia].
    + specialize (IH (mkF (f_value s) (f_calls s) (f_last s) (f_sum s + z))). cbn zeta in IH. fold (numeric_calls cs).
      destruct (frun (KAggregate sec) _ cs) as [os s2]. destruct (frun (KAggregate sec) _ (numeric_calls cs)) as [osn s2n].
      cbn [fst snd f_sum] in *. destruct IH as (A & B & C). rewrite sum_outs_cons. unfold deliveries in *. cbn [flat_map].
      repeat split; [exact A|exact B|lia].
  - cbn [frun fstep]. specialize (IH s). cbn zeta in IH. fold (numeric_calls cs).
    destruct (frun (KAggregate sec) s cs) as [os s2]. cbn [fst snd] in *. destruct IH as (A & B & C).
    rewrite sum_outs_cons. unfold deliveries in *. cbn [flat_map app]. repeat split; [exact A|exact B|lia].
  - cbn [frun fstep]. specialize (IH s). cbn zeta in IH. fold (numeric_calls cs).
    destruct (frun (KAggregate sec) s cs) as [os s2]. cbn [fst snd] in *. destruct IH as (A & B & C).
    rewrite sum_outs_cons. unfold deliveries in *. cbn [flat_map app]. repeat split; [exact A|exact B|lia].
  - cbn [frun fstep]. specialize (IH s). cbn zeta in IH. fold (numeric_calls cs).
    destruct (frun (KAggregate sec) s cs) as [os s2]. cbn [fst snd] in *. destruct IH as (A & B & C).
    rewrite sum_outs_cons. unfold deliveries in *. cbn [flat_map app]. repeat split; [exact A|exact B|lia].
Qed.

Theorem C20_aggregate_mixed : C20_aggregate_mixed_statement.
Proof.
  intros sec t0 calls. pose proof (aggregate_mixed_gen sec calls (finit (KAggregate sec) t0)) as H.
  cbv zeta in *. destruct H as (A & B & C). repeat split; [exact A|exact B|]. rewrite C. cbn [finit f_sum]. lia.
Qed.

(* ---- chains ---- *)
Lemma chain_gen k1 k2 calls : forall s1 s2,
  flat_map (fun o => match o with Some y => [y] | None => [] end) (frun2 k1 k2 s1 s2 calls) =
  flat_map (fun o => match o with Some y => [y] | None => [] end)
    (fst (frun k2 s2 (flat_map (fun p => match snd p with Some y => [(fst (fst p), y)] | None => [] end)
                                (combine calls (fst (frun k1 s1 calls)))))).
Proof.
  induction calls as [|[t x] cs IH]; intros s1 s2; [reflexivity|].
  cbn [frun2 frun]. destruct (fstep k1 s1 t x) as [s1' o1] eqn:E1.
  specialize (IH s1'). destruct (frun k1 s1' cs) as [os1 s1f] eqn:Er. cbn [fst combine flat_map snd].
  destruct o1 as [y|].
  - cbn [app frun fst]. destruct (fstep k2 s2 t y) as [s2' o2] eqn:E2.
    specialize (IH s2'). cbn [fst] in IH.
    destruct (frun k2 s2' _) as [os2 s2f] eqn:Er2. cbn [fst flat_map]. rewrite IH. reflexivity.
  - cbn [app flat_map]. apply IH.
Qed.

Theorem C20_chain : C20_chain_statement.
Proof. intros k1 k2 t0 calls. cbn zeta. apply chain_gen. Qed.

(* ---- overlapping calls ---- *)
Lemma ostep_call k s t x :
  ostep false k s (OCall t x) =
  let '(f1, o) := fstep k (o_f s) t x in (mkO f1 (match o with Some _ => o_running s ++ [t] | None => o_running s end), o).
Proof. unfold ostep. destruct k; try reflexivity; destruct x; reflexivity. Qed.

Lemma ostep_done k s : o_f (fst (ostep false k s ODone)) = o_f s /\ snd (ostep false k s ODone) = None.
Proof. unfold ostep. destruct (o_running s); [split; reflexivity|]. destruct k; split; reflexivity. Qed.

Lemma overlap_gen k evs : forall s,
  fst (orun false k s evs) = fst (frun k (o_f s) (calls_of evs)) /\
  o_f (snd (orun false k s evs)) = snd (frun k (o_f s) (calls_of evs)).
Proof.
  induction evs as [|e rest IH]; intros s; [split; reflexivity|].
  destruct e as [t x|].
  - cbn [orun calls_of flat_map app]. change (flat_map _ rest) with (calls_of rest). rewrite ostep_call.
    cbn [frun]. destruct (fstep k (o_f s) t x) as [f1 o] eqn:E.
    set (s1 := mkO f1 _). specialize (IH s1). change (o_f s1) with f1 in IH.
    destruct (orun false k s1 rest) as [os s2]. destruct (frun k f1 (calls_of rest)) as [os' f2]. cbn [fst snd] in *.
    destruct IH as [A B]. split; [now rewrite A|exact B].
  - cbn [orun calls_of flat_map app]. change (flat_map _ rest) with (calls_of rest).
    destruct (ostep_done k s) as [A B]. destruct (ostep false k s ODone) as [s1 o]. cbn [fst snd] in A, B.
    specialize (IH s1). rewrite A in IH. destruct (orun false k s1 rest) as [os s2]. exact IH.
Qed.

Theorem C20_overlap : C20_overlap_statement.
Proof. intros k t0 evs. cbv zeta. apply (overlap_gen k evs (mkO (finit k t0) [])). Qed.

(* D24: with the reset after the callback has returned, a value that arrives while the callback runs is delivered twice *)
Theorem C20_aggregate_late_reset_refuted :
  fst (orun true (KAggregate 5) (mkO (finit (KAggregate 5) 0) []) [OCall 1 (FNum 1); OCall 6 (FNum 2); OCall 6 (FNum 10); ODone; ODone]) =
  [None; Some (FNum 3); Some (FNum 13)].
Proof. vm_compute. reflexivity. Qed.

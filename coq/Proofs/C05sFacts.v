(* C05 (sensor-data message): the chained section decoders of Model/SensorData.v recover, from the wire
   layout of Spec/C05s.v, exactly the documented view, and stop exactly at the end of the encoding. *)
From Coq Require Import NArith List Bool Arith Lia ZifyBool ZifyNat ZifyN.
From PV Require Import Lib.Bytes Generated.Tables Model.Versions Model.DataTypes Model.SensorData Model.OtherKinds Spec.C05s.
Import ListNotations.
Open Scope N_scope.

(* ---- reading at an offset, phrased over `skipn off m` ---- *)
Lemma skipn_add {A} (a b : nat) (m : list A) : skipn (a + b) m = skipn b (skipn a m).
Proof.
  revert m; induction a as [|a IH]; intros m; cbn [Nat.add skipn]; [reflexivity|].
  destruct m as [|x m]; [now rewrite skipn_nil | apply IH].
Qed.

Lemma skipn_split (m : list N) off a rest k :
  skipn off m = a ++ rest -> length a = k -> skipn (off + k) m = rest.
Proof. intros H Hk. rewrite skipn_add, H. now apply skipn_app_exact. Qed.

Lemma nth_error_skipn0 {A} (m : list A) off : nth_error m off = hd_error (skipn off m).
Proof.
  revert m; induction off as [|off IH]; intros m; destruct m as [|x m]; cbn [nth_error skipn hd_error]; try reflexivity.
  apply IH.
Qed.

Lemma byte_at_skipn (m : list N) off x rest : skipn off m = x :: rest -> byte_at m off = Some x.
Proof. intros H. unfold byte_at. now rewrite nth_error_skipn0, H. Qed.

Lemma skipn_room (m : list N) off a rest : skipn off m = a ++ rest -> (0 < length a)%nat -> (off + length a <= length m)%nat.
Proof.
  intros H Hp. pose proof (f_equal (@length N) H) as HL. rewrite skipn_length, app_length in HL. lia.
Qed.

Lemma uint_at_skipn (m : list N) n off v rest :
  skipn off m = le_encode n v ++ rest -> (0 < n)%nat -> v < 256 ^ N.of_nat n -> uint_at n m off = Some v.
Proof.
  intros H Hn Hv. unfold uint_at.
  pose proof (skipn_room _ _ _ _ H) as Hr. rewrite le_encode_length in Hr. specialize (Hr Hn).
  destruct (Nat.ltb_spec (length m) (off + n)) as [Hlt|_]; [lia|].
  rewrite H, firstn_app_exact by (now rewrite le_encode_length).
  now rewrite le_decode_encode_small.
Qed.

Lemma pow4 : 256 ^ N.of_nat 4 = 4294967296. Proof. reflexivity. Qed.
Lemma pow2 : 256 ^ N.of_nat 2 = 65536. Proof. reflexivity. Qed.

Lemma u32_at (m : list N) off v rest : skipn off m = le4 v ++ rest -> word32 v = true -> uint_at 4 m off = Some v.
Proof. intros H Hv. apply (uint_at_skipn _ _ _ _ rest H); [lia|]. rewrite pow4. unfold word32 in Hv. lia. Qed.
Lemma u16_at (m : list N) off v rest : skipn off m = le2 v ++ rest -> (v <? 65536) = true -> uint_at 2 m off = Some v.
Proof. intros H Hv. apply (uint_at_skipn _ _ _ _ rest H); [lia|]. rewrite pow2. lia. Qed.

Lemma le4_length v : length (le4 v) = 4%nat. Proof. apply le_encode_length. Qed.
Lemma le2_length v : length (le2 v) = 2%nat. Proof. apply le_encode_length. Qed.

Ltac adv H k H' :=
  pose proof (skipn_split _ _ _ _ k H ltac:(first [reflexivity | apply le4_length | apply le2_length])) as H'.
Ltac offs := apply f_equal; apply f_equal2; [reflexivity | try reflexivity; lia].
Ltac reoff H a b := replace a with b in H by lia.

(* ---- frame versions ---- *)
Definition enc_versions (l : list (N * N)) : list N := concat (map (fun p => fst p :: le2 (snd p)) l).
Lemma enc_versions_length l : length (enc_versions l) = (3 * length l)%nat.
Proof.
  unfold enc_versions. induction l as [|p l IH]; cbn [map concat length]; [reflexivity|].
  rewrite app_length. cbn [length]. rewrite le2_length, IH. lia.
Qed.

Lemma dec_versions_enc l : forall m off rest,
  forallb (fun p => byteb (fst p) && (snd p <? 65536)) l = true ->
  skipn off m = enc_versions l ++ rest ->
  dec_versions m off (length l) = Some (l, (off + 3 * length l)%nat).
Proof.
  induction l as [|[t v] l IH]; intros m off rest Hok H; cbn [length dec_versions].
  - f_equal. f_equal. lia.
  - cbn [forallb fst snd] in Hok. apply andb_prop in Hok as [Hp Hl]. apply andb_prop in Hp as [_ Hv].
    unfold enc_versions in H. cbn [map concat fst snd] in H. fold (enc_versions l) in H.
    change ((t :: le2 v) ++ enc_versions l) with ([t] ++ le2 v ++ enc_versions l) in H.
    rewrite <- !app_assoc in H.
    rewrite (byte_at_skipn _ _ _ _ H).
    adv H 1%nat H1. rewrite (u16_at _ _ _ _ H1 Hv).
    adv H1 2%nat H2. reoff H2 (off + 1 + 2)%nat (off + 3)%nat.
    rewrite (IH _ _ _ Hl H2). f_equal. f_equal. lia.
Qed.

(* ---- temperatures ---- *)
Definition temp_keep (p : N * N) : bool := negb (is_nan32 (snd p)) && (fst p <? n_temperatures).
Definition enc_temps (l : list (N * N)) : list N := concat (map (fun p => fst p :: le4 (snd p)) l).
Lemma enc_temps_length l : length (enc_temps l) = (5 * length l)%nat.
Proof.
  unfold enc_temps. induction l as [|p l IH]; cbn [map concat length]; [reflexivity|].
  rewrite app_length. cbn [length]. rewrite le4_length, IH. lia.
Qed.

Lemma dec_temps_enc l : forall m off rest,
  forallb (fun p => byteb (fst p) && word32 (snd p)) l = true ->
  skipn off m = enc_temps l ++ rest ->
  dec_temps m off (length l) = Some (filter temp_keep l, (off + 5 * length l)%nat).
Proof.
  induction l as [|[i t] l IH]; intros m off rest Hok H; cbn [length dec_temps].
  - cbn [filter]. f_equal. f_equal. lia.
  - cbn [forallb fst snd] in Hok. apply andb_prop in Hok as [Hp Hl]. apply andb_prop in Hp as [_ Hv].
    unfold enc_temps in H. cbn [map concat fst snd] in H. fold (enc_temps l) in H.
    change ((i :: le4 t) ++ enc_temps l) with ([i] ++ le4 t ++ enc_temps l) in H.
    rewrite <- !app_assoc in H.
    rewrite (byte_at_skipn _ _ _ _ H).
    adv H 1%nat H1. rewrite (u32_at _ _ _ _ H1 Hv).
    adv H1 4%nat H2. reoff H2 (off + 1 + 4)%nat (off + 5)%nat.
    rewrite (IH _ _ _ Hl H2). cbn [filter]. unfold temperatures_count.
    change (temp_keep (i, t)) with (negb (is_nan32 t) && (i <? n_temperatures)).
    destruct (negb (is_nan32 t) && (i <? n_temperatures)); f_equal; f_equal; lia.
Qed.

(* ---- modules ---- *)
Lemma bu : byte_undefined = 255. Proof. reflexivity. Qed.

Lemma dec_module_enc (wv : bool) x m off rest :
  match x with
  | None => True
  | Some b => length b = (if wv then 5 else 3)%nat /\ hd 0 b <> 255
  end ->
  skipn off m = enc_module x ++ rest ->
  dec_module wv m off = Some (x, (off + length (enc_module x))%nat).
Proof.
  intros Hx H. unfold dec_module. destruct x as [b|]; cbn [enc_module] in H |- *.
  - destruct Hx as [Hlen Hhd].
    destruct b as [|b0 b']; [destruct wv; discriminate Hlen|].
    cbn [hd] in Hhd. rewrite (byte_at_skipn _ _ _ _ H). rewrite bu.
    destruct (N.eqb_spec b0 255) as [E|_]; [contradiction|].
    assert (Hpos : (0 < length (b0 :: b'))%nat) by (cbn [length]; lia).
    pose proof (skipn_room _ _ _ _ H Hpos) as Hr. rewrite Hlen in Hr |- *.
    destruct wv.
    + destruct (Nat.ltb_spec (length m) (off + 3)); [lia|].
      destruct (Nat.ltb_spec (length m) (off + 5)); [lia|].
      rewrite H, firstn_app_exact by (symmetry; exact Hlen). reflexivity.
    + destruct (Nat.ltb_spec (length m) (off + 3)); [lia|].
      rewrite H, firstn_app_exact by (symmetry; exact Hlen). reflexivity.
  - rewrite (byte_at_skipn _ _ _ _ H). rewrite bu. cbn [N.eqb Pos.eqb length]. f_equal. f_equal. lia.
Qed.

Lemma module_ok_spec i x : module_ok i x = true ->
  match x with None => True | Some b => length b = (if Nat.eqb i 0 then 5 else 3)%nat /\ hd 0 b <> 255 end.
Proof.
  unfold module_ok. destruct x as [b|]; [|trivial]. intros H.
  apply andb_prop in H as [H Hh]. apply andb_prop in H as [Hl _].
  split; [now apply Nat.eqb_eq|]. destruct (N.eqb_spec (hd 0 b) 255); [discriminate|assumption].
Qed.

Definition enc_modules (l : list (option (list N))) : list N := concat (map enc_module l).

Lemma dec_modules_enc l : forall i flags m off rest,
  modules_ok i l = true ->
  flags = map (fun k => Nat.eqb k 0) (seq i (length l)) ->
  skipn off m = enc_modules l ++ rest ->
  dec_modules m off flags = Some (l, (off + length (enc_modules l))%nat).
Proof.
  induction l as [|x l IH]; intros i flags m off rest Hok Hf H; subst flags; cbn [length seq map dec_modules].
  - cbn. f_equal. f_equal. lia.
  - cbn [modules_ok] in Hok. apply andb_prop in Hok as [Hx Hl].
    unfold enc_modules in H. cbn [map concat] in H. fold (enc_modules l) in H. rewrite <- app_assoc in H.
    rewrite (dec_module_enc (Nat.eqb i 0) x m off _ (module_ok_spec _ _ Hx) H).
    pose proof (skipn_split _ _ _ _ _ H eq_refl) as H1.
    rewrite (IH (S i) _ m _ rest Hl eq_refl H1).
    unfold enc_modules. cbn [map concat]. rewrite app_length. f_equal. f_equal. lia.
Qed.

(* ---- thermostats ---- *)
Definition enc_thermos (l : list thermo_val) : list N :=
  concat (map (fun t => tv_state t :: le4 (tv_current t) ++ le4 (tv_target t)) l).
Lemma enc_thermos_length l : length (enc_thermos l) = (9 * length l)%nat.
Proof.
  unfold enc_thermos. induction l as [|p l IH]; cbn [map concat length]; [reflexivity|].
  rewrite !app_length. cbn [length]. rewrite app_length, !le4_length, IH. lia.
Qed.

Lemma dec_thermos_enc l : forall m off c i rest,
  forallb (fun t => byteb (tv_state t) && word32 (tv_current t) && word32 (tv_target t)) l = true ->
  skipn off m = enc_thermos l ++ rest ->
  dec_thermos m off c i (length l) = Some (view_thermos c i l, (off + 9 * length l)%nat).
Proof.
  induction l as [|[st cur tgt] l IH]; intros m off c i rest Hok H; cbn [length dec_thermos view_thermos].
  - f_equal. f_equal. lia.
  - cbn [forallb tv_state tv_current tv_target] in Hok |- *. apply andb_prop in Hok as [Hp Hl].
    apply andb_prop in Hp as [Hp Ht]. apply andb_prop in Hp as [_ Hc].
    unfold enc_thermos in H. cbn [map concat tv_state tv_current tv_target] in H. fold (enc_thermos l) in H.
    change ((st :: le4 cur ++ le4 tgt) ++ enc_thermos l) with ([st] ++ (le4 cur ++ le4 tgt) ++ enc_thermos l) in H.
    rewrite <- !app_assoc in H.
    rewrite (byte_at_skipn _ _ _ _ H).
    adv H 1%nat H1. rewrite (u32_at _ _ _ _ H1 Hc).
    adv H1 4%nat H2. reoff H2 (off + 1 + 4)%nat (off + 5)%nat. rewrite (u32_at _ _ _ _ H2 Ht).
    adv H2 4%nat H3. reoff H3 (off + 5 + 4)%nat (off + 9)%nat.
    rewrite (IH _ _ c (i + 1) _ Hl H3).
    destruct (negb (is_nan32 cur) && positive32 tgt); f_equal; f_equal; lia.
Qed.

(* ---- mixers ---- *)
Definition enc_mixers (l : list mixer_val) : list N :=
  concat (map (fun x => le4 (mv_current x) ++ [mv_target x; mv_b5 x; mv_pump x; mv_b7 x]) l).
Lemma enc_mixers_length l : length (enc_mixers l) = (8 * length l)%nat.
Proof.
  unfold enc_mixers. induction l as [|p l IH]; cbn [map concat length]; [reflexivity|].
  rewrite !app_length. cbn [length]. rewrite le4_length, IH. lia.
Qed.

Lemma dec_mixers_enc l : forall m off i rest,
  forallb (fun x => word32 (mv_current x) && byteb (mv_target x) && byteb (mv_b5 x) && byteb (mv_pump x) && byteb (mv_b7 x)) l = true ->
  skipn off m = enc_mixers l ++ rest ->
  dec_mixers m off i (length l) = Some (view_mixers i l, (off + 8 * length l)%nat).
Proof.
  induction l as [|[cur tgt b5 pump b7] l IH]; intros m off i rest Hok H; cbn [length dec_mixers view_mixers].
  - f_equal. f_equal. lia.
  - cbn [forallb mv_current mv_target mv_b5 mv_pump mv_b7] in Hok |- *. apply andb_prop in Hok as [Hp Hl].
    repeat (apply andb_prop in Hp as [Hp _]).
    unfold enc_mixers in H. cbn [map concat mv_current mv_target mv_b5 mv_pump mv_b7] in H. fold (enc_mixers l) in H.
    change ((le4 cur ++ [tgt; b5; pump; b7]) ++ enc_mixers l)
      with ((le4 cur ++ [tgt] ++ [b5] ++ [pump] ++ [b7]) ++ enc_mixers l) in H.
    rewrite <- !app_assoc in H.
    rewrite (u32_at _ _ _ _ H Hp).
    adv H 4%nat H1. adv H1 1%nat H2. adv H2 1%nat H3. adv H3 1%nat H4.
    reoff H2 (off + 4 + 1)%nat (off + 5)%nat. reoff H3 (off + 4 + 1 + 1)%nat (off + 6)%nat. reoff H4 (off + 4 + 1 + 1 + 1)%nat (off + 7)%nat.
    adv H4 1%nat H5. reoff H5 (off + 7 + 1)%nat (off + 8)%nat.
    rewrite (IH _ _ (i + 1) _ Hl H5).
    destruct (is_nan32 cur); cbn [negb].
    + f_equal. f_equal. lia.
    + rewrite (byte_at_skipn _ _ _ _ H1), (byte_at_skipn _ _ _ _ H3). f_equal. f_equal. lia.
Qed.

(* ---- fixed sections: result and the position after the section ---- *)
Lemma dec_frame_versions_enc m off l rest :
  (length l <= 255)%nat -> forallb (fun p => byteb (fst p) && (snd p <? 65536)) l = true ->
  skipn off m = [N.of_nat (length l)] ++ enc_versions l ++ rest ->
  dec_frame_versions m off = Some (dict_of l, (off + 1 + 3 * length l)%nat) /\ skipn (off + 1 + 3 * length l) m = rest.
Proof.
  intros Hn Hok H. unfold dec_frame_versions. rewrite (byte_at_skipn _ _ _ _ H), Nat2N.id.
  adv H 1%nat H1. rewrite (dec_versions_enc _ _ _ _ Hok H1). split; [reflexivity|].
  exact (skipn_split _ _ _ _ _ H1 (enc_versions_length l)).
Qed.

Lemma dec_head_enc m off st o f rest :
  word32 o = true -> word32 f = true ->
  skipn off m = [st] ++ le4 o ++ le4 f ++ rest ->
  dec_head m off = Some ((st, o, f), (off + 9)%nat) /\ skipn (off + 9) m = rest.
Proof.
  intros Ho Hf H. unfold dec_head. rewrite (byte_at_skipn _ _ _ _ H).
  adv H 1%nat H1. rewrite (u32_at _ _ _ _ H1 Ho).
  adv H1 4%nat H2. reoff H2 (off + 1 + 4)%nat (off + 5)%nat. rewrite (u32_at _ _ _ _ H2 Hf).
  adv H2 4%nat H3. reoff H3 (off + 5 + 4)%nat (off + 9)%nat. now split.
Qed.

Lemma dec_temps_section_enc m off l rest :
  (length l <= 255)%nat -> forallb (fun p => byteb (fst p) && word32 (snd p)) l = true ->
  skipn off m = [N.of_nat (length l)] ++ enc_temps l ++ rest ->
  dec_temps_section m off = Some (filter temp_keep l, (S off + 5 * length l)%nat) /\ skipn (S off + 5 * length l) m = rest.
Proof.
  intros Hn Hok H. unfold dec_temps_section. rewrite (byte_at_skipn _ _ _ _ H), Nat2N.id.
  adv H 1%nat H1. reoff H1 (off + 1)%nat (S off). rewrite (dec_temps_enc _ _ _ _ Hok H1). split; [reflexivity|].
  exact (skipn_split _ _ _ _ _ H1 (enc_temps_length l)).
Qed.

Lemma dec_status_pending_enc m off ss ps rest :
  length ss = 4%nat -> (length ps <= 255)%nat ->
  skipn off m = ss ++ [N.of_nat (length ps)] ++ ps ++ rest ->
  dec_status_pending m off = Some ((ss, N.of_nat (length ps)), (off + 5 + length ps)%nat) /\ skipn (off + 5 + length ps) m = rest.
Proof.
  intros Hs Hp H. unfold dec_status_pending.
  destruct ss as [|s0 [|s1 [|s2 [|s3 [|s4 ss]]]]]; try discriminate Hs.
  change ([s0; s1; s2; s3] ++ [N.of_nat (length ps)] ++ ps ++ rest)
    with ([s0] ++ [s1] ++ [s2] ++ [s3] ++ [N.of_nat (length ps)] ++ ps ++ rest) in H.
  adv H 1%nat H1. adv H1 1%nat H2. reoff H2 (off + 1 + 1)%nat (off + 2)%nat.
  adv H2 1%nat H3. reoff H3 (off + 2 + 1)%nat (off + 3)%nat.
  adv H3 1%nat H4. reoff H4 (off + 3 + 1)%nat (off + 4)%nat.
  adv H4 1%nat H5. reoff H5 (off + 4 + 1)%nat (off + 5)%nat.
  rewrite (byte_at_skipn _ _ _ _ H), (byte_at_skipn _ _ _ _ H1), (byte_at_skipn _ _ _ _ H2),
    (byte_at_skipn _ _ _ _ H3), (byte_at_skipn _ _ _ _ H4), Nat2N.id.
  split; [reflexivity|]. exact (skipn_split _ _ _ _ _ H5 eq_refl).
Qed.

Lemma dec_fixed16_enc m off fuel tr fan ld pw co th rest :
  word32 fan = true -> word32 pw = true -> word32 co = true ->
  skipn off m = [fuel; tr] ++ le4 fan ++ [ld] ++ le4 pw ++ le4 co ++ [th] ++ rest ->
  dec_fixed16 m off = Some ((fuel, tr, fan, ld, pw, co, th), (off + 16)%nat) /\ skipn (off + 16) m = rest.
Proof.
  intros Hf Hp Hc H. unfold dec_fixed16.
  change ([fuel; tr] ++ le4 fan ++ [ld] ++ le4 pw ++ le4 co ++ [th] ++ rest)
    with ([fuel] ++ [tr] ++ le4 fan ++ [ld] ++ le4 pw ++ le4 co ++ [th] ++ rest) in H.
  adv H 1%nat H1. adv H1 1%nat H2. reoff H2 (off + 1 + 1)%nat (off + 2)%nat.
  adv H2 4%nat H3. reoff H3 (off + 2 + 4)%nat (off + 6)%nat.
  adv H3 1%nat H4. reoff H4 (off + 6 + 1)%nat (off + 7)%nat.
  adv H4 4%nat H5. reoff H5 (off + 7 + 4)%nat (off + 11)%nat.
  adv H5 4%nat H6. reoff H6 (off + 11 + 4)%nat (off + 15)%nat.
  adv H6 1%nat H7. reoff H7 (off + 15 + 1)%nat (off + 16)%nat.
  rewrite (byte_at_skipn _ _ _ _ H), (byte_at_skipn _ _ _ _ H1), (u32_at _ _ _ _ H2 Hf), (byte_at_skipn _ _ _ _ H3),
    (u32_at _ _ _ _ H4 Hp), (u32_at _ _ _ _ H5 Hc), (byte_at_skipn _ _ _ _ H6).
  now split.
Qed.

Definition enc_lambda (x : option (N * N * N)) : list N :=
  match x with None => [255] | Some (st, tg, lv) => [st; tg] ++ le2 lv end.
Lemma dec_lambda_enc m off x rest :
  match x with None => true | Some (st, tg, lv) => byteb st && negb (st =? 255) && byteb tg && (lv <? 65536) end = true ->
  skipn off m = enc_lambda x ++ rest ->
  dec_lambda m off = Some (x, (off + length (enc_lambda x))%nat) /\ skipn (off + length (enc_lambda x)) m = rest.
Proof.
  intros Hx H. split; [|exact (skipn_split _ _ _ _ _ H eq_refl)].
  unfold dec_lambda. destruct x as [[[st tg] lv]|]; cbn [enc_lambda] in H |- *.
  - apply andb_prop in Hx as [Hx Hlv]. apply andb_prop in Hx as [Hx _]. apply andb_prop in Hx as [_ Hne].
    change (([st; tg] ++ le2 lv) ++ rest) with ([st] ++ [tg] ++ le2 lv ++ rest) in H.
    rewrite (byte_at_skipn _ _ _ _ H), bu.
    destruct (N.eqb_spec st 255) as [E|_]; [discriminate Hne|].
    adv H 1%nat H1. adv H1 1%nat H2. reoff H2 (off + 1 + 1)%nat (off + 2)%nat.
    rewrite (byte_at_skipn _ _ _ _ H1), (u16_at _ _ _ _ H2 Hlv).
    rewrite app_length, le2_length. cbn [length]. offs.
  - rewrite (byte_at_skipn _ _ _ _ H), bu. cbn [N.eqb Pos.eqb length]. offs.
Qed.

Definition enc_thermo_section (x : option (N * list thermo_val)) : list N :=
  match x with
  | None => [255]
  | Some (contacts, l) => [contacts; N.of_nat (length l)] ++ enc_thermos l
  end.
Definition view_thermo_section (x : option (N * list thermo_val)) : option (N * list (N * thermo)) :=
  match x with None => None | Some (c, l) => Some (N.of_nat (length l), view_thermos c 0 l) end.
Lemma dec_thermo_section_enc m off x rest :
  match x with
  | None => true
  | Some (c, l) => byteb c && negb (c =? 255) && Nat.leb (length l) 255 &&
                   forallb (fun t => byteb (tv_state t) && word32 (tv_current t) && word32 (tv_target t)) l
  end = true ->
  skipn off m = enc_thermo_section x ++ rest ->
  dec_thermo_section m off = Some (view_thermo_section x, (off + length (enc_thermo_section x))%nat) /\
  skipn (off + length (enc_thermo_section x)) m = rest.
Proof.
  intros Hx H. split; [|exact (skipn_split _ _ _ _ _ H eq_refl)].
  unfold dec_thermo_section. destruct x as [[c l]|]; cbn [enc_thermo_section view_thermo_section] in H |- *.
  - apply andb_prop in Hx as [Hx Hl]. apply andb_prop in Hx as [Hx Hn]. apply andb_prop in Hx as [_ Hne].
    change (([c; N.of_nat (length l)] ++ enc_thermos l) ++ rest) with ([c] ++ [N.of_nat (length l)] ++ enc_thermos l ++ rest) in H.
    rewrite (byte_at_skipn _ _ _ _ H), bu.
    destruct (N.eqb_spec c 255) as [E|_]; [discriminate Hne|].
    adv H 1%nat H1. adv H1 1%nat H2. reoff H2 (off + 1 + 1)%nat (off + 2)%nat.
    rewrite (byte_at_skipn _ _ _ _ H1), Nat2N.id, (dec_thermos_enc _ _ _ _ _ _ Hl H2).
    rewrite app_length, enc_thermos_length. cbn [length]. offs.
  - rewrite (byte_at_skipn _ _ _ _ H), bu. cbn [N.eqb Pos.eqb length]. offs.
Qed.

Lemma dec_mixer_section_enc m off l rest :
  (length l <= 255)%nat ->
  forallb (fun x => word32 (mv_current x) && byteb (mv_target x) && byteb (mv_b5 x) && byteb (mv_pump x) && byteb (mv_b7 x)) l = true ->
  skipn off m = [N.of_nat (length l)] ++ enc_mixers l ++ rest ->
  dec_mixer_section m off = Some ((N.of_nat (length l), view_mixers 0 l), (S off + 8 * length l)%nat).
Proof.
  intros Hn Hok H. unfold dec_mixer_section. rewrite (byte_at_skipn _ _ _ _ H), Nat2N.id.
  adv H 1%nat H1. reoff H1 (off + 1)%nat (S off). now rewrite (dec_mixers_enc _ _ _ _ _ Hok H1).
Qed.

(* ---- the whole message ---- *)
Lemma enc_sensor_sections v :
  enc_sensor v =
  ([N.of_nat (length (sv_versions v))] ++ enc_versions (sv_versions v)) ++
  ([sv_state v] ++ le4 (sv_outputs v) ++ le4 (sv_flags v)) ++
  ([N.of_nat (length (sv_temps v))] ++ enc_temps (sv_temps v)) ++
  (sv_statuses v ++ [N.of_nat (length (sv_pending v))] ++ sv_pending v) ++
  ([sv_fuel v; sv_transmission v] ++ le4 (sv_fan v) ++ [sv_load v] ++ le4 (sv_power v) ++ le4 (sv_cons v) ++ [sv_thermostat v]) ++
  enc_modules (sv_modules v) ++ enc_lambda (sv_lambda v) ++ enc_thermo_section (sv_thermos v) ++
  ([N.of_nat (length (sv_mixers v))] ++ enc_mixers (sv_mixers v)).
Proof.
  unfold enc_sensor, enc_lambda, enc_thermo_section, enc_versions, enc_temps, enc_modules, enc_thermos, enc_mixers.
  destruct (sv_lambda v) as [[[st tg] lv]|]; destruct (sv_thermos v) as [[c l]|]; rewrite <- ?app_assoc; reflexivity.
Qed.

Theorem C05_sensor : C05_sensor_statement.
Proof.
  intros v trailing Hwf. unfold wf_sensor in Hwf. rewrite !andb_true_iff in Hwf.
  destruct Hwf as [[[[[[[[[[[[[[[[[[[[[[[Hnv Hv] Hst] Hout] Hfl] Hnt] Ht] Hns] Hss] Hnp] Hps] Hfu] Htr] Hfan] Hld] Hpw] Hco] Hth] Hnm] Hmo] Hla] Hts] Hnx] Hmx].
  apply Nat.leb_le in Hnv, Hnt, Hnp, Hnx. apply Nat.eqb_eq in Hns, Hnm.
  rewrite enc_sensor_sections.
  set (m := (_ ++ _) ++ trailing).
  assert (H0 : skipn 0 m = m) by reflexivity.
  unfold m at 2 in H0. rewrite <- !app_assoc in H0.
  unfold decode_sensor_data.
  destruct (dec_frame_versions_enc _ _ _ _ Hnv Hv H0) as [E1 H1]. rewrite E1. clear E1 H0.
  destruct (dec_head_enc _ _ _ _ _ _ Hout Hfl H1) as [E2 H2]. rewrite E2. clear E2 H1.
  destruct (dec_temps_section_enc _ _ _ _ Hnt Ht H2) as [E3 H3]. rewrite E3. clear E3 H2.
  destruct (dec_status_pending_enc _ _ _ _ _ Hns Hnp H3) as [E4 H4]. rewrite E4. clear E4 H3.
  destruct (dec_fixed16_enc _ _ _ _ _ _ _ _ _ _ Hfan Hpw Hco H4) as [E5 H5]. rewrite E5. clear E5 H4.
  assert (Hflags : [true; false; false; false; false; false] = map (fun k => Nat.eqb k 0) (seq 0 (length (sv_modules v))))
    by (now rewrite Hnm).
  rewrite (dec_modules_enc _ _ _ _ _ _ Hmo Hflags H5).
  pose proof (skipn_split _ _ _ _ _ H5 eq_refl) as H6. clear H5.
  destruct (dec_lambda_enc _ _ _ _ Hla H6) as [E7 H7]. rewrite E7. clear E7 H6.
  destruct (dec_thermo_section_enc _ _ _ _ Hts H7) as [E8 H8]. rewrite E8. clear E8 H7.
  rewrite (dec_mixer_section_enc _ _ _ _ Hnx Hmx H8).
  f_equal. f_equal.
  - unfold view_sensor, view_thermo_section, opt_byte. rewrite bu. change fuel_level_offset with 101.
    fold temp_keep.
    destruct (sv_fuel v =? 255); reflexivity.
  - rewrite !app_length, enc_versions_length, enc_temps_length, enc_mixers_length, !le4_length, Hns. cbn [length]. lia.
Qed.

(* ---- regulator data schema ---- *)
Definition enc_schema_blocks (l : list (N * N)) : list N := concat (map (fun p => snd p :: le2 (fst p)) l).
Lemma enc_schema_blocks_length l : length (enc_schema_blocks l) = (3 * length l)%nat.
Proof.
  unfold enc_schema_blocks. induction l as [|p l IH]; cbn [map concat length]; [reflexivity|].
  rewrite app_length. cbn [length]. rewrite le2_length, IH. lia.
Qed.

Lemma dec_schema_blocks_enc l : forall m off rest,
  forallb (fun p => (fst p <? 65536) && (snd p <? 17)) l = true ->
  skipn off m = enc_schema_blocks l ++ rest ->
  dec_schema_blocks m off (length l) = Some l.
Proof.
  induction l as [|[id t] l IH]; intros m off rest Hok H; cbn [length dec_schema_blocks]; [reflexivity|].
  cbn [forallb fst snd] in Hok. apply andb_prop in Hok as [Hp Hl]. apply andb_prop in Hp as [Hid Ht].
  unfold enc_schema_blocks in H. cbn [map concat fst snd] in H. fold (enc_schema_blocks l) in H.
  change ((t :: le2 id) ++ enc_schema_blocks l) with ([t] ++ le2 id ++ enc_schema_blocks l) in H.
  rewrite <- !app_assoc in H.
  rewrite (byte_at_skipn _ _ _ _ H).
  adv H 1%nat H1. rewrite (u16_at _ _ _ _ H1 Hid).
  adv H1 2%nat H2. reoff H2 (off + 1 + 2)%nat (off + 3)%nat.
  destruct (N.leb_spec 17 t) as [Hge|_]; [lia|].
  now rewrite (IH _ _ _ Hl H2).
Qed.

Theorem C05_schema : C05_schema_statement.
Proof.
  intros l trailing Hwf. unfold wf_schema in Hwf. apply andb_prop in Hwf as [Hn Hok].
  unfold decode_schema, enc_schema. fold (enc_schema_blocks l).
  set (m := (_ ++ _) ++ trailing).
  assert (H0 : skipn 0 m = le2 (N.of_nat (length l)) ++ enc_schema_blocks l ++ trailing)
    by (unfold m; now rewrite <- app_assoc).
  rewrite (u16_at _ _ _ _ H0 Hn).
  adv H0 2%nat H1. reoff H1 (0 + 2)%nat 2%nat.
  destruct l as [|p l]; [reflexivity|].
  destruct (N.eqb_spec (N.of_nat (length (p :: l))) 0) as [E|_]; [cbn [length] in E; lia|].
  rewrite Nat2N.id. now rewrite (dec_schema_blocks_enc _ _ _ _ Hok H1).
Qed.

(* ---- alerts ---- *)
Definition alert_ok (a : N * N * N) : Prop :=
  let '(code, f, t) := a in
  code < 256 /\ f < 4294967296 /\ t < 4294967296 /\
  valid_datetime (datetime_of f) = true /\ (t = 4294967295 \/ valid_datetime (datetime_of t) = true).
Definition enc_alerts (l : list (N * N * N)) : list N :=
  concat (map (fun a => let '(code, f, t) := a in code :: le4 f ++ le4 t) l).
Definition view_alert (a : N * N * N) : alert :=
  let '(code, f, t) := a in mkAlert code (datetime_of f) (if t =? 4294967295 then None else Some (datetime_of t)).

Lemma dec_alerts_enc l : forall m off rest,
  Forall alert_ok l ->
  skipn off m = enc_alerts l ++ rest ->
  dec_alerts m off (length l) = Some (map view_alert l).
Proof.
  induction l as [|[[code f] t] l IH]; intros m off rest Hok H; cbn [length dec_alerts map]; [reflexivity|].
  inversion Hok as [|? ? Ha Hl]; subst. destruct Ha as (_ & Hf & Ht & Hvf & Hvt).
  unfold enc_alerts in H. cbn [map concat] in H. fold (enc_alerts l) in H.
  change ((code :: le4 f ++ le4 t) ++ enc_alerts l) with ([code] ++ (le4 f ++ le4 t) ++ enc_alerts l) in H.
  rewrite <- !app_assoc in H.
  rewrite (byte_at_skipn _ _ _ _ H).
  assert (Wf : word32 f = true) by (unfold word32; lia).
  assert (Wt : word32 t = true) by (unfold word32; lia).
  adv H 1%nat H1. rewrite (u32_at _ _ _ _ H1 Wf).
  adv H1 4%nat H2. reoff H2 (off + 1 + 4)%nat (off + 5)%nat. rewrite (u32_at _ _ _ _ H2 Wt).
  adv H2 4%nat H3. reoff H3 (off + 5 + 4)%nat (off + 9)%nat.
  rewrite Hvf. cbn [andb]. unfold view_alert at 1.
  destruct (N.eqb_spec t 4294967295) as [E|NE].
  - now rewrite (IH _ _ _ Hl H3).
  - destruct Hvt as [E|Hv]; [contradiction|]. rewrite Hv. now rewrite (IH _ _ _ Hl H3).
Qed.

Theorem C05_alerts : C05_alerts_statement.
Proof.
  intros total start l trailing Ht Hs Hn Hok.
  fold (enc_alerts l). fold view_alert.
  set (m := _ ++ _ ++ trailing).
  assert (H0 : skipn 0 m = [total] ++ [start] ++ [N.of_nat (length l)] ++ enc_alerts l ++ trailing) by reflexivity.
  unfold decode_alerts.
  adv H0 1%nat H1. adv H1 1%nat H2. adv H2 1%nat H3.
  reoff H1 (0 + 1)%nat 1%nat. reoff H2 (0 + 1 + 1)%nat 2%nat. reoff H3 (0 + 1 + 1 + 1)%nat 3%nat.
  rewrite (byte_at_skipn _ _ _ _ H0), (byte_at_skipn _ _ _ _ H1), (byte_at_skipn _ _ _ _ H2).
  destruct l as [|a l]; [reflexivity|].
  destruct (N.eqb_spec (N.of_nat (length (a :: l))) 0) as [E|_]; [cbn [length] in E; lia|].
  rewrite Nat2N.id.
  assert (Hok' : Forall alert_ok (a :: l)).
  { eapply Forall_impl; [|exact Hok]. intros [[c f] t] Ha. exact Ha. }
  now rewrite (dec_alerts_enc _ _ _ _ Hok' H3).
Qed.

(* ---- password ---- *)
Theorem C05_password : C05_password_statement.
Proof. intros b0 text. unfold decode_password. cbn [skipn]. now destruct text. Qed.

From Coq Require Import NArith List Bool Arith.
From PV Require Import Lib.Bytes Generated.Tables Model.Frame Model.Setup Spec.C16.
Import ListNotations.

Lemma sweep_true : forallb (fun p => P16 true (ans_of p) 3 setup_kinds (timeline true (ans_of p) 3)) (patterns_for setup_kinds) = true.
Proof. vm_cast_no_check (eq_refl true). Qed.
Lemma sweep_false : forallb (fun p => P16 false (ans_of p) 3 setup_kinds (timeline false (ans_of p) 3)) (patterns_for setup_kinds) = true.
Proof. vm_cast_no_check (eq_refl true). Qed.

Theorem C16_all_patterns : C16_statement.
Proof.
  intros mp p Hin. destruct mp.
  - pose proof sweep_true as H. rewrite forallb_forall in H. now apply H.
  - pose proof sweep_false as H. rewrite forallb_forall in H. now apply H.
Qed.

Lemma patterns_count : N.of_nat (length (patterns_for setup_kinds)) = 65536%N.
Proof. vm_compute. reflexivity. Qed.

(* C14, resynchronisation clause for frames whose encoding carries no interior start delimiter:
   after ANY noise a run of k >= 2 + 1000/|frame| copies is picked up.  (With an interior delimiter
   the clause is false of the reader: C14_resync_refuted / known finding D16.) *)
From Coq Require Import NArith ZArith List Bool Lia Arith ZifyBool ZifyNat ZifyN.
From PV Require Import Lib.Bytes Generated.Tables Model.Frame Model.Reader Spec.C01 Spec.Envelope Spec.C14
  Proofs.ReaderFacts Proofs.EnvelopeFacts.
Import ListNotations.
Open Scope N_scope.

Lemma forallb_skipn {A} (p : A -> bool) n l : forallb p l = true -> forallb p (skipn n l) = true.
Proof.
  revert l; induction n as [|n IH]; intros l H; [exact H|]. destruct l as [|x l]; [reflexivity|].
  cbn [forallb] in H. apply andb_prop in H as [_ H]. cbn [skipn]. now apply IH.
Qed.
Lemma forallb_firstn {A} (p : A -> bool) n l : forallb p l = true -> forallb p (firstn n l) = true.
Proof.
  revert l; induction n as [|n IH]; intros l H; [reflexivity|]. destruct l as [|x l]; [reflexivity|].
  cbn [forallb] in H. apply andb_prop in H as [Hx H]. cbn [firstn forallb]. rewrite Hx. now apply IH.
Qed.

Lemma scan_none s : scan s = None -> forallb no104 s = true.
Proof.
  induction s as [|b s IH]; intros H; [reflexivity|]. cbn [scan] in H. cbn [forallb]. unfold no104 at 1.
  change frame_start with 104 in H. destruct (b =? 104); [discriminate|]. now apply IH.
Qed.

Lemma read_one_broken s rest : read_one s = (Broken, rest) -> scan s = None.
Proof.
  unfold read_one. destruct (scan s) as [t|]; [|reflexivity].
  repeat match goal with |- context [if ?b then _ else _] => destruct b end; discriminate.
Qed.

Definition hit (f : frame) (co : list N * outcome) : bool := outcome_is f (snd co).

Lemma L_pos f : (10 <= length (enc f))%nat.
Proof. rewrite enc_length. lia. Qed.

Lemma e_head f : enc f = 104 :: tl (enc f).
Proof. reflexivity. Qed.

Lemma run_S f j : run_of f (S j) = enc f ++ run_of f j.
Proof. reflexivity. Qed.

Lemma run_length f j : length (run_of f j) = (j * length (enc f))%nat.
Proof.
  induction j as [|j IH]; [reflexivity|]. rewrite run_S, app_length, IH. lia.
Qed.

(* a run reached at a frame boundary (possibly after a delimiter-free tail) is picked up at once *)
Lemma hit_now f fuel q j : wf_frame f = true -> deliverable f = true ->
  (0 < fuel)%nat -> forallb no104 q = true -> (1 <= j)%nat ->
  existsb (hit f) (read_all_fuel fuel (q ++ run_of f j)) = true.
Proof.
  intros W D Hf Hq Hj. destruct fuel as [|k]; [lia|]. destruct j as [|j]; [lia|].
  rewrite run_S. cbn [read_all_fuel].
  rewrite (resync_clean q f (run_of f j) W Hq), (classify_deliverable f D).
  cbn [existsb]. unfold hit at 1. cbn [snd outcome_is]. now rewrite frame_eqb_refl.
Qed.

(* what is left of a run after dropping c bytes: a delimiter-free tail, then whole frames *)
Lemma skipn_run f j : no_interior f = true -> forall c, (c <= j * length (enc f))%nat ->
  exists q j', skipn c (run_of f j) = q ++ run_of f j' /\ forallb no104 q = true /\ (length q < length (enc f))%nat.
Proof.
  intros NI. pose proof (L_pos f) as HL. set (L := length (enc f)) in *.
  induction j as [|j IH]; intros c Hc.
  - exists [], 0%nat. replace c with 0%nat by lia. repeat split; [cbn; lia].
  - rewrite run_S. destruct c as [|c'].
    + exists [], (S j). rewrite run_S. repeat split. cbn [length]. lia.
    + destruct (Nat.lt_ge_cases (S c') L) as [Hlt|Hge].
      * exists (skipn (S c') (enc f)), j. rewrite skipn_app.
        replace (S c' - length (enc f))%nat with 0%nat by (fold L; lia). rewrite skipn_O.
        repeat split.
        -- rewrite e_head. cbn [skipn]. now apply forallb_skipn.
        -- rewrite skipn_length. fold L. lia.
      * destruct (IH (S c' - L)%nat ltac:(lia)) as (q & j' & E & Hq & Hl).
        exists q, j'. rewrite skipn_app, skipn_all2 by (fold L; lia). fold L. cbn [app].
        repeat split; assumption.
Qed.

Lemma resync_main f : wf_frame f = true -> deliverable f = true -> no_interior f = true ->
  forall fuel s p j, (length s < fuel)%nat -> s = p ++ run_of f j ->
  (1000 + length (enc f) < j * length (enc f))%nat -> existsb (hit f) (read_all_fuel fuel s) = true.
Proof.
  intros W D NI. pose proof (L_pos f) as HL. set (L := length (enc f)) in *.
  induction fuel as [|k IH]; intros s p j Hf Es Hj; [lia|].
  destruct (forallb no104 p) eqn:Hp.
  { subst s. apply hit_now; [exact W|exact D|lia|exact Hp|]. destruct j as [|j0]; [cbn in Hj; lia|lia]. }
  cbn [read_all_fuel]. destruct (read_one s) as [o rest] eqn:R.
  assert (Nb : o <> Broken).
  { intros ->. apply read_one_broken, scan_none in R. subst s. rewrite forallb_app, Hp in R. discriminate R. }
  pose proof (read_one_progress _ _ _ R Nb) as Hprog.
  destruct (read_one_shape _ _ _ R Nb) as (junk & x & Ec & Hjunk & Hx).
  set (cns := junk ++ frame_start :: x) in *.
  assert (Erest : rest = skipn (length cns) s) by (rewrite Ec; symmetry; now apply skipn_app_exact).
  assert (Hjp : (length junk < length p)%nat).
  { destruct (Nat.lt_ge_cases (length junk) (length p)) as [Hlt|Hge]; [exact Hlt|exfalso].
    assert (Ep : p = firstn (length p) junk).
    { pose proof (f_equal (firstn (length p)) Es) as E1.
      rewrite firstn_app_exact in E1 by reflexivity.
      transitivity (firstn (length p) s); [symmetry; exact E1|].
      rewrite Ec. unfold cns. rewrite <- !app_assoc. rewrite firstn_app.
      replace (length p - length junk)%nat with 0%nat by lia.
      cbn [firstn]. now rewrite app_nil_r. }
    assert (forallb no104 junk = true) as Hj104.
    { apply forallb_forall. intros b Hb. unfold nostart in Hjunk. rewrite Forall_forall in Hjunk.
      specialize (Hjunk b Hb). unfold no104. change frame_start with 104 in Hjunk. lia. }
    rewrite Ep, (forallb_firstn _ _ _ Hj104) in Hp. discriminate Hp. }
  assert (Hcl : length cns = (length junk + 1 + length x)%nat).
  { unfold cns. rewrite app_length. cbn [length]. lia. }
  assert (G : existsb (hit f) ((consumed s rest, o) :: read_all_fuel k rest) = true).
  { cbn [existsb]. apply orb_true_iff. right.
    destruct (Nat.le_gt_cases (length cns) (length p)) as [Hle|Hgt].
    - apply (IH rest (skipn (length cns) p) j); [lia| |exact Hj].
      rewrite Erest, Es, skipn_app. replace (length cns - length p)%nat with 0%nat by lia. now rewrite skipn_O.
    - set (c := (length cns - length p)%nat).
      assert (Hc : (c <= 999)%nat) by (unfold c; lia).
      assert (Er : rest = skipn c (run_of f j)).
      { rewrite Erest, Es, skipn_app, skipn_all2 by lia. reflexivity. }
      destruct (skipn_run f j NI c ltac:(fold L; nia)) as (q & j' & Eq & Hq & Hlq).
      pose proof (f_equal (@length N) Eq) as El. rewrite skipn_length, app_length, !run_length in El.
      fold L in El, Hlq.
      assert (Hj' : (1 <= j')%nat) by nia.
      rewrite Er, Eq. apply hit_now; [exact W|exact D|lia|exact Hq|exact Hj']. }
  destruct o; try exact G. congruence.
Qed.

Theorem C14_resync_interior_free : C14_resync_interior_free_statement.
Proof.
  intros noise f k W D NI Hk. apply Nat.leb_le in Hk.
  pose proof (L_pos f) as HL. set (L := length (enc f)) in *.
  unfold picked_up, read_all. change (fun co : list N * outcome => outcome_is f (snd co)) with (hit f).
  apply (resync_main f W D NI _ _ noise k); [lia|reflexivity|]. fold L.
  pose proof (Nat.div_mod 1000 L ltac:(lia)) as Hdm.
  pose proof (Nat.mod_upper_bound 1000 L ltac:(lia)) as Hm. nia.
Qed.

From Coq Require Import ZArith List Bool Lia Arith ZifyBool ZifyNat.
From PV Require Import Model.ParamSet Spec.C08 Spec.C06.
Import ListNotations.
Open Scope Z_scope.

(* coupling between the model state and the monitor state *)
Definition coupled (req prev0 : Z) (retries : nat) (s : pst) (m : mon) : Prop :=
  reqv s = req /\ prev s = prev0 /\ sets s = m_sets m /\
  (m_done m = true <-> ph s = PDone) /\
  (m_done m = false -> pending s = negb (m_confirmed m) /\ (left s + m_sets m = retries)%nat).

Lemma pouts_eqb_refl l : pouts_eqb l l = true.
Proof.
  induction l as [|x l IH]; [reflexivity|]. cbn [pouts_eqb]. rewrite IH, andb_true_r.
  destruct x; cbn; try reflexivity; [apply Z.eqb_refl|apply Bool.eqb_reflx].
Qed.

Ltac solve_coupled :=
  unfold coupled; cbn [reqv prev sets ph pending left vals m_sets m_confirmed m_done];
  repeat split; intros; try assumption; try reflexivity; try discriminate; try congruence; try lia.

Lemma attempt_allowed tracking req prev0 retries s m :
  coupled req prev0 retries s m -> m_done m = false ->
  exists m', allowed tracking req retries m (snd (attempt tracking s)) = Some m' /\
             coupled req prev0 retries (fst (attempt tracking s)) m'.
Proof.
  intros (Hr & Hp & Hs & Hd & Hc) Hnd. destruct (Hc Hnd) as [Hpen Hleft].
  unfold attempt, allowed. rewrite Hnd.
  destruct (pending s) eqn:Ep; cbn [negb].
  - assert (m_confirmed m = false) as Hcf by (destruct (m_confirmed m); [discriminate|reflexivity]).
    destruct (left s) as [|k] eqn:El; cbn [fst snd].
    + rewrite Hcf. cbn [negb]. replace (Nat.eqb (m_sets m) retries) with true by (symmetry; apply Nat.eqb_eq; lia).
      cbn [andb]. eexists. split; [reflexivity|]. solve_coupled.
    + rewrite Hr, Z.eqb_refl, Hs.
      replace (Nat.ltb (m_sets m) retries) with true by (symmetry; apply Nat.ltb_lt; lia).
      rewrite pouts_eqb_refl. cbn [andb]. eexists. split; [reflexivity|]. solve_coupled.
  - cbn [fst snd].
    assert (m_confirmed m = true) as Hcf by (destruct (m_confirmed m); [reflexivity|discriminate]).
    rewrite Hcf. eexists. split; [reflexivity|]. solve_coupled.
Qed.

Lemma run_monitor tracking req prev0 retries evs : forall s m,
  coupled req prev0 retries s m ->
  monitor tracking req prev0 retries m evs (fst (run tracking s evs)) = true.
Proof.
  induction evs as [|e evs IH]; intros s m C; [reflexivity|].
  cbn [run]. destruct (step tracking s e) as [s1 o] eqn:Est.
  destruct (run tracking s1 evs) as [os s2] eqn:Er. cbn [fst].
  replace os with (fst (run tracking s1 evs)) by (rewrite Er; reflexivity).
  destruct e as [|t]; cbn [step] in Est.
  - (* Tick *)
    cbn [monitor].
    pose proof C as (Hr & Hp & Hs & Hd & Hc).
    destruct (ph s) eqn:Eph.
    + assert (m_done m = false) as Hnd.
      { destruct (m_done m) eqn:E; [|reflexivity]. destruct Hd as [Hd _]. specialize (Hd eq_refl). congruence. }
      destruct (attempt_allowed tracking req prev0 retries s m C Hnd) as [m' [Ha Cm']].
      rewrite Est in Ha, Cm'. cbn [fst snd] in Ha, Cm'. rewrite Ha. now apply IH.
    + injection Est as <- <-.
      assert (m_done m = true) as Hdn by (apply Hd; reflexivity).
      unfold allowed. rewrite Hdn. cbn [pouts_eqb]. apply IH. exact C.
  - (* Report *)
    injection Est as <- <-. cbn [monitor pouts_eqb andb]. apply IH.
    destruct C as (Hr & Hp & Hs & Hd & Hc).
    unfold coupled. cbn [reqv prev sets ph pending left vals m_sets m_confirmed m_done].
    split; [exact Hr|]. split; [exact Hp|]. split; [exact Hs|]. split; [exact Hd|].
    intros Hnd. destruct (Hc Hnd) as [Hpen Hl]. split; [|exact Hl].
    rewrite Hpen, Hp. rewrite negb_orb, negb_involutive. f_equal. apply Z.eqb_sym.
Qed.

Theorem C08_all_histories : C08_statement.
Proof.
  intros tracking t req retries evs Hin Hne.
  unfold run_set, start. unfold in_range in Hin.
  replace ((req <? tlo t) || (thi t <? req)) with false by lia.
  replace (req =? tv t) with false by lia.
  set (s0 := mkPst (with_value t req) (tv t) true retries req 0 PSleeping).
  set (m0 := mkMon 0 false false).
  assert (C0 : coupled req (tv t) retries s0 m0).
  { repeat split; cbn; try reflexivity; try discriminate. lia. }
  destruct (attempt_allowed tracking req (tv t) retries s0 m0 C0 eq_refl) as [m' [Ha Cm']].
  destruct (attempt tracking s0) as [s1 o0] eqn:Ea. cbn [fst snd] in Ha, Cm'.
  destruct (run tracking s1 evs) as [os s2] eqn:Er. cbn [fst].
  unfold P08. fold m0. rewrite Ha.
  replace os with (fst (run tracking s1 evs)) by (rewrite Er; reflexivity).
  now apply run_monitor.
Qed.

(* ---- C06 ---- *)
Lemma step_done tracking s e : ph s = PDone -> match e with Tick => True | Report _ => True end ->
  snd (step tracking s e) = [] /\ ph (fst (step tracking s e)) = PDone.
Proof. intros H _. destruct e; cbn [step]; [rewrite H|]; cbn; auto. Qed.

Lemma run_done tracking evs : forall s, ph s = PDone -> concat (fst (run tracking s evs)) = [].
Proof.
  induction evs as [|e evs IH]; intros s H; [reflexivity|].
  cbn [run]. destruct (step_done tracking s e H) as [Ho Hp]; [destruct e; exact I|].
  destruct (step tracking s e) as [s1 o]. cbn [fst snd] in Ho, Hp. subst o.
  specialize (IH s1 Hp). destruct (run tracking s1 evs) as [os s2]. cbn [fst concat app] in *. exact IH.
Qed.

Lemma step_carries tracking s e : forall o, In o (snd (step tracking s e)) -> is_set o = true -> o = OSet (reqv s).
Proof.
  intros o. destruct e; cbn [step].
  - destruct (ph s); [|intros []]. unfold attempt.
    destruct (negb (pending s)); [cbn; intros [<-|[]]; discriminate|].
    destruct (left s); [cbn; intros [<-|[]]; discriminate|].
    cbn [snd]. intros [<-|Hin]; [reflexivity|].
    destruct (tracking (sets s)); [destruct Hin|]. destruct Hin as [<-|[]]. discriminate.
  - intros [].
Qed.

Lemma step_reqv tracking s e : reqv (fst (step tracking s e)) = reqv s.
Proof.
  destruct e; cbn [step]; [|reflexivity]. destruct (ph s); [|reflexivity].
  unfold attempt. destruct (negb (pending s)); [reflexivity|]. destruct (left s); reflexivity.
Qed.

Lemma run_carries tracking evs : forall s o, In o (concat (fst (run tracking s evs))) -> is_set o = true -> o = OSet (reqv s).
Proof.
  induction evs as [|e evs IH]; intros s o; [intros []|].
  cbn [run]. pose proof (step_carries tracking s e) as Hc. pose proof (step_reqv tracking s e) as Hr.
  destruct (step tracking s e) as [s1 o1]. cbn [fst snd] in Hc, Hr.
  specialize (IH s1). destruct (run tracking s1 evs) as [os s2]. cbn [fst concat] in *.
  rewrite in_app_iff. intros [H|H] Hs; [now apply Hc|]. rewrite <- Hr. now apply IH.
Qed.

Theorem C06_reject : C06_reject_statement.
Proof.
  intros tracking t req retries evs Hout. unfold in_range in Hout.
  assert (E : (req <? tlo t) || (thi t <? req) = true) by lia.
  unfold run_set, start. rewrite E.
  set (s0 := mkPst t 0 false retries req 0 PDone).
  pose proof (run_done tracking evs s0 eq_refl) as Hd.
  destruct (run tracking s0 evs) as [os s2]. cbn [fst concat app] in *. rewrite Hd.
  repeat split. unfold P06, in_range. replace ((tlo t <=? req) && (req <=? thi t)) with false by lia.
  cbn. unfold triple_eqb. now rewrite !Z.eqb_refl.
Qed.

Theorem C06_transmitted : C06_transmitted_statement.
Proof.
  intros tracking t req retries evs. apply forallb_forall. intros o Ho.
  destruct o as [r| | |]; try reflexivity. cbn [set_in_range].
  unfold run_set, start in Ho.
  destruct ((req <? tlo t) || (thi t <? req)) eqn:E.
  { set (s0 := mkPst t 0 false retries req 0 PDone) in *.
    pose proof (run_done tracking evs s0 eq_refl) as Hd.
    destruct (run tracking s0 evs) as [os s2]. cbn [fst concat app] in *. rewrite Hd in Ho.
    destruct Ho as [Ho|[]]. discriminate. }
  destruct (req =? tv t) eqn:E2.
  { set (s0 := mkPst t 0 false retries req 0 PDone) in *.
    pose proof (run_done tracking evs s0 eq_refl) as Hd.
    destruct (run tracking s0 evs) as [os s2]. cbn [fst concat app] in *. rewrite Hd in Ho.
    destruct Ho as [Ho|[]]. discriminate. }
  set (s0 := mkPst (with_value t req) (tv t) true retries req 0 PSleeping) in *.
  assert (r = req) as ->.
  { pose proof (step_carries tracking s0 Tick) as Hc. cbn [step ph s0] in Hc.
    pose proof (step_reqv tracking s0 Tick) as Hq. cbn [step ph s0] in Hq.
    destruct (attempt tracking s0) as [s1 o0]. cbn [fst snd] in *.
    pose proof (run_carries tracking evs s1) as Hrc.
    destruct (run tracking s1 evs) as [os s2]. cbn [fst concat] in *.
    apply in_app_iff in Ho. destruct Ho as [Ho|Ho].
    - specialize (Hc _ Ho eq_refl). now injection Hc.
    - specialize (Hrc _ Ho eq_refl). rewrite Hq in Hrc. now injection Hrc. }
  lia.
Qed.

(* ---- bounds follow the reports ---- *)
Lemma attempt_bounds tracking s : tlo (vals (fst (attempt tracking s))) = tlo (vals s) /\ thi (vals (fst (attempt tracking s))) = thi (vals s).
Proof. unfold attempt. destruct (negb (pending s)); [split; reflexivity|]. destruct (left s); split; reflexivity. Qed.

Lemma run_bounds tracking evs : forall s,
  (tlo (vals (snd (run tracking s evs))), thi (vals (snd (run tracking s evs)))) =
  fold_left (fun b e => match e with Report r => (tlo r, thi r) | Tick => b end) evs (tlo (vals s), thi (vals s)).
Proof.
  induction evs as [|e evs IH]; intros s; [reflexivity|].
  cbn [run fold_left]. destruct (step tracking s e) as [s1 o] eqn:Es. specialize (IH s1).
  destruct (run tracking s1 evs) as [os s2]. cbn [snd] in *. rewrite IH. f_equal.
  destruct e as [|r]; cbn [step] in Es.
  - destruct (ph s).
    + pose proof (attempt_bounds tracking s) as [H1 H2]. rewrite Es in H1, H2. cbn [fst] in H1, H2. now rewrite H1, H2.
    + injection Es as <- _. reflexivity.
  - injection Es as <- _. reflexivity.
Qed.

Theorem C06_bounds : C06_bounds_statement.
Proof.
  intros tracking t req retries evs. cbn zeta. unfold run_set, start, last_bounds.
  assert (forall s0 o0, tlo (vals s0) = tlo t -> thi (vals s0) = thi t ->
     (tlo (vals (snd (let '(os, s) := run tracking s0 evs in (o0 :: os, s)))),
      thi (vals (snd (let '(os, s) := run tracking s0 evs in (o0 :: os, s))))) =
     fold_left (fun b e => match e with Report r => (tlo r, thi r) | Tick => b end) evs (tlo t, thi t)) as K.
  { intros s0 o0 H1 H2. pose proof (run_bounds tracking evs s0) as R. destruct (run tracking s0 evs) as [os s]. cbn [snd] in *.
    now rewrite R, H1, H2. }
  destruct ((req <? tlo t) || (thi t <? req)); [apply K; reflexivity|].
  destruct (req =? tv t); [apply K; reflexivity|].
  set (s0 := mkPst (with_value t req) (tv t) true retries req 0 PSleeping).
  pose proof (attempt_bounds tracking s0) as [H1 H2].
  destruct (attempt tracking s0) as [s1 o0]. cbn [fst] in H1, H2. apply K; [rewrite H1|rewrite H2]; reflexivity.
Qed.

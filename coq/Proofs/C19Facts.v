From Coq Require Import NArith ZArith List Bool Lia Arith ZifyBool ZifyNat ZifyN.
From PV Require Import Lib.Bytes Generated.Tables Model.DataTypes Spec.C19.
Import ListNotations.
Ltac Zify.zify_post_hook ::= Z.to_euclidean_division_equations.
Open Scope N_scope.

Lemma take_app (p t : list N) : take (length p) (p ++ t) = Some p.
Proof.
  unfold take. rewrite app_length.
  replace (Nat.ltb (length p + length t) (length p)) with false by (symmetry; apply Nat.ltb_ge; lia).
  now rewrite firstn_app_exact.
Qed.

Lemma until_nul_app b t : nul_free b = true -> until_nul (b ++ 0 :: t) = b.
Proof.
  induction b as [|x b IH]; intros H; cbn [app until_nul]; [reflexivity|].
  cbn [nul_free forallb] in H. apply andb_true_iff in H. destruct H as [Hx Hb].
  destruct (x =? 0); [discriminate|]. f_equal. now apply IH.
Qed.

Lemma list_eqb_refl l : list_eqb N.eqb l l = true.
Proof. now apply list_eqb_N_eq. Qed.

Lemma pow256 n : 256 ^ n = 2 ^ (8 * n).
Proof. change 256 with (2 ^ 8). now rewrite <- N.pow_mul_r. Qed.

Lemma width_cases n : (n =? 1) || (n =? 2) || (n =? 4) || (n =? 8) = true -> n = 1 \/ n = 2 \/ n = 4 \/ n = 8.
Proof. lia. Qed.

Theorem C19_fixed : C19_fixed_statement.
Proof.
  intros t v trailing bit R.
  destruct t as [|n|n| | | | | |]; destruct v as [|z|b|b|b]; cbn [representable] in R; try discriminate.
  - (* signed *)
    rewrite !andb_true_iff in R. destruct R as [[Hn Hlo] Hhi]. apply width_cases in Hn.
    cbn [pack]. rewrite Hlo, Hhi. cbn [andb].
    set (p := le_encode (N.to_nat n) (of_signed (8 * n) z)).
    assert (Lp : length p = N.to_nat n) by apply le_encode_length.
    exists p, (DInt z), (N.to_nat n). split; [reflexivity|]. split.
    + cbn [unpack]. rewrite <- Lp at 1. rewrite take_app. unfold p. rewrite le_decode_encode_small.
      * rewrite signed_roundtrip by lia. reflexivity.
      * rewrite N2Nat.id. rewrite pow256. apply of_signed_range; lia.
    + unfold P19. cbn [dval_eqb size_of width]. rewrite Z.eqb_refl, Lp, Nat.eqb_refl. reflexivity.
  - (* unsigned *)
    rewrite !andb_true_iff in R. destruct R as [[Hn Hlo] Hhi].
    cbn [pack]. rewrite Hlo. replace (Z.to_N z <? 256 ^ n) with true by lia. cbn [andb].
    set (p := le_encode (N.to_nat n) (Z.to_N z)).
    assert (Lp : length p = N.to_nat n) by apply le_encode_length.
    exists p, (DInt z), (N.to_nat n). split; [reflexivity|]. split.
    + cbn [unpack]. rewrite <- Lp at 1. rewrite take_app. unfold p. rewrite le_decode_encode_small.
      * f_equal. f_equal. f_equal. lia.
      * rewrite N2Nat.id. lia.
    + unfold P19. cbn [dval_eqb size_of width]. rewrite Z.eqb_refl, Lp, Nat.eqb_refl. reflexivity.
  - (* float *)
    cbn [pack]. rewrite R. exists (le_encode 4 b), (DBits b), 4%nat. split; [reflexivity|]. split.
    + cbn [unpack]. change 4%nat with (length (le_encode 4 b)) at 1. rewrite take_app.
      rewrite le_decode_encode_small by (change (256 ^ N.of_nat 4) with (2 ^ 32); lia). reflexivity.
    + unfold P19. cbn [dval_eqb size_of width]. rewrite N.eqb_refl. reflexivity.
  - (* double *)
    cbn [pack]. rewrite R. exists (le_encode 8 b), (DBits b), 8%nat. split; [reflexivity|]. split.
    + cbn [unpack]. change 8%nat with (length (le_encode 8 b)) at 1. rewrite take_app.
      rewrite le_decode_encode_small by (change (256 ^ N.of_nat 8) with (2 ^ 64); lia). reflexivity.
    + unfold P19. cbn [dval_eqb size_of width]. rewrite N.eqb_refl. reflexivity.
  - (* string *)
    apply andb_true_iff in R. destruct R as [Hb Hn].
    cbn [pack]. rewrite Hb. exists (b ++ [0]), (DRaw b), (S (length b)). split; [reflexivity|]. split.
    + cbn [unpack]. rewrite <- app_assoc. cbn [app]. rewrite until_nul_app by exact Hn. reflexivity.
    + unfold P19. cbn [dval_eqb size_of]. rewrite list_eqb_refl, app_length. cbn [length].
      replace (length b + 1)%nat with (S (length b)) by lia. now rewrite Nat.eqb_refl.
  - (* IPv4 *)
    cbn [pack]. rewrite R. apply andb_true_iff in R. destruct R as [Hl _]. apply Nat.eqb_eq in Hl.
    exists b, (DRaw b), 4%nat. split; [reflexivity|]. split.
    + cbn [unpack]. rewrite <- Hl. now rewrite take_app.
    + unfold P19. cbn [dval_eqb size_of width]. rewrite list_eqb_refl, Hl. reflexivity.
  - (* IPv6 *)
    cbn [pack]. rewrite R. apply andb_true_iff in R. destruct R as [Hl _]. apply Nat.eqb_eq in Hl.
    exists b, (DRaw b), 16%nat. split; [reflexivity|]. split.
    + cbn [unpack]. rewrite <- Hl. now rewrite take_app.
    + unfold P19. cbn [dval_eqb size_of width]. rewrite list_eqb_refl, Hl. reflexivity.
Qed.

Theorem C19_var : C19_var_statement.
Proof.
  intros b trailing H. unfold pack_var. rewrite H.
  exists (N.of_nat (length b) :: b). split; [reflexivity|]. split.
  - cbn [app unpack_var length]. rewrite Nat2N.id. now rewrite firstn_app_exact.
  - reflexivity.
Qed.

Theorem C19_bit : C19_bit_statement.
Proof.
  intros byte bit trailing H. split; [reflexivity|]. split.
  - unfold bit_next. destruct (bit =? 7) eqn:E; lia.
  - intros Hb. cbn [pack]. replace ((0 <=? Z.of_N byte)%Z && (Z.of_N byte <? 256)%Z) with true by lia.
    now rewrite N2Z.id.
Qed.

From Coq Require Import NArith ZArith List Bool Lia Arith String ZifyBool ZifyNat ZifyN.
From PV Require Import Lib.Bytes Generated.Tables Model.Requests Model.ParamBlocks Model.Handlers Spec.C02 Spec.C05p Spec.C07.
Import ListNotations.
Open Scope N_scope.

Theorem C07_tables : C07_tables_statement.
Proof. vm_compute. repeat split. Qed.

Lemma pd_set_in name p d : forall n q, In (n, q) (pd_set name p d) -> (n = name /\ q = p) \/ In (n, q) d.
Proof.
  induction d as [|[n0 q0] t IH]; intros n q H; cbn [pd_set] in H.
  - destruct H as [H|[]]. injection H as <- <-. now left.
  - destruct (String.eqb n0 name) eqn:E.
    + destruct H as [H|H]; [injection H as <- <-; left; split; [now apply String.eqb_eq|reflexivity]|right; now right].
    + destruct H as [H|H]; [right; now left|]. destruct (IH n q H) as [?|?]; [now left|right; now right].
Qed.

Lemma pd_find_in name d p : pd_find name d = Some p -> In (name, p) d.
Proof.
  induction d as [|[n0 q0] t IH]; cbn [pd_find]; [discriminate|].
  destruct (String.eqb n0 name) eqn:E; [intros H; injection H as <-; apply String.eqb_eq in E; subst; now left|].
  intros H. right. now apply IH.
Qed.

Lemma create_positioned table d desc index c v :
  positioned table d -> nth_error table (N.to_nat index) = Some desc ->
  positioned table (create_or_update d (pd_name desc) index c (pd_size desc) v).
Proof.
  intros Hp Hn name p Hin. unfold create_or_update in Hin.
  destruct (pd_find (pd_name desc) d) as [p0|] eqn:Ef.
  - apply pd_set_in in Hin. destruct Hin as [[-> ->]|Hin]; [|now apply Hp].
    destruct (Hp _ _ (pd_find_in _ _ _ Ef)) as [d0 (H1 & H2 & H3)]. exists d0. cbn [p_index p_size]. auto.
  - apply pd_set_in in Hin. destruct Hin as [[-> ->]|Hin]; [|now apply Hp].
    exists desc. cbn [p_index p_size]. auto.
Qed.

Lemma handle_positioned table c params : forall d, positioned table d -> positioned table (handle_params table c d params).
Proof.
  induction params as [|[index v] rest IH]; intros d Hp; cbn [handle_params]; [exact Hp|].
  destruct (nth_error table (N.to_nat index)) as [desc|] eqn:E; [|exact Hp].
  apply IH. now apply create_positioned.
Qed.

Theorem C07_positions : C07_positions_statement.
Proof.
  intros table c responses.
  assert (G : forall d, positioned table d -> positioned table (fold_left (handle_params table c) responses d)).
  { induction responses as [|r rs IH]; intros d H; cbn [fold_left]; [exact H|]. apply IH. now apply handle_positioned. }
  apply G. intros name p [].
Qed.

Theorem C07_unknown : C07_unknown_statement.
Proof. intros table c d index v rest H. cbn [handle_params]. now rewrite H. Qed.

Theorem C07_request : C07_request_statement.
Proof.
  intros [index c vals size] v Hv Hi. cbn [p_index p_ctx p_size] in *.
  destruct c as [|m|t off| |]; cbn [request_of p_ctx p_index p_size payload_of].
  - intros ->. change (256 ^ 1) with 256 in Hv. unfold bytearray_of, bytesb, byteb. cbn [forallb].
    replace (index <? 256) with true by lia. replace (v <? 256) with true by lia. reflexivity.
  - intros -> Hm. change (256 ^ 1) with 256 in Hv. unfold bytearray_of, bytesb, byteb. cbn [forallb].
    replace (m <? 256) with true by lia. replace (index <? 256) with true by lia. replace (v <? 256) with true by lia. reflexivity.
  - intros Hs Ho. unfold bytearray_of, bytesb, byteb, to_bytes_le. cbn [forallb].
    replace (index + 1 + off <? 256) with true by lia. replace (v <? 256 ^ size) with true by lia. cbn [andb].
    destruct Hs as [-> | ->].
    + change (N.to_nat 1) with 1%nat. cbn [le_encode app N.eqb Pos.eqb]. change (256 ^ 1) with 256 in Hv.
      replace (v mod 256) with v by lia. reflexivity.
    + change (N.to_nat 2) with 2%nat. cbn [le_encode app N.eqb Pos.eqb]. change (256 ^ 2) with 65536 in Hv.
      replace (v / 256 mod 256) with (v / 256) by lia. reflexivity.
  - intros ->. change (256 ^ 1) with 256 in Hv. unfold bytearray_of, bytesb, byteb. cbn [forallb].
    replace (v <? 256) with true by lia. reflexivity.
  - intros ->. change (256 ^ 1) with 256 in Hv. unfold bytearray_of, bytesb, byteb, to_bytes_le. cbn [forallb].
    replace (index + 0 <? 256) with true by lia. replace (v <? 256 ^ 1) with true by (change (256 ^ 1) with 256; lia). cbn [andb].
    change (N.to_nat 1) with 1%nat. cbn [le_encode app]. replace (v mod 256) with v by lia. reflexivity.
Qed.

(* every parameter created by one thermostat response carries that response's context *)
Lemma handle_ctx table c params : forall d, (forall n p, In (n, p) d -> p_ctx p = c) ->
  forall n p, In (n, p) (handle_params table c d params) -> p_ctx p = c.
Proof.
  induction params as [|[index v] rest IH]; intros d Hd n p; cbn [handle_params]; [apply Hd|].
  destruct (nth_error table (N.to_nat index)) as [desc|]; [|apply Hd].
  apply IH. intros n' p' Hin. unfold create_or_update in Hin.
  destruct (pd_find (pd_name desc) d) as [p0|] eqn:Ef; apply pd_set_in in Hin; destruct Hin as [[-> ->]|Hin]; try (now apply (Hd n' p')).
  - cbn [p_ctx]. apply (Hd _ _ (pd_find_in _ _ _ Ef)).
  - reflexivity.
Qed.

Theorem C07_thermostat_partial : C07_thermostat_partial_statement.
Proof.
  intros t per params Hl name p t' off Hin Hc. unfold handle_thermostat in Hin.
  pose proof (handle_ctx thermostat_params (CThermostat t (t * N.of_nat (List.length params))) params [] ltac:(intros ? ? []) name p Hin) as H.
  rewrite H in Hc. injection Hc as <- <-. now rewrite Hl.
Qed.

(* with an undefined hole the offset is wrong: known finding D8 *)
Theorem C07_thermostat_refuted : ~ C07_thermostat_full_statement.
Proof.
  intros H. specialize (H 1 3%nat [Some (1, 0, 2); None; Some (5, 0, 9)] eq_refl).
  specialize (H "mode"%string (mkParam 0 (CThermostat 1 2) (1, 0, 2) 1) 1 2).
  assert (2 = 1 * N.of_nat 3) as E; [|discriminate E].
  apply H; [|reflexivity]. vm_compute. now left.
Qed.

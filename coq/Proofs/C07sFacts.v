(* C07, schedules: routing by name (finite check over the generated tables) and the dataset kept across responses (D21). *)
From Coq Require Import NArith List Bool Arith String Ascii.
From PV Require Import Generated.Tables Model.SchedRoute Model.SchedData Spec.C07.
Import ListNotations.

Lemma route_all : forallb route_ok (seq 0 (List.length schedule_params)) = true.
Proof. vm_compute. reflexivity. Qed.

Theorem C07_schedule_route : C07_schedule_route_statement.
Proof.
  intros j Hj. pose proof route_all as H. rewrite forallb_forall in H. apply H. apply in_seq. split; [apply Nat.le_0_l|exact Hj].
Qed.

Theorem C07_schedule_table : C07_schedule_table_statement.
Proof. vm_compute. reflexivity. Qed.

(* the prefix pairs exist in the generated table: the routing theorem is not vacuous about them *)
Example prefix_pairs_exist :
  existsb (fun a => existsb (fun b => negb (String.eqb a b) && is_prefix (a ++ "_") b) schedules) schedules = true.
Proof. vm_compute. reflexivity. Qed.

Open Scope N_scope.
Lemma has_app i a b : has i (a ++ b) = has i a || has i b.
Proof. unfold has. apply existsb_app. Qed.

Lemma has_filter_other i (new old : list (N * week)) :
  has i new = false -> has i (filter (fun p => negb (has (fst p) new)) old) = has i old.
Proof.
  intros Hn. unfold has at 1 3. induction old as [|p old IH]; [reflexivity|]. cbn [filter existsb].
  destruct (has (fst p) new) eqn:Hp; cbn [negb existsb].
  - destruct (N.eqb_spec (fst p) i) as [E|_]; [rewrite E, Hn in Hp; discriminate|]. cbn [orb]. exact IH.
  - now rewrite IH.
Qed.

Lemma add_keeps i old new : has i old = true \/ has i new = true -> has i (add_schedules true old new) = true.
Proof.
  unfold add_schedules. rewrite has_app. intros [Ho|Hn].
  - destruct (has i new) eqn:E; [apply orb_true_r|]. now rewrite has_filter_other, Ho.
  - rewrite Hn. apply orb_true_r.
Qed.

Lemma fold_keeps i rs : forall d, has i d = true -> has i (fold_left (add_schedules true) rs d) = true.
Proof.
  induction rs as [|r rs IH]; intros d Hd; [exact Hd|]. cbn [fold_left]. apply IH. apply add_keeps. now left.
Qed.

Theorem C07_schedules_kept : C07_schedules_kept_statement.
Proof.
  intros responses r i Hin Hr. unfold dataset. generalize (@nil (N * week)) as d.
  induction responses as [|r0 rs IH]; intros d; [destruct Hin|].
  cbn [fold_left]. destruct Hin as [->|Hin].
  - apply fold_keeps. apply add_keeps. now right.
  - now apply IH.
Qed.

(* the pinned behaviour loses the schedules of the first response (D21) *)
Theorem C07_schedules_pinned_refuted :
  has 38 (dataset false [[(38, []); (39, [])]; [(0, []); (34, [])]]) = false.
Proof. vm_compute. reflexivity. Qed.

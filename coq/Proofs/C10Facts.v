From Coq Require Import NArith List Bool Arith Lia.
From PV Require Import Model.DeviceEntry Spec.C10.
Import ListNotations.

Definition inv (s : dst) : Prop :=
  (published s = None /\ next_obj s = 0 /\ setups s = 0 /\ handled s = [] /\ got s = [] /\ length (creating s) <= 1 /\
   (creating s = [] -> waitq s = [])) \/
  (published s = Some 0 /\ next_obj s = 1 /\ setups s = 1 /\ creating s = [] /\ waitq s = [] /\ get_waiting s = [] /\
   Forall (fun p => snd p = 0) (handled s) /\ Forall (fun p => snd p = 0) (got s)).

Lemma inv_step s e : inv s -> inv (dstep true s e).
Proof.
  intros [ (Hp & Hn & Hs & Hh & Hg & Hc & Hw) | (Hp & Hn & Hs & Hc & Hw & Hgw & Hh & Hg) ].
  - destruct e as [tag|i|g]; cbn [dstep]; rewrite ?Hp.
    + destruct (creating s) as [|c0 cs] eqn:Ec; cbn [andb negb].
      * left. cbn. repeat split; auto; try lia; try (intros H; discriminate H).
      * left. cbn. cbn [length] in Hc. repeat split; auto; try lia; try (intros H; discriminate H).
    + destruct (nth_error (creating s) i) as [tag|] eqn:En.
      * right. cbn [published next_obj setups creating waitq get_waiting handled got]. rewrite Hn, Hs, Hh, Hg.
        destruct (creating s) as [|c0 [|c1 cs]] eqn:Ec; cbn [length] in Hc; try lia; [destruct i; discriminate En|].
        destruct i as [|i]; [|destruct i; discriminate En]. cbn [remove_nth].
        repeat split; auto.
        -- cbn [app]. constructor; [reflexivity|]. apply Forall_forall. intros p Hin. apply in_map_iff in Hin. destruct Hin as [t [<- _]]. reflexivity.
        -- cbn [app]. apply Forall_forall. intros p Hin. apply in_map_iff in Hin. destruct Hin as [t [<- _]]. reflexivity.
      * left. repeat split; auto.
    + left. cbn. repeat split; auto.
  - destruct e as [tag|i|g]; cbn [dstep]; rewrite ?Hp, ?Hc.
    + cbn [andb negb]. right. cbn. repeat split; auto. apply Forall_app. split; [exact Hh|repeat constructor].
    + destruct i; cbn [nth_error]; right; repeat split; auto.
    + right. cbn. repeat split; auto. apply Forall_app. split; [exact Hg|repeat constructor].
Qed.

Lemma inv_run evs : inv (drun true evs).
Proof.
  unfold drun. assert (G : forall s, inv s -> inv (fold_left (dstep true) evs s)).
  { induction evs as [|e evs IH]; intros s H; cbn [fold_left]; [exact H|]. apply IH. now apply inv_step. }
  apply G. left. cbn. repeat split; auto.
Qed.

Theorem C10_unique : C10_statement.
Proof.
  intros evs. cbn zeta. unfold P10.
  destruct (inv_run evs) as [ (Hp & Hn & Hs & Hh & Hg & _) | (Hp & Hn & Hs & _ & _ & _ & Hh & Hg) ].
  - rewrite Hn, Hs, Hh, Hg. reflexivity.
  - rewrite Hn, Hs. cbn [Nat.leb Nat.eqb andb].
    assert (forall l, Forall (fun p : nat * nat => snd p = 0) l -> forallb (fun p => Nat.eqb (snd p) 0) l = true) as F.
    { intros l H. apply forallb_forall. rewrite Forall_forall in H. intros p Hin. rewrite (H p Hin). reflexivity. }
    now rewrite (F _ Hh), (F _ Hg).
Qed.

(* counting: handled + creating + waiting = arrived, always *)
Lemma count_step s e : length (handled (dstep true s e)) + length (creating (dstep true s e)) + length (waitq (dstep true s e)) =
  length (handled s) + length (creating s) + length (waitq s) + match e with Arrive _ => 1 | _ => 0 end.
Proof.
  destruct e as [tag|i|g]; cbn [dstep].
  - destruct (published s); destruct (creating s) eqn:Ec; cbn [andb negb handled creating waitq]; rewrite ?Ec, ?app_length; cbn [length]; lia.
  - destruct (nth_error (creating s) i) as [tag|] eqn:En; [|lia].
    cbn [handled creating waitq]. rewrite !app_length, map_length. cbn [length].
    assert (length (remove_nth i (creating s)) + 1 = length (creating s)) as R.
    { clear -En. revert i En. induction (creating s) as [|a l IH]; intros i En; [destruct i; discriminate|].
      destruct i; cbn [remove_nth length]; [lia|]. cbn [nth_error] in En. specialize (IH i En). lia. }
    lia.
  - destruct (published s); cbn; lia.
Qed.

Theorem C10_complete : C10_complete_statement.
Proof.
  intros evs. cbn zeta. intros Hp.
  destruct (inv_run evs) as [ (Hp' & _) | (_ & _ & _ & Hc & Hw & Hgw & _ & _) ]; [congruence|].
  repeat split; auto.
  assert (G : forall evs s, length (handled (fold_left (dstep true) evs s)) + length (creating (fold_left (dstep true) evs s)) +
      length (waitq (fold_left (dstep true) evs s)) = length (handled s) + length (creating s) + length (waitq s) + length (arrived evs)).
  { clear. induction evs as [|e evs IH]; intros s; cbn [fold_left arrived flat_map]; [cbn; lia|].
    rewrite IH, count_step. unfold arrived. rewrite app_length. destruct e; cbn [length]; lia. }
  specialize (G evs dinit). fold (drun true evs) in G. rewrite Hc, Hw in G. cbn in G. lia.
Qed.

(* the pinned behaviour: two frames arrive before the first class loading completes *)
Theorem C10_pinned_refuted :
  let s := drun false [Arrive 1; Arrive 2; CreateDone 0; CreateDone 0] in
  P10 (next_obj s) (setups s) (handled s) (got s) = false.
Proof. vm_compute. reflexivity. Qed.

(* every caller of get() issued so far has been answered or is still waiting; nobody waits once the entry is published *)
Definition served (s : dst) (g : nat) : Prop := In g (map fst (got s)) \/ In g (get_waiting s).

Lemma served_step s e g : served s g -> served (dstep true s e) g.
Proof.
  unfold served. intros H. destruct e as [tag|i|g']; cbn [dstep].
  - destruct (published s); destruct (creating s); cbn [andb negb got get_waiting]; exact H.
  - destruct (nth_error (creating s) i); [|exact H].
    cbn [got get_waiting]. left. rewrite map_app, map_map. cbn [fst]. rewrite map_id. apply in_or_app. exact H.
  - destruct (published s); cbn [got get_waiting].
    + destruct H as [H|H]; [left; rewrite map_app; apply in_or_app; now left|now right].
    + destruct H as [H|H]; [now left|right; apply in_or_app; now left].
Qed.

Lemma served_new s g : served (dstep true s (UserGet g)) g.
Proof.
  unfold served. cbn [dstep]. destruct (published s); cbn [got get_waiting].
  - left. rewrite map_app. apply in_or_app. right. now left.
  - right. apply in_or_app. right. now left.
Qed.

Lemma served_run evs : forall s g, (served s g \/ In g (getters evs)) -> served (fold_left (dstep true) evs s) g.
Proof.
  induction evs as [|e evs IH]; intros s g H; cbn [fold_left].
  - destruct H as [H|H]; [exact H|destruct H].
  - apply IH. unfold getters in H. cbn [flat_map] in H. fold (getters evs) in H.
    destruct H as [H|H]; [left; now apply served_step|].
    apply in_app_or in H. destruct H as [H|H]; [|now right].
    destruct e as [tag|i|g']; cbn in H; [contradiction|contradiction|].
    destruct H as [<-|[]]. left. apply served_new.
Qed.

Theorem C10_getters : C10_getters_statement.
Proof.
  intros evs. cbn zeta. intros Hp g Hg.
  pose proof (served_run evs dinit g (or_intror Hg)) as H. fold (drun true evs) in H.
  destruct (inv_run evs) as [ (Hp' & _) | (_ & _ & _ & _ & _ & Hgw & _ & _) ]; [congruence|].
  destruct H as [H|H]; [exact H|]. rewrite Hgw in H. destruct H.
Qed.

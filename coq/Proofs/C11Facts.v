From Coq Require Import NArith List Bool Arith Lia.
From PV Require Import Generated.Tables Model.Conn Spec.C11.
Import ListNotations.

Lemma nats_eqb_refl l : nats_eqb l l = true.
Proof. induction l as [|x l IH]; [reflexivity|]. cbn [nats_eqb]. now rewrite Nat.eqb_refl, IH. Qed.

Lemma opens_ok_model fails : forall first, opens_ok first (opens fails first) = true.
Proof.
  induction fails as [|k IH]; intros first.
  - cbn [opens opens_ok]. destruct first; reflexivity.
  - cbn [opens]. specialize (IH false).
    destruct (opens k false) as [|p r] eqn:E; [destruct k; discriminate E|].
    change (opens_ok first ((if first then 0%N else reconnect_timeout, false) :: p :: r)) with
      (negb false && (first || (20 <=? (if first then 0 else reconnect_timeout))%N) && opens_ok false (p :: r)).
    rewrite IH. destruct first; reflexivity.
Qed.

Lemma run_cycles_ok cs : forall before, before = N.to_nat consumers_count ->
  P11 cs (run_cycles true before cs) = true.
Proof.
  induction cs as [|c cs IH]; intros before Hb; [reflexivity|].
  cbn [run_cycles P11]. rewrite IH.
  - unfold P11_cycle, do_cycle. cbn [co_down co_closes co_opens co_startmaster co_up co_producers co_consumers].
    rewrite !nats_eqb_refl, opens_ok_model. subst before. reflexivity.
  - unfold do_cycle. cbn [co_consumers]. subst before. apply Nat.max_id.
Qed.

Theorem C11_cycles : C11_statement.
Proof. intros cs. unfold run_conn. now apply run_cycles_ok. Qed.

(* the pinned behaviour: every cycle adds a set of consumers *)
Theorem C11_pinned_refuted : P11 [mkCin 1 0] (run_conn false [mkCin 1 0]) = false.
Proof. vm_compute. reflexivity. Qed.

From Coq Require Import NArith ZArith List Bool Lia Arith ZifyBool ZifyNat ZifyN.
From PV Require Import Lib.Bytes Generated.Tables Model.Schedule Model.Requests Spec.C02 Spec.C18 Proofs.C02Facts.
Import ListNotations.
Ltac Zify.zify_post_hook ::= Z.to_euclidean_division_equations.
Open Scope N_scope.

(* ---- set_range ---- *)
Lemma set_range_length day : forall i lo hi v, length (set_range day i lo hi v) = length day.
Proof. induction day as [|b t IH]; intros; cbn [set_range length]; [reflexivity|]. now rewrite IH. Qed.

Lemma set_range_nth day : forall i lo hi v k, (k < length day)%nat ->
  nth k (set_range day i lo hi v) false =
  if Nat.leb lo (i + k) && Nat.leb (i + k) hi then v else nth k day false.
Proof.
  induction day as [|b t IH]; intros i lo hi v k Hk; cbn [length] in Hk; [lia|].
  cbn [set_range]. destruct k as [|k].
  - cbn [nth]. now rewrite Nat.add_0_r.
  - cbn [nth]. rewrite IH by lia. now replace (S i + k)%nat with (i + S k)%nat by lia.
Qed.

Lemma forallb_seq (f : nat -> bool) n : (forall i, (i < n)%nat -> f i = true) -> forallb f (seq 0 n) = true.
Proof. intros H. apply forallb_forall. intros i Hi. apply in_seq in Hi. apply H. lia. Qed.

Lemma state_value_none st : 4 <= st -> state_value st = None.
Proof.
  intros H. destruct st as [|p]; [lia|]. destruct p as [[?|?|]|[?|?|]|]; try reflexivity; lia.
Qed.

Lemma state_value_some st : st < 4 -> state_value st = Some ((st =? 0) || (st =? 2)).
Proof.
  intros H. assert (st = 0 \/ st = 1 \/ st = 2 \/ st = 3) as [->|[->|[->| ->]]] by lia; reflexivity.
Qed.

Theorem C18_edit : C18_edit_statement.
Proof.
  intros day st sh sm eh em Hlen Hsm Hem.
  unfold P18_edit, set_state, time_range, valid_time, aligned in *.
  assert (Hsm' : sm = 0 \/ sm = 30) by lia. assert (Hem' : em = 0 \/ em = 30) by lia.
  rewrite Hsm, Hem. rewrite !andb_true_r.
  destruct (st <? 4) eqn:Est.
  2:{ cbn [andb]. rewrite state_value_none by lia. reflexivity. }
  destruct ((sh <? 24) && (eh <? 24)) eqn:Eh.
  2:{ cbn [andb].
      replace (negb ((sh <? 24) && (sm <? 60) && ((eh <? 24) && (em <? 60)))) with true by lia.
      destruct (state_value st); reflexivity. }
  replace (negb ((sh <? 24) && (sm <? 60) && ((eh <? 24) && (em <? 60)))) with false by lia.
  cbn [andb].
  set (s_slot := 2 * sh + sm / 30).
  set (e_slot := if (eh =? 0) && (em =? 0) then 47 else 2 * eh + em / 30).
  set (emin := if 60 * eh + em =? 0 then 24 * 60 - 30 else 60 * eh + em).
  assert (Es : (60 * sh + sm) / 30 = s_slot) by (unfold s_slot; lia).
  assert (Ee : emin / 30 = e_slot).
  { unfold emin, e_slot. destruct ((eh =? 0) && (em =? 0)) eqn:E0.
    - replace (60 * eh + em =? 0) with true by lia. reflexivity.
    - replace (60 * eh + em =? 0) with false by lia. lia. }
  assert (Ecmp : (emin <=? 60 * sh + sm) = negb (s_slot <? e_slot)).
  { unfold emin, s_slot, e_slot. destruct ((eh =? 0) && (em =? 0)) eqn:E0.
    - replace (60 * eh + em =? 0) with true by lia. lia.
    - replace (60 * eh + em =? 0) with false by lia. lia. }
  rewrite Ecmp, Es, Ee.
  rewrite state_value_some by lia. set (v := (st =? 0) || (st =? 2)).
  destruct (s_slot <? e_slot) eqn:Elt; cbn [negb]; [|reflexivity].
  assert (He47 : e_slot <= 47) by (unfold e_slot; destruct ((eh =? 0) && (em =? 0)); lia).
  replace (Nat.ltb (N.to_nat e_slot) (length day)) with true by (rewrite Hlen; symmetry; apply Nat.ltb_lt; lia).
  rewrite set_range_length, Hlen. cbn [Nat.eqb andb].
  apply forallb_seq. intros i Hi.
  rewrite set_range_nth by lia. cbn [Nat.add].
  replace (Nat.leb (N.to_nat s_slot) i && Nat.leb i (N.to_nat e_slot)) with ((s_slot <=? N.of_nat i) && (N.of_nat i <=? e_slot)) by lia.
  apply Bool.eqb_reflx.
Qed.

Theorem C18_reject : C18_reject_statement.
Proof.
  intros day st sh sm eh em H. unfold set_state, time_range.
  destruct (4 <=? st) eqn:E4.
  - rewrite state_value_none by lia. reflexivity.
  - cbn [orb] in H.
    replace (negb (valid_time sh sm && valid_time eh em)) with true by (destruct (valid_time sh sm), (valid_time eh em); cbn in *; congruence).
    destruct (state_value st); reflexivity.
Qed.

(* ---- bitmap codec ---- *)
Lemma split_join8 b0 b1 b2 b3 b4 b5 b6 b7 :
  split_byte (join_bits [b0; b1; b2; b3; b4; b5; b6; b7]) = [b0; b1; b2; b3; b4; b5; b6; b7].
Proof. destruct b0, b1, b2, b3, b4, b5, b6, b7; reflexivity. Qed.

Fixpoint nrange (n : nat) : list N := match n with O => [] | S k => nrange k ++ [N.of_nat k] end.
Lemma nrange_in n b : b < N.of_nat n -> In b (nrange n).
Proof.
  induction n as [|k IH]; intros H; [lia|]. cbn [nrange]. apply in_app_iff.
  destruct (N.eq_dec b (N.of_nat k)) as [->|Hne]; [right; now left|left; apply IH; lia].
Qed.

Lemma join_split_all : forallb (fun b => join_bits (split_byte b) =? b) (nrange 256) = true.
Proof. vm_compute. reflexivity. Qed.

Lemma join_split b : b < 256 -> join_bits (split_byte b) = b.
Proof.
  intros H. pose proof join_split_all as A. rewrite forallb_forall in A.
  specialize (A b (nrange_in 256 b H)). now apply N.eqb_eq.
Qed.

Definition day_bits (g : list N) : list bool := concat (map split_byte g).

Lemma day_bits_length g : length (day_bits g) = (8 * length g)%nat.
Proof. unfold day_bits. induction g as [|b g IH]; [reflexivity|]. cbn [map concat]. rewrite app_length, IH. cbn [length split_byte map]. lia. Qed.

(* encode_day of a 48-slot day, then back *)
Lemma day_roundtrip d : length d = 48%nat -> day_bits (encode_day d) = d.
Proof.
  intros H. do 48 (destruct d as [|? d]; [discriminate H|]). destruct d; [|discriminate H].
  unfold encode_day, day_bits. cbn [length chunks8 firstn skipn map concat]. rewrite !split_join8. reflexivity.
Qed.

Lemma encode_day_length d : length d = 48%nat -> length (encode_day d) = 6%nat.
Proof. intros H. rewrite (encode_day_spec d H). reflexivity. Qed.

Lemma chunks48_concat w : forall fuel, (length w <= fuel)%nat -> forallb (fun d => Nat.eqb (length d) 48) w = true ->
  chunks48 fuel (concat w) = w.
Proof.
  induction w as [|d w IH]; intros fuel Hf Hw.
  - destruct fuel; reflexivity.
  - destruct fuel as [|k]; [cbn [length] in Hf; lia|].
    cbn [forallb] in Hw. apply andb_true_iff in Hw. destruct Hw as [Hd Hw]. apply Nat.eqb_eq in Hd.
    cbn [concat chunks48].
    destruct (d ++ concat w) eqn:E.
    { destruct d; [discriminate Hd|discriminate E]. }
    rewrite <- E. rewrite firstn_app_exact by (symmetry; exact Hd). rewrite skipn_app_exact by (symmetry; exact Hd).
    f_equal. apply IH; [cbn [length] in Hf; lia|exact Hw].
Qed.

Lemma concat_length_ge (w : list (list bool)) : forallb (fun d => Nat.eqb (length d) 48) w = true ->
  (length w <= length (concat w))%nat.
Proof.
  induction w as [|d w IH]; intros H; [cbn; lia|]. cbn [forallb] in H. apply andb_true_iff in H. destruct H as [Hd Hw].
  apply Nat.eqb_eq in Hd. cbn [concat length]. rewrite app_length. specialize (IH Hw). lia.
Qed.

Lemma bits_of_encode w : forallb (fun d => Nat.eqb (length d) 48) w = true ->
  concat (map split_byte (encode_bitmap w)) = concat w.
Proof.
  unfold encode_bitmap. induction w as [|d w IH]; intros H; [reflexivity|].
  cbn [forallb] in H. apply andb_true_iff in H. destruct H as [Hd Hw]. apply Nat.eqb_eq in Hd.
  cbn [map concat]. rewrite map_app, concat_app. rewrite IH by exact Hw. f_equal.
  now apply day_roundtrip.
Qed.

Theorem C18_decode_encode : C18_decode_encode_statement.
Proof.
  intros w H. unfold week_ok in H. apply andb_true_iff in H. destruct H as [_ H].
  unfold decode_bitmap. rewrite bits_of_encode by exact H.
  apply chunks48_concat; [apply concat_length_ge; exact H|exact H].
Qed.

(* the other direction: six bytes make a day, a day makes the six bytes again *)
Lemma encode_day_bits a b c d e f : a < 256 -> b < 256 -> c < 256 -> d < 256 -> e < 256 -> f < 256 ->
  encode_day (day_bits [a; b; c; d; e; f]) = [a; b; c; d; e; f].
Proof.
  intros Ha Hb Hc Hd He Hf. unfold encode_day, day_bits.
  cbn [map concat app split_byte length chunks8 firstn skipn].
  change [N.testbit a 7; N.testbit a 6; N.testbit a 5; N.testbit a 4; N.testbit a 3; N.testbit a 2; N.testbit a 1; N.testbit a 0] with (split_byte a).
  change [N.testbit b 7; N.testbit b 6; N.testbit b 5; N.testbit b 4; N.testbit b 3; N.testbit b 2; N.testbit b 1; N.testbit b 0] with (split_byte b).
  change [N.testbit c 7; N.testbit c 6; N.testbit c 5; N.testbit c 4; N.testbit c 3; N.testbit c 2; N.testbit c 1; N.testbit c 0] with (split_byte c).
  change [N.testbit d 7; N.testbit d 6; N.testbit d 5; N.testbit d 4; N.testbit d 3; N.testbit d 2; N.testbit d 1; N.testbit d 0] with (split_byte d).
  change [N.testbit e 7; N.testbit e 6; N.testbit e 5; N.testbit e 4; N.testbit e 3; N.testbit e 2; N.testbit e 1; N.testbit e 0] with (split_byte e).
  change [N.testbit f 7; N.testbit f 6; N.testbit f 5; N.testbit f 4; N.testbit f 3; N.testbit f 2; N.testbit f 1; N.testbit f 0] with (split_byte f).
  now rewrite !join_split by assumption.
Qed.

Lemma decode_groups (gs : list (list N)) : forallb (fun g => Nat.eqb (length g) 6) gs = true ->
  decode_bitmap (concat gs) = map day_bits gs.
Proof.
  intros H. unfold decode_bitmap.
  assert (E : concat (map split_byte (concat gs)) = concat (map day_bits gs)).
  { clear H. induction gs as [|g gs IH]; [reflexivity|]. cbn [concat map]. rewrite map_app, concat_app, IH. reflexivity. }
  rewrite E.
  assert (H48 : forallb (fun d => Nat.eqb (length d) 48) (map day_bits gs) = true).
  { apply forallb_forall. intros d Hd. apply in_map_iff in Hd. destruct Hd as [g [<- Hg]].
    rewrite forallb_forall in H. specialize (H g Hg). apply Nat.eqb_eq in H. rewrite day_bits_length, H. reflexivity. }
  apply chunks48_concat; [apply concat_length_ge; exact H48|exact H48].
Qed.

Theorem C18_encode_decode : C18_encode_decode_statement.
Proof.
  intros bs Hlen Hb.
  do 42 (destruct bs as [|? bs]; [discriminate Hlen|]). destruct bs; [|discriminate Hlen].
  repeat match goal with H : Bytes (_ :: _) |- _ => apply Bytes_cons in H; destruct H as [? H] end.
  match goal with |- encode_bitmap (decode_bitmap ?l) = _ =>
    change l with (concat [[n; n0; n1; n2; n3; n4]; [n5; n6; n7; n8; n9; n10]; [n11; n12; n13; n14; n15; n16];
                           [n17; n18; n19; n20; n21; n22]; [n23; n24; n25; n26; n27; n28]; [n29; n30; n31; n32; n33; n34];
                           [n35; n36; n37; n38; n39; n40]]) at 1 end.
  rewrite decode_groups by reflexivity.
  unfold encode_bitmap. cbn [map concat app].
  rewrite !encode_day_bits by assumption. reflexivity.
Qed.

Theorem C18_commit : C18_commit_statement.
Proof.
  intros idx sw par w Hb Hw. split; [|split].
  - apply (C02_payload (RSetSchedule idx sw par w)). cbn [req_ok]. now rewrite Hb, Hw.
  - rewrite app_length, spec_bitmap_length. unfold week_ok in Hw. apply andb_true_iff in Hw. destruct Hw as [Hl _].
    apply Nat.eqb_eq in Hl. rewrite Hl. reflexivity.
  - pose proof Hw as Hw'. unfold week_ok in Hw'. apply andb_true_iff in Hw'. destruct Hw' as [_ H48].
    rewrite <- (encode_bitmap_spec w H48). now apply C18_decode_encode.
Qed.

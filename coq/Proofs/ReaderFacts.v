(* Facts about the reader model: stream decomposition, progress, soundness of delivery. *)
From Coq Require Import NArith ZArith List Bool Lia Arith ZifyBool ZifyNat ZifyN.
From PV Require Import Lib.Bytes Generated.Tables Model.Frame Model.Reader Spec.C01.
Import ListNotations.
Ltac Zify.zify_post_hook ::= Z.to_euclidean_division_equations.
Open Scope N_scope.

Definition nostart (l : list N) : Prop := Forall (fun b => b <> frame_start) l.

Lemma scan_spec s t : scan s = Some t ->
  exists junk, s = junk ++ frame_start :: t /\ nostart junk.
Proof.
  revert t; induction s as [|b s IH]; intros t H; cbn [scan] in H; [discriminate|].
  destruct (b =? frame_start) eqn:E.
  - injection H as <-. exists []. split; [cbn; f_equal; lia|constructor].
  - destruct (IH t H) as [j [-> Hj]]. exists (b :: j). split; [reflexivity|].
    constructor; [lia|exact Hj].
Qed.

Lemma scan_app_nostart junk t : nostart junk -> scan (junk ++ frame_start :: t) = Some t.
Proof.
  induction junk as [|b j IH]; intros H; cbn [app scan].
  - now rewrite N.eqb_refl.
  - inversion H as [|? ? Hb Hj]; subst. destruct (b =? frame_start) eqn:E; [lia|]. now apply IH.
Qed.

Lemma split_start_app junk t : nostart junk ->
  split_start (junk ++ frame_start :: t) = Some (frame_start :: t).
Proof.
  induction junk as [|b j IH]; intros H; cbn [app split_start].
  - reflexivity.
  - inversion H as [|? ? Hb Hj]; subst.
    change 104 with frame_start. destruct (b =? frame_start) eqn:E; [lia|]. now apply IH.
Qed.

(* every call returns a suffix of its input, and consumes something unless the stream is broken *)
Lemma read_one_suffix_strong s o rest : read_one s = (o, rest) ->
  exists c, s = c ++ rest /\ (o <> Broken -> c <> []).
Proof.
  unfold read_one. destruct (scan s) as [t|] eqn:Hs.
  2:{ intros H; injection H as <- <-. exists s. rewrite app_nil_r. split; congruence. }
  destruct (scan_spec _ _ Hs) as [junk [-> _]].
  assert (NE : forall x y : list N, junk ++ frame_start :: x ++ y <> []) by (intros x y; destruct junk; discriminate).
  assert (NE' : forall x : list N, junk ++ frame_start :: x <> []) by (intros x; destruct junk; discriminate).
  destruct (N.of_nat (length t) <? header_size - 1) eqn:H6.
  { intros H; injection H as <- <-. eexists. rewrite app_nil_r. split; [reflexivity|]. intros _. apply NE'. }
  set (h := firstn 6 t). set (t1 := skipn 6 t).
  assert (Et : t = h ++ t1) by (unfold h, t1; now rewrite firstn_skipn).
  destruct ((max_frame_length <? hdr_len h) || (hdr_len h <? min_frame_length)) eqn:Hlen.
  { intros H; injection H as <- <-. exists (junk ++ frame_start :: h). rewrite Et, <- app_assoc. split; [reflexivity|]. intros _. apply NE'. }
  set (n := N.to_nat (hdr_len h - header_size)).
  destruct (Nat.ltb (length t1) n) eqn:Hn.
  { intros H; injection H as <- <-. eexists. rewrite app_nil_r. split; [reflexivity|]. intros _. apply NE'. }
  set (body := firstn n t1). set (rest' := skipn n t1).
  assert (Et1 : t1 = body ++ rest') by (unfold body, rest'; now rewrite firstn_skipn).
  assert (forall o', (o', rest') = (o, rest) ->
            exists c, junk ++ frame_start :: t = c ++ rest /\ (o <> Broken -> c <> [])) as K.
  { intros o' H; injection H as <- <-. exists (junk ++ frame_start :: h ++ body).
    rewrite Et, Et1. rewrite <- !app_assoc. cbn [app]. rewrite <- !app_assoc. split; [reflexivity|]. intros _. apply NE. }
  repeat match goal with |- (if ?b then _ else _) = _ -> _ => destruct b end; apply K.
Qed.

Lemma read_one_suffix s o rest : read_one s = (o, rest) -> exists c, s = c ++ rest.
Proof. intros H. destruct (read_one_suffix_strong _ _ _ H) as [c [E _]]. now exists c. Qed.

Lemma consumed_app (c rest : list N) : consumed (c ++ rest) rest = c.
Proof. unfold consumed. rewrite app_length. replace (length c + length rest - length rest)%nat with (length c) by lia.
  now apply firstn_app_exact. Qed.

(* progress: a call that does not report a broken stream consumes at least one byte *)
Lemma read_one_progress s o rest : read_one s = (o, rest) -> o <> Broken -> (length rest < length s)%nat.
Proof.
  intros H Nb. destruct (read_one_suffix_strong _ _ _ H) as [c [-> Hc]]. specialize (Hc Nb).
  rewrite app_length. destruct c; [congruence|cbn [length]; lia].
Qed.

(* soundness of one delivery *)
Lemma read_one_delivered s f rest :
  read_one s = (Delivered f, rest) -> valid_delivery (consumed s rest) f = true.
Proof.
  unfold read_one. destruct (scan s) as [t|] eqn:Hs; [|discriminate].
  destruct (scan_spec _ _ Hs) as [junk [-> Hj]].
  destruct (N.of_nat (length t) <? header_size - 1) eqn:H6; [discriminate|].
  set (h := firstn 6 t). set (t1 := skipn 6 t).
  assert (Et : t = h ++ t1) by (unfold h, t1; now rewrite firstn_skipn).
  assert (Lh : length h = 6%nat).
  { unfold h. rewrite firstn_length. unfold header_size in H6. lia. }
  destruct ((max_frame_length <? hdr_len h) || (hdr_len h <? min_frame_length)) eqn:Hlen; [discriminate|].
  set (n := N.to_nat (hdr_len h - header_size)).
  destruct (Nat.ltb (length t1) n) eqn:Hn; [discriminate|].
  set (body := firstn n t1). set (rest' := skipn n t1).
  assert (Et1 : t1 = body ++ rest') by (unfold body, rest'; now rewrite firstn_skipn).
  assert (Lb : length body = n) by (unfold body; rewrite firstn_length; lia).
  destruct (for_us (nth 2 h 0)) eqn:Hr; cbn [negb]; [|discriminate].
  destruct (known_device (nth 3 h 0)) eqn:Hd; cbn [negb]; [|discriminate].
  destruct (bcc _ =? _) eqn:Hc; cbn [negb]; [|discriminate].
  destruct (known_kind (nth 0 body 0)) eqn:Hk; cbn [negb]; [|discriminate].
  intros H; injection H as <- <-.
  replace (junk ++ frame_start :: t) with ((junk ++ frame_start :: h ++ body) ++ rest')
    by (rewrite Et, Et1, <- !app_assoc; cbn [app]; now rewrite <- !app_assoc).
  rewrite consumed_app.
  unfold valid_delivery. rewrite (split_start_app junk (h ++ body) Hj).
  set (fb := frame_start :: h ++ body) in *.
  assert (Lfb : length fb = N.to_nat (hdr_len h)).
  { unfold fb. cbn [length]. rewrite app_length, Lh, Lb. unfold n.
    unfold max_frame_length, min_frame_length, header_size in *. lia. }
  unfold max_frame_length, min_frame_length in Hlen.
  destruct h as [|h0 [|h1 [|h2 [|h3 [|h4 [|h5 [|? ?]]]]]]]; try discriminate Lh.
  assert (Hh : hdr_len [h0; h1; h2; h3; h4; h5] = h0 + 256 * h1).
  { unfold hdr_len. cbn [firstn le_decode]. lia. }
  rewrite Hh in *.
  cbn [f_kind f_rcpt f_sender f_etype f_ever f_payload].
  rewrite Lfb in *.
  rewrite !andb_true_iff. repeat split.
  - lia.
  - lia.
  - unfold fb. cbn [nth app]. lia.
  - rewrite N.eqb_sym. exact Hc.
  - unfold fb. cbn [nth app]. unfold for_us, addr_econet, addr_all in Hr. unfold memN. cbn [existsb nth] in *. lia.
  - unfold fb. cbn [nth app]. exact Hd.
  - unfold fb. cbn [nth app]. destruct body; cbn [nth]; apply N.eqb_refl.
  - apply N.eqb_refl.
  - apply N.eqb_refl.
  - apply N.eqb_refl.
  - apply N.eqb_refl.
  - apply list_eqb_N_eq. unfold fb. cbn [skipn app].
    f_equal. unfold n, header_size. lia.
Qed.

(* the fuelled iteration: every element satisfies P01_one, the consumed pieces tile the stream *)
Lemma read_all_fuel_sound fuel s : (length s < fuel)%nat ->
  forallb P01_one (read_all_fuel fuel s) = true /\ concat (map fst (read_all_fuel fuel s)) = s.
Proof.
  revert s; induction fuel as [|k IH]; intros s Hf; [lia|].
  cbn [read_all_fuel]. destruct (read_one s) as [o rest] eqn:R.
  assert (o = Broken \/ o <> Broken) as [->|Nb] by (destruct o; (now left) || (right; discriminate)).
  - cbn. now rewrite app_nil_r.
  - pose proof (read_one_progress _ _ _ R Nb) as Hp.
    destruct (read_one_suffix _ _ _ R) as [c Ec].
    destruct (IH rest ltac:(lia)) as [IH1 IH2].
    assert (forallb P01_one ((consumed s rest, o) :: read_all_fuel k rest) = true /\
            concat (map fst ((consumed s rest, o) :: read_all_fuel k rest)) = s) as G.
    { cbn [forallb map concat fst]. rewrite IH1, IH2. split.
      - rewrite andb_true_r. unfold P01_one. cbn [fst snd]. destruct o; try reflexivity.
        now apply read_one_delivered.
      - subst s. now rewrite consumed_app. }
    destruct o; try exact G. congruence.
Qed.

Theorem C01_delivered_sound : C01_statement.
Proof.
  intros s. unfold P01, read_all.
  destruct (read_all_fuel_sound (S (length s)) s ltac:(lia)) as [H1 H2].
  rewrite H1, H2. cbn [andb]. now apply list_eqb_N_eq.
Qed.

(* shape of what one call consumes: junk without delimiter, the delimiter, at most 999 more bytes *)
Lemma read_one_shape s o rest : read_one s = (o, rest) -> o <> Broken ->
  exists junk x, s = (junk ++ frame_start :: x) ++ rest /\ nostart junk /\ (length x <= 999)%nat.
Proof.
  unfold read_one. destruct (scan s) as [t|] eqn:Hs.
  2:{ intros H Nb; injection H as <- <-. congruence. }
  destruct (scan_spec _ _ Hs) as [junk [-> Hj]]. intros H _. revert H.
  destruct (N.of_nat (length t) <? header_size - 1) eqn:H6.
  { intros H; injection H as <- <-. exists junk, t. rewrite app_nil_r. repeat split; [exact Hj|].
    unfold header_size in H6. lia. }
  set (h := firstn 6 t). set (t1 := skipn 6 t).
  assert (Et : t = h ++ t1) by (unfold h, t1; now rewrite firstn_skipn).
  assert (Lh : length h = 6%nat).
  { unfold h. rewrite firstn_length. unfold header_size in H6. lia. }
  destruct ((max_frame_length <? hdr_len h) || (hdr_len h <? min_frame_length)) eqn:Hlen.
  { intros H; injection H as <- <-. exists junk, h. rewrite Et, <- !app_assoc. cbn [app].
    repeat split; [exact Hj|lia]. }
  set (n := N.to_nat (hdr_len h - header_size)).
  assert (Hn999 : (n <= 993)%nat) by (unfold n, max_frame_length, header_size in *; lia).
  destruct (Nat.ltb (length t1) n) eqn:Hn.
  { intros H; injection H as <- <-. exists junk, t. rewrite app_nil_r. repeat split; [exact Hj|].
    rewrite Et, app_length, Lh. apply Nat.ltb_lt in Hn. lia. }
  set (body := firstn n t1). set (rest' := skipn n t1).
  assert (Et1 : t1 = body ++ rest') by (unfold body, rest'; now rewrite firstn_skipn).
  assert (Lb : length body = n) by (unfold body; rewrite firstn_length; apply Nat.ltb_ge in Hn; lia).
  assert (forall o', (o', rest') = (o, rest) ->
     exists junk0 x, junk ++ frame_start :: t = (junk0 ++ frame_start :: x) ++ rest /\ nostart junk0 /\ (length x <= 999)%nat) as K.
  { intros o' H; injection H as <- <-. exists junk, (h ++ body).
    rewrite Et, Et1. rewrite <- !app_assoc. cbn [app]. rewrite <- !app_assoc.
    repeat split; [exact Hj|]. rewrite app_length, Lh, Lb. lia. }
  repeat match goal with |- (if ?b then _ else _) = _ -> _ => destruct b end; apply K.
Qed.

Lemma read_all_fuel_last fuel s : (length s < fuel)%nat ->
  exists l c, read_all_fuel fuel s = l ++ [(c, Broken)].
Proof.
  revert s; induction fuel as [|k IH]; intros s Hf; [lia|].
  cbn [read_all_fuel]. destruct (read_one s) as [o rest] eqn:R.
  assert (o = Broken \/ o <> Broken) as [->|Nb] by (destruct o; (now left) || (right; discriminate)).
  - exists [], s. reflexivity.
  - pose proof (read_one_progress _ _ _ R Nb) as Hp.
    destruct (IH rest ltac:(lia)) as [l [c E]].
    exists ((consumed s rest, o) :: l), c.
    destruct o; try (rewrite E; reflexivity). congruence.
Qed.

(* C05 (parameter blocks) -- the wire layout of the ecoMAX / mixer / thermostat parameter
   responses and of the schedules response, written down as encoders of abstract values, and the
   conformance statements: decoding the layout of a value returns that value. *)
From Coq Require Import NArith List Bool Arith.
From PV Require Import Lib.Bytes Generated.Tables Model.Schedule Model.ParamBlocks Spec.C02.
Import ListNotations.
Open Scope N_scope.

(* a slot: undefined (all 0xFF) or (value, min, max), each `size` bytes little-endian *)
Definition enc_slot (size : nat) (s : option pvals) : list N :=
  match s with
  | None => repeat 255 (3 * size)
  | Some (v, mn, mx) => le_encode size v ++ le_encode size mn ++ le_encode size mx
  end.

Definition top (size : nat) : N := 256 ^ N.of_nat size - 1.
Definition slot_ok (size : nat) (s : option pvals) : bool :=
  match s with
  | None => true
  | Some (v, mn, mx) =>
    (v <? 256 ^ N.of_nat size) && (mn <? 256 ^ N.of_nat size) && (mx <? 256 ^ N.of_nat size) &&
    negb ((v =? top size) && (mn =? top size) && (mx =? top size))     (* all-0xFF means undefined *)
  end.

Fixpoint view_slots (index : N) (slots : list (option pvals)) : list (N * pvals) :=
  match slots with
  | [] => []
  | Some p :: r => (index, p) :: view_slots (index + 1) r
  | None :: r => view_slots (index + 1) r
  end.

(* ecoMAX parameters: [any; start; count] slots *)
Definition enc_ecomax_params (b0 start : N) (slots : list (option pvals)) : list N :=
  [b0; start; N.of_nat (length slots)] ++ concat (map (enc_slot 1) slots).
Definition wf_slots (slots : list (option pvals)) : bool := forallb (slot_ok 1) slots && Nat.leb (length slots) 255.

Definition C05_ecomax_params_statement : Prop :=
  forall b0 start slots trailing, wf_slots slots = true ->
    decode_ecomax_params (enc_ecomax_params b0 start slots ++ trailing) = Some (view_slots start slots).

(* mixer parameters: [any; start; count; mixers] then `mixers` blocks of `count` slots *)
Definition enc_mixer_params (b0 start : N) (count : nat) (blocks : list (list (option pvals))) : list N :=
  [b0; start; N.of_nat count; N.of_nat (length blocks)] ++ concat (map (fun b => concat (map (enc_slot 1) b)) blocks).
Fixpoint view_blocks (start : N) (i : N) (blocks : list (list (option pvals))) : list (N * list (N * pvals)) :=
  match blocks with
  | [] => []
  | b :: r => match view_slots start b with
              | [] => view_blocks start (i + 1) r
              | ps => (i, ps) :: view_blocks start (i + 1) r
              end
  end.
Definition wf_blocks (count : nat) (blocks : list (list (option pvals))) : bool :=
  forallb (fun b => Nat.eqb (length b) count && forallb (slot_ok 1) b) blocks && Nat.leb count 255 && Nat.leb (length blocks) 255.

Definition C05_mixer_params_statement : Prop :=
  forall b0 start count blocks trailing, wf_blocks count blocks = true ->
    decode_mixer_params (enc_mixer_params b0 start count blocks ++ trailing) = Some (view_blocks start 0 blocks).

(* thermostat parameters: [any; start; total] profile slot, then per thermostat one slot per
   described parameter, 1 or 2 bytes wide according to the description table *)
Definition tsize (index : N) : nat := match thermostat_size index with Some k => k | None => 1%nat end.
Fixpoint enc_tslots (index : N) (slots : list (option pvals)) : list N :=
  match slots with [] => [] | s :: r => enc_slot (tsize index) s ++ enc_tslots (index + 1) r end.
Fixpoint wf_tslots (index : N) (slots : list (option pvals)) : bool :=
  match slots with
  | [] => true
  | s :: r => match thermostat_size index with Some k => slot_ok k s | None => false end && wf_tslots (index + 1) r
  end.

Definition enc_thermostat_params (b0 : N) (per : nat) (profile : option pvals) (blocks : list (list (option pvals))) : list N :=
  [b0; 0; N.of_nat (length blocks * per + 1)] ++ enc_slot 1 profile ++ concat (map (enc_tslots 0) blocks).
Definition wf_thermostat (per : nat) (profile : option pvals) (blocks : list (list (option pvals))) : bool :=
  slot_ok 1 profile && Nat.leb 1 (length blocks) && Nat.leb (length blocks * per + 1) 255 &&
  forallb (fun b => Nat.eqb (length b) per && wf_tslots 0 b) blocks.

Definition C05_thermostat_params_statement : Prop :=
  forall b0 per profile blocks trailing, wf_thermostat per profile blocks = true ->
    decode_thermostat_params (N.of_nat (length blocks)) (enc_thermostat_params b0 per profile blocks ++ trailing) =
    Some (Some (profile, view_blocks 0 0 blocks)).
(* a device that announced no thermostat gets "no thermostat parameters" whatever the payload *)
Definition C05_thermostat_none_statement : Prop := forall m, decode_thermostat_params 0 m = Some None.

(* schedules: [any; start; count] then per schedule: index, switch, parameter slot, 42 bitmap bytes *)
Record sched_val := mkSched { sv_index : N; sv_switch : N; sv_param : option pvals; sv_week : list (list bool) }.
Definition enc_sched (s : sched_val) : list N :=
  [sv_index s; sv_switch s] ++ enc_slot 1 (sv_param s) ++ spec_bitmap (sv_week s).
Definition enc_schedules (b0 start : N) (ss : list sched_val) : list N :=
  [b0; start; N.of_nat (length ss)] ++ concat (map enc_sched ss).
Definition wf_sched (s : sched_val) : bool := slot_ok 1 (sv_param s) && week_ok (sv_week s).
Fixpoint view_sched_params (ss : list sched_val) : list (N * pvals) :=
  match ss with
  | [] => []
  | s :: r => (sv_index s * 2, (sv_switch s, 0, 1)) ::
              match sv_param s with Some p => (sv_index s * 2 + 1, p) :: view_sched_params r | None => view_sched_params r end
  end.
Definition C05_schedules_statement : Prop :=
  forall b0 start ss trailing, forallb wf_sched ss = true -> Nat.leb (length ss) 255 = true ->
    decode_schedules (enc_schedules b0 start ss ++ trailing) =
    Some (map (fun s => (sv_index s, sv_week s)) ss, view_sched_params ss).

(* C10 -- one device object per controller address, for every arrival timing. *)
From Coq Require Import NArith List Bool Arith.
From PV Require Import Model.DeviceEntry.
Import ListNotations.

(* observed: objects created, set-up tasks started, (frame, object) pairs, (getter, object) pairs *)
Definition P10 (objects setups : nat) (handled got : list (nat * nat)) : bool :=
  Nat.leb objects 1 && Nat.eqb setups objects &&
  forallb (fun p => Nat.eqb (snd p) 0) handled && forallb (fun p => Nat.eqb (snd p) 0) got.

Definition C10_statement : Prop :=
  forall evs, let s := drun true evs in P10 (next_obj s) (setups s) (handled s) (got s) = true.

(* nothing is lost either: once the class loading has completed, every arrived frame has been
   handled and every getter answered *)
Definition arrived (evs : list dev_ev) : list nat := flat_map (fun e => match e with Arrive t => [t] | _ => [] end) evs.
Definition C10_complete_statement : Prop :=
  forall evs, let s := drun true evs in
    published s <> None -> creating s = [] /\ waitq s = [] /\ get_waiting s = [] /\
    length (handled s) = length (arrived evs).

(* ... and every caller of get() has been answered (with that object, by C10_statement) once the entry is published *)
Definition getters (evs : list dev_ev) : list nat := flat_map (fun e => match e with UserGet g => [g] | _ => [] end) evs.
Definition C10_getters_statement : Prop :=
  forall evs, let s := drun true evs in
    published s <> None -> forall g, In g (getters evs) -> In g (map fst (got s)).

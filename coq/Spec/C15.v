(* C15 -- frame-version announcements trigger exactly the needed refreshes.
   Specification against an abstract total map  code -> recorded version. *)
From Coq Require Import NArith List Bool.
From PV Require Import Lib.Bytes Generated.Tables Model.Frame Model.Versions.
Import ListNotations.
Open Scope N_scope.

Definition vmap := N -> option N.

Definition opt_eqb (a b : option N) : bool :=
  match a, b with Some x, Some y => x =? y | None, None => true | _, _ => false end.

(* the quantifier of the property: known request kinds and unknown codes only *)
Definition wf_ann (pairs : list (N * N)) : bool :=
  forallb (fun kv => request_kind (fst kv) || negb (known_kind (fst kv))) pairs.

(* a code needs a refresh iff it is a known request kind, the device answered it during set-up
   and the announced version differs from the recorded one *)
Definition needs (unsup : list N) (rec : vmap) (c v : N) : bool :=
  request_kind c && negb (memN c unsup) && negb (opt_eqb (rec c) (Some v)).

(* expected requests: one per announced (code, version) that needs it, in announcement order *)
Definition spec_out (unsup : list N) (rec : vmap) (pairs : list (N * N)) : list N :=
  map fst (filter (fun kv => needs unsup rec (fst kv) (snd kv)) (dict_of pairs)).

(* expected recorded map afterwards: the announced version for those codes, everything else unchanged *)
Definition spec_rec (unsup : list N) (rec : vmap) (pairs : list (N * N)) : vmap :=
  fun c => match lookup c (dict_of pairs) with
           | Some v => if needs unsup rec c v then Some v else rec c
           | None => rec c
           end.

Fixpoint spec_all (unsup : list N) (rec : vmap) (h : list (list (N * N))) : list (list N) :=
  match h with
  | [] => []
  | a :: t => spec_out unsup rec a :: spec_all unsup (spec_rec unsup rec a) t
  end.

Fixpoint outs_eqb (a b : list (list N)) : bool :=
  match a, b with
  | [], [] => true
  | x :: a', y :: b' => list_eqb N.eqb x y && outs_eqb a' b'
  | _, _ => false
  end.

(* P15: observed requests per announcement, starting from a device that has recorded nothing *)
Definition P15 (unsup : list N) (h : list (list (N * N))) (outs : list (list N)) : bool :=
  outs_eqb outs (spec_all unsup (fun _ => None) h).

Definition C15_statement : Prop :=
  forall unsup h, forallb wf_ann h = true ->
    P15 unsup h (fst (announce_all unsup [] h)) = true.

(* corollaries stated on the specification *)
Definition C15_idempotent_statement : Prop :=
  forall unsup rec a, wf_ann a = true -> spec_out unsup (spec_rec unsup rec a) a = [].
Definition C15_silent_statement : Prop :=
  forall unsup rec a c, In c (spec_out unsup rec a) -> request_kind c = true /\ memN c unsup = false.

(* the same with set-up finishing somewhere in the history (frame errors published then) *)
Fixpoint spec_hist (unsup : list N) (rec : vmap) (h : list hev) : list (list N) :=
  match h with
  | [] => []
  | HAnn a :: t => spec_out unsup rec a :: spec_hist unsup (spec_rec unsup rec a) t
  | HSetup u :: t => [] :: spec_hist u rec t
  end.
Definition wf_hev (e : hev) : bool := match e with HAnn a => wf_ann a | HSetup _ => true end.
Definition P15h (h : list hev) (outs : list (list N)) : bool := outs_eqb outs (spec_hist [] (fun _ => None) h).
Definition C15_hist_statement : Prop :=
  forall h, forallb wf_hev h = true -> P15h h (announce_hist [] [] h) = true.

(* C17 -- displayed and raw values are exact inverses for every scaled parameter. *)
From Coq Require Import ZArith NArith List Bool PrimFloat.
From PV Require Import Lib.PyFloat Generated.Tables Model.Param Model.ParamSet Spec.C08.
Import ListNotations.
Open Scope Z_scope.

Definition all_descs : list pdesc :=
  ecomax_params_p ++ ecomax_params_i ++ mixer_params_p ++ mixer_params_i ++ thermostat_params ++
  schedule_params ++ ecomax_control_param ++ thermostat_profile_param.

Definition number_descs : list pdesc := filter (fun d => negb (pd_switch d)) all_descs.

(* every number description, every raw value the controller can report in `size` bytes:
   the displayed value exists and writing it back yields that raw value *)
Definition C17_inverse_statement : Prop :=
  forall d, In d number_descs -> forall raw, 0 <= raw < 256 ^ Z.of_N (pd_size d) ->
    exists x, display d raw = Some x /\ to_raw d x = Some raw.

(* hence (with C06's decision): the displayed form of a raw value is accepted iff the raw value
   lies within the raw bounds; displayed bounds are display of the raw bounds by definition *)
Definition C17_accept_statement : Prop :=
  forall d, In d number_descs -> forall t raw, 0 <= raw < 256 ^ Z.of_N (pd_size d) ->
    exists x r, display d raw = Some x /\ to_raw d x = Some r /\
      (in_range t r = in_range t raw).

(* C06 -- no write request carries a value outside the reported range. *)
From Coq Require Import ZArith List Bool.
From PV Require Import Model.ParamSet Spec.C08.
Import ListNotations.
Open Scope Z_scope.

Definition triple_eqb (a b : triple) : bool := (tv a =? tv b) && (tlo a =? tlo b) && (thi a =? thi b).

Definition is_set (o : pout) : bool := match o with OSet _ => true | _ => false end.
Definition set_in_range (t : triple) (o : pout) : bool :=
  match o with OSet r => (tlo t <=? r) && (r <=? thi t) | _ => true end.

(* observed behaviour of one call: outputs (per event) and the triple held afterwards *)
Definition P06 (t : triple) (req : Z) (outs : list (list pout)) (after : triple) : bool :=
  if in_range t req then
    forallb (set_in_range t) (concat outs)
  else
    (* rejected: ValueError, nothing transmitted, local value unchanged *)
    pouts_eqb (concat outs) [ORaise] && triple_eqb after t.

(* (a) rejected calls: ValueError, nothing is ever transmitted, the held triple is untouched *)
Definition C06_reject_statement : Prop :=
  forall tracking t req retries evs, in_range t req = false ->
    concat (fst (run_set tracking t req retries evs)) = [ORaise] /\
    vals (fst (start tracking t req retries)) = t /\
    P06 t req (fst (run_set tracking t req retries [])) (vals (snd (run_set tracking t req retries []))) = true.

(* (b) whatever happens afterwards, every transmitted set request carries a value within the
   bounds held when the call was made *)
Definition C06_transmitted_statement : Prop :=
  forall tracking t req retries evs,
    forallb (set_in_range t) (concat (fst (run_set tracking t req retries evs))) = true.

(* (c) the bounds a later call is checked against are the ones the controller last reported:
   whatever a call did, the bounds held afterwards are those of the last report (or the initial
   ones), so a sequence of calls and reports never lets a stale range through *)
Definition last_bounds (t : triple) (evs : list pev) : Z * Z :=
  fold_left (fun b e => match e with Report r => (tlo r, thi r) | Tick => b end) evs (tlo t, thi t).

Definition C06_bounds_statement : Prop :=
  forall tracking t req retries evs,
    let s := snd (run_set tracking t req retries evs) in
    (tlo (vals s), thi (vals s)) = last_bounds t evs.

(* C03 (structure level): building from data and then decoding returns the same data. *)
From Coq Require Import NArith List Bool.
From PV Require Import Lib.Bytes Model.DataTypes Model.Structs.
Import ListNotations.
Open Scope N_scope.

Definition addr4 (a : list N) : bool := Nat.eqb (length a) 4 && bytesb a.
Definition wf_netinfo (n : netinfo) : bool :=
  addr4 (e_ip n) && addr4 (e_mask n) && addr4 (e_gw n) && addr4 (w_ip n) && addr4 (w_mask n) && addr4 (w_gw n) &&
  (w_enc n <=? 4) && (w_quality n <? 256) && Nat.leb (length (w_ssid n)) 255 && bytesb (w_ssid n).

Definition C03_netinfo_statement : Prop :=
  forall n, wf_netinfo n = true ->
    exists m, encode_netinfo n = Some m /\ decode_netinfo 1 m = Some n /\
              (* the positional layout: 1 marker byte, 12 + 1 + 12 + 4 + 4 fixed bytes, length-prefixed ssid *)
              length m = (35 + length (w_ssid n))%nat /\ nth 13 m 0 = bbyte (e_status n) /\ nth 29 m 0 = bbyte (w_status n) /\
              nth 26 m 0 = bbyte (n_server n).

Definition wf_version (v : version) : bool :=
  Nat.eqb (length (v_tag v)) 2 && Nat.eqb (length (v_dev v)) 2 && Nat.eqb (length (v_sig v)) 3 &&
  bytesb (v_tag v) && bytesb (v_dev v) && bytesb (v_sig v) && byteb (v_struct v) &&
  (v_s1 v <? 65536) && (v_s2 v <? 65536) && (v_s3 v <? 65536).

Definition C03_version_statement : Prop :=
  forall v sender, wf_version v = true -> sender < 256 ->
    exists m, encode_version v sender = Some m /\ decode_version m = Some v /\ length m = 15%nat /\ nth 14 m 0 = sender.

(* C07 -- a write targets exactly the controller slot the parameter was read from. *)
From Coq Require Import NArith List Bool Arith String.
From PV Require Import Lib.Bytes Generated.Tables Model.Requests Model.ParamBlocks Model.Handlers Spec.C02 Spec.C05p.
Import ListNotations.
Open Scope N_scope.

(* every named parameter sits at the table position its name has *)
Definition positioned (table : list pdesc) (d : pdata) : Prop :=
  forall name p, In (name, p) d ->
    exists desc, nth_error table (N.to_nat (p_index p)) = Some desc /\ pd_name desc = name /\ p_size p = pd_size desc.

Fixpoint names_nodup (l : list string) : bool :=
  match l with [] => true | a :: t => negb (existsb (String.eqb a) t) && names_nodup t end.

(* tables are injective: a name identifies one position *)
Definition C07_tables_statement : Prop :=
  names_nodup (map pd_name ecomax_params_p) = true /\ names_nodup (map pd_name ecomax_params_i) = true /\
  names_nodup (map pd_name mixer_params_p) = true /\ names_nodup (map pd_name mixer_params_i) = true /\
  names_nodup (map pd_name thermostat_params) = true /\ names_nodup (map pd_name schedule_params) = true.

(* after any sequence of parameter responses every named parameter is at its own position *)
Definition C07_positions_statement : Prop :=
  forall table c (responses : list (list (N * pvals))),
    positioned table (fold_left (handle_params table c) responses []).

(* a position without description changes nothing (neither do the positions after it in that response) *)
Definition C07_unknown_statement : Prop :=
  forall table c d index v rest, nth_error table (N.to_nat index) = None ->
    handle_params table c d ((index, v) :: rest) = d.

(* the payload of the request addresses that position: index (and mixer index / offset / width) *)
Definition C07_request_statement : Prop :=
  forall p v, v < 256 ^ p_size p -> p_index p < 256 ->
    match p_ctx p with
    | CEcomax => p_size p = 1 -> payload_of (request_of p v) = Some [p_index p; v]
    | CMixer m => p_size p = 1 -> m < 256 -> payload_of (request_of p v) = Some [m; p_index p; v]
    | CThermostat t off => (p_size p = 1 \/ p_size p = 2) -> p_index p + 1 + off < 256 ->
        payload_of (request_of p v) = Some ([p_index p + 1 + off] ++ (if p_size p =? 1 then [v] else [v mod 256; v / 256]))
    | CControl => p_size p = 1 -> payload_of (request_of p v) = Some [v]
    | CProfile => p_size p = 1 -> payload_of (request_of p v) = Some [p_index p + 0; v]
    end.

(* thermostat offsets: t times the number of parameters per thermostat.  True when the response
   has no undefined hole (partial); false in general -- known finding D8 *)
Definition thermostat_offset_ok (per : nat) (d : pdata) : Prop :=
  forall name p t off, In (name, p) d -> p_ctx p = CThermostat t off -> off = t * N.of_nat per.
Definition C07_thermostat_partial_statement : Prop :=
  forall t per (params : list (N * pvals)), List.length params = per ->
    thermostat_offset_ok per (handle_thermostat t [] params).
Definition C07_thermostat_full_statement : Prop :=
  forall t per (slots : list (option pvals)), List.length slots = per ->
    thermostat_offset_ok per (handle_thermostat t [] (Spec.C05p.view_slots 0 slots)).

(* ---------- schedules: routing of a switch / parameter to its schedule, and the dataset the request is built from ---------- *)
From PV Require Import Model.SchedRoute Model.SchedData.

(* every position j of the schedule-parameter table is routed to schedule j / 2 (switch at 2i, parameter at 2i + 1),
   although some schedule names are prefixes of others (heating / heating_circulation, ...) *)
Definition route_ok (j : nat) : bool :=
  match nth_error schedule_params j with
  | Some d => match routed_index (pd_name d) with Some i => Nat.eqb i (Nat.div j 2) | None => false end
  | None => false
  end.
Definition C07_schedule_route_statement : Prop :=
  forall j, (j < List.length schedule_params)%nat -> route_ok j = true.
(* ... and the table has exactly two entries per schedule, named after it *)
Definition C07_schedule_table_statement : Prop :=
  map pd_name schedule_params =
  flat_map (fun n => [(n ++ "_schedule_switch")%string; (n ++ "_schedule_parameter")%string]) schedules.

(* every schedule a response has ever listed (and whose switch / parameter therefore exist) is in the dataset *)
Definition C07_schedules_kept_statement : Prop :=
  forall responses r i, In r responses -> has i r = true -> has i (dataset true responses) = true.

(* C01 -- Only intact, correctly addressed frames are delivered.
   The property, written against observable behaviour only (bytes consumed per call and the
   outcome of the call).  All constants are the literals of the property text. *)
From Coq Require Import NArith List Bool.
From PV Require Import Lib.Bytes Model.Frame Model.Reader.
Import ListNotations.
Open Scope N_scope.

(* the unique split  c = junk ++ fb  with no 0x68 in junk and fb starting with 0x68 *)
Fixpoint split_start (c : list N) : option (list N) :=
  match c with
  | [] => None
  | b :: t => if b =? 104 then Some c else split_start t
  end.

Definition valid_delivery (c : list N) (f : frame) : bool :=
  match split_start c with
  | None => false
  | Some fb =>
    let n := length fb in
    Nat.leb 10 n && Nat.leb n 1000 &&
    (nth 1 fb 0 + 256 * nth 2 fb 0 =? N.of_nat n) &&
    (nth (n - 2) fb 0 =? bcc (firstn (n - 2) fb)) &&
    memN (nth 3 fb 0) [86; 0] &&
    memN (nth 4 fb 0) [0; 69; 81; 86] &&
    (f_kind f =? nth 7 fb 0) && (f_rcpt f =? nth 3 fb 0) && (f_sender f =? nth 4 fb 0) &&
    (f_etype f =? nth 5 fb 0) && (f_ever f =? nth 6 fb 0) &&
    list_eqb N.eqb (f_payload f) (firstn (n - 10) (skipn 8 fb))
  end.

Definition P01_one (co : list N * outcome) : bool :=
  match snd co with
  | Delivered f => valid_delivery (fst co) f
  | _ => true     (* ignored / protocol error / broken: nothing is delivered *)
  end.

(* behaviour = list of (bytes consumed by the call, outcome of the call) *)
Definition P01 (s : list N) (outs : list (list N * outcome)) : bool :=
  forallb P01_one outs && list_eqb N.eqb (concat (map fst outs)) s.

Definition C01_statement : Prop := forall s : list N, P01 s (read_all s) = true.

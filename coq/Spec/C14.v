(* C14 -- arbitrary noise: documented outcomes only, progress, bounded wait, resynchronisation. *)
From Coq Require Import NArith List Bool.
From PV Require Import Lib.Bytes Model.Frame Model.Reader Spec.Envelope Spec.C01.
Import ListNotations.
Open Scope N_scope.

(* one call: consumes a non-empty prefix  junk ++ fb  with no 0x68 in junk, fb starting at the
   delimiter and never longer than the maximum frame size (1000) *)
Definition P14_call (c : list N) (o : outcome) : bool :=
  match o with
  | Broken => true
  | _ => match split_start c with
         | None => false
         | Some fb => Nat.leb 1 (length fb) && Nat.leb (length fb) 1000
         end
  end.

Definition P14 (s : list N) (outs : list (list N * outcome)) : bool :=
  forallb (fun co => P14_call (fst co) (snd co)) outs &&
  list_eqb N.eqb (concat (map fst outs)) s &&
  match rev outs with (_, Broken) :: _ => true | _ => false end.

Definition C14_statement : Prop := forall s, P14 s (read_all s) = true.

(* resynchronisation, the part that holds: after noise that contains no start delimiter a
   well-formed frame is read whole and classified; and a frame delivered once is delivered
   every time in a run of copies *)
Definition C14_resync_clean_statement : Prop :=
  forall noise f rest, wf_frame f = true -> forallb (fun b => negb (b =? 104)) noise = true ->
    read_one (noise ++ enc f ++ rest) = (classify f, rest).

(* resynchronisation at full strength: after ANY noise, a run of k >= 2 + 1000/|frame| identical
   valid frames is picked up (some call delivers the frame).  False of the reader (see
   C14_resync_refuted): kept visible, claimed only in the restricted forms above. *)
Definition outcome_is (f : frame) (o : outcome) : bool :=
  match o with Delivered g => frame_eqb f g | _ => false end.
Definition run_of (f : frame) (k : nat) : list N := concat (repeat (enc f) k).
Definition picked_up (noise : list N) (f : frame) (k : nat) : bool :=
  existsb (fun co => outcome_is f (snd co)) (read_all (noise ++ run_of f k)).
Definition C14_resync_full_statement : Prop :=
  forall noise f k, wf_frame f = true -> deliverable f = true ->
    Nat.leb (2 + Nat.div 1000 (length (enc f))) k = true -> picked_up noise f k = true.

(* ... and it does hold, for ANY noise, of every frame whose encoding carries no start delimiter
   after its first byte *)
Definition no104 (b : N) : bool := negb (b =? 104).
Definition no_interior (f : frame) : bool := forallb no104 (tl (enc f)).
Definition C14_resync_interior_free_statement : Prop :=
  forall noise f k, wf_frame f = true -> deliverable f = true -> no_interior f = true ->
    Nat.leb (2 + Nat.div 1000 (length (enc f))) k = true -> picked_up noise f k = true.

(* C03 -- codec round trips and structural equality (frame level; the two-way structures are in
   Spec/C03s.v). *)
From Coq Require Import NArith List Bool.
From PV Require Import Lib.Bytes Model.Frame Model.Reader Spec.Envelope Spec.C01.
Import ListNotations.
Open Scope N_scope.

(* serialise, read back: same kind, addressing, versions, payload; nothing else consumed *)
Definition C03_roundtrip_statement : Prop :=
  forall f rest, wf_frame f = true -> deliverable f = true ->
    exists bs, frame_bytes f = Some bs /\ read_one (bs ++ rest) = (Delivered f, rest).

(* re-serialising a received frame reproduces the bytes it was read from (the reader does not
   look at the end delimiter, so the statement is about consumed frames that end in 0x16) *)
Definition C03_reserialise_statement : Prop :=
  forall s f rest, Bytes s -> read_one s = (Delivered f, rest) ->
    exists junk fb, consumed s rest = junk ++ fb /\ split_start (consumed s rest) = Some fb /\
      (last fb 0 = 22 -> frame_bytes f = Some fb).

(* equality is structural *)
Definition C03_eq_statement : Prop :=
  (forall f g, frame_eqb f g = true <-> f = g) /\ (forall f, frame_eqb f f = true).

(* C18 -- schedule edits touch exactly the addressed slots; commit sends the edited week. *)
From Coq Require Import NArith List Bool.
From PV Require Import Lib.Bytes Generated.Tables Model.Schedule Model.Requests Spec.C02.
Import ListNotations.
Open Scope N_scope.

Definition aligned (m : N) : bool := (m =? 0) || (m =? 30).

Definition bools_eqb (a b : list bool) : bool := list_eqb Bool.eqb a b.

(* positional reading of the property for one edit of one 48-slot day.
   states: 0 on / 1 off / 2 day / 3 night; times hh:mm with mm in {0,30} *)
Definition P18_edit (day : list bool) (st sh sm eh em : N) (r : option (list bool)) : bool :=
  let state_ok := st <? 4 in
  let times_ok := (sh <? 24) && (eh <? 24) && aligned sm && aligned em in
  let s_slot := 2 * sh + sm / 30 in
  let e_slot := if (eh =? 0) && (em =? 0) then 47 else 2 * eh + em / 30 in
  let on := (st =? 0) || (st =? 2) in
  if state_ok && times_ok && (s_slot <? e_slot) then
    match r with
    | Some day' =>
        Nat.eqb (length day') 48 &&
        forallb (fun i => Bool.eqb (nth i day' false)
                            (if (s_slot <=? N.of_nat i) && (N.of_nat i <=? e_slot) then on else nth i day false))
                (seq 0 48)
    | None => false
    end
  else
    match r with None => true | Some _ => false end.   (* ValueError: the day is unchanged *)

Definition C18_edit_statement : Prop :=
  forall day st sh sm eh em, length day = 48%nat -> aligned sm = true -> aligned em = true ->
    P18_edit day st sh sm eh em (set_state day st sh sm eh em) = true.

(* also for times that are not half-hour aligned or out of range: invalid input never edits *)
Definition C18_reject_statement : Prop :=
  forall day st sh sm eh em,
    (4 <=? st) || negb (valid_time sh sm) || negb (valid_time eh em) = true ->
    set_state day st sh sm eh em = None.

(* codec: both directions *)
Definition C18_decode_encode_statement : Prop :=
  forall w, week_ok w = true -> decode_bitmap (encode_bitmap w) = w.
Definition C18_encode_decode_statement : Prop :=
  forall bs, length bs = 42%nat -> Bytes bs -> encode_bitmap (decode_bitmap bs) = bs.

(* commit: header 01 idx switch param, then the 7x48 bitmap, first received day first *)
Definition C18_commit_statement : Prop :=
  forall idx sw par w, byteb idx && byteb sw && byteb par = true -> week_ok w = true ->
    payload_of (RSetSchedule idx sw par w) = Some ([1; idx; sw; par] ++ spec_bitmap w) /\
    length ([1; idx; sw; par] ++ spec_bitmap w) = 46%nat /\
    decode_bitmap (spec_bitmap w) = w.

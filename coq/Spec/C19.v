(* C19 -- primitive wire types pack, unpack and size consistently. *)
From Coq Require Import NArith ZArith List Bool.
From PV Require Import Lib.Bytes Generated.Tables Model.DataTypes.
Import ListNotations.
Open Scope N_scope.

Definition nul_free (b : list N) : bool := forallb (fun x => negb (x =? 0)) b.

(* representable values of each type *)
Definition representable (t : dtype) (v : dval) : bool :=
  match t, v with
  | DTUInt n, DInt z => ((n =? 1) || (n =? 2) || (n =? 4) || (n =? 8)) && (0 <=? z)%Z && (z <? Z.of_N (256 ^ n))%Z
  | DTSInt n, DInt z => ((n =? 1) || (n =? 2) || (n =? 4) || (n =? 8)) &&
                        (- Z.of_N (2 ^ (8 * n - 1)) <=? z)%Z && (z <? Z.of_N (2 ^ (8 * n - 1)))%Z
  | DTFloat, DBits b => b <? 2 ^ 32
  | DTDouble, DBits b => b <? 2 ^ 64
  | DTIPv4, DRaw b => Nat.eqb (length b) 4 && bytesb b
  | DTIPv6, DRaw b => Nat.eqb (length b) 16 && bytesb b
  | DTString, DRaw b => bytesb b && nul_free b
  | _, _ => false
  end.

Definition dval_eqb (a b : dval) : bool :=
  match a, b with
  | DNone, DNone => true
  | DInt x, DInt y => Z.eqb x y
  | DBits x, DBits y => N.eqb x y
  | DRaw x, DRaw y => list_eqb N.eqb x y
  | DBool x, DBool y => Bool.eqb x y
  | _, _ => false
  end.

(* the property for the fixed-layout types: [packed] is what the implementation wrote, (v', sz)
   what it read back from packed ++ trailing *)
Definition P19 (t : dtype) (v : dval) (packed : list N) (v' : dval) (sz : nat) : bool :=
  dval_eqb v' v && Nat.eqb sz (length packed) && Nat.eqb (size_of t v) (length packed).

Definition C19_fixed_statement : Prop :=
  forall t v trailing bit, representable t v = true ->
    exists packed v' sz, pack t v = Some packed /\ unpack t bit (packed ++ trailing) = Some (v', sz) /\
                         P19 t v packed v' sz = true.

(* length-prefixed strings / bytes *)
Definition C19_var_statement : Prop :=
  forall b trailing, Nat.leb (length b) 255 && bytesb b = true ->
    exists packed, pack_var b = Some packed /\ unpack_var (packed ++ trailing) = Some (b, length packed) /\
                   size_var b = length packed.

(* bit array: value is bit `i` of the byte; it occupies the byte only at i = 7; indexes cycle *)
Definition C19_bit_statement : Prop :=
  forall byte bit trailing, bit < 8 ->
    unpack DTBit bit (byte :: trailing) = Some (DBool (N.testbit byte bit), if bit =? 7 then 1%nat else 0%nat) /\
    bit_next bit = (bit + 1) mod 8 /\
    (* packing the byte of flags gives that one byte, and unpacking it gives the flag back *)
    (byte < 256 -> pack DTBit (DInt (Z.of_N byte)) = Some [byte]).

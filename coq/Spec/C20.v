(* C20 -- callback filters deliver what they promise over every value sequence. *)
From Coq Require Import ZArith NArith List Bool.
From PV Require Import Model.Filters Model.FiltersOverlap.
Import ListNotations.
Open Scope Z_scope.

Definition fval_eqb (a b : fval) : bool :=
  match a, b with
  | FNum x, FNum y => x =? y
  | FStr x, FStr y => x =? y
  | FList x, FList y => zlist_eqb x y
  | FParam v lo hi p, FParam v' lo' hi' p' => (v =? v') && (lo =? lo') && (hi =? hi') && Bool.eqb p p'
  | _, _ => false
  end.
Definition ofval_eqb (a b : option fval) : bool :=
  match a, b with Some x, Some y => fval_eqb x y | None, None => true | _, _ => false end.

(* ---- the promises, as monitors over (calls, deliveries) ---- *)

(* on_change: the first value is delivered; afterwards a value is delivered iff it differs
   significantly from the last one delivered; delivered values are the inputs themselves *)
Fixpoint P_on_change (last : option fval) (calls : list (Z * fval)) (outs : list (option fval)) : bool :=
  match calls, outs with
  | [], [] => true
  | (_, x) :: cs, o :: os =>
    let must := match last with None => true | Some l => changed l x end in
    if must then ofval_eqb o (Some x) && P_on_change (Some x) cs os
    else ofval_eqb o None && P_on_change last cs os
  | _, _ => false
  end.

(* debounce n: first value delivered; later a value is delivered exactly when it is the n-th
   consecutive call whose value differs from the last delivered one *)
Fixpoint P_debounce (n : nat) (last : option fval) (streak : nat) (calls : list (Z * fval)) (outs : list (option fval)) : bool :=
  match calls, outs with
  | [], [] => true
  | (_, x) :: cs, o :: os =>
    match last with
    | None => ofval_eqb o (Some x) && P_debounce n (Some x) 0 cs os
    | Some l =>
      let streak' := if changed l x then S streak else O in
      if Nat.leb n streak' then ofval_eqb o (Some x) && P_debounce n (Some x) 0 cs os
      else ofval_eqb o None && P_debounce n last streak' cs os
    end
  | _, _ => false
  end.

(* throttle: never two deliveries closer than the interval; a call at least the interval after
   the last delivery (or the first call) is delivered; values unmodified *)
Fixpoint P_throttle (sec : Z) (last : option Z) (calls : list (Z * fval)) (outs : list (option fval)) : bool :=
  match calls, outs with
  | [], [] => true
  | (t, x) :: cs, o :: os =>
    let due := match last with None => true | Some l => sec <=? t - l end in
    if due then ofval_eqb o (Some x) && P_throttle sec (Some t) cs os
    else ofval_eqb o None && P_throttle sec last cs os
  | _, _ => false
  end.

(* delta on numbers: delivered differences add up to (last baseline - first value) and the
   current value is within the tolerance of the baseline *)
Definition num_of (x : fval) : Z := match x with FNum z => z | _ => 0 end.
Definition is_num (x : fval) : bool := match x with FNum _ => true | _ => false end.
Definition sum_outs (outs : list (option fval)) : Z :=
  fold_left (fun acc o => match o with Some (FNum z) => acc + z | _ => acc end) outs 0.
Definition sum_calls (calls : list (Z * fval)) : Z := fold_left (fun acc c => acc + num_of (snd c)) calls 0.

(* aggregate: delivered sums + the not yet delivered remainder = sum of all inputs *)
Definition nondecreasing (calls : list (Z * fval)) : bool :=
  (fix go prev l := match l with [] => true | (t, _) :: r => (prev <=? t) && go t r end)
    (match calls with [] => 0 | (t, _) :: _ => t end) calls.

Definition C20_on_change_statement : Prop :=
  forall calls, P_on_change None calls (fst (frun KOnChange (finit KOnChange 0) calls)) = true.
Definition C20_debounce_statement : Prop :=
  forall n calls, P_debounce n None 0 calls (fst (frun (KDebounce n) (finit (KDebounce n) 0) calls)) = true.
Definition C20_throttle_statement : Prop :=
  forall sec calls, P_throttle sec None calls (fst (frun (KThrottle sec) (finit (KThrottle sec) 0) calls)) = true.
Definition C20_delta_statement : Prop :=
  forall x0 t0 calls, forallb (fun c => is_num (snd c)) calls = true ->
    let r := frun KDelta (finit KDelta 0) ((t0, FNum x0) :: calls) in
    exists base, f_value (snd r) = Some (FNum base) /\
      sum_outs (fst r) = base - x0 /\
      Z.abs (num_of (snd (last ((t0, FNum x0) :: calls) (t0, FNum x0))) - base) <= tol64.
Definition C20_aggregate_statement : Prop :=
  forall sec t0 calls, forallb (fun c => is_num (snd c)) calls = true ->
    let r := frun (KAggregate sec) (finit (KAggregate sec) t0) calls in
    sum_outs (fst r) + f_sum (snd r) = sum_calls calls.
(* ... for ALL call sequences: a string / list handed to aggregate is refused (ValueError in the implementation, no output and no
   change of state in the model) and is no input: what is delivered, and the state afterwards, are those of the numeric calls alone *)
Definition numeric_calls (calls : list (Z * fval)) : list (Z * fval) := filter (fun c => is_num (snd c)) calls.
Definition deliveries (outs : list (option fval)) : list fval := flat_map (fun o => match o with Some y => [y] | None => [] end) outs.
Definition C20_aggregate_mixed_statement : Prop :=
  forall sec t0 calls,
    let r := frun (KAggregate sec) (finit (KAggregate sec) t0) calls in
    let rn := frun (KAggregate sec) (finit (KAggregate sec) t0) (numeric_calls calls) in
    snd r = snd rn /\ deliveries (fst r) = deliveries (fst rn) /\
    sum_outs (fst r) + f_sum (snd r) = sum_calls calls.
(* consecutive deliveries of throttle are at least `sec` apart (for non-decreasing call times) *)
Fixpoint delivery_times (calls : list (Z * fval)) (outs : list (option fval)) : list Z :=
  match calls, outs with
  | (t, _) :: cs, Some _ :: os => t :: delivery_times cs os
  | _ :: cs, None :: os => delivery_times cs os
  | _, _ => []
  end.
Fixpoint gaps_ok (sec : Z) (ts : list Z) : bool :=
  match ts with
  | a :: ((b :: _) as r) => (sec <=? b - a) && gaps_ok sec r
  | _ => true
  end.
Definition C20_throttle_gaps_statement : Prop :=
  forall sec calls, gaps_ok sec (delivery_times calls (fst (frun (KThrottle sec) (finit (KThrottle sec) 0) calls))) = true.
(* chain of two: the inner filter sees exactly the deliveries of the outer one *)
Definition C20_chain_statement : Prop :=
  forall k1 k2 t0 calls,
    let o1 := fst (frun k1 (finit k1 t0) calls) in
    let delivered := flat_map (fun p => match snd p with Some y => [(fst (fst p), y)] | None => [] end) (combine calls o1) in
    flat_map (fun o => match o with Some y => [y] | None => [] end) (frun2 k1 k2 (finit k1 t0) (finit k2 t0) calls) =
    flat_map (fun o => match o with Some y => [y] | None => [] end) (fst (frun k2 (finit k2 t0) delivered)).

(* overlapping calls (a slow callback, further calls while it runs): what is delivered at each call, and the state the filter is
   left in, are those of the same calls made one after the other -- whenever and in whatever order the callbacks return *)
Definition C20_overlap_statement : Prop :=
  forall k t0 evs,
    let r := orun false k (mkO (finit k t0) []) evs in
    let q := frun k (finit k t0) (calls_of evs) in
    fst r = fst q /\ o_f (snd r) = snd q.

(* C05 (regulator data): the wire layout over a schema as an encoder of abstract entries, and the conformance statement. *)
From Coq Require Import NArith ZArith List Bool Arith.
From PV Require Import Model.LazyData Lib.Bytes Generated.Tables Model.Versions Model.DataTypes Model.SensorData Model.OtherKinds Spec.C19.
Import ListNotations.
Open Scope N_scope.

Record rentry := mkRE { re_id : N; re_code : N; re_val : dval }.

Definition ty_of (e : rentry) : dtype :=
  match nth_error data_types (N.to_nat (re_code e)) with Some t => t | None => DTUndefined end.

(* admissible entries: the code is one of the generated type ids; a flag for a bit entry, nothing for an
   undefined one, otherwise a representable value of the type (strings NUL-free) *)
Definition entry_ok (e : rentry) : bool :=
  match nth_error data_types (N.to_nat (re_code e)) with
  | Some DTBit => match re_val e with DBool _ => true | _ => false end
  | Some DTUndefined => match re_val e with DNone => true | _ => false end
  | Some t => representable t (re_val e)
  | None => false
  end.

(* consecutive flags share a byte, least significant bit first, eight to a byte; any other entry starts on a fresh byte *)
Definition byte_of_bits (bits : list bool) : N := fold_right (fun b acc => 2 * acc + N.b2n b) 0 bits.
Definition flush (bits : list bool) : list N := match bits with [] => [] | _ => [byte_of_bits bits] end.
Definition packed (t : dtype) (v : dval) : list N := match pack t v with Some p => p | None => [] end.

Fixpoint enc_entries (bits : list bool) (l : list rentry) : list N :=
  match l with
  | [] => flush bits
  | e :: r =>
    match ty_of e with
    | DTBit =>
      let bits' := bits ++ [match re_val e with DBool b => b | _ => false end] in
      if Nat.eqb (length bits') 8 then byte_of_bits bits' :: enc_entries [] r else enc_entries bits' r
    | t => flush bits ++ packed t (re_val e) ++ enc_entries [] r
    end
  end.

Definition C05_regdata_body_statement : Prop :=
  forall pre l trailing, forallb entry_ok l = true ->
    dec_regdata (pre ++ enc_entries [] l ++ trailing) (length pre) 0 (map (fun e => (re_id e, re_code e)) l) =
    Some (map (fun e => (re_id e, re_val e)) l).

(* the whole message: two ignored bytes, version word 1.0, frame versions, then the body when a schema is known *)
Definition C05_regdata_statement : Prop :=
  forall b0 b1 versions l trailing,
    (length versions <= 255)%nat -> forallb (fun p => byteb (fst p) && (snd p <? 65536)) versions = true ->
    forallb entry_ok l = true -> l <> [] ->
    decode_regdata (Some (map (fun e => (re_id e, re_code e)) l))
      ([b0; b1; 0; 1] ++ [N.of_nat (length versions)] ++ concat (map (fun p => fst p :: le_encode 2 (snd p)) versions) ++
       enc_entries [] l ++ trailing) =
    Some (Some (dict_of versions, Some (map (fun e => (re_id e, re_val e)) l))).

(* the lazily decoded, cached data of a received frame (Model/LazyData.v): however often the frame was looked at before it was
   handed to its device (the reader's debug log line does that), afterwards it decodes as C05_regdata says it does WITH the
   schema of that device *)
Definition C05_regdata_history_statement : Prop :=
  forall (before after : list (lop (list (N * N)))) b0 b1 versions l trailing,
    (length versions <= 255)%nat -> forallb (fun p => byteb (fst p) && (snd p <? 65536)) versions = true ->
    forallb entry_ok l = true -> l <> [] -> Forall (fun o => o = LAccess) after ->
    let m := [b0; b1; 0; 1] ++ [N.of_nat (length versions)] ++ concat (map (fun p => fst p :: le_encode 2 (snd p)) versions) ++
             enc_entries [] l ++ trailing in
    let dec := fun schema => decode_regdata schema m in
    ldata dec (lrun true dec (before ++ LAssign (map (fun e => (re_id e, re_code e)) l) :: after)) =
    Some (Some (dict_of versions, Some (map (fun e => (re_id e, re_val e)) l))).

(* Wire layout of a frame as the properties state it (literal constants of the property texts),
   well-formedness, and the classification of a well-formed frame by the reader. *)
From Coq Require Import NArith List Bool.
From PV Require Import Lib.Bytes Generated.Tables Model.Frame Model.Reader.
Import ListNotations.
Open Scope N_scope.

Definition enc_pre (f : frame) : list N :=
  let n := 10 + N.of_nat (length (f_payload f)) in
  [104; n mod 256; n / 256; f_rcpt f; f_sender f; f_etype f; f_ever f; f_kind f] ++ f_payload f.

Definition enc (f : frame) : list N := enc_pre f ++ [bcc (enc_pre f); 22].

(* a frame that fits the protocol: byte-sized fields, at most 990 payload bytes (1000 in total) *)
Definition wf_frame (f : frame) : bool :=
  byteb (f_kind f) && byteb (f_rcpt f) && byteb (f_sender f) && byteb (f_etype f) && byteb (f_ever f) &&
  bytesb (f_payload f) && Nat.leb (length (f_payload f)) 990.

(* what the reader must do with a well-formed frame (C04) *)
Definition classify (f : frame) : outcome :=
  if negb (memN (f_rcpt f) [86; 0]) then Ignored
  else if negb (memN (f_sender f) [0; 69; 81; 86]) then ErrUnknownDevice
  else if negb (known_kind (f_kind f)) then ErrUnknownFrame
  else Delivered f.

Definition deliverable (f : frame) : bool :=
  memN (f_rcpt f) [86; 0] && memN (f_sender f) [0; 69; 81; 86] && known_kind (f_kind f).

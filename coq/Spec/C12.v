(* C12 -- close() always terminates and leaves nothing running. *)
From Coq Require Import NArith List Bool Arith.
From PV Require Import Model.Shutdown.
Import ListNotations.

(* bound of the property text: the I/O timeouts (10 s read + 10 s write for the drain, 10 s for closing the transport) *)
Definition P12 (r : cresult) : bool :=
  r_returns r && (r_seconds r <=? 30)%N && Nat.eqb (r_left r) 0 && r_writer_closed r.

Definition C12_statement : Prop := forall walk late stall s, P12 (close true true true true true true walk late stall s) = true.

(* cancel_tasks leaves none of the registered tasks running, whatever the walk order and whichever of them have finished *)
Definition C12_cancel_all_statement : Prop := forall walk, running (cancel_tasks true walk) = 0%nat.

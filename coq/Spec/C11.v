(* C11 -- connection loss is detected, announced once, and fully recovered by reconnect. *)
From Coq Require Import NArith List Bool Arith.
From PV Require Import Model.Conn.
Import ListNotations.

Fixpoint nats_eqb (a b : list nat) : bool :=
  match a, b with [], [] => true | x :: a', y :: b' => Nat.eqb x y && nats_eqb a' b' | _, _ => false end.

(* open attempts of one chain: all fail but the last; after a failure the next attempt comes no
   earlier than the back-off interval (20 s) *)
Fixpoint opens_ok (first : bool) (l : list (N * bool)) : bool :=
  match l with
  | [] => false
  | [(gap, ok)] => ok && (first || (20 <=? gap)%N)
  | (gap, ok) :: r => negb ok && (first || (20 <=? gap)%N) && opens_ok false r
  end.

(* one loss/reconnect cycle with `devices` known devices, on a connection configured with 3 consumers *)
Definition P11_cycle (devices : nat) (o : cycle_out) : bool :=
  nats_eqb (co_down o) (seq 0 devices) &&     (* every known device is told connected=False exactly once *)
  Nat.eqb (co_closes o) 1 &&                  (* the transport is closed once *)
  opens_ok true (co_opens o) &&               (* one reconnect chain, retried after the back-off until it succeeds *)
  Nat.eqb (co_startmaster o) 1 &&             (* start-master is sent again *)
  nats_eqb (co_up o) (seq 0 devices) &&       (* the same devices see connected=True *)
  Nat.eqb (co_producers o) 1 && Nat.eqb (co_consumers o) 3.   (* the number of background tasks does not grow *)

Fixpoint P11 (cs : list cycle_in) (outs : list cycle_out) : bool :=
  match cs, outs with
  | [], [] => true
  | c :: cs', o :: outs' => P11_cycle (ci_devices c) o && P11 cs' outs'
  | _, _ => false
  end.

Definition C11_statement : Prop := forall cs, P11 cs (run_conn true cs) = true.

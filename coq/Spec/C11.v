(* C11 -- connection loss is detected, announced once, and fully recovered by reconnect. *)
From Coq Require Import NArith List Bool Arith.
From PV Require Import Generated.Tables Model.Conn Model.ConnSM.
Import ListNotations.

Fixpoint nats_eqb (a b : list nat) : bool :=
  match a, b with [], [] => true | x :: a', y :: b' => Nat.eqb x y && nats_eqb a' b' | _, _ => false end.

(* open attempts of one chain: all fail but the last; after a failure the next attempt comes no
   earlier than the back-off interval (20 s) *)
Fixpoint opens_ok (first : bool) (l : list (N * bool)) : bool :=
  match l with
  | [] => false
  | [(gap, ok)] => ok && (first || (20 <=? gap)%N)
  | (gap, ok) :: r => negb ok && (first || (20 <=? gap)%N) && opens_ok false r
  end.

(* one loss/reconnect cycle with `devices` known devices, on a connection configured with 3 consumers *)
Definition P11_cycle (devices : nat) (o : cycle_out) : bool :=
  nats_eqb (co_down o) (seq 0 devices) &&     (* every known device is told connected=False exactly once *)
  Nat.eqb (co_closes o) 1 &&                  (* the transport is closed once *)
  opens_ok true (co_opens o) &&               (* one reconnect chain, retried after the back-off until it succeeds *)
  Nat.eqb (co_startmaster o) 1 &&             (* start-master is sent again *)
  nats_eqb (co_up o) (seq 0 devices) &&       (* the same devices see connected=True *)
  Nat.eqb (co_producers o) 1 && Nat.eqb (co_consumers o) 3.   (* the number of background tasks does not grow *)

Fixpoint P11 (cs : list cycle_in) (outs : list cycle_out) : bool :=
  match cs, outs with
  | [], [] => true
  | c :: cs', o :: outs' => P11_cycle (ci_devices c) o && P11 cs' outs'
  | _, _ => false
  end.

Definition C11_statement : Prop := forall cs, P11 cs (run_conn true cs) = true.

(* ---- the same promise as a monitor over the chronological log of the event-level model (Model/ConnSM.v) ---- *)
Inductive mphase :=
| MUp (k m : nat)        (* connected; k of the m devices known at establishment have been told connected=True *)
| MDown (k n0 : nat)     (* a loss is being announced: k of the n0 devices known at the loss have been told connected=False *)
| MClosed                (* transport closed: the reconnect routine's attempt is due *)
| MSleep                 (* an attempt failed: back-off *)
| MWait                  (* back-off over: the next attempt is due *)
| MEst.                  (* an attempt succeeded: start-master is due *)

Definition mon_step (st : mphase * nat) (e : lev) : option (mphase * nat) :=
  let '(ph, n) := st in
  match e with
  | LNew => Some (ph, S n)
  | _ =>
    match ph, e with
    | MUp k m, LUp i => if Nat.eqb i k && Nat.ltb k m then Some (MUp (S k) m, n) else None
    | MUp k m, LDown i =>              (* every known device is told, in order, exactly once; none before all were told True *)
        if Nat.eqb k m && Nat.eqb i 0 && Nat.ltb 0 n then Some (MDown 1 n, n) else None
    | MUp k m, LClose => if Nat.eqb k m && Nat.eqb n 0 then Some (MClosed, n) else None
    | MDown k n0, LDown i => if Nat.eqb i k && Nat.ltb k n0 then Some (MDown (S k) n0, n) else None
    | MDown k n0, LClose => if Nat.eqb k n0 then Some (MClosed, n) else None      (* closed once, after everybody was told *)
    | MClosed, LOpen ok | MWait, LOpen ok => Some (if ok then MEst else MSleep, n)   (* one attempt at a time *)
    | MSleep, LBackoff => Some (MWait, n)                                          (* retried only after the back-off *)
    | MEst, LStartMaster => Some (MUp 0 n, n)
    | _, _ => None
    end
  end.

Fixpoint mon_run (st : mphase * nat) (l : list lev) : option (mphase * nat) :=
  match l with
  | [] => Some st
  | e :: r => match mon_step st e with Some st' => mon_run st' r | None => None end
  end.

Definition mon_ok (l : list lev) : bool := match mon_run (MUp 0 0, 0%nat) l with Some _ => true | None => false end.

(* every log of the event-level model is accepted, and the numbers of background tasks and open transports are those of one
   connection, for ALL sequences of faults, open results, back-off expiries and new devices *)
Definition stable (s : cst) : Prop :=
  c_consumers s = N.to_nat consumers_count /\
  (c_connected s = true -> c_producers s = 1%nat /\ c_transports s = 1%nat /\ c_opening s = false /\ c_sleeping s = false) /\
  (c_connected s = false -> c_producers s = 0%nat /\ c_transports s = 0%nat /\ c_opening s = negb (c_sleeping s)).
Definition C11_sm_statement : Prop :=
  forall evs, let s := crun true true evs in mon_ok (clog s) = true /\ stable s.

(* the per-cycle model is what the event-level model does on the events of one cycle *)
Fixpoint opens_of (first backoff : bool) (l : list lev) : list (N * bool) :=
  match l with
  | [] => []
  | LOpen ok :: r => ((if first then 0 else if backoff then reconnect_timeout else 0)%N, ok) :: opens_of false false r
  | LBackoff :: r => opens_of first true r
  | _ :: r => opens_of first backoff r
  end.
Definition cout_of (seg : list lev) (s : cst) : cycle_out :=
  mkCout (flat_map (fun e => match e with LDown i => [i] | _ => [] end) seg)
         (length (filter (fun e => match e with LClose => true | _ => false end) seg))
         (opens_of true false seg)
         (length (filter (fun e => match e with LStartMaster => true | _ => false end) seg))
         (flat_map (fun e => match e with LUp i => [i] | _ => [] end) seg)
         (c_producers s) (c_consumers s).
Definition connected_with (d : nat) : cst := mkC true 1 (N.to_nat consumers_count) d 1 false false [].
Definition C11_sm_refines_statement : Prop :=
  forall d fails,
    let s := fold_left (cstep true true) (cycle_events fails) (connected_with d) in
    cout_of (clog s) s = do_cycle true (N.to_nat consumers_count) (mkCin d fails) /\
    c_connected s = true /\ c_devices s = d.

(* C16 -- device set-up always completes and reports exactly what failed. *)
From Coq Require Import NArith List Bool Arith.
From PV Require Import Lib.Bytes Generated.Tables Model.Frame Model.Setup.
Import ListNotations.

Definition subsetN (a b : list N) : bool := forallb (fun x => memN x b) a.
Definition lookup_tx (k : N) (tx : list (N * nat)) : nat :=
  match find (fun p => N.eqb (fst p) k) tx with Some p => snd p | None => 0 end.

(* ans: on which attempt (1..retries) the controller answers each kind, None = never.
   The observed result must satisfy: *)
Definition P16 (mixers_present : bool) (ans : N -> option nat) (retries : nat) (kinds : list N) (r : setup_result) : bool :=
  let unanswered := filter (fun k => match ans k with None => true | Some _ => false end) kinds in
  let product_answered := match ans 57%N with Some _ => true | None => false end in
  (* finishes within retries x timeout *)
  Nat.leb (r_loaded_attempt r) retries &&
  (* every unanswered kind is listed as failed *)
  subsetN unanswered (r_errors r) &&
  (* nothing else is listed as failed, as long as product information was among the answers *)
  (if product_answered then subsetN (r_errors r) unanswered
   else subsetN (r_errors r) (unanswered ++ filter (dependent mixers_present) kinds)) &&
  (* each unanswered request was transmitted `retries` times *)
  forallb (fun k => Nat.eqb (lookup_tx k (r_tx r)) retries) unanswered &&
  (* the data of every answered request that is not listed as failed is available *)
  forallb (fun k => match ans k with
                    | Some _ => memN k (r_errors r) || memN k (r_data r)
                    | None => true
                    end) kinds.

(* all 4^8 answer patterns over the generated set-up table, retries = 3 *)
Definition patterns_for (kinds : list N) : list (list (N * option nat)) :=
  fold_right (fun k acc => flat_map (fun a => map (fun rest => (k, a) :: rest) acc) [None; Some 1%nat; Some 2%nat; Some 3%nat])
             [[]] kinds.
Definition ans_of (p : list (N * option nat)) : N -> option nat :=
  fun k => match find (fun q => N.eqb (fst q) k) p with Some q => snd q | None => None end.

Definition setup_kinds : list N := map fst setup_frames.

Definition C16_statement : Prop :=
  forall mixers_present p, In p (patterns_for setup_kinds) ->
    P16 mixers_present (ans_of p) 3 setup_kinds (timeline mixers_present (ans_of p) 3) = true.

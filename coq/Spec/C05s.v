(* C05 (messages and the remaining responses) -- the wire layout as encoders of abstract values,
   the documented information loss as `view`, and the conformance statements. *)
From Coq Require Import NArith ZArith List Bool Arith.
From PV Require Import Lib.Bytes Generated.Tables Model.Versions Model.DataTypes Model.SensorData Model.OtherKinds.
Import ListNotations.
Open Scope N_scope.

Definition le4 (v : N) : list N := le_encode 4 v.
Definition le2 (v : N) : list N := le_encode 2 v.

Record mixer_val := mkMV { mv_current : N; mv_target : N; mv_b5 : N; mv_pump : N; mv_b7 : N }.
Record thermo_val := mkTV { tv_state : N; tv_current : N; tv_target : N }.

Record sensor_val := mkSV {
  sv_versions : list (N * N);                 (* (kind code, version) *)
  sv_state : N;
  sv_outputs : N; sv_flags : N;               (* 32-bit words *)
  sv_temps : list (N * N);                    (* (index, f32 bits) *)
  sv_statuses : list N;                       (* 4 bytes *)
  sv_pending : list N;                        (* one byte per pending alert *)
  sv_fuel : N; sv_transmission : N; sv_fan : N; sv_load : N; sv_power : N; sv_cons : N; sv_thermostat : N;
  sv_modules : list (option (list N));        (* six: A with 5 bytes, the others with 3 *)
  sv_lambda : option (N * N * N);             (* state (not 0xFF), target, level *)
  sv_thermos : option (N * list thermo_val);  (* contacts byte (not 0xFF), thermostats *)
  sv_mixers : list mixer_val
}.

Definition enc_module (x : option (list N)) : list N := match x with None => [255] | Some b => b end.

Definition enc_sensor (v : sensor_val) : list N :=
  [N.of_nat (length (sv_versions v))] ++ concat (map (fun p => fst p :: le2 (snd p)) (sv_versions v)) ++
  [sv_state v] ++ le4 (sv_outputs v) ++ le4 (sv_flags v) ++
  [N.of_nat (length (sv_temps v))] ++ concat (map (fun p => fst p :: le4 (snd p)) (sv_temps v)) ++
  sv_statuses v ++
  [N.of_nat (length (sv_pending v))] ++ sv_pending v ++
  [sv_fuel v; sv_transmission v] ++ le4 (sv_fan v) ++ [sv_load v] ++ le4 (sv_power v) ++ le4 (sv_cons v) ++ [sv_thermostat v] ++
  concat (map enc_module (sv_modules v)) ++
  match sv_lambda v with None => [255] | Some (st, tg, lv) => [st; tg] ++ le2 lv end ++
  match sv_thermos v with
  | None => [255]
  | Some (contacts, l) => [contacts; N.of_nat (length l)] ++ concat (map (fun t => tv_state t :: le4 (tv_current t) ++ le4 (tv_target t)) l)
  end ++
  [N.of_nat (length (sv_mixers v))] ++
  concat (map (fun x => le4 (mv_current x) ++ [mv_target x; mv_b5 x; mv_pump x; mv_b7 x]) (sv_mixers v)).

Definition word32 (x : N) : bool := x <? 4294967296.
Definition module_ok (i : nat) (x : option (list N)) : bool :=
  match x with
  | None => true
  | Some b => Nat.eqb (length b) (if Nat.eqb i 0 then 5 else 3) && bytesb b && negb (hd 0 b =? 255)
  end.
Fixpoint modules_ok (i : nat) (l : list (option (list N))) : bool :=
  match l with [] => true | x :: r => module_ok i x && modules_ok (S i) r end.

Definition wf_sensor (v : sensor_val) : bool :=
  Nat.leb (length (sv_versions v)) 255 && forallb (fun p => byteb (fst p) && (snd p <? 65536)) (sv_versions v) &&
  byteb (sv_state v) && word32 (sv_outputs v) && word32 (sv_flags v) &&
  Nat.leb (length (sv_temps v)) 255 && forallb (fun p => byteb (fst p) && word32 (snd p)) (sv_temps v) &&
  Nat.eqb (length (sv_statuses v)) 4 && bytesb (sv_statuses v) &&
  Nat.leb (length (sv_pending v)) 255 && bytesb (sv_pending v) &&
  byteb (sv_fuel v) && byteb (sv_transmission v) && word32 (sv_fan v) && byteb (sv_load v) && word32 (sv_power v) &&
  word32 (sv_cons v) && byteb (sv_thermostat v) &&
  Nat.eqb (length (sv_modules v)) 6 && modules_ok 0 (sv_modules v) &&
  match sv_lambda v with None => true | Some (st, tg, lv) => byteb st && negb (st =? 255) && byteb tg && (lv <? 65536) end &&
  match sv_thermos v with
  | None => true
  | Some (c, l) => byteb c && negb (c =? 255) && Nat.leb (length l) 255 &&
                   forallb (fun t => byteb (tv_state t) && word32 (tv_current t) && word32 (tv_target t)) l
  end &&
  Nat.leb (length (sv_mixers v)) 255 &&
  forallb (fun x => word32 (mv_current x) && byteb (mv_target x) && byteb (mv_b5 x) && byteb (mv_pump x) && byteb (mv_b7 x)) (sv_mixers v).

(* the documented information loss *)
Fixpoint view_thermos (contacts : N) (i : N) (l : list thermo_val) : list (N * thermo) :=
  match l with
  | [] => []
  | t :: r =>
    if negb (is_nan32 (tv_current t)) && positive32 (tv_target t)
    then (i, mkThermo (tv_state t) (tv_current t) (tv_target t) (N.testbit contacts i) (N.testbit contacts (i + 3))) :: view_thermos contacts (i + 1) r
    else view_thermos contacts (i + 1) r
  end.
Fixpoint view_mixers (i : N) (l : list mixer_val) : list (N * mixer_s) :=
  match l with
  | [] => []
  | x :: r => if is_nan32 (mv_current x) then view_mixers (i + 1) r
              else (i, mkMixer (mv_current x) (mv_target x) (N.testbit (mv_pump x) 0)) :: view_mixers (i + 1) r
  end.

Definition view_sensor (v : sensor_val) : sensors :=
  mkSensors (dict_of (sv_versions v)) (state_view (sv_state v)) (sv_outputs v) (sv_flags v)
            (dict_of (filter (fun p => negb (is_nan32 (snd p)) && (fst p <? n_temperatures)) (sv_temps v)))
            (sv_statuses v) (N.of_nat (length (sv_pending v)))
            (if sv_fuel v =? 255 then None else Some (if 101 <=? sv_fuel v then sv_fuel v - 101 else sv_fuel v))
            (sv_transmission v) (opt_f32 (sv_fan v)) (opt_byte (sv_load v)) (opt_f32 (sv_power v)) (opt_f32 (sv_cons v))
            (sv_thermostat v) (sv_modules v) (sv_lambda v)
            (match sv_thermos v with None => None | Some (c, l) => Some (N.of_nat (length l), view_thermos c 0 l) end)
            (N.of_nat (length (sv_mixers v)), view_mixers 0 (sv_mixers v)).

Definition C05_sensor_statement : Prop :=
  forall v trailing, wf_sensor v = true ->
    decode_sensor_data (enc_sensor v ++ trailing) = Some (view_sensor v, length (enc_sensor v)).

(* ---- regulator data schema ---- *)
Definition enc_schema (l : list (N * N)) : list N := le2 (N.of_nat (length l)) ++ concat (map (fun p => snd p :: le2 (fst p)) l).
Definition wf_schema (l : list (N * N)) : bool := (N.of_nat (length l) <? 65536) && forallb (fun p => (fst p <? 65536) && (snd p <? 17)) l.
Definition C05_schema_statement : Prop :=
  forall l trailing, wf_schema l = true ->
    decode_schema (enc_schema l ++ trailing) = Some (match l with [] => None | _ => Some l end).

(* ---- alerts ---- *)
Definition C05_alerts_statement : Prop :=
  forall total start (l : list (N * N * N)) trailing,
    total < 256 -> start < 256 -> (length l <= 255)%nat ->
    Forall (fun a => let '(code, f, t) := a in code < 256 /\ f < 4294967296 /\ t < 4294967296 /\
                      valid_datetime (datetime_of f) = true /\ (t = 4294967295 \/ valid_datetime (datetime_of t) = true)) l ->
    decode_alerts ([total; start; N.of_nat (length l)] ++
                   concat (map (fun a => let '(code, f, t) := a in code :: le4 f ++ le4 t) l) ++ trailing) =
    Some (total, match l with
                 | [] => None
                 | _ => Some (map (fun a => let '(code, f, t) := a in
                                  mkAlert code (datetime_of f) (if t =? 4294967295 then None else Some (datetime_of t))) l)
                 end).

(* ---- password ---- *)
Definition C05_password_statement : Prop :=
  forall b0 text, decode_password (b0 :: text) = match text with [] => None | _ => Some text end.

(* C05 (product information): statements about the UID text and the whole message. *)
From Coq Require Import NArith ZArith List Bool Arith.
From PV Require Import Lib.Bytes Generated.Tables Model.Versions Model.DataTypes Model.SensorData Model.OtherKinds Spec.C05s.
Import ListNotations.
Open Scope N_scope.

(* value of a numeral in base 32, most significant digit first *)
Definition digits_value (ds : list N) : N := fold_left (fun a d => 32 * a + d) ds 0.

(* the UID text (digits = indexes into "0123456789ABCDEFGHIJKLMNZPQRSTUV") is the canonical base-32 numeral of the
   little-endian number formed by the UID bytes followed by their CRC-16, low byte first *)
Definition C05_uid_statement : Prop :=
  forall buffer, Bytes buffer ->
    let c := crc16 buffer in
    let ds := decode_uid buffer in
    c < 65536 /\
    Forall (fun d => d < 32) ds /\
    digits_value ds = le_decode (buffer ++ [c mod 256; c / 256]) /\
    hd 1 ds <> 0.

Definition enc_product (ty id : N) (uid : list N) (logo image : N) (model : list N) : list N :=
  [ty] ++ le2 id ++ [N.of_nat (length uid)] ++ uid ++ le2 logo ++ le2 image ++ [N.of_nat (length model)] ++ model.

Definition C05_product_statement : Prop :=
  forall ty id uid logo image model trailing,
    ty <= 1 -> id < 65536 -> logo < 65536 -> image < 65536 -> (length uid <= 255)%nat -> (length model <= 255)%nat ->
    decode_product (enc_product ty id uid logo image model ++ trailing) =
    Some (mkProduct ty id (decode_uid uid) logo image model).

(* C04 -- reassembly is independent of what the skipped frames contain; nothing desyncs.
   Behaviour = list of (bytes consumed by the call, outcome). *)
From Coq Require Import NArith List Bool.
From PV Require Import Lib.Bytes Model.Frame Model.Reader Spec.Envelope.
Import ListNotations.

Definition outcome_eqb (a b : outcome) : bool :=
  match a, b with
  | Delivered f, Delivered g => frame_eqb f g
  | Ignored, Ignored | ErrRead, ErrRead | ErrChecksum, ErrChecksum
  | ErrUnknownDevice, ErrUnknownDevice | ErrUnknownFrame, ErrUnknownFrame | Broken, Broken => true
  | _, _ => false
  end.

(* observation: a skipped frame is "not delivered" whatever the reason *)
Inductive obs04 := ODelivered (f : frame) | ONotDelivered | OBroken.
Definition observe04 (o : outcome) : obs04 :=
  match o with Delivered f => ODelivered f | Broken => OBroken | _ => ONotDelivered end.
Definition obs04_eqb (a b : obs04) : bool :=
  match a, b with
  | ODelivered f, ODelivered g => frame_eqb f g
  | ONotDelivered, ONotDelivered | OBroken, OBroken => true
  | _, _ => false
  end.

Fixpoint P04_list (fs : list frame) (outs : list (list N * outcome)) : bool :=
  match fs, outs with
  | [], [(c, o)] => obs04_eqb (observe04 o) OBroken && list_eqb N.eqb c []
  | f :: fs', (c, o) :: outs' =>
      obs04_eqb (observe04 o) (observe04 (classify f)) && list_eqb N.eqb c (enc f) && P04_list fs' outs'
  | _, _ => false
  end.

(* for every list of well-formed frames sent back to back: exactly the frames for us, from a
   known sender, of a known kind are delivered, once, in order; every other frame is skipped
   whole (consumed bytes = exactly that frame) *)
Definition P04 (fs : list frame) (outs : list (list N * outcome)) : bool := P04_list fs outs.

Definition C04_statement : Prop :=
  forall fs, Forall (fun f => wf_frame f = true) fs -> P04 fs (read_all (concat (map enc fs))) = true.

Definition C04_one_statement : Prop :=
  forall f rest, wf_frame f = true -> read_one (enc f ++ rest) = (classify f, rest).

(* C02 -- every transmitted frame is a well-formed frame with the intended fields.
   Positional statement, independent of how the model builds the bytes. *)
From Coq Require Import NArith List Bool.
From PV Require Import Lib.Bytes Model.Frame Model.Schedule Model.Requests.
Import ListNotations.
Open Scope N_scope.

(* envelope: bs = 68 | len lo | len hi | rcpt | sender | etype | ever | kind | payload | xor | 16 *)
Definition P02_env (f : frame) (bs : list N) : bool :=
  let n := length bs in
  Nat.eqb n (10 + length (f_payload f)) &&
  (nth 0 bs 0 =? 104) &&
  (nth 1 bs 0 + 256 * nth 2 bs 0 =? N.of_nat n) && (nth 1 bs 0 <? 256) && (nth 2 bs 0 <? 256) &&
  (nth 3 bs 0 =? f_rcpt f) && (nth 4 bs 0 =? f_sender f) &&
  (nth 5 bs 0 =? f_etype f) && (nth 6 bs 0 =? f_ever f) && (nth 7 bs 0 =? f_kind f) &&
  list_eqb N.eqb (firstn (n - 10) (skipn 8 bs)) (f_payload f) &&
  (nth (n - 2) bs 0 =? bcc (firstn (n - 2) bs)) &&
  (nth (n - 1) bs 0 =? 22).

(* a frame that can be serialised at all: byte fields, payload of bytes, 16-bit length *)
Definition tx_ok (f : frame) : bool :=
  byteb (f_kind f) && byteb (f_rcpt f) && byteb (f_sender f) && byteb (f_etype f) && byteb (f_ever f) &&
  bytesb (f_payload f) && (N.of_nat (length (f_payload f)) <? 65526).

(* payload of each parameterised request: every field at its position, and nothing else *)
Definition sched_byte (day : list bool) (j : nat) : N :=
  128 * bitval (nth (8 * j) day false) + 64 * bitval (nth (8 * j + 1) day false) +
  32 * bitval (nth (8 * j + 2) day false) + 16 * bitval (nth (8 * j + 3) day false) +
  8 * bitval (nth (8 * j + 4) day false) + 4 * bitval (nth (8 * j + 5) day false) +
  2 * bitval (nth (8 * j + 6) day false) + bitval (nth (8 * j + 7) day false).

Definition spec_bitmap (days : list (list bool)) : list N :=
  concat (map (fun day => map (sched_byte day) [0; 1; 2; 3; 4; 5]%nat) days).

Definition week_ok (days : list (list bool)) : bool :=
  Nat.eqb (length days) 7 && forallb (fun d => Nat.eqb (length d) 48) days.

Definition req_ok (r : req) : bool :=
  match r with
  | RPlain _ => true
  | RParams _ c s => byteb c && byteb s
  | RSetEcomax i v => byteb i && byteb v
  | RSetMixer d i v => byteb d && byteb i && byteb v
  | RSetThermostat i off v size =>
      byteb (match off with None => i | Some o => i + o end) && ((size =? 1) || (size =? 2)) && (v <? 256 ^ size)
  | REcomaxControl v => byteb v
  | RAlerts s c => byteb s && byteb c
  | RSetSchedule idx sw par days => byteb idx && byteb sw && byteb par && week_ok days
  end.

Definition spec_payload (r : req) : list N :=
  match r with
  | RPlain _ => []
  | RParams _ c s => [c; s]
  | RSetEcomax i v => [i; v]
  | RSetMixer d i v => [d; i; v]
  | RSetThermostat i off v size =>
      [match off with None => i | Some o => i + o end] ++
      (if size =? 1 then [v] else [v mod 256; v / 256])
  | REcomaxControl v => [v]
  | RAlerts s c => [s; c]
  | RSetSchedule idx sw par days => [1; idx; sw; par] ++ spec_bitmap days
  end.

Definition C02_envelope_statement : Prop :=
  forall f, tx_ok f = true -> exists bs, frame_bytes f = Some bs /\ P02_env f bs = true.

Definition C02_payload_statement : Prop :=
  forall r, req_ok r = true -> payload_of r = Some (spec_payload r).

(* and the frame that carries it *)
Definition C02_request_statement : Prop :=
  forall r rcpt sender etype ever,
    req_ok r = true -> byteb rcpt && byteb sender && byteb etype && byteb ever && byteb (req_code r) = true ->
    exists bs, req_bytes r rcpt sender etype ever = Some bs /\
               P02_env (mkFrame (req_code r) rcpt sender etype ever (spec_payload r)) bs = true.

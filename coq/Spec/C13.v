(* C13 -- event dispatch: ordered callbacks, consistent stored value, once means once. *)
From Coq Require Import ZArith NArith List Bool Arith.
From PV Require Import Model.EventMgr.
Import ListNotations.

(* ---------- statements proved for every operation sequence ---------- *)

Definition called_once (c w : nat) (e : lev) : bool :=
  match e with LCalled _ (Once c' w') _ => Nat.eqb c c' && Nat.eqb w w' | _ => false end.

(* a callback registered with subscribe_once is awaited at most once *)
Definition C13_once_statement : Prop :=
  forall sc ops c w, (length (filter (called_once c w) (log (erun sc ops))) <= 1)%nat.

(* every awaited callback belongs to the snapshot its dispatch took when it started, and that
   snapshot is the subscription list of that moment *)
Fixpoint snapshot_of (tid : nat) (l : list lev) : option (list sub) :=
  match l with
  | [] => None
  | LSpawn t _ _ snap :: r => if Nat.eqb t tid then Some snap else snapshot_of tid r
  | _ :: r => snapshot_of tid r
  end.
Definition C13_snapshot_statement : Prop :=
  forall sc ops tid s x, In (LCalled tid s x) (log (erun sc ops)) ->
    exists snap, snapshot_of tid (log (erun sc ops)) = Some snap /\ In s snap.

(* unsubscribe really removes (the callback being subscribed at most once), and a dispatch
   started afterwards takes exactly the subscription list of that moment as its snapshot *)
Definition C13_unsubscribe_statement : Prop :=
  forall sc ops n s,
    (length (filter (sub_eqb s) (get_subs n (subs (erun sc ops)))) <= 1)%nat ->
    mem_sub s (get_subs n (subs (erun sc (ops ++ [Unsubscribe n s])))) = false.
Definition C13_spawn_snapshot_statement : Prop :=
  forall sc ops n x,
    let st := erun sc ops in
    snapshot_of (next_id st) (log (estep sc st (Spawn n x))) = Some (get_subs n (subs st)).

(* a getter never returns a value that was not the outcome of some dispatch *)
Definition stored_value (n : nat) (x : Z) (e : lev) : bool :=
  match e with LStored _ n' x' => Nat.eqb n n' && Z.eqb x x' | _ => false end.
Definition C13_getter_statement : Prop :=
  forall sc ops w n x, In (LGot w n x) (log (erun sc ops)) ->
    existsb (stored_value n x) (log (erun sc ops)) = true.

(* ---------- the property as a monitor over the chronological log ---------- *)
(* Used as the run-time oracle on the implementation's log (and on the model's).  It checks, event
   by event: unsubscribe results; every dispatch awaits callbacks of the snapshot taken when it
   started, in subscription order, skipping only once-wrappers that are no longer subscribed,
   handing each the value returned by the previous one (None keeps the value); a once-wrapper is
   awaited only while subscribed and is unsubscribed by that; the stored value is the final value
   and is stored after the whole snapshot; getters return the stored value; a getter times out
   only while no value exists. *)
Record mtask := mkMT { mt_id : nat; mt_name : nat; mt_cur : Z; mt_rest : list sub; mt_pending : option (option Z); mt_done : bool }.
Record mstate := mkMS { ms_subs : list (nat * list sub); ms_data : list (nat * Z); ms_tasks : list mtask;
                        ms_waiting : list (nat * nat); ms_owed : list (nat * nat) }.  (* (waiter, name) *)

Fixpoint subs_eqb (a b : list sub) : bool :=
  match a, b with [], [] => true | x :: a', y :: b' => sub_eqb x y && subs_eqb a' b' | _, _ => false end.

Definition mt_value (t : mtask) : Z := match mt_pending t with Some r => apply_result r (mt_cur t) | None => mt_cur t end.

(* position s in the remaining snapshot, skipping only unsubscribed once-wrappers *)
Fixpoint advance_to (s : sub) (current : list sub) (rest : list sub) : option (list sub) :=
  match rest with
  | [] => None
  | a :: r =>
    if sub_eqb a s then Some r
    else match a with
         | Once _ _ => if mem_sub a current then None else advance_to s current r
         | Plain _ => None
         end
  end.
Definition all_skippable (current rest : list sub) : bool :=
  forallb (fun a => match a with Once _ _ => negb (mem_sub a current) | Plain _ => false end) rest.

Definition find_mt (tid : nat) (l : list mtask) : option mtask := find (fun t => Nat.eqb (mt_id t) tid) l.
Definition put_mt (t : mtask) (l : list mtask) : list mtask := t :: filter (fun u => negb (Nat.eqb (mt_id u) (mt_id t))) l.

Definition mstep (sc : script) (m : mstate) (e : lev) : option mstate :=
  match e with
  | LSub n s => Some (mkMS (set_subs n (get_subs n (ms_subs m) ++ [s]) (ms_subs m)) (ms_data m) (ms_tasks m) (ms_waiting m) (ms_owed m))
  | LUnsub n s found =>
    let cur := get_subs n (ms_subs m) in
    if Bool.eqb found (mem_sub s cur)
    then Some (mkMS (if found then set_subs n (remove_first s cur) (ms_subs m) else ms_subs m) (ms_data m) (ms_tasks m) (ms_waiting m) (ms_owed m))
    else None
  | LSpawn tid n x snap =>
    if subs_eqb snap (get_subs n (ms_subs m)) && match find_mt tid (ms_tasks m) with None => true | Some _ => false end
    then Some (mkMS (ms_subs m) (ms_data m) (put_mt (mkMT tid n x snap None false) (ms_tasks m)) (ms_waiting m) (ms_owed m))
    else None
  | LCalled tid s x =>
    match find_mt tid (ms_tasks m) with
    | Some t =>
      if mt_done t then None else
      let cur := mt_value t in
      let current := get_subs (mt_name t) (ms_subs m) in
      match advance_to s current (mt_rest t) with
      | Some rest =>
        if (x =? cur)%Z && match s with Once _ _ => mem_sub s current | Plain _ => true end
        then Some (mkMS (match s with Once _ _ => set_subs (mt_name t) (remove_first s current) (ms_subs m) | Plain _ => ms_subs m end)
                        (ms_data m)
                        (put_mt (mkMT tid (mt_name t) cur rest (Some (snd (sc (sub_cb s)))) false) (ms_tasks m))
                        (ms_waiting m) (ms_owed m))
        else None
      | None => None
      end
    | None => None
    end
  | LStored tid n x =>
    match find_mt tid (ms_tasks m) with
    | Some t =>
      if negb (mt_done t) && Nat.eqb n (mt_name t) && (x =? mt_value t)%Z &&
         all_skippable (get_subs n (ms_subs m)) (mt_rest t)
      then Some (mkMS (ms_subs m) (set_data n x (ms_data m)) (put_mt (mkMT tid n x [] None true) (ms_tasks m))
                      (filter (fun p => negb (Nat.eqb (snd p) n)) (ms_waiting m))
                      (ms_owed m ++ filter (fun p => Nat.eqb (snd p) n) (ms_waiting m)))   (* every waiter of n is owed the value *)
      else None
    | None => None
    end
  | LGot w n x =>
    match get_data n (ms_data m) with
    | Some y => if (x =? y)%Z
                then Some (mkMS (ms_subs m) (ms_data m) (ms_tasks m) (ms_waiting m)
                                (filter (fun p => negb (Nat.eqb (fst p) w)) (ms_owed m)))
                else None
    | None => None
    end
  | LTimeout w n =>
    match get_data n (ms_data m) with
    | Some _ => None
    | None => Some (mkMS (ms_subs m) (ms_data m) (ms_tasks m) (filter (fun p => negb (Nat.eqb (fst p) w)) (ms_waiting m)) (ms_owed m))
    end
  | LWait w n =>
    match get_data n (ms_data m) with
    | Some _ => None      (* a getter returns immediately once a value exists *)
    | None => Some (mkMS (ms_subs m) (ms_data m) (ms_tasks m) (ms_waiting m ++ [(w, n)]) (ms_owed m))
    end
  end.

(* waiters released by a store must all return before anything else happens *)
Definition owed_ok (m : mstate) (e : lev) : bool :=
  match ms_owed m with
  | [] => true
  | _ => match e with LGot w _ _ => existsb (fun p => Nat.eqb (fst p) w) (ms_owed m) | _ => false end
  end.

Fixpoint mrun (sc : script) (m : mstate) (evs : list lev) : bool :=
  match evs with
  | [] => match ms_owed m with [] => true | _ => false end
  | e :: r => if owed_ok m e then match mstep sc m e with Some m' => mrun sc m' r | None => false end else false
  end.

(* chronological log *)
Definition P13 (sc : script) (evs : list lev) : bool := mrun sc (mkMS [] [] [] [] []) evs.

(* the whole property, for every operation sequence: the chronological log of the event manager is accepted by the monitor *)
Definition C13_monitor_statement : Prop := forall sc ops, P13 sc (rev (log (erun sc ops))) = true.

(* C09 -- no received frame stalls the pipeline; controller requests are always answered. *)
From Coq Require Import NArith List Bool Arith.
From PV Require Import Lib.Bytes Model.Pipeline.
Import ListNotations.
Open Scope N_scope.

Definition valid (f : pframe) : bool := has_device (pf_sender f) && pf_decodable f.

Fixpoint pairs_eqb (a b : list (N * N)) : bool :=
  match a, b with
  | [], [] => true
  | (x1, x2) :: a', (y1, y2) :: b' => (x1 =? y1) && (x2 =? y2) && pairs_eqb a' b'
  | _, _ => false
  end.

(* observed: tags of the VALID frames handed to a device (in order), automatic replies, read-queue balance *)
Definition P09 (fs : list pframe) (handed_valid : list N) (resp : list (N * N)) (unfin : nat) : bool :=
  (* every valid frame is delivered to its device exactly once, in arrival order *)
  list_eqb N.eqb handed_valid (map pf_tag (filter valid fs)) &&
  (* exactly one reply of the matching kind per controller request, addressed to the requester *)
  pairs_eqb resp (flat_map reply fs) &&
  (* the accounting of received frames is balanced *)
  Nat.eqb unfin 0.

Definition observe09 (fs : list pframe) (s : pst) : list N * list (N * N) * nat :=
  (filter (fun t => existsb (fun f => (pf_tag f =? t) && valid f) fs) (handed s), responses s, unfinished s).

Definition tags_distinct (fs : list pframe) : Prop := NoDup (map pf_tag fs).

Definition C09_statement : Prop :=
  forall n fs, (1 <= n)%nat -> tags_distinct fs ->
    let '(h, r, u) := observe09 fs (run_pipeline true n fs) in P09 fs h r u = true.

(* C08 -- set / confirm / retry, as a monitor over the outputs of one set call, event by event.
   Safety reading of the property: what may be emitted at the call and at each timer expiry. *)
From Coq Require Import ZArith List Bool Arith.
From PV Require Import Model.ParamSet Model.ParamSetHop.
Import ListNotations.
Open Scope Z_scope.

Record mon := mkMon { m_sets : nat; m_confirmed : bool; m_done : bool }.

Definition pout_eqb (a b : pout) : bool :=
  match a, b with
  | OSet x, OSet y => x =? y
  | ORefresh, ORefresh | ORaise, ORaise => true
  | ORet x, ORet y => Bool.eqb x y
  | _, _ => false
  end.
Fixpoint pouts_eqb (a b : list pout) : bool :=
  match a, b with
  | [], [] => true
  | x :: a', y :: b' => pout_eqb x y && pouts_eqb a' b'
  | _, _ => false
  end.

(* what a point at which the call may run (the call itself or a timer expiry) may emit *)
Definition allowed (tracking : nat -> bool) (req : Z) (retries : nat) (m : mon) (outs : list pout) : option mon :=
  if m_done m then (if pouts_eqb outs [] then Some m else None)
  else
    match outs with
    | [] => Some m
    | [ORet true] => if m_confirmed m then Some (mkMon (m_sets m) (m_confirmed m) true) else None
    | [ORet false] =>
        if Nat.eqb (m_sets m) retries && negb (m_confirmed m) then Some (mkMon (m_sets m) (m_confirmed m) true) else None
    | OSet r :: rest =>
        if (r =? req) && Nat.ltb (m_sets m) retries &&
           pouts_eqb rest (if tracking (m_sets m) then [] else [ORefresh])
        then Some (mkMon (S (m_sets m)) (m_confirmed m) false) else None
    | _ => None
    end.

Fixpoint monitor (tracking : nat -> bool) (req prev0 : Z) (retries : nat) (m : mon)
                 (evs : list pev) (outs : list (list pout)) : bool :=
  match evs, outs with
  | [], [] => true
  | Report t :: evs', o :: outs' =>
      (* a report never makes the call transmit or return by itself *)
      pouts_eqb o [] &&
      monitor tracking req prev0 retries
              (mkMon (m_sets m) (m_confirmed m || negb (tv t =? prev0)) (m_done m)) evs' outs'
  | Tick :: evs', o :: outs' =>
      match allowed tracking req retries m o with
      | Some m' => monitor tracking req prev0 retries m' evs' outs'
      | None => false
      end
  | _, _ => false
  end.

(* P08: outs = outputs of the call itself :: outputs per event *)
Definition P08 (tracking : nat -> bool) (t : triple) (req : Z) (retries : nat)
               (evs : list pev) (outs : list (list pout)) : bool :=
  match outs with
  | [] => false
  | o0 :: rest =>
    match allowed tracking req retries (mkMon 0 false false) o0 with
    | Some m => monitor tracking req (tv t) retries m evs rest
    | None => false
    end
  end.

Definition in_range (t : triple) (req : Z) : bool := (tlo t <=? req) && (req <=? thi t).

Definition C08_statement : Prop :=
  forall tracking t req retries evs,
    in_range t req = true -> req <> tv t ->
    P08 tracking t req retries evs (fst (run_set tracking t req retries evs)) = true.

(* reports handled INSIDE a transmission step (while the request is being built): the finer model is the coarse one on the
   history in which such a report comes right after that step, so every such history is accepted by the monitor too *)
Definition C08_hop_refines_statement : Prop :=
  forall tracking t req retries during0 evs,
    run_set_hop true tracking t req retries during0 evs =
    run_set tracking t req retries (map Report during0 ++ flatten evs).
Definition C08_hop_statement : Prop :=
  forall tracking t req retries during0 evs,
    in_range t req = true -> req <> tv t ->
    P08 tracking t req retries (map Report during0 ++ flatten evs)
        (fst (run_set_hop true tracking t req retries during0 evs)) = true.

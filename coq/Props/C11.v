(* C11 property theorems. *)
From Coq Require Import NArith List Bool.
From PV Require Import Model.Conn Spec.C11 Proofs.C11Facts.
Import ListNotations.

Theorem C11_cycles : C11_statement.
Proof. exact C11Facts.C11_cycles. Qed.
Print Assumptions C11_cycles.

Theorem C11_pinned_refuted : P11 [mkCin 1 0] (run_conn false [mkCin 1 0]) = false.
Proof. exact C11Facts.C11_pinned_refuted. Qed.
Print Assumptions C11_pinned_refuted.

Example C11_nonvacuous :
  map co_opens (run_conn true [mkCin 1 2; mkCin 2 0]) = [[(0, false); (20, false); (20, true)]; [(0, true)]]%N /\
  map co_consumers (run_conn true [mkCin 1 2; mkCin 2 0]) = [3; 3].
Proof. vm_compute. split; reflexivity. Qed.

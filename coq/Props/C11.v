(* C11 property theorems. *)
From Coq Require Import NArith List Bool.
From PV Require Import Model.Conn Model.ConnSM Spec.C11 Proofs.C11Facts Proofs.C11smFacts.
Import ListNotations.

Theorem C11_cycles : C11_statement.
Proof. exact C11Facts.C11_cycles. Qed.
Print Assumptions C11_cycles.

Theorem C11_pinned_refuted : P11 [mkCin 1 0] (run_conn false [mkCin 1 0]) = false.
Proof. exact C11Facts.C11_pinned_refuted. Qed.
Print Assumptions C11_pinned_refuted.

Example C11_nonvacuous :
  map co_opens (run_conn true [mkCin 1 2; mkCin 2 0]) = [[(0, false); (20, false); (20, true)]; [(0, true)]]%N /\
  map co_consumers (run_conn true [mkCin 1 2; mkCin 2 0]) = [3; 3].
Proof. vm_compute. split; reflexivity. Qed.

(* event-level model: every sequence of faults, open results, back-off expiries and new devices *)
Theorem C11_sm : C11_sm_statement.
Proof. exact C11smFacts.C11_sm. Qed.
Print Assumptions C11_sm.
Theorem C11_sm_refines : C11_sm_refines_statement.
Proof. exact C11smFacts.C11_sm_refines. Qed.
Print Assumptions C11_sm_refines.
Theorem C11_nobreak_refuted : c_producers (crun false true (cycle_events 0)) = 2%nat.
Proof. exact C11smFacts.C11_nobreak_refuted. Qed.
Theorem C11_unguarded_refuted : mon_ok (clog (crun false false [ENewDevice; EFault; EFault])) = false.
Proof. exact C11smFacts.C11_unguarded_refuted. Qed.
Example C11_sm_nonvacuous :
  clog (crun true true (ENewDevice :: cycle_events 1)) =
  [LNew; LDown 0; LClose; LOpen false; LBackoff; LOpen true; LStartMaster; LUp 0].
Proof. vm_compute. reflexivity. Qed.

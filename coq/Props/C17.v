(* C17 property theorems. *)
From Coq Require Import ZArith NArith List Bool.
From PV Require Import Lib.PyFloat Generated.Tables Model.Param Spec.C17 Proofs.C17Facts.
Import ListNotations.
Open Scope Z_scope.

Theorem C17_inverse : C17_inverse_statement.
Proof. exact C17Facts.C17_inverse. Qed.
Print Assumptions C17_inverse.

Theorem C17_accept : C17_accept_statement.
Proof. exact C17Facts.C17_accept. Qed.
Print Assumptions C17_accept.

(* non-vacuity: the tables contain scaled, shifted and two-byte descriptions *)
Example C17_nonvacuous : (200 <=? Z.of_nat (length number_descs)) = true /\ length C17Facts.keys = 4%nat.
Proof. vm_compute. split; reflexivity. Qed.

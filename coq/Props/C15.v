(* C15 property theorems. *)
From Coq Require Import NArith List Bool.
From PV Require Import Lib.Bytes Generated.Tables Model.Frame Model.Versions Spec.C15 Proofs.C15Facts.
Import ListNotations.
Open Scope N_scope.

Theorem C15_refines : C15_statement.
Proof. exact C15Facts.C15_refines. Qed.
Print Assumptions C15_refines.

Theorem C15_idempotent : C15_idempotent_statement.
Proof. exact C15Facts.C15_idempotent. Qed.
Print Assumptions C15_idempotent.

Theorem C15_silent : C15_silent_statement.
Proof. exact C15Facts.C15_silent. Qed.
Print Assumptions C15_silent.

Theorem C15_hist : C15_hist_statement.
Proof. exact C15Facts.C15_hist. Qed.
Print Assumptions C15_hist.

Example C15_nonvacuous :
  let h := [[(49, 37); (50, 37); (200, 1)]; [(49, 37); (50, 38)]; [(49, 36)]] in
  forallb wf_ann h = true /\ fst (announce_all [50] [] h) = [[49]; []; [49]].
Proof. vm_compute. split; reflexivity. Qed.

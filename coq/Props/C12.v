(* C12 property theorems. *)
From Coq Require Import NArith List Bool.
From PV Require Import Model.Shutdown Spec.C12 Proofs.C12Facts.
Import ListNotations.

Theorem C12_terminates : C12_statement.
Proof. exact C12Facts.C12_terminates. Qed.
Print Assumptions C12_terminates.
Theorem C12_cancel_all : C12_cancel_all_statement.
Proof. exact C12Facts.C12_cancel_all. Qed.
Print Assumptions C12_cancel_all.

Theorem C12_pinned_join_refuted : P12 (close false true true true true true [] 0 (Some 0%N) (mkCS false 1 0 false true 0 [] [])) = false.
Proof. exact C12Facts.C12_pinned_join_refuted. Qed.
Theorem C12_pinned_disconnected_refuted : P12 (close true false true true true true [] 0 (Some 0%N) (mkCS false 0 0 false true 2 [] [])) = false.
Proof. exact C12Facts.C12_pinned_disconnected_refuted. Qed.
Theorem C12_pinned_merge_refuted : P12 (close true true false true true true [] 0 (Some 0%N) (mkCS true 0 0 false false 0 [(0, 1); (4, 1)]%nat [(0, 1)]%nat)) = false.
Proof. exact C12Facts.C12_pinned_merge_refuted. Qed.
Theorem C12_pinned_cancel_refuted : P12 (close true true true false true true [false; true] 0 (Some 0%N) (mkCS false 0 0 false true 0 [] [])) = false.
Proof. exact C12Facts.C12_pinned_cancel_refuted. Qed.
Theorem C12_pinned_recancel_refuted : P12 (close true true true true false true [] 1 (Some 0%N) (mkCS true 1 0 false true 0 [] [])) = false.
Proof. exact C12Facts.C12_pinned_recancel_refuted. Qed.
Theorem C12_pinned_closewait_refuted : P12 (close true true true true true false [] 0 None (mkCS true 0 0 false false 1 [] [])) = false.
Proof. exact C12Facts.C12_pinned_closewait_refuted. Qed.
Print Assumptions C12_pinned_merge_refuted.

(* C09 property theorems. *)
From Coq Require Import NArith List Bool.
From PV Require Import Model.Pipeline Spec.C09 Proofs.C09Facts.
Import ListNotations.
Open Scope N_scope.

Theorem C09_containment : C09_statement.
Proof. exact C09Facts.C09_containment. Qed.
Print Assumptions C09_containment.

Theorem C09_pinned_refuted :
  let bad t := mkPF t 69 53 false in
  let fs := [bad 1; bad 2; bad 3; mkPF 4 69 53 true] in
  let '(h, r, u) := observe09 fs (run_pipeline false 3 fs) in P09 fs h r u = false.
Proof. exact C09Facts.C09_pinned_refuted. Qed.
Print Assumptions C09_pinned_refuted.

Example C09_nonvacuous :
  let fs := [mkPF 1 69 53 false; mkPF 2 86 53 true; mkPF 3 69 64 true; mkPF 4 69 48 true; mkPF 5 81 53 true] in
  observe09 fs (run_pipeline true 3 fs) = ([3; 4; 5], [(192, 69); (176, 69)], 0%nat).
Proof. vm_compute. reflexivity. Qed.

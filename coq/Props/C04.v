(* C04 property theorems. *)
From Coq Require Import NArith List Bool.
From PV Require Import Lib.Bytes Model.Frame Model.Reader Spec.Envelope Spec.C04 Proofs.EnvelopeFacts.
Import ListNotations.
Open Scope N_scope.

Theorem C04_one : C04_one_statement.
Proof. exact EnvelopeFacts.C04_one. Qed.
Print Assumptions C04_one.

Theorem C04_sequence : C04_statement.
Proof. exact EnvelopeFacts.C04_sequence. Qed.
Print Assumptions C04_sequence.

(* non-vacuity: a foreign frame whose payload is 68 68, then a frame for us *)
Example C04_nonvacuous :
  let foreign := mkFrame 51 69 86 48 5 [104; 104] in
  let ours := mkFrame 64 86 69 48 5 [] in
  Forall (fun f => wf_frame f = true) [foreign; ours] /\
  map snd (read_all (concat (map enc [foreign; ours]))) = [Ignored; Delivered ours; Broken].
Proof. split; [repeat constructor|vm_compute; reflexivity]. Qed.

(* C07 property theorems. *)
From Coq Require Import NArith List Bool String.
From PV Require Import Generated.Tables Model.Handlers Spec.C05p Spec.C07 Proofs.C07Facts Model.SchedRoute Model.SchedData Proofs.C07sFacts.
Import ListNotations.
Open Scope N_scope.

Theorem C07_tables : C07_tables_statement.
Proof. exact C07Facts.C07_tables. Qed.
Print Assumptions C07_tables.
Theorem C07_positions : C07_positions_statement.
Proof. exact C07Facts.C07_positions. Qed.
Print Assumptions C07_positions.
Theorem C07_unknown : C07_unknown_statement.
Proof. exact C07Facts.C07_unknown. Qed.
Print Assumptions C07_unknown.
Theorem C07_request : C07_request_statement.
Proof. exact C07Facts.C07_request. Qed.
Print Assumptions C07_request.
Theorem C07_thermostat_partial : C07_thermostat_partial_statement.
Proof. exact C07Facts.C07_thermostat_partial. Qed.
Print Assumptions C07_thermostat_partial.
(* full thermostat statement is false of the code: known finding D8 *)
Theorem C07_thermostat_refuted : ~ C07_thermostat_full_statement.
Proof. exact C07Facts.C07_thermostat_refuted. Qed.
Print Assumptions C07_thermostat_refuted.

(* schedule switches / parameters: routed to their own schedule by name, for every entry of the generated table (some schedule
   names are prefixes of others); the schedules dataset keeps every schedule ever listed (D21); the pinned replacement loses them *)
Theorem C07_schedule_route : C07_schedule_route_statement.
Proof. exact C07sFacts.C07_schedule_route. Qed.
Print Assumptions C07_schedule_route.
Theorem C07_schedule_table : C07_schedule_table_statement.
Proof. exact C07sFacts.C07_schedule_table. Qed.
Theorem C07_schedules_kept : C07_schedules_kept_statement.
Proof. exact C07sFacts.C07_schedules_kept. Qed.
Print Assumptions C07_schedules_kept.
Theorem C07_schedules_pinned_refuted : has 38 (dataset false [[(38%N, []); (39%N, [])]; [(0%N, []); (34%N, [])]]) = false.
Proof. exact C07sFacts.C07_schedules_pinned_refuted. Qed.

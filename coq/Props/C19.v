(* C19 property theorems. *)
From Coq Require Import NArith ZArith List Bool.
From PV Require Import Lib.Bytes Generated.Tables Model.DataTypes Spec.C19 Proofs.C19Facts.
Import ListNotations.
Open Scope N_scope.

Theorem C19_fixed : C19_fixed_statement.
Proof. exact C19Facts.C19_fixed. Qed.
Print Assumptions C19_fixed.

Theorem C19_var : C19_var_statement.
Proof. exact C19Facts.C19_var. Qed.
Print Assumptions C19_var.

Theorem C19_bit : C19_bit_statement.
Proof. exact C19Facts.C19_bit. Qed.
Print Assumptions C19_bit.

(* every type id of the generated regulator-data table is one of the modelled layouts *)
Theorem C19_table : length data_types = 17%nat.
Proof. reflexivity. Qed.

Example C19_nonvacuous :
  representable (DTSInt 2) (DInt (-2)) = true /\
  pack (DTSInt 2) (DInt (-2)) = Some [254; 255] /\
  (* "zażółć" in UTF-8: 10 bytes for 6 characters *)
  representable DTString (DRaw [122; 97; 197; 188; 195; 179; 197; 130; 196; 135]) = true.
Proof. vm_compute. repeat split. Qed.

(* C20 property theorems. *)
From Coq Require Import ZArith List Bool.
From PV Require Import Model.FiltersOverlap Model.Filters Spec.C20 Proofs.C20Facts.
Import ListNotations.
Open Scope Z_scope.

Theorem C20_on_change : C20_on_change_statement.
Proof. exact C20Facts.C20_on_change. Qed.
Print Assumptions C20_on_change.
Theorem C20_debounce : C20_debounce_statement.
Proof. exact C20Facts.C20_debounce. Qed.
Print Assumptions C20_debounce.
Theorem C20_throttle : C20_throttle_statement.
Proof. exact C20Facts.C20_throttle. Qed.
Print Assumptions C20_throttle.
Theorem C20_throttle_gaps : C20_throttle_gaps_statement.
Proof. exact C20Facts.C20_throttle_gaps. Qed.
Print Assumptions C20_throttle_gaps.
Theorem C20_delta : C20_delta_statement.
Proof. exact C20Facts.C20_delta. Qed.
Print Assumptions C20_delta.
Theorem C20_aggregate : C20_aggregate_statement.
Proof. exact C20Facts.C20_aggregate. Qed.
Print Assumptions C20_aggregate.
Theorem C20_aggregate_mixed : C20_aggregate_mixed_statement.
Proof. exact C20Facts.C20_aggregate_mixed. Qed.
Print Assumptions C20_aggregate_mixed.
Theorem C20_overlap : C20_overlap_statement.
Proof. exact C20Facts.C20_overlap. Qed.
Print Assumptions C20_overlap.
Theorem C20_aggregate_late_reset_refuted :
  fst (orun true (KAggregate 5) (mkO (finit (KAggregate 5) 0) []) [OCall 1 (FNum 1); OCall 6 (FNum 2); OCall 6 (FNum 10); ODone; ODone]) =
  [None; Some (FNum 3); Some (FNum 13)].
Proof. exact C20Facts.C20_aggregate_late_reset_refuted. Qed.
Theorem C20_chain : C20_chain_statement.
Proof. exact C20Facts.C20_chain. Qed.
Print Assumptions C20_chain.

(* sub-tolerance drift: 6/64 steps are never delivered by on_change, a 7/64 step is; and a step of exactly one tolerance
   (0 -> the double 0.1) is not *)
Example C20_nonvacuous :
  let u := 18014398509481984 in     (* 1/64 on the 2^-60 grid *)
  fst (frun KOnChange (finit KOnChange 0) [(0, FNum (640 * u)); (1, FNum (646 * u)); (2, FNum (647 * u)); (3, FNum (641 * u))]) =
  [Some (FNum (640 * u)); None; Some (FNum (647 * u)); None] /\
  fst (frun KOnChange (finit KOnChange 0) [(0, FNum 0); (1, FNum 115292150460684704); (2, FNum 115292150460684705)]) =
  [Some (FNum 0); None; Some (FNum 115292150460684705)].
Proof. vm_compute. split; reflexivity. Qed.

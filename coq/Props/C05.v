(* C05 property theorems (parameter blocks; the message decoders are added as they are proved). *)
From Coq Require Import NArith List Bool.
From PV Require Import Model.ParamBlocks Spec.C05p Proofs.C05pFacts.

Theorem C05_ecomax_params : C05_ecomax_params_statement.
Proof. exact C05pFacts.C05_ecomax_params. Qed.
Print Assumptions C05_ecomax_params.
Theorem C05_mixer_params : C05_mixer_params_statement.
Proof. exact C05pFacts.C05_mixer_params. Qed.
Print Assumptions C05_mixer_params.
Theorem C05_thermostat_params : C05_thermostat_params_statement.
Proof. exact C05pFacts.C05_thermostat_params. Qed.
Print Assumptions C05_thermostat_params.
Theorem C05_thermostat_none : C05_thermostat_none_statement.
Proof. exact C05pFacts.C05_thermostat_none. Qed.
Theorem C05_schedules : C05_schedules_statement.
Proof. exact C05pFacts.C05_schedules. Qed.
Print Assumptions C05_schedules.

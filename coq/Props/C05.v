(* C05 property theorems: parameter blocks, schedules, and the message / schema / alerts / password decoders. *)
From Coq Require Import NArith ZArith List Bool.
From PV Require Import Model.LazyData Proofs.C05lFacts Model.DataTypes Model.ParamBlocks Spec.C05p Proofs.C05pFacts Spec.C05s Proofs.C05sFacts Spec.C05r Proofs.C05rFacts Spec.C05u Proofs.C05uFacts.
Import ListNotations.
Open Scope N_scope.

Theorem C05_ecomax_params : C05_ecomax_params_statement.
Proof. exact C05pFacts.C05_ecomax_params. Qed.
Print Assumptions C05_ecomax_params.
Theorem C05_mixer_params : C05_mixer_params_statement.
Proof. exact C05pFacts.C05_mixer_params. Qed.
Print Assumptions C05_mixer_params.
Theorem C05_thermostat_params : C05_thermostat_params_statement.
Proof. exact C05pFacts.C05_thermostat_params. Qed.
Print Assumptions C05_thermostat_params.
Theorem C05_thermostat_none : C05_thermostat_none_statement.
Proof. exact C05pFacts.C05_thermostat_none. Qed.
Theorem C05_schedules : C05_schedules_statement.
Proof. exact C05pFacts.C05_schedules. Qed.
Print Assumptions C05_schedules.

(* sensor-data message: the sixteen chained section decoders recover the documented view of ANY
   well-formed value from its wire layout and stop exactly at its end *)
Theorem C05_sensor : C05_sensor_statement.
Proof. exact C05sFacts.C05_sensor. Qed.
Print Assumptions C05_sensor.
Theorem C05_schema : C05_schema_statement.
Proof. exact C05sFacts.C05_schema. Qed.
Print Assumptions C05_schema.
Theorem C05_alerts : C05_alerts_statement.
Proof. exact C05sFacts.C05_alerts. Qed.
Print Assumptions C05_alerts.
Theorem C05_password : C05_password_statement.
Proof. exact C05sFacts.C05_password. Qed.
Print Assumptions C05_password.

(* regulator data over a schema: consecutive flags share bytes (LSB first, eight to a byte), every other entry starts on
   a fresh byte and is the packed form of its type (C19); the whole message with its version word and frame versions *)
Theorem C05_regdata_body : C05_regdata_body_statement.
Proof. exact C05rFacts.C05_regdata_body. Qed.
Print Assumptions C05_regdata_body.
Theorem C05_regdata : C05_regdata_statement.
Proof. exact C05rFacts.C05_regdata. Qed.
Print Assumptions C05_regdata.
Theorem C05_regdata_history : C05_regdata_history_statement.
Proof. exact C05lFacts.C05_regdata_history. Qed.
Print Assumptions C05_regdata_history.
(* D25: with the cache kept across assign_to(), one look at the frame before the device is known and the schema-less decoding
   is what the device gets *)
Theorem C05_context_pinned_refuted : forall (dec : option (list (N * N)) -> option nat) h,
  ldata dec (lrun false dec [LAccess; LAssign h]) = dec None.
Proof. intros dec h. exact (C05lFacts.C05_context_pinned_refuted dec h). Qed.
Example C05_regdata_nonvacuous :
  forallb entry_ok [mkRE 1 10 (DBool true); mkRE 2 10 (DBool false); mkRE 4 5 (DInt 513); mkRE 5 10 (DBool true);
                    mkRE 14 12 (DRaw [65; 66]); mkRE 15 0 DNone; mkRE 16 1 (DInt (-3))] = true.
Proof. vm_compute. reflexivity. Qed.

(* product information: the UID text is the canonical base-32 numeral of (UID bytes ++ CRC-16), and the whole message *)
Theorem C05_uid : C05_uid_statement.
Proof. exact C05uFacts.C05_uid. Qed.
Print Assumptions C05_uid.
Theorem C05_product : C05_product_statement.
Proof. exact C05uFacts.C05_product. Qed.
Print Assumptions C05_product.

(* non-vacuity: a value with every optional section present meets wf_sensor *)
Example C05_sensor_nonvacuous :
  wf_sensor (mkSV [(49, 37); (50, 5)] 3 4097 28 [(0, 1101004800); (1, 2143289344); (200, 1101004800)]
                  [1; 2; 3; 4] [7; 9] 130 25 1103626240 50 1092616192 2143289344 1
                  [Some [1; 2; 3; 75; 49]; None; Some [4; 5; 6]; None; None; Some [7; 8; 9]]
                  (Some (1, 2, 300)) (Some (9, [mkTV 1 1101004800 1101004800; mkTV 0 2143289344 1101004800]))
                  [mkMV 1101004800 40 0 1 0; mkMV 2143289344 0 0 0 0]) = true.
Proof. vm_compute. reflexivity. Qed.

(* C03 property theorems (frame level). *)
From Coq Require Import NArith List Bool.
From PV Require Import Lib.Bytes Model.Frame Model.Reader Model.Structs Spec.Envelope Spec.C03 Spec.C03s Proofs.EnvelopeFacts Proofs.C03sFacts.
Import ListNotations.
Open Scope N_scope.

Theorem C03_roundtrip : C03_roundtrip_statement.
Proof. exact EnvelopeFacts.C03_roundtrip. Qed.
Print Assumptions C03_roundtrip.

Theorem C03_reserialise : C03_reserialise_statement.
Proof. exact EnvelopeFacts.C03_reserialise. Qed.
Print Assumptions C03_reserialise.

Theorem C03_eq : C03_eq_statement.
Proof. exact EnvelopeFacts.C03_eq. Qed.
Print Assumptions C03_eq.

Theorem C03_netinfo : C03_netinfo_statement.
Proof. exact C03sFacts.C03_netinfo. Qed.
Print Assumptions C03_netinfo.

Theorem C03_version : C03_version_statement.
Proof. exact C03sFacts.C03_version. Qed.
Print Assumptions C03_version.

(* non-vacuity: a concrete frame meets the hypotheses, and the round trip computes *)
Example C03_nonvacuous :
  let f := mkFrame 53 0 69 48 5 [1; 104; 255] in
  wf_frame f = true /\ deliverable f = true /\
  read_one (enc f ++ [7]) = (Delivered f, [7]).
Proof. vm_compute. repeat split. Qed.

(* C02 property theorems. *)
From Coq Require Import NArith List Bool.
From PV Require Import Lib.Bytes Generated.Tables Model.Frame Model.Requests Spec.Envelope Spec.C02 Proofs.C02Facts.
Import ListNotations.
Open Scope N_scope.

Theorem C02_envelope : C02_envelope_statement.
Proof. exact C02Facts.C02_envelope. Qed.
Print Assumptions C02_envelope.

Theorem C02_payload : C02_payload_statement.
Proof. exact C02Facts.C02_payload. Qed.
Print Assumptions C02_payload.

Theorem C02_request : C02_request_statement.
Proof. exact C02Facts.C02_request. Qed.
Print Assumptions C02_request.

Theorem C02_all_kinds : length frame_types = 33%nat /\ nodupN (map fst frame_types) = true /\
  forallb (fun k => byteb (fst k)) frame_types = true.
Proof. exact C02Facts.C02_all_kinds. Qed.
Print Assumptions C02_all_kinds.

Example C02_nonvacuous :
  req_ok (RSetThermostat 3 (Some 12) 513 2) = true /\
  req_bytes (RSetThermostat 3 (Some 12) 513 2) 69 86 48 5 = Some [104; 13; 0; 69; 86; 48; 5; 93; 15; 1; 2; 18; 22].
Proof. vm_compute. split; reflexivity. Qed.

(* C18 property theorems. *)
From Coq Require Import NArith List Bool.
From PV Require Import Lib.Bytes Model.Schedule Model.Requests Spec.C02 Spec.C18 Proofs.C18Facts.
Import ListNotations.
Open Scope N_scope.

Theorem C18_edit : C18_edit_statement.
Proof. exact C18Facts.C18_edit. Qed.
Print Assumptions C18_edit.

Theorem C18_reject : C18_reject_statement.
Proof. exact C18Facts.C18_reject. Qed.
Print Assumptions C18_reject.

Theorem C18_decode_encode : C18_decode_encode_statement.
Proof. exact C18Facts.C18_decode_encode. Qed.
Print Assumptions C18_decode_encode.

Theorem C18_encode_decode : C18_encode_decode_statement.
Proof. exact C18Facts.C18_encode_decode. Qed.
Print Assumptions C18_encode_decode.

Theorem C18_commit : C18_commit_statement.
Proof. exact C18Facts.C18_commit. Qed.
Print Assumptions C18_commit.

Example C18_nonvacuous :
  let day := repeat false 48 in
  set_state day 0 7 30 0 0 = Some (repeat false 15 ++ repeat true 33) /\
  set_state day 0 23 30 0 0 = None /\ set_state day 5 1 0 2 0 = None.
Proof. vm_compute. repeat split. Qed.

(* C06 property theorems. *)
From Coq Require Import ZArith List Bool.
From PV Require Import Model.ParamSet Spec.C08 Spec.C06 Proofs.ParamFacts.
Import ListNotations.
Open Scope Z_scope.

Theorem C06_reject : C06_reject_statement.
Proof. exact ParamFacts.C06_reject. Qed.
Print Assumptions C06_reject.

Theorem C06_transmitted : C06_transmitted_statement.
Proof. exact ParamFacts.C06_transmitted. Qed.
Print Assumptions C06_transmitted.

Theorem C06_bounds : C06_bounds_statement.
Proof. exact ParamFacts.C06_bounds. Qed.
Print Assumptions C06_bounds.

(* the D6 corner: requested value equals the held value, which is itself outside the bounds *)
Example C06_nonvacuous :
  let t := mkTriple 10 20 30 in
  in_range t 10 = false /\ fst (run_set (fun _ => true) t 10 5 [Tick]) = [[ORaise]; []].
Proof. vm_compute. split; reflexivity. Qed.

(* Known finding D23 (open): the range a parameter is checked against is the one held by the OBJECT that the event manager
   stored last.  When two parameter responses are handled before the first dispatch of a NEW parameter has stored its object
   (a user subscriber of that event awaits), each response creates its own object, and the dispatch that finishes last wins --
   in the event-manager model (Model/EventMgr.v, proved against the whole of C13): two overlapping dispatches of one name, the
   second finishing first, leave the FIRST value stored. *)
From PV Require Import Model.EventMgr.
Example C06_creation_race_refuted :
  let sc : script := fun _ => (1%nat, None) in            (* one subscriber that suspends once and returns nothing *)
  get_data 0 (data (erun sc [Subscribe 0 0; Spawn 0 10; Spawn 0 20; Resume 1; Resume 0])) = Some 10.
Proof. vm_compute. reflexivity. Qed.

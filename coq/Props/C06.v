(* C06 property theorems. *)
From Coq Require Import ZArith List Bool.
From PV Require Import Model.ParamSet Spec.C08 Spec.C06 Proofs.ParamFacts.
Import ListNotations.
Open Scope Z_scope.

Theorem C06_reject : C06_reject_statement.
Proof. exact ParamFacts.C06_reject. Qed.
Print Assumptions C06_reject.

Theorem C06_transmitted : C06_transmitted_statement.
Proof. exact ParamFacts.C06_transmitted. Qed.
Print Assumptions C06_transmitted.

Theorem C06_bounds : C06_bounds_statement.
Proof. exact ParamFacts.C06_bounds. Qed.
Print Assumptions C06_bounds.

(* the D6 corner: requested value equals the held value, which is itself outside the bounds *)
Example C06_nonvacuous :
  let t := mkTriple 10 20 30 in
  in_range t 10 = false /\ fst (run_set (fun _ => true) t 10 5 [Tick]) = [[ORaise]; []].
Proof. vm_compute. split; reflexivity. Qed.

(* C08 property theorem. *)
From Coq Require Import ZArith List Bool.
From PV Require Import Model.ParamSet Spec.C08 Proofs.ParamFacts.
Import ListNotations.
Open Scope Z_scope.

Theorem C08_all_histories : C08_statement.
Proof. exact ParamFacts.C08_all_histories. Qed.
Print Assumptions C08_all_histories.

(* non-vacuity and the D9 history: set 5 from (1,0,100), retries 2, a stale report between the attempts *)
Example C08_nonvacuous :
  let t := mkTriple 1 0 100 in
  in_range t 5 = true /\ 5 <> tv t /\
  fst (run_set (fun _ => false) t 5 2 [Report (mkTriple 1 0 100); Tick; Tick]) =
    [[OSet 5; ORefresh]; []; [OSet 5; ORefresh]; [ORet false]].
Proof. vm_compute. repeat split. discriminate. Qed.

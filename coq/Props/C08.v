(* C08 property theorem. *)
From Coq Require Import ZArith List Bool.
From PV Require Import Model.ParamSet Model.ParamSetHop Spec.C08 Proofs.ParamFacts Proofs.C08hFacts.
Import ListNotations.
Open Scope Z_scope.

Theorem C08_all_histories : C08_statement.
Proof. exact ParamFacts.C08_all_histories. Qed.
Print Assumptions C08_all_histories.

(* non-vacuity and the D9 history: set 5 from (1,0,100), retries 2, a stale report between the attempts *)
Example C08_nonvacuous :
  let t := mkTriple 1 0 100 in
  in_range t 5 = true /\ 5 <> tv t /\
  fst (run_set (fun _ => false) t 5 2 [Report (mkTriple 1 0 100); Tick; Tick]) =
    [[OSet 5; ORefresh]; []; [OSet 5; ORefresh]; [ORet false]].
Proof. vm_compute. repeat split. discriminate. Qed.

(* reports handled while the request of a transmission is being built (thread-pool hop of Request.create) *)
Theorem C08_hop_refines : C08_hop_refines_statement.
Proof. exact C08hFacts.C08_hop_refines. Qed.
Print Assumptions C08_hop_refines.
Theorem C08_hop : C08_hop_statement.
Proof. exact C08hFacts.C08_hop. Qed.
Print Assumptions C08_hop.
Theorem C08_hop_late_refuted :
  let t := mkTriple 50 0 100 in
  fst (run_set_hop false (fun _ => true) t 60 2 [t] []) = [[OSet 50]; []] /\
  P08 (fun _ => true) t 60 2 (Report t :: flatten []) (fst (run_set_hop false (fun _ => true) t 60 2 [t] [])) = false.
Proof. exact C08hFacts.C08_hop_late_refuted. Qed.

(* C10 property theorems. *)
From Coq Require Import NArith List Bool.
From PV Require Import Model.DeviceEntry Spec.C10 Proofs.C10Facts.
Import ListNotations.

Theorem C10_unique : C10_statement.
Proof. exact C10Facts.C10_unique. Qed.
Print Assumptions C10_unique.

Theorem C10_complete : C10_complete_statement.
Proof. exact C10Facts.C10_complete. Qed.
Print Assumptions C10_complete.

Theorem C10_pinned_refuted :
  let s := drun false [Arrive 1; Arrive 2; CreateDone 0; CreateDone 0] in
  P10 (next_obj s) (setups s) (handled s) (got s) = false.
Proof. exact C10Facts.C10_pinned_refuted. Qed.
Print Assumptions C10_pinned_refuted.

Example C10_nonvacuous :
  let s := drun true [Arrive 1; UserGet 7; Arrive 2; Arrive 3; CreateDone 0; Arrive 4; UserGet 8] in
  handled s = [(1, 0); (2, 0); (3, 0); (4, 0)] /\ got s = [(7, 0); (8, 0)] /\ setups s = 1.
Proof. vm_compute. repeat split. Qed.

Theorem C10_getters : C10_getters_statement.
Proof. exact C10Facts.C10_getters. Qed.
Print Assumptions C10_getters.

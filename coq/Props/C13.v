(* C13 property theorems. *)
From Coq Require Import ZArith List Bool.
From PV Require Import Model.EventMgr Spec.C13 Proofs.C13Facts Proofs.C13MonFacts.
Import ListNotations.

Theorem C13_once : C13_once_statement.
Proof. exact C13Facts.C13_once. Qed.
Print Assumptions C13_once.
Theorem C13_snapshot : C13_snapshot_statement.
Proof. exact C13Facts.C13_snapshot. Qed.
Print Assumptions C13_snapshot.
Theorem C13_spawn_snapshot : C13_spawn_snapshot_statement.
Proof. exact C13Facts.C13_spawn_snapshot. Qed.
Print Assumptions C13_spawn_snapshot.
Theorem C13_unsubscribe : C13_unsubscribe_statement.
Proof. exact C13Facts.C13_unsubscribe. Qed.
Print Assumptions C13_unsubscribe.
Theorem C13_getter : C13_getter_statement.
Proof. exact C13Facts.C13_getter. Qed.
Print Assumptions C13_getter.

(* order, value threading, once-wrappers, store, wake, getters and timeouts together: every log satisfies the monitor *)
Theorem C13_monitor : C13_monitor_statement.
Proof. exact C13MonFacts.C13_monitor. Qed.
Print Assumptions C13_monitor.

(* the D15 history: callbacks [slow; once], two overlapping dispatches: once is awaited once,
   and the whole log satisfies the monitor *)
Example C13_nonvacuous :
  let sc := fun c => match c with 0 => (1, None) | _ => (0, Some 1%Z) end in
  let ops := [Subscribe 0 0; SubscribeOnce 0 1; Spawn 0 10%Z; Spawn 0 20%Z; Resume 2; Resume 1] in
  length (filter (called_once 1 0) (log (erun sc ops))) = 1 /\ P13 sc (rev (log (erun sc ops))) = true.
Proof. vm_compute. split; reflexivity. Qed.

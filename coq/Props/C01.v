(* C01 property theorems -- nothing else lives here. *)
From PV Require Import Model.Reader Spec.C01 Proofs.ReaderFacts.

Theorem C01_delivered_sound : C01_statement.
Proof. exact ReaderFacts.C01_delivered_sound. Qed.
Print Assumptions C01_delivered_sound.

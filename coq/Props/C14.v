(* C14 property theorems. *)
From Coq Require Import NArith List Bool.
From PV Require Import Lib.Bytes Model.Frame Model.Reader Spec.Envelope Spec.C14 Proofs.EnvelopeFacts Proofs.C14Facts.
Import ListNotations.
Open Scope N_scope.

(* documented outcomes only (by construction of the outcome type), progress, bounded wait,
   consumed pieces tile the stream, the iteration ends with the broken-stream signal *)
Theorem C14_noise : C14_statement.
Proof. exact EnvelopeFacts.C14_noise. Qed.
Print Assumptions C14_noise.

Theorem C14_resync_clean : C14_resync_clean_statement.
Proof. exact EnvelopeFacts.C14_resync_clean. Qed.
Print Assumptions C14_resync_clean.

(* resynchronisation after ANY noise, for every frame without an interior start delimiter *)
Theorem C14_resync_interior_free : C14_resync_interior_free_statement.
Proof. exact C14Facts.C14_resync_interior_free. Qed.
Print Assumptions C14_resync_interior_free.
Example C14_resync_interior_free_nonvacuous :
  let f := mkFrame 8 0 69 48 5 [1; 2; 3] in
  wf_frame f = true /\ deliverable f = true /\ no_interior f = true /\
  picked_up ([104; 200; 3; 1; 2] ++ repeat 7 40) f 102 = true.
Proof. vm_compute. repeat split. Qed.

(* the full resynchronisation clause is false of the reader: known finding D16 *)
Definition d16_frame : frame :=
  mkFrame 8 0 69 48 5 ([1; 1; 1; 104; 40; 0; 0; 69; 48; 5] ++ repeat 2 20).
Definition d16_noise : list N := skipn 11 (enc d16_frame).

Theorem C14_resync_refuted : ~ C14_resync_full_statement.
Proof.
  intros H. specialize (H d16_noise d16_frame 30%nat).
  assert (picked_up d16_noise d16_frame 30 = false) as E by (vm_compute; reflexivity).
  rewrite E in H. apply Bool.diff_false_true. apply H; vm_compute; reflexivity.
Qed.
Print Assumptions C14_resync_refuted.

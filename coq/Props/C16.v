(* C16 property theorem: finite domain (4^8 answer patterns x mixers present or not), swept
   completely inside the kernel and lifted by forallb_forall. *)
From Coq Require Import NArith List Bool.
From PV Require Import Generated.Tables Model.Setup Spec.C16 Proofs.C16Facts.
Import ListNotations.

Theorem C16_all_patterns : C16_statement.
Proof. exact C16Facts.C16_all_patterns. Qed.
Print Assumptions C16_all_patterns.

Theorem C16_domain : N.of_nat (length (patterns_for setup_kinds)) = 65536%N /\ length setup_kinds = 8%nat.
Proof. split; [exact C16Facts.patterns_count|reflexivity]. Qed.

Example C16_nonvacuous :
  let ans := ans_of [(57%N, None); (49%N, Some 1%nat); (58%N, Some 2%nat)] in
  r_errors (timeline true ans 3) = [57; 85; 49; 61; 54; 50; 92]%N /\ r_loaded_attempt (timeline true ans 3) = 3%nat.
Proof. vm_compute. split; reflexivity. Qed.

(* CPython float operations needed by the parameter scaling code, on kernel binary64 floats:
   exact decomposition, round(x, p), int(x), int*float products.  No axioms: theorems over
   floats are obtained by complete evaluation over finite domains. *)
From Coq Require Import ZArith Bool PrimFloat Uint63.
Open Scope Z_scope.

Definition fshift : Z := 2101.

(* exact value of a finite float:  x = (if neg then -1 else 1) * m * 2^e *)
Definition decomp (x : float) : bool * Z * Z :=
  let neg := PrimFloat.ltb x zero in
  let a := PrimFloat.abs x in
  let '(f, ex) := frshiftexp a in
  (neg, Uint63.to_Z (normfr_mantissa f), Uint63.to_Z ex - fshift - 53).

(* float(z) for |z| < 2^53 (exact) *)
Definition float_of_Z (z : Z) : float :=
  if z <? 0 then PrimFloat.opp (of_uint63 (Uint63.of_Z (- z))) else of_uint63 (Uint63.of_Z z).

(* m * 2^e for 0 <= m < 2^62 *)
Definition float_of_me (m e : Z) : float := ldshiftexp (of_uint63 (Uint63.of_Z m)) (Uint63.of_Z (e + fshift)).

(* round-half-even of num / den, den > 0, num >= 0 *)
Definition div_half_even (num den : Z) : Z :=
  let q := num / den in
  let r := num mod den in
  if 2 * r <? den then q
  else if den <? 2 * r then q + 1
  else if Z.even q then q else q + 1.

(* Python round(x, p): correctly rounded decimal with p digits (half-even on the exact binary
   value), converted back with a correctly rounded division.  None = outside the range in which
   this model is exact (|x| * 10^p >= 2^53) or x not finite. *)
Definition py_round (x : float) (p : Z) : option float :=
  let '(neg, m, e) := decomp x in
  if m =? 0 then Some x else
  let num := m * 10 ^ p in
  let n := if 0 <=? e then num * 2 ^ e else div_half_even num (2 ^ (- e)) in
  if (n <? 2 ^ 53) && (-1100 <? e) && (e <? 1100) then
    let r := PrimFloat.div (float_of_Z n) (float_of_Z (10 ^ p)) in
    Some (if neg then PrimFloat.opp r else r)
  else None.

(* Python int(x): truncation towards zero *)
Definition py_int (x : float) : Z :=
  let '(neg, m, e) := decomp x in
  let q := if 0 <=? e then m * 2 ^ e else m / 2 ^ (- e) in
  if neg then - q else q.

(* comparisons on exact values, for the correspondence: (neg, m, e) normalised *)
Definition float_key (x : float) : Z * Z * Z :=
  let '(neg, m, e) := decomp x in ((if neg then 1 else 0), m, e).

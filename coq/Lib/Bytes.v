(* Bytes, XOR block check, little-endian integers, list helpers.
   Definitions and their basic lemmas; stdlib only. *)
From Coq Require Import NArith ZArith List Bool Lia Arith ZifyBool ZifyNat ZifyN.
Import ListNotations.
Ltac Zify.zify_post_hook ::= Z.to_euclidean_division_equations.

Open Scope N_scope.

Definition byteb (b : N) : bool := b <? 256.
Definition bytesb (l : list N) : bool := forallb byteb l.
Definition Bytes (l : list N) : Prop := Forall (fun b => b < 256) l.

Lemma bytesb_Bytes l : bytesb l = true <-> Bytes l.
Proof.
  unfold bytesb, Bytes, byteb. rewrite forallb_forall, Forall_forall.
  split; intros H x Hx; specialize (H x Hx); lia.
Qed.

Lemma Bytes_app l1 l2 : Bytes (l1 ++ l2) <-> Bytes l1 /\ Bytes l2.
Proof. unfold Bytes. apply Forall_app. Qed.

(* XOR block check character: functools.reduce(xor, data) for non-empty data *)
Definition bcc (l : list N) : N := fold_left N.lxor l 0.

Lemma lxor_byte a b : a < 256 -> b < 256 -> N.lxor a b < 256.
Proof.
  intros Ha Hb.
  destruct (N.eq_dec (N.lxor a b) 0) as [E|E]; [lia|].
  change 256 with (2 ^ 8). apply N.log2_lt_pow2; [lia|].
  eapply N.le_lt_trans; [apply N.log2_lxor|].
  assert (forall x, x < 256 -> N.log2 x < 8) as L.
  { intros x Hx. destruct (N.eq_dec x 0) as [->|Nz]; [reflexivity|].
    apply N.log2_lt_pow2; [lia|exact Hx]. }
  specialize (L a Ha) as La. specialize (L b Hb) as Lb. lia.
Qed.

Lemma fold_lxor_byte l a : a < 256 -> Bytes l -> fold_left N.lxor l a < 256.
Proof.
  revert a; induction l as [|x l IH]; intros a Ha Hl; cbn [fold_left]; [exact Ha|].
  inversion Hl as [|? ? Hx Hl']; subst. apply IH; [apply lxor_byte; assumption|assumption].
Qed.

Lemma bcc_byte l : Bytes l -> bcc l < 256.
Proof. intros H. apply fold_lxor_byte; [lia|exact H]. Qed.

Lemma fold_lxor_app l1 l2 a :
  fold_left N.lxor (l1 ++ l2) a = fold_left N.lxor l2 (fold_left N.lxor l1 a).
Proof. apply fold_left_app. Qed.

Lemma fold_lxor_acc l a : fold_left N.lxor l a = N.lxor a (fold_left N.lxor l 0).
Proof.
  revert a; induction l as [|x l IH]; intros a; cbn [fold_left].
  - now rewrite N.lxor_0_r.
  - rewrite IH. rewrite (IH (N.lxor 0 x)). rewrite N.lxor_0_l. now rewrite N.lxor_assoc.
Qed.

Lemma bcc_app l1 l2 : bcc (l1 ++ l2) = N.lxor (bcc l1) (bcc l2).
Proof. unfold bcc. rewrite fold_lxor_app. apply fold_lxor_acc. Qed.

Lemma bcc_self l : bcc (l ++ [bcc l]) = 0.
Proof.
  rewrite bcc_app. unfold bcc at 2. cbn [fold_left]. rewrite N.lxor_0_l. apply N.lxor_nilpotent.
Qed.

(* little-endian unsigned integers *)
Fixpoint le_decode (l : list N) : N :=
  match l with [] => 0 | b :: t => b + 256 * le_decode t end.

Fixpoint le_encode (n : nat) (v : N) : list N :=
  match n with O => [] | S k => (v mod 256) :: le_encode k (v / 256) end.

Lemma le_encode_length n v : length (le_encode n v) = n.
Proof. revert v; induction n as [|n IH]; intros v; cbn [le_encode length]; [reflexivity|]. now rewrite IH. Qed.

Lemma le_encode_bytes n v : Bytes (le_encode n v).
Proof.
  revert v; induction n as [|n IH]; intros v; cbn [le_encode]; constructor.
  - apply N.mod_lt. lia.
  - apply IH.
Qed.

Lemma le_decode_encode n v : le_decode (le_encode n v) = v mod 256 ^ N.of_nat n.
Proof.
  revert v; induction n as [|n IH]; intros v; cbn [le_encode le_decode].
  - cbn. now rewrite N.mod_1_r.
  - rewrite IH. rewrite Nat2N.inj_succ, N.pow_succ_r'.
    rewrite N.mod_mul_r by (try apply N.pow_nonzero; lia). reflexivity.
Qed.

Lemma le_decode_encode_small n v : v < 256 ^ N.of_nat n -> le_decode (le_encode n v) = v.
Proof. intros H. rewrite le_decode_encode. now apply N.mod_small. Qed.

Lemma le_decode_bound l : Bytes l -> le_decode l < 256 ^ N.of_nat (length l).
Proof.
  induction l as [|b l IH]; intros H; cbn [le_decode length].
  - cbn. lia.
  - inversion H as [|? ? Hb Hl]; subst. specialize (IH Hl).
    rewrite Nat2N.inj_succ, N.pow_succ_r'. nia.
Qed.

Lemma le_encode_decode l : Bytes l -> le_encode (length l) (le_decode l) = l.
Proof.
  induction l as [|b l IH]; intros H; cbn [le_decode length le_encode]; [reflexivity|].
  inversion H as [|? ? Hb Hl]; subst. f_equal.
  - lia.
  - replace ((b + 256 * le_decode l) / 256) with (le_decode l) by lia. now apply IH.
Qed.

(* two's complement *)
Definition to_signed (bits : N) (v : N) : Z :=
  if v <? 2 ^ (bits - 1) then Z.of_N v else (Z.of_N v - Z.of_N (2 ^ bits))%Z.
Definition of_signed (bits : N) (z : Z) : N :=
  if (z <? 0)%Z then Z.to_N (z + Z.of_N (2 ^ bits)) else Z.to_N z.

Lemma signed_roundtrip bits z : 0 < bits ->
  (- Z.of_N (2 ^ (bits - 1)) <= z < Z.of_N (2 ^ (bits - 1)))%Z ->
  to_signed bits (of_signed bits z) = z.
Proof.
  intros Hb Hz. unfold to_signed, of_signed.
  assert (2 ^ bits = 2 * 2 ^ (bits - 1)) as E.
  { rewrite <- N.pow_succ_r'. f_equal. lia. }
  destruct (z <? 0)%Z eqn:Hneg.
  - destruct (Z.to_N (z + Z.of_N (2 ^ bits)) <? 2 ^ (bits - 1)) eqn:Hlt; lia.
  - destruct (Z.to_N z <? 2 ^ (bits - 1)) eqn:Hlt; lia.
Qed.

Lemma of_signed_range bits z : 0 < bits ->
  (- Z.of_N (2 ^ (bits - 1)) <= z < Z.of_N (2 ^ (bits - 1)))%Z ->
  of_signed bits z < 2 ^ bits.
Proof.
  intros Hb Hz. unfold of_signed.
  assert (2 ^ bits = 2 * 2 ^ (bits - 1)) as E.
  { rewrite <- N.pow_succ_r'. f_equal. lia. }
  destruct (z <? 0)%Z eqn:Hneg; lia.
Qed.

(* list helpers *)
Lemma firstn_app_exact {A} (l1 l2 : list A) n : n = length l1 -> firstn n (l1 ++ l2) = l1.
Proof. intros ->. rewrite firstn_app, Nat.sub_diag, firstn_all. cbn. apply app_nil_r. Qed.

Lemma skipn_app_exact {A} (l1 l2 : list A) n : n = length l1 -> skipn n (l1 ++ l2) = l2.
Proof. intros ->. rewrite skipn_app, Nat.sub_diag, skipn_all. reflexivity. Qed.

Lemma nth_app_exact {A} (l1 l2 : list A) x d n : n = length l1 -> nth n (l1 ++ x :: l2) d = x.
Proof. intros ->. rewrite app_nth2 by lia. now rewrite Nat.sub_diag. Qed.

Fixpoint list_eqb {A} (eqb : A -> A -> bool) (l1 l2 : list A) : bool :=
  match l1, l2 with
  | [], [] => true
  | a :: t1, b :: t2 => eqb a b && list_eqb eqb t1 t2
  | _, _ => false
  end.

Lemma list_eqb_N_eq l1 l2 : list_eqb N.eqb l1 l2 = true <-> l1 = l2.
Proof.
  revert l2; induction l1 as [|a l1 IH]; intros [|b l2]; cbn [list_eqb]; try (split; congruence).
  rewrite andb_true_iff, IH, N.eqb_eq. split; [intros [E1 E2]; subst; reflexivity|intros E; inversion E; auto].
Qed.

Lemma last_last_two {A} (l : list A) (x y d : A) : last (l ++ [x; y]) d = y.
Proof. change [x; y] with ([x] ++ [y]). rewrite app_assoc. apply last_last. Qed.

Lemma Bytes_cons a l : Bytes (a :: l) <-> a < 256 /\ Bytes l.
Proof. unfold Bytes. split; [intros H; inversion H; auto|intros [? ?]; constructor; auto]. Qed.

Lemma nth_app_second {A} (l : list A) x y d n : n = S (length l) -> nth n (l ++ [x; y]) d = y.
Proof. intros ->. rewrite app_nth2 by lia. replace (S (length l) - length l)%nat with 1%nat by lia. reflexivity. Qed.

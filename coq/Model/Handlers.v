(* Model of the device-side parameter handlers (devices/ecomax.py _handle_ecomax_parameters,
   devices/mixer.py, devices/thermostat.py, Parameter.create_or_update) and of the set requests the
   resulting parameter objects build (create_request of each parameter class). *)
From Coq Require Import NArith List Bool Arith String.
From PV Require Import Lib.Bytes Generated.Tables Model.Requests Model.ParamBlocks.
Import ListNotations.
Open Scope N_scope.

Inductive pctx :=
| CEcomax
| CMixer (m : N)
| CThermostat (t : N) (offset : N)
| CControl
| CProfile.

Record param := mkParam { p_index : N; p_ctx : pctx; p_vals : pvals; p_size : N }.

Definition pdata := list (string * param).

Fixpoint pd_find (name : string) (d : pdata) : option param :=
  match d with
  | [] => None
  | (n, p) :: t => if String.eqb n name then Some p else pd_find name t
  end.
Fixpoint pd_set (name : string) (p : param) (d : pdata) : pdata :=
  match d with
  | [] => [(name, p)]
  | (n, q) :: t => if String.eqb n name then (n, p) :: t else (n, q) :: pd_set name p t
  end.

(* Parameter.create_or_update: an existing parameter keeps its index / offset and takes the new values *)
Definition create_or_update (d : pdata) (name : string) (index : N) (c : pctx) (size : N) (v : pvals) : pdata :=
  match pd_find name d with
  | Some p => pd_set name (mkParam (p_index p) (p_ctx p) v (p_size p)) d
  | None => pd_set name (mkParam index c v size) d
  end.

(* for index, values in parameters: look the description up by position; an unknown position ends the loop *)
Fixpoint handle_params (table : list pdesc) (c : pctx) (d : pdata) (params : list (N * pvals)) : pdata :=
  match params with
  | [] => d
  | (index, v) :: rest =>
    match nth_error table (N.to_nat index) with
    | None => d
    | Some desc => handle_params table c (create_or_update d (pd_name desc) index c (pd_size desc) v) rest
    end
  end.

Definition ecomax_table (product : N) : list pdesc := if product =? 0 then ecomax_params_p else ecomax_params_i.
Definition mixer_table (product : N) : list pdesc := if product =? 0 then mixer_params_p else mixer_params_i.

Definition handle_ecomax (product : N) (d : pdata) (params : list (N * pvals)) : pdata :=
  handle_params (ecomax_table product) CEcomax d params.
Definition handle_mixer (product m : N) (d : pdata) (params : list (N * pvals)) : pdata :=
  handle_params (mixer_table product) (CMixer m) d params.
(* thermostat t: offset = index of the thermostat times the number of parameters IN THIS RESPONSE *)
Definition handle_thermostat (t : N) (d : pdata) (params : list (N * pvals)) : pdata :=
  handle_params thermostat_params (CThermostat t (t * N.of_nat (List.length params))) d params.

(* the set request a parameter object builds for raw value v *)
Definition request_of (p : param) (v : N) : req :=
  match p_ctx p with
  | CEcomax => RSetEcomax (p_index p) v
  | CMixer m => RSetMixer m (p_index p) v
  | CThermostat t off => RSetThermostat (p_index p + 1) (Some off) v (p_size p)
  | CControl => REcomaxControl v
  | CProfile => RSetThermostat (p_index p) (Some 0) v 1
  end.

(* Model of the create_message methods of pyplumio/frames/requests.py. *)
From Coq Require Import NArith ZArith List Bool.
From PV Require Import Lib.Bytes Generated.Tables Model.Frame Model.Schedule.
Import ListNotations.
Open Scope N_scope.

Inductive req :=
| RPlain (code : N)                                   (* no payload *)
| RParams (code : N) (count start : N)                (* 49 / 50 / 92: [count; start] *)
| RSetEcomax (index value : N)                        (* 51: [index; value] *)
| RSetMixer (dev index value : N)                     (* 52: [device_index; index; value] *)
| RSetThermostat (index : N) (offset : option N) (value : N) (size : N)  (* 93 *)
| REcomaxControl (value : N)                          (* 59: [value] *)
| RAlerts (start count : N)                           (* 61: [start; count] *)
| RSetSchedule (idx switch param : N) (days : list (list bool)). (* 55 *)

Definition req_code (r : req) : N :=
  match r with
  | RPlain c => c | RParams c _ _ => c | RSetEcomax _ _ => 51 | RSetMixer _ _ _ => 52
  | RSetThermostat _ _ _ _ => 93 | REcomaxControl _ => 59 | RAlerts _ _ => 61 | RSetSchedule _ _ _ _ => 55
  end.

(* bytearray([...]) raises ValueError when an element is not in range(256) *)
Definition bytearray_of (l : list N) : option (list N) := if bytesb l then Some l else None.

(* int.to_bytes(length, "little") raises OverflowError when the value does not fit *)
Definition to_bytes_le (size : N) (v : N) : option (list N) :=
  if v <? 256 ^ size then Some (le_encode (N.to_nat size) v) else None.

Definition payload_of (r : req) : option (list N) :=
  match r with
  | RPlain _ => Some []
  | RParams _ count start => bytearray_of [count; start]
  | RSetEcomax i v => bytearray_of [i; v]
  | RSetMixer d i v => bytearray_of [d; i; v]
  | RSetThermostat i off v size =>
    match bytearray_of [match off with None => i | Some o => i + o end], to_bytes_le size v with
    | Some a, Some b => Some (a ++ b)
    | _, _ => None
    end
  | REcomaxControl v => bytearray_of [v]
  | RAlerts start count => bytearray_of [start; count]
  | RSetSchedule idx sw par days => encode_schedule idx sw par days
  end.

Definition req_frame (r : req) (rcpt sender etype ever : N) : option frame :=
  match payload_of r with
  | None => None
  | Some p => Some (mkFrame (req_code r) rcpt sender etype ever p)
  end.

Definition req_bytes (r : req) (rcpt sender etype ever : N) : option (list N) :=
  match req_frame r rcpt sender etype ever with
  | None => None
  | Some f => frame_bytes f
  end.

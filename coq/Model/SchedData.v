(* Model of EcoMAX._add_schedules (devices/ecomax.py): the schedules dataset after a schedules response.
   merge = true: schedules of earlier responses that the new one does not list are kept (repaired, D21);
   merge = false: the dataset is replaced by the schedules of the latest response (pinned). *)
From Coq Require Import NArith List Bool Arith.
Import ListNotations.
Open Scope N_scope.

Definition week := list (list bool).
Definition has (i : N) (d : list (N * week)) : bool := existsb (fun p => fst p =? i) d.

(* dict union `old | new`: entries of new replace entries of old with the same key *)
Definition add_schedules (merge : bool) (old new : list (N * week)) : list (N * week) :=
  if merge then filter (fun p => negb (has (fst p) new)) old ++ new else new.

Definition dataset (merge : bool) (responses : list (list (N * week))) : list (N * week) :=
  fold_left (add_schedules merge) responses [].


(* Model of the remaining decoders: regulator data schema, regulator data, alerts, product info
   (UID) and password. *)
From Coq Require Import NArith ZArith List Bool Arith.
From PV Require Import Lib.Bytes Generated.Tables Model.Versions Model.DataTypes Model.SensorData.
Import ListNotations.
Open Scope N_scope.

(* RegulatorDataSchemaStructure: u16 count, then (type byte, u16 id) blocks.  None = no schema key / raises *)
Fixpoint dec_schema_blocks (m : list N) (off : nat) (n : nat) : option (list (N * N)) :=
  match n with
  | O => Some []
  | S k =>
    let? t := byte_at m off in
    let? id := uint_at 2 m (off + 1) in
    if 17 <=? t then None                      (* DATA_TYPES[param_type] raises IndexError *)
    else let? rest := dec_schema_blocks m (off + 3) k in Some ((id, t) :: rest)
  end.
Definition decode_schema (m : list N) : option (option (list (N * N))) :=
  let? n := uint_at 2 m 0 in
  if n =? 0 then Some None
  else let? l := dec_schema_blocks m 2 (N.to_nat n) in Some (Some l).

(* RegulatorDataStructure._unpack_regulator_data over a schema *)
Fixpoint dec_regdata (m : list N) (off : nat) (bit : N) (schema : list (N * N)) : option (list (N * dval)) :=
  match schema with
  | [] => Some []
  | (id, t) :: r =>
    let? ty := nth_error data_types (N.to_nat t) in
    let is_bit := match ty with DTBit => true | _ => false end in
    let off1 := if negb is_bit && (0 <? bit) then S off else off in
    let bit1 := if negb is_bit && (0 <? bit) then 0 else bit in
    let? (v, size) := unpack ty bit1 (skipn off1 m) in
    let bit2 := if is_bit then bit_next bit1 else bit1 in
    let? rest := dec_regdata m (off1 + size) bit2 r in
    Some ((id, v) :: rest)
  end.

(* RegulatorDataStructure.decode: version word must be 1.0; frame versions; data only with a schema *)
Definition decode_regdata (schema : option (list (N * N))) (m : list N)
  : option (option (list (N * N) * option (list (N * dval)))) :=
  let? lo := byte_at m 2 in
  let? hi := byte_at m 3 in
  if negb ((hi =? 1) && (lo =? 0)) then Some None
  else
    let? (versions, off) := dec_frame_versions m 4 in
    match schema with
    | Some (s :: ss) => let? d := dec_regdata m off 0 (s :: ss) in Some (Some (versions, Some d))
    | _ => Some (Some (versions, None))
    end.

(* alerts: timestamps in the controller's 31-day-month calendar *)
Definition datetime_of (ts : N) : N * N * N * N * N * N :=
  let y := ts / 32140800 in let r1 := ts - y * 32140800 in
  let mo := r1 / 2678400 in let r2 := r1 - mo * 2678400 in
  let d := r2 / 86400 in let r3 := r2 - d * 86400 in
  let h := r3 / 3600 in let r4 := r3 - h * 3600 in
  let mi := r4 / 60 in
  (y + 2000, mo + 1, d + 1, h, mi, r4 - mi * 60).

Definition leap (y : N) : bool := ((y mod 4 =? 0) && negb (y mod 100 =? 0)) || (y mod 400 =? 0).
Definition days_in (y mo : N) : N :=
  match mo with 2 => if leap y then 29 else 28 | 4 => 30 | 6 => 30 | 9 => 30 | 11 => 30 | _ => 31 end.
Definition valid_datetime (dt : N * N * N * N * N * N) : bool :=
  let '(y, mo, d, _, _, _) := dt in (y <=? 9999) && (1 <=? mo) && (mo <=? 12) && (1 <=? d) && (d <=? days_in y mo).

Record alert := mkAlert { a_code : N; a_from : N * N * N * N * N * N; a_to : option (N * N * N * N * N * N) }.

Fixpoint dec_alerts (m : list N) (off : nat) (n : nat) : option (list alert) :=
  match n with
  | O => Some []
  | S k =>
    let? code := byte_at m off in
    let? f := uint_at 4 m (off + 1) in
    let? t := uint_at 4 m (off + 5) in
    let fd := datetime_of f in
    let td := if t =? 4294967295 then None else Some (datetime_of t) in
    if valid_datetime fd && match td with Some x => valid_datetime x | None => true end
    then let? rest := dec_alerts m (off + 9) k in Some (mkAlert code fd td :: rest)
    else None                                   (* datetime(...) raises ValueError *)
  end.
Definition decode_alerts (m : list N) : option (N * option (list alert)) :=
  let? total := byte_at m 0 in
  let? _ := byte_at m 1 in
  let? count := byte_at m 2 in
  if count =? 0 then Some (total, None)
  else let? l := dec_alerts m 3 (N.to_nat count) in Some (total, Some l).

(* product info / UID *)
Fixpoint crc16_bits (fuel : nat) (crc : N) : N :=
  match fuel with
  | O => crc
  | S k => crc16_bits k (if N.testbit crc 0 then N.lxor (crc / 2) 40961 else crc / 2)
  end.
Definition crc16 (buffer : list N) : N := fold_left (fun crc b => crc16_bits 8 (N.lxor crc b)) buffer 41891.

Fixpoint base5_digits (fuel : nat) (n : N) (acc : list N) : list N :=
  match fuel with
  | O => acc
  | S k => if n =? 0 then acc else base5_digits k (n / 32) ((n mod 32) :: acc)
  end.
(* the UID string as indexes into "0123456789ABCDEFGHIJKLMNZPQRSTUV" *)
Definition decode_uid (buffer : list N) : list N :=
  let c := crc16 buffer in
  let all := buffer ++ [c mod 256; c / 256] in
  base5_digits (2 * length all + 2) (le_decode all) [].

Record product := mkProduct { pr_type : N; pr_id : N; pr_uid : list N; pr_logo : N; pr_image : N; pr_model : list N }.
Definition decode_product (m : list N) : option product :=
  let? ty := byte_at m 0 in
  let? id := uint_at 2 m 1 in
  let? (uid, usz) := unpack_var (skipn 3 m) in
  let? logo := uint_at 2 m (3 + usz) in
  let? image := uint_at 2 m (5 + usz) in
  let? (model, _) := unpack_var (skipn (7 + usz) m) in
  if ty <=? 1 then Some (mkProduct ty id (decode_uid uid) logo image model) else None.

(* password: message[1:] as text, None if empty *)
Definition decode_password (m : list N) : option (list N) := match skipn 1 m with [] => None | l => Some l end.

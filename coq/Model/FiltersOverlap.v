(* Overlapping calls of one filter object: the wrapped callback is slow, and further calls of the filter are made while it is
   still running (EventManager.dispatch_nowait starts every dispatch of an event in a task of its own).  A call runs up to the
   point where it awaits the callback; the callback's return is an event of its own.
   Every filter except aggregate records its state before awaiting the callback: for them (and for aggregate as repaired) a call
   is one atomic step, whatever returns later.  late = true is aggregate as it was (D24): the sum is reset, and the period
   restarted at the call's time, only when the callback has returned. *)
From Coq Require Import ZArith NArith List Bool.
From PV Require Import Model.Filters.
Import ListNotations.
Open Scope Z_scope.

Inductive oev :=
| OCall (t : Z) (x : fval)      (* a call of the filter at time t (runs until it awaits the callback, or returns) *)
| ODone.                        (* the oldest callback still running returns *)

Record ostate := mkO { o_f : fstate; o_running : list Z }.    (* call times of the deliveries whose callback has not returned yet *)

Definition ostep (late : bool) (k : fkind) (s : ostate) (e : oev) : ostate * option fval :=
  match e with
  | OCall t x =>
    match k, late, x with
    | KAggregate sec, true, FNum z =>
      let sum := f_sum (o_f s) + z in
      let f1 := mkF (f_value (o_f s)) (f_calls (o_f s)) (f_last (o_f s)) sum in
      if (match f_last (o_f s) with None => true | Some l => sec <=? t - l end)
      then (mkO f1 (o_running s ++ [t]), Some (FNum sum))       (* delivered; nothing reset yet *)
      else (mkO f1 (o_running s), None)
    | _, _, _ =>
      let '(f1, o) := fstep k (o_f s) t x in
      (mkO f1 (match o with Some _ => o_running s ++ [t] | None => o_running s end), o)
    end
  | ODone =>
    match o_running s with
    | [] => (s, None)
    | t :: rest =>
      match k, late with
      | KAggregate _, true =>
        (mkO (mkF (f_value (o_f s)) (f_calls (o_f s)) (Some t) 0) rest, None)     (* _last_update = that call's time; _sum = 0 *)
      | _, _ => (mkO (o_f s) rest, None)
      end
    end
  end.

Fixpoint orun (late : bool) (k : fkind) (s : ostate) (evs : list oev) : list (option fval) * ostate :=
  match evs with
  | [] => ([], s)
  | e :: rest =>
    let '(s1, o) := ostep late k s e in
    let '(os, s2) := orun late k s1 rest in
    (match e with OCall _ _ => o :: os | ODone => os end, s2)
  end.

Definition calls_of (evs : list oev) : list (Z * fval) :=
  flat_map (fun e => match e with OCall t x => [(t, x)] | ODone => [] end) evs.

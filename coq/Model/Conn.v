(* Model of connection loss / reconnect (protocol.py connection_established / connection_lost /
   frame_producer, connection.py _reconnect): what one loss/reconnect cycle does, as a function of
   the devices known at that time and of the number of failing open attempts.
   `reuse` = consumers of the previous connection are reused (the tree as repaired); reuse = false
   is the pinned behaviour (a new set of consumers per establishment), kept for the refutation. *)
From Coq Require Import NArith List Bool Arith.
From PV Require Import Generated.Tables.
Import ListNotations.

Record cycle_in := mkCin {
  ci_devices : nat;     (* device objects known when the connection is lost *)
  ci_fails : nat        (* open attempts that fail before one succeeds *)
}.

Record cycle_out := mkCout {
  co_down : list nat;           (* devices told connected=False, in order *)
  co_closes : nat;              (* transport close calls *)
  co_opens : list (N * bool);   (* open attempts: (seconds since the previous attempt of this chain, success) *)
  co_startmaster : nat;         (* start-master requests sent on the new transport *)
  co_up : list nat;             (* devices told connected=True *)
  co_producers : nat;           (* live producer tasks after re-establishment *)
  co_consumers : nat            (* live consumer tasks after re-establishment *)
}.

Fixpoint opens (fails : nat) (first : bool) : list (N * bool) :=
  match fails with
  | O => [((if first then 0 else reconnect_timeout)%N, true)]
  | S k => ((if first then 0 else reconnect_timeout)%N, false) :: opens k false
  end.

Definition do_cycle (reuse : bool) (consumers_before : nat) (c : cycle_in) : cycle_out :=
  mkCout (seq 0 (ci_devices c)) 1 (opens (ci_fails c) true) 1 (seq 0 (ci_devices c)) 1
         (if reuse then Nat.max consumers_before (N.to_nat consumers_count)
          else consumers_before + N.to_nat consumers_count).

Fixpoint run_cycles (reuse : bool) (consumers_before : nat) (cs : list cycle_in) : list cycle_out :=
  match cs with
  | [] => []
  | c :: t => let o := do_cycle reuse consumers_before c in o :: run_cycles reuse (co_consumers o) t
  end.

(* the first establishment starts `consumers_count` consumers *)
Definition run_conn (reuse : bool) (cs : list cycle_in) : list cycle_out :=
  run_cycles reuse (N.to_nat consumers_count) cs.

(* Finer model of one transmission step of Parameter.set: building the request suspends (the class loading behind
   Request.create runs in the thread pool), and controller reports can be handled in that gap -- after the requested
   value has been re-asserted locally, before the request reaches the queue.
   early = the value the request carries is read BEFORE the suspension (the code as it is: the arguments of Request.create
   are evaluated first); early = false reads it afterwards, from the locally held value (kept for the refutation). *)
From Coq Require Import ZArith List Bool.
From PV Require Import Model.ParamSet.
Import ListNotations.
Open Scope Z_scope.

(* Parameter.update *)
Definition upd (s : pst) (t : triple) : pst :=
  mkPst t (prev s) (pending s && (prev s =? tv t)) (left s) (reqv s) (sets s) (ph s).

(* a timer expiry (or the call itself) whose transmission step, if there is one, is interleaved with the reports `during` *)
Inductive phev := HTick (during : list triple) | HReport (t : triple).

Definition attempt_hop (early : bool) (tracking : nat -> bool) (s : pst) (during : list triple) : pst * list pout :=
  if negb (pending s) then
    (fold_left upd during (mkPst (vals s) (prev s) (pending s) (left s) (reqv s) (sets s) PDone), [ORet true])
  else
    match left s with
    | O => (fold_left upd during (mkPst (vals s) (prev s) (pending s) O (reqv s) (sets s) PDone), [ORet false])
    | S k =>
      let s1 := mkPst (with_value (vals s) (reqv s)) (prev s) (pending s) k (reqv s) (S (sets s)) PSleeping in
      let s2 := fold_left upd during s1 in
      (s2, OSet (if early then reqv s else tv (vals s2)) :: (if tracking (sets s) then [] else [ORefresh]))
    end.

Definition start_hop (early : bool) (tracking : nat -> bool) (t : triple) (req : Z) (retries : nat) (during : list triple)
  : pst * list pout :=
  if (req <? tlo t) || (thi t <? req) then
    (fold_left upd during (mkPst t 0 false retries req 0 PDone), [ORaise])
  else if req =? tv t then
    (fold_left upd during (mkPst t 0 false retries req 0 PDone), [ORet true])
  else
    attempt_hop early tracking (mkPst (with_value t req) (tv t) true retries req 0 PSleeping) during.

Definition blanks (during : list triple) : list (list pout) := map (fun _ => []) during.

(* outputs per point: one per timer expiry, then one (empty) per report handled inside that step, one per ordinary report *)
Fixpoint run_hop (early : bool) (tracking : nat -> bool) (s : pst) (evs : list phev) : list (list pout) * pst :=
  match evs with
  | [] => ([], s)
  | HReport t :: rest =>
    let '(os, s2) := run_hop early tracking (upd s t) rest in ([] :: os, s2)
  | HTick during :: rest =>
    let '(s1, o) := match ph s with
                    | PSleeping => attempt_hop early tracking s during
                    | PDone => (fold_left upd during s, [])
                    end in
    let '(os, s2) := run_hop early tracking s1 rest in (o :: blanks during ++ os, s2)
  end.

Definition run_set_hop (early : bool) (tracking : nat -> bool) (t : triple) (req : Z) (retries : nat)
                       (during0 : list triple) (evs : list phev) : list (list pout) * pst :=
  let '(s0, o0) := start_hop early tracking t req retries during0 in
  let '(os, s) := run_hop early tracking s0 evs in (o0 :: blanks during0 ++ os, s).

(* the same history for the coarse model: a report handled inside a transmission step is a report right after it *)
Definition flatten (evs : list phev) : list pev :=
  flat_map (fun e => match e with HTick during => Tick :: map Report during | HReport t => [Report t] end) evs.

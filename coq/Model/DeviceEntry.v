(* Model of AsyncProtocol.get_device_entry (protocol.py): consumers that receive frames from an
   address without a device entry.  Creating the entry awaits the (thread-pool) class loading; the
   completion of that job is an event, so its timing relative to further arrivals and to user
   get() calls is an input.  `locked` = creation is serialised by a lock (the tree as repaired);
   locked = false is the pinned behaviour, kept for the refutation. *)
From Coq Require Import NArith List Bool Arith.
Import ListNotations.

Inductive dev_ev :=
| Arrive (tag : nat)        (* a consumer takes a frame from the new address *)
| CreateDone (i : nat)      (* the i-th pending class-loading job completes *)
| UserGet (g : nat).        (* a user awaits get('ecomax') *)

Record dst := mkD {
  published : option nat;          (* the device object under the name *)
  next_obj : nat;                  (* objects created so far *)
  setups : nat;                    (* device set-up tasks started *)
  creating : list nat;             (* frames whose consumer is awaiting class loading (holds the lock when locked) *)
  waitq : list nat;                (* frames whose consumer waits for the lock *)
  handled : list (nat * nat);      (* (frame tag, object that handled it) *)
  got : list (nat * nat);          (* (getter, object returned) *)
  get_waiting : list nat
}.

Definition dinit : dst := mkD None 0 0 [] [] [] [] [].

Fixpoint remove_nth {A} (i : nat) (l : list A) : list A :=
  match l, i with
  | [], _ => []
  | _ :: t, O => t
  | a :: t, S k => a :: remove_nth k t
  end.

Definition dstep (locked : bool) (s : dst) (e : dev_ev) : dst :=
  match e with
  | Arrive tag =>
    match published s with
    | Some o =>
      if locked && negb (match creating s with [] => true | _ => false end)
      then mkD (published s) (next_obj s) (setups s) (creating s) (waitq s ++ [tag]) (handled s) (got s) (get_waiting s)
      else mkD (published s) (next_obj s) (setups s) (creating s) (waitq s) (handled s ++ [(tag, o)]) (got s) (get_waiting s)
    | None =>
      if locked && negb (match creating s with [] => true | _ => false end)
      then mkD None (next_obj s) (setups s) (creating s) (waitq s ++ [tag]) (handled s) (got s) (get_waiting s)
      else mkD None (next_obj s) (setups s) (creating s ++ [tag]) (waitq s) (handled s) (got s) (get_waiting s)
    end
  | CreateDone i =>
    match nth_error (creating s) i with
    | None => s
    | Some tag =>
      let o := next_obj s in
      (* instantiate, start set-up, publish, handle the frame; then the lock waiters run: they find the entry *)
      mkD (Some o) (S o) (S (setups s)) (remove_nth i (creating s)) []
          (handled s ++ [(tag, o)] ++ map (fun t => (t, o)) (waitq s))
          (got s ++ map (fun g => (g, o)) (get_waiting s)) []
    end
  | UserGet g =>
    match published s with
    | Some o => mkD (published s) (next_obj s) (setups s) (creating s) (waitq s) (handled s) (got s ++ [(g, o)]) (get_waiting s)
    | None => mkD None (next_obj s) (setups s) (creating s) (waitq s) (handled s) (got s) (get_waiting s ++ [g])
    end
  end.

Definition drun (locked : bool) (evs : list dev_ev) : dst := fold_left (dstep locked) evs dinit.

(* Model of pyplumio/helpers/data_types.py: pack / unpack / size of the primitive wire types.
   Floats are their IEEE bit patterns; IP addresses and strings are their raw bytes (text<->bytes
   conversion is CPython's codec / socket module). *)
From Coq Require Import NArith ZArith List Bool.
From PV Require Import Lib.Bytes Generated.Tables.
Import ListNotations.
Open Scope N_scope.

Inductive dval :=
| DNone                      (* Undefined *)
| DInt (z : Z)               (* all integer types *)
| DBits (n : N)              (* float / double: the bit pattern *)
| DRaw (b : list N)          (* IPv4 / IPv6 / String / VarString / VarBytes: the raw bytes *)
| DBool (b : bool).          (* BitArray *)

Definition width (t : dtype) : nat :=
  match t with
  | DTSInt n | DTUInt n => N.to_nat n
  | DTFloat => 4 | DTDouble => 8 | DTIPv4 => 4 | DTIPv6 => 16
  | _ => 0
  end%nat.

(* struct.unpack_from / data[: size]: the buffer must hold at least `n` bytes *)
Definition take (n : nat) (data : list N) : option (list N) :=
  if Nat.ltb (length data) n then None else Some (firstn n data).

Fixpoint until_nul (data : list N) : list N :=
  match data with
  | [] => []
  | b :: t => if b =? 0 then [] else b :: until_nul t
  end.

(* unpack: from_bytes(data).value and .size; bit = current BitArray index *)
Definition unpack (t : dtype) (bit : N) (data : list N) : option (dval * nat) :=
  match t with
  | DTUndefined => Some (DNone, 0%nat)
  | DTUInt n => match take (N.to_nat n) data with
                | Some b => Some (DInt (Z.of_N (le_decode b)), N.to_nat n) | None => None end
  | DTSInt n => match take (N.to_nat n) data with
                | Some b => Some (DInt (to_signed (8 * n) (le_decode b)), N.to_nat n) | None => None end
  | DTFloat => match take 4 data with Some b => Some (DBits (le_decode b), 4%nat) | None => None end
  | DTDouble => match take 8 data with Some b => Some (DBits (le_decode b), 8%nat) | None => None end
  | DTIPv4 => match take 4 data with Some b => Some (DRaw b, 4%nat) | None => None end
  | DTIPv6 => match take 16 data with Some b => Some (DRaw b, 16%nat) | None => None end
  | DTString => let v := until_nul data in Some (DRaw v, S (length v))
  | DTBit => match data with
             | [] => None
             | b :: _ => Some (DBool (N.testbit b bit), if bit =? 7 then 1%nat else 0%nat)
             end
  end.

(* BitArray.next(index) *)
Definition bit_next (bit : N) : N := if bit =? 7 then 0 else bit + 1.

(* pack: to_bytes(); None = struct.error / OverflowError *)
Definition pack (t : dtype) (v : dval) : option (list N) :=
  match t, v with
  | DTUndefined, _ => Some []
  | DTUInt n, DInt z => if (0 <=? z)%Z && (Z.to_N z <? 256 ^ n) then Some (le_encode (N.to_nat n) (Z.to_N z)) else None
  | DTSInt n, DInt z =>
      if (- Z.of_N (2 ^ (8 * n - 1)) <=? z)%Z && (z <? Z.of_N (2 ^ (8 * n - 1)))%Z
      then Some (le_encode (N.to_nat n) (of_signed (8 * n) z)) else None
  | DTFloat, DBits b => if b <? 2 ^ 32 then Some (le_encode 4 b) else None
  | DTDouble, DBits b => if b <? 2 ^ 64 then Some (le_encode 8 b) else None
  | DTIPv4, DRaw b => if Nat.eqb (length b) 4 && bytesb b then Some b else None
  | DTIPv6, DRaw b => if Nat.eqb (length b) 16 && bytesb b then Some b else None
  | DTString, DRaw b => if bytesb b then Some (b ++ [0]) else None
  | DTBit, DInt z => if (0 <=? z)%Z && (z <? 256)%Z then Some [Z.to_N z] else None   (* UnsignedChar(self._value): the byte of eight flags *)
  | _, _ => None
  end.

(* size reported by an object constructed from a value (before any unpack) *)
Definition size_of (t : dtype) (v : dval) : nat :=
  match t, v with
  | DTString, DRaw b => S (length b)
  | _, _ => width t
  end.

(* length-prefixed types (not in the regulator-data table): VarBytes / VarString *)
Definition unpack_var (data : list N) : option (list N * nat) :=
  match data with
  | [] => None                                            (* data[0] raises IndexError *)
  | n :: t => Some (firstn (N.to_nat n) t, S (N.to_nat n))  (* data[1 : size] *)
  end.
Definition pack_var (b : list N) : option (list N) :=
  if Nat.leb (length b) 255 && bytesb b then Some (N.of_nat (length b) :: b) else None.
Definition size_var (b : list N) : nat := S (length b).

(* Model of helpers/event_manager.py (subscribe / subscribe_once / unsubscribe / dispatch /
   get with timeout) as a step machine whose operations are exactly what a test harness can do
   from outside.  A dispatch coroutine is modelled through its suspension points: it runs until a
   callback suspends; `Resume tid` completes one suspension of task `tid`.  After every operation
   everything runnable has run (the harness lets the loop settle). *)
From Coq Require Import ZArith NArith List Bool Arith.
Import ListNotations.

Inductive sub := Plain (c : nat) | Once (c : nat) (w : nat).   (* c = callback script, w = wrapper identity *)

Definition sub_eqb (a b : sub) : bool :=
  match a, b with
  | Plain c, Plain d => Nat.eqb c d
  | Once c w, Once d v => Nat.eqb c d && Nat.eqb w v
  | _, _ => false
  end.
Definition sub_cb (s : sub) : nat := match s with Plain c => c | Once c _ => c end.

(* a callback script: number of suspensions, and the result: None keeps the value, Some d returns value + d *)
Definition script := nat -> nat * option Z.

Inductive lev :=
| LSpawn (tid name : nat) (x : Z) (snapshot : list sub)
| LCalled (tid : nat) (s : sub) (x : Z)
| LStored (tid name : nat) (x : Z)
| LGot (w name : nat) (x : Z)     (* a getter for `name` returned x *)
| LTimeout (w name : nat)
| LUnsub (name : nat) (s : sub) (found : bool)
| LSub (name : nat) (s : sub)
| LWait (w name : nat).            (* a getter found no value and waits *)

Record dtask := mkTask {
  t_id : nat; t_name : nat; t_cur : Z; t_todo : list sub;
  t_wait : option (nat * sub);   (* remaining suspensions of the callback being awaited *)
  t_done : bool
}.

Record waiter := mkWaiter { w_id : nat; w_name : nat; w_deadline : option Z }.

Record est := mkEst {
  subs : list (nat * list sub);
  data : list (nat * Z);
  tasks : list dtask;
  waiters : list waiter;
  now : Z;
  next_id : nat;          (* fresh ids for tasks, wrappers and waiters *)
  log : list lev          (* newest first *)
}.

Definition einit : est := mkEst [] [] [] [] 0%Z 0 [].

Fixpoint get_subs (n : nat) (l : list (nat * list sub)) : list sub :=
  match l with [] => [] | (k, v) :: t => if Nat.eqb k n then v else get_subs n t end.
Fixpoint set_subs (n : nat) (v : list sub) (l : list (nat * list sub)) : list (nat * list sub) :=
  match l with
  | [] => [(n, v)]
  | (k, u) :: t => if Nat.eqb k n then (k, v) :: t else (k, u) :: set_subs n v t
  end.
Fixpoint get_data (n : nat) (l : list (nat * Z)) : option Z :=
  match l with [] => None | (k, v) :: t => if Nat.eqb k n then Some v else get_data n t end.
Fixpoint set_data (n : nat) (v : Z) (l : list (nat * Z)) : list (nat * Z) :=
  match l with
  | [] => [(n, v)]
  | (k, u) :: t => if Nat.eqb k n then (k, v) :: t else (k, u) :: set_data n v t
  end.
Fixpoint remove_first (s : sub) (l : list sub) : list sub :=
  match l with [] => [] | a :: t => if sub_eqb a s then t else a :: remove_first s t end.
Definition mem_sub (s : sub) (l : list sub) : bool := existsb (sub_eqb s) l.

Definition apply_result (r : option Z) (x : Z) : Z := match r with None => x | Some d => (x + d)%Z end.

(* run a dispatch task until it suspends or finishes; recursion on the snapshot still to do *)
Fixpoint run_task (sc : script) (todo : list sub) (tid name : nat) (cur : Z) (st : est) : est * dtask :=
  match todo with
  | [] =>
    (* self.data[name] = value; set_event: every waiter of this name returns the value *)
    let woken := filter (fun w => Nat.eqb (w_name w) name) (waiters st) in
    let rest := filter (fun w => negb (Nat.eqb (w_name w) name)) (waiters st) in
    (mkEst (subs st) (set_data name cur (data st)) (tasks st) rest (now st) (next_id st)
           (rev (map (fun w => LGot (w_id w) name cur) woken) ++ LStored tid name cur :: log st),
     mkTask tid name cur [] None true)
  | s :: rest =>
    let proceed :=
      match s with
      | Plain _ => Some st
      | Once _ _ =>
        (* the wrapper awaits the callback only if its own unsubscribe succeeds *)
        if mem_sub s (get_subs name (subs st))
        then Some (mkEst (set_subs name (remove_first s (get_subs name (subs st))) (subs st)) (data st) (tasks st)
                         (waiters st) (now st) (next_id st) (log st))
        else None
      end in
    match proceed with
    | None => run_task sc rest tid name cur st
    | Some st1 =>
      let st2 := mkEst (subs st1) (data st1) (tasks st1) (waiters st1) (now st1) (next_id st1)
                       (LCalled tid s cur :: log st1) in
      let '(k, r) := sc (sub_cb s) in
      match k with
      | O => run_task sc rest tid name (apply_result r cur) st2
      | S _ => (st2, mkTask tid name cur rest (Some (k, s)) false)
      end
    end
  end.

Definition put_task (t : dtask) (l : list dtask) : list dtask :=
  t :: filter (fun u => negb (Nat.eqb (t_id u) (t_id t))) l.
Definition find_task (tid : nat) (l : list dtask) : option dtask := find (fun u => Nat.eqb (t_id u) tid) l.

Inductive eop :=
| Subscribe (n c : nat)
| SubscribeOnce (n c : nat)
| Unsubscribe (n : nat) (s : sub)
| Spawn (n : nat) (x : Z)
| Resume (tid : nat)
| Get (n : nat) (timeout : option Z)
| Advance (dt : Z).

Definition with_tasks (st : est) (ts : list dtask) : est :=
  mkEst (subs st) (data st) ts (waiters st) (now st) (next_id st) (log st).

Definition estep (sc : script) (st : est) (op : eop) : est :=
  match op with
  | Subscribe n c =>
    mkEst (set_subs n (get_subs n (subs st) ++ [Plain c]) (subs st)) (data st) (tasks st) (waiters st) (now st)
          (next_id st) (LSub n (Plain c) :: log st)
  | SubscribeOnce n c =>
    let s := Once c (next_id st) in
    mkEst (set_subs n (get_subs n (subs st) ++ [s]) (subs st)) (data st) (tasks st) (waiters st) (now st)
          (S (next_id st)) (LSub n s :: log st)
  | Unsubscribe n s =>
    let found := mem_sub s (get_subs n (subs st)) in
    mkEst (if found then set_subs n (remove_first s (get_subs n (subs st))) (subs st) else subs st)
          (data st) (tasks st) (waiters st) (now st) (next_id st) (LUnsub n s found :: log st)
  | Spawn n x =>
    let tid := next_id st in
    let snap := get_subs n (subs st) in
    let st1 := mkEst (subs st) (data st) (tasks st) (waiters st) (now st) (S tid) (LSpawn tid n x snap :: log st) in
    let '(st2, t) := run_task sc snap tid n x st1 in
    with_tasks st2 (put_task t (tasks st2))
  | Resume tid =>
    match find_task tid (tasks st) with
    | Some t =>
      match t_wait t with
      | Some (S (S k), s) => with_tasks st (put_task (mkTask tid (t_name t) (t_cur t) (t_todo t) (Some (S k, s)) false) (tasks st))
      | Some (_, s) =>
        let '(_, r) := sc (sub_cb s) in
        let '(st2, t') := run_task sc (t_todo t) tid (t_name t) (apply_result r (t_cur t)) st in
        with_tasks st2 (put_task t' (tasks st2))
      | None => st
      end
    | None => st
    end
  | Get n timeout =>
    let w := next_id st in
    match get_data n (data st) with
    | Some x => mkEst (subs st) (data st) (tasks st) (waiters st) (now st) (S w) (LGot w n x :: log st)
    | None =>
      mkEst (subs st) (data st) (tasks st)
            (waiters st ++ [mkWaiter w n (match timeout with Some d => Some (now st + d)%Z | None => None end)])
            (now st) (S w) (LWait w n :: log st)
    end
  | Advance dt =>
    let t' := (now st + Z.max 0 dt)%Z in
    let expired := filter (fun w => match w_deadline w with Some d => (d <=? t')%Z | None => false end) (waiters st) in
    let rest := filter (fun w => match w_deadline w with Some d => negb (d <=? t')%Z | None => true end) (waiters st) in
    mkEst (subs st) (data st) (tasks st) rest t' (next_id st) (rev (map (fun w => LTimeout (w_id w) (w_name w)) expired) ++ log st)
  end.

Definition erun (sc : script) (ops : list eop) : est := fold_left (estep sc) ops einit.

(* Model of pyplumio/stream.py FrameReader.read() over a byte stream that ends (EOF after
   the last byte).  One call = read_one; read_all iterates until "Serial connection broken".
   Gate order follows the tree: header, length bounds, body, recipient, sender, checksum, kind. *)
From Coq Require Import NArith List Bool.
From PV Require Import Lib.Bytes Generated.Tables Model.Frame.
Import ListNotations.
Open Scope N_scope.

Inductive outcome :=
| Delivered (f : frame)
| Ignored                (* read() returned None *)
| ErrRead                (* ReadError *)
| ErrChecksum            (* ChecksumError *)
| ErrUnknownDevice       (* UnknownDeviceError *)
| ErrUnknownFrame        (* UnknownFrameError *)
| Broken.                (* OSError("Serial connection broken") *)

(* _read_header loop: read(1) until the byte is FRAME_START; None = stream ended *)
Fixpoint scan (s : list N) : option (list N) :=
  match s with
  | [] => None
  | b :: t => if b =? frame_start then Some t else scan t
  end.

Definition hdr_len (h : list N) : N := le_decode (firstn 2 h).

Definition read_one (s : list N) : outcome * list N :=
  match scan s with
  | None => (Broken, [])
  | Some t =>
    if (N.of_nat (length t) <? header_size - 1) then (ErrRead, [])  (* readexactly: IncompleteReadError, buffer cleared *)
    else
      let h := firstn 6 t in
      let t1 := skipn 6 t in
      let len := hdr_len h in
      let rcpt := nth 2 h 0 in
      let sender := nth 3 h 0 in
      let etype := nth 4 h 0 in
      let ever := nth 5 h 0 in
      if (max_frame_length <? len) || (len <? min_frame_length) then (ErrRead, t1)
      else
        let n := N.to_nat (len - header_size) in
        if Nat.ltb (length t1) n then (ErrRead, [])
        else
          let body := firstn n t1 in
          let rest := skipn n t1 in
          let buf := frame_start :: h ++ body in
          if negb (for_us rcpt) then (Ignored, rest)
          else if negb (known_device sender) then (ErrUnknownDevice, rest)
          else
            let blen := length buf in
            if negb (bcc (firstn (blen - 2) buf) =? nth (blen - 2) buf 0) then (ErrChecksum, rest)
            else
              let kind := nth 0 body 0 in
              if negb (known_kind kind) then (ErrUnknownFrame, rest)
              else (Delivered (mkFrame kind rcpt sender etype ever
                                (firstn (n - 3) (skipn 1 body))), rest)
  end.

(* bytes consumed by the call = prefix of s of length |s| - |rest| *)
Definition consumed (s rest : list N) : list N := firstn (length s - length rest) s.

(* iterate read() until Broken; fuel = length s + 1 always suffices (progress lemma) *)
Fixpoint read_all_fuel (fuel : nat) (s : list N) : list (list N * outcome) :=
  match fuel with
  | O => []
  | S k =>
    let '(o, rest) := read_one s in
    match o with
    | Broken => [(s, Broken)]
    | _ => (consumed s rest, o) :: read_all_fuel k rest
    end
  end.

Definition read_all (s : list N) : list (list N * outcome) := read_all_fuel (S (length s)) s.

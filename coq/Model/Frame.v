(* Model of pyplumio/frames/__init__.py (Frame.bytes, header, length, bcc, __eq__) and of
   the address / kind look-ups.  Executable definitions only. *)
From Coq Require Import NArith List Bool.
From PV Require Import Lib.Bytes Generated.Tables.
Import ListNotations.
Open Scope N_scope.

Record frame := mkFrame {
  f_kind : N;        (* frame type code = the class *)
  f_rcpt : N;
  f_sender : N;
  f_etype : N;
  f_ever : N;
  f_payload : list N (* the message *)
}.

Definition memN (x : N) (l : list N) : bool := existsb (N.eqb x) l.

Definition known_kind (k : N) : bool := memN k (map fst frame_types).
Definition known_device (a : N) : bool := memN a device_types.
Definition for_us (r : N) : bool := (r =? addr_econet) || (r =? addr_all).

(* Frame.length *)
Definition frame_length (f : frame) : N :=
  header_size + 1 + N.of_nat (length (f_payload f)) + 1 + 1.

(* struct.pack "<BH4B": every B field must be < 256 and the H field < 65536, else struct.error *)
Definition pack_header (len rcpt sender etype ever : N) : option (list N) :=
  if (len <? 65536) && byteb rcpt && byteb sender && byteb etype && byteb ever
  then Some ([frame_start] ++ le_encode 2 len ++ [rcpt; sender; etype; ever])
  else None.

(* Frame.bytes: header; append frame_type; += message; append bcc; append FRAME_END.
   bytearray.append / bytes() raise on a value >= 256. *)
Definition frame_bytes (f : frame) : option (list N) :=
  match pack_header (frame_length f) (f_rcpt f) (f_sender f) (f_etype f) (f_ever f) with
  | None => None
  | Some h =>
    if byteb (f_kind f) && bytesb (f_payload f) then
      let data := h ++ [f_kind f] ++ f_payload f in
      Some (data ++ [bcc data] ++ [frame_end])
    else None
  end.

(* Frame.__eq__ : same class and equal (recipient, sender, econet_type, econet_version, message) *)
Definition frame_eqb (a b : frame) : bool :=
  (f_kind a =? f_kind b) && (f_rcpt a =? f_rcpt b) && (f_sender a =? f_sender b) &&
  (f_etype a =? f_etype b) && (f_ever a =? f_ever b) && list_eqb N.eqb (f_payload a) (f_payload b).

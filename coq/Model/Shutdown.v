(* Model of Connection.close() / AsyncProtocol.shutdown() / EcoMAX.shutdown(): the outcome of
   close() as a function of the state it is issued in.  The three booleans select the repaired
   behaviour (true) or the pinned one (false), kept for the refutations:
   bounded  - the wait for the queues is conditional on being connected and bounded (20 s);
   always   - devices are shut down also when not connected;
   separate - mixers and thermostats are shut down separately (not merged by index);
   cancel_all - TaskManager.cancel_tasks() cancels every registered task (the pinned all() over a generator stops
              at the first task whose cancel() returns False);
   recancel - the connection's tasks are cancelled again after protocol.shutdown() (the pinned close() cancels them only
              before it, so a reconnect attempt scheduled by a loss handled during the shutdown survives);
   catches  - the time-out of the wait for the transport to confirm that it is closed (FrameWriter.close, 10 s) is caught
              where it is raised (false: it escapes through close(), which then raises instead of returning). *)
From Coq Require Import NArith List Bool Arith.
From PV Require Import Generated.Tables.
Import ListNotations.

Record cstate := mkCS {
  s_connected : bool;
  s_queued : nat;             (* frames waiting in the write queue *)
  s_unread : nat;             (* received frames not yet processed *)
  s_talking : bool;           (* the controller keeps sending frames (each one drives one write) *)
  s_reconnecting : bool;      (* a reconnect chain is sleeping / retrying *)
  s_dev_tasks : nat;          (* pending tasks owned by device objects *)
  s_mixers : list (nat * nat);       (* (index, pending tasks) *)
  s_thermostats : list (nat * nat)
}.

Record cresult := mkCR {
  r_returns : bool;           (* close() returns at all *)
  r_seconds : N;              (* upper bound of its duration *)
  r_left : nat;               (* tasks of protocol / connection / devices / sub-devices still pending afterwards *)
  r_writer_closed : bool
}.

Definition drain_bound : N := reader_timeout + writer_timeout.   (* 20 s *)

Definition sum_tasks (l : list (nat * nat)) : nat := fold_left (fun a p => Nat.add a (snd p)) l 0%nat.

(* TaskManager.cancel_tasks over the registered tasks in the order the set is walked (true = still running; a
   finished task stays registered until its done callback has run).  Result: which of them still run afterwards. *)
Fixpoint cancel_tasks (cancel_all : bool) (walk : list bool) : list bool :=
  match walk with
  | [] => []
  | true :: r => false :: cancel_tasks cancel_all r                       (* cancel() returned True *)
  | false :: r => false :: (if cancel_all then cancel_tasks cancel_all r else r)   (* cancel() returned False *)
  end.
Definition running (l : list bool) : nat := length (filter (fun b => b) l).

(* walk = the connection's registered tasks (reconnect attempts) in the order close() meets them *)
(* late = reconnect attempts scheduled while the protocol shuts down (a connection loss detected as close() is issued) *)
(* stall = how long the transport takes to confirm that it is closed: Some d seconds, None = never (a stalled peer) *)
Definition confirms_in_time (stall : option N) : bool :=
  match stall with Some d => (d <? writer_timeout)%N | None => false end.
Definition close_wait (stall : option N) : N :=
  match stall with Some d => N.min d writer_timeout | None => writer_timeout end.

Definition close (bounded always separate cancel_all recancel catches : bool) (walk : list bool) (late : nat)
                 (stall : option N) (s : cstate) : cresult :=
  let idle := Nat.eqb (s_queued s) 0 && Nat.eqb (s_unread s) 0 in
  let waits := if bounded then s_connected s && negb idle else negb idle in
  let drains := s_connected s && s_talking s in        (* a live producer with a talking controller empties the queues *)
  (* only a connected protocol still holds a transport to close (a lost one was closed when the loss was handled) *)
  let escapes := s_connected s && negb catches && negb (confirms_in_time stall) in
  let returns := (negb waits || drains || bounded) && negb escapes in
  let seconds := ((if waits then (if drains then N.min drain_bound (N.of_nat (s_queued s + s_unread s + 1)) else drain_bound) else 0)
                  + (if s_connected s then close_wait stall else 0))%N in
  let shut := always || s_connected s in
  let hidden := if separate then 0%nat
                else sum_tasks (filter (fun m => existsb (fun t => Nat.eqb (fst t) (fst m)) (s_thermostats s)) (s_mixers s)) in
  mkCR returns seconds
       (if returns then Nat.add (Nat.add (running (cancel_tasks cancel_all walk)) (if recancel then 0%nat else late))
                                (if shut then hidden else Nat.add (s_dev_tasks s) (Nat.add (sum_tasks (s_mixers s)) (sum_tasks (s_thermostats s))))
        else 0%nat)
       true.

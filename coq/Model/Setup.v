(* Model of PhysicalDevice.async_setup / request (devices/__init__.py) for the ecoMAX set-up
   frames: per kind, up to `retries` transmissions `timeout` apart; an answer makes the data
   available - for the kinds whose handler first waits for product information (ecoMAX
   parameters, and mixer parameters when mixers are present) only once the product is known. *)
From Coq Require Import NArith List Bool Arith.
From PV Require Import Lib.Bytes Generated.Tables Model.Frame.
Import ListNotations.

Definition product_kind : N := 57%N.    (* REQUEST_UID provides "product" *)
Definition dependent (mixers_present : bool) (k : N) : bool :=
  N.eqb k 49 || (mixers_present && N.eqb k 50).

Record kst := mkKst {
  k_code : N;
  k_tx : nat;          (* transmissions so far *)
  k_answered : bool;   (* the controller's answer has arrived *)
  k_avail : bool;      (* data available (the request call returned) *)
  k_time : nat         (* attempt index at which it became available *)
}.

(* attempt i (1-based) at time (i-1) * timeout: every kind still waiting transmits; the answer
   arrives if the controller answers this attempt; then pending dependents are released if the
   product is now known *)
Definition attempt_kind (ans : N -> option nat) (i : nat) (s : kst) : kst :=
  if k_avail s then s
  else
    let answered_now := match ans (k_code s) with Some a => Nat.eqb a i | None => false end in
    mkKst (k_code s) (S (k_tx s)) (k_answered s || answered_now) false 0.

Definition product_known (ks : list kst) : bool :=
  existsb (fun s => N.eqb (k_code s) product_kind && k_answered s) ks.

Definition release (mixers_present : bool) (i : nat) (ks : list kst) : list kst :=
  let pk := product_known ks in
  map (fun s =>
         if k_avail s then s
         else if k_answered s && (negb (dependent mixers_present (k_code s)) || pk)
              then mkKst (k_code s) (k_tx s) true true i
              else s) ks.

Fixpoint attempts (mixers_present : bool) (ans : N -> option nat) (retries : nat) (i : nat) (ks : list kst) : list kst :=
  match retries with
  | O => ks
  | S r => attempts mixers_present ans r (S i) (release mixers_present i (map (attempt_kind ans i) ks))
  end.

Definition init_kinds : list kst := map (fun p => mkKst (fst p) 0 false false 0) setup_frames.

Record setup_result := mkRes {
  r_errors : list N;          (* frame_errors *)
  r_loaded_attempt : nat;     (* loaded at time r_loaded_attempt * timeout *)
  r_tx : list (N * nat);      (* transmissions per kind *)
  r_data : list N             (* kinds whose data is available *)
}.

Definition timeline (mixers_present : bool) (ans : N -> option nat) (retries : nat) : setup_result :=
  let ks := attempts mixers_present ans retries 1 init_kinds in
  let failed := filter (fun s => negb (k_avail s)) ks in
  mkRes (map k_code failed)
        (if match failed with [] => true | _ => false end
         then fold_left Nat.max (map (fun s => Nat.pred (k_time s)) ks) 0%nat else retries)
        (map (fun s => (k_code s, k_tx s)) ks)
        (map k_code (filter k_avail ks)).

(* A further set-up of the SAME device object: request() returns as soon as the data it asks for are available, so a kind whose
   data an earlier run obtained is served at once (one transmission, no waiting), whatever the controller answers now. *)
Definition effective (have : list N) (ans : N -> option nat) : N -> option nat :=
  fun k => if memN k have then Some 1%nat else ans k.
Definition timeline_again (mixers_present : bool) (first ans : N -> option nat) (retries : nat) : setup_result :=
  timeline mixers_present (effective (r_data (timeline mixers_present first retries)) ans) retries.

(* Model of pyplumio/filters.py: each filter is a step machine over (call time, value).
   Numbers are integers on the grid 2^-60 (FNum z = z / 2^60): every multiple of 1/64 of bounded magnitude and the doubles
   0.05, 0.1, 0.2, ... are on it; the tolerance is the DOUBLE 0.1 = 3602879701896397 / 2^55 itself, so that a difference of
   exactly one tolerance is expressible (on the values generated CPython's float -, +, isclose agree with exact arithmetic); strings are ids; lists are lists of integers; parameter objects are
   (value, min, max, pending_update). *)
From Coq Require Import ZArith NArith List Bool.
Import ListNotations.
Open Scope Z_scope.

Inductive fval :=
| FNum (z : Z)                         (* z / 2^60 *)
| FStr (id : Z)
| FList (l : list Z)
| FParam (v lo hi : Z) (pending : bool).

Definition tol64 : Z := 115292150460684704.   (* the double 0.1 on the 2^-60 grid: 3602879701896397 * 2^5 *)

Fixpoint zlist_eqb (a b : list Z) : bool :=
  match a, b with [], [] => true | x :: a', y :: b' => (x =? y) && zlist_eqb a' b' | _, _ => false end.

(* _significantly_changed old new *)
Definition changed (old new : fval) : bool :=
  match old, new with
  | FParam v lo hi _, FParam v' lo' hi' pend' => pend' || negb ((v =? v') && (lo =? lo') && (hi =? hi'))
  | FNum a, FNum b => tol64 <? Z.abs (a - b)
  | FStr a, FStr b => negb (a =? b)
  | FList a, FList b => negb (zlist_eqb a b)
  | _, _ => true
  end.

(* _diffence_between old new *)
Definition difference (old new : fval) : option fval :=
  match old, new with
  | FNum a, FNum b => Some (FNum (b - a))
  | FList a, FList b => Some (FList (filter (fun x => negb (existsb (Z.eqb x) a)) b))
  | _, _ => None
  end.

(* what the filter keeps as baseline: copy(parameter) drops the pending flag *)
Definition stored (x : fval) : fval :=
  match x with FParam v lo hi _ => FParam v lo hi false | _ => x end.

Inductive fkind :=
| KOnChange
| KDebounce (min_calls : nat)
| KThrottle (seconds : Z)
| KDelta
| KAggregate (seconds : Z).

Record fstate := mkF {
  f_value : option fval;   (* None = UNDEFINED *)
  f_calls : nat;
  f_last : option Z;       (* throttle: time of the last delivery; aggregate: time of the last flush *)
  f_sum : Z                (* aggregate *)
}.

Definition finit (k : fkind) (t0 : Z) : fstate :=
  match k with
  | KAggregate _ => mkF None 0 (Some t0) 0
  | _ => mkF None 0 None 0
  end.

Definition is_changed (s : fstate) (x : fval) : bool :=
  match f_value s with None => true | Some old => changed old x end.

(* one call of the filter at time t with value x: new state and the value handed to the callback *)
Definition fstep (k : fkind) (s : fstate) (t : Z) (x : fval) : fstate * option fval :=
  match k with
  | KOnChange =>
      if is_changed s x then (mkF (Some (stored x)) (f_calls s) (f_last s) (f_sum s), Some x) else (s, None)
  | KDebounce n =>
      let calls := if is_changed s x then S (f_calls s) else O in
      if (match f_value s with None => true | Some _ => false end) || Nat.leb n calls
      then (mkF (Some (stored x)) 0 (f_last s) (f_sum s), Some x)
      else (mkF (f_value s) calls (f_last s) (f_sum s), None)
  | KThrottle sec =>
      if (match f_last s with None => true | Some l => sec <=? t - l end)
      then (mkF (f_value s) (f_calls s) (Some t) (f_sum s), Some x)
      else (s, None)
  | KDelta =>
      if is_changed s x then
        (mkF (Some (stored x)) (f_calls s) (f_last s) (f_sum s),
         match f_value s with None => None | Some old => difference old x end)
      else (s, None)
  | KAggregate sec =>
      match x with
      | FNum z =>
          let sum := f_sum s + z in
          if (match f_last s with None => true | Some l => sec <=? t - l end)
          then (mkF (f_value s) (f_calls s) (Some t) 0, Some (FNum sum))
          else (mkF (f_value s) (f_calls s) (f_last s) sum, None)
      | _ => (s, None)     (* ValueError: numeric values only *)
      end
  end.

Fixpoint frun (k : fkind) (s : fstate) (calls : list (Z * fval)) : list (option fval) * fstate :=
  match calls with
  | [] => ([], s)
  | (t, x) :: rest =>
    let '(s1, o) := fstep k s t x in
    let '(os, s2) := frun k s1 rest in (o :: os, s2)
  end.

(* chain k1(k2(callback)): the outer filter k1 hands its deliveries to the inner filter k2 *)
Fixpoint frun2 (k1 k2 : fkind) (s1 s2 : fstate) (calls : list (Z * fval)) : list (option fval) :=
  match calls with
  | [] => []
  | (t, x) :: rest =>
    let '(s1', o1) := fstep k1 s1 t x in
    match o1 with
    | None => None :: frun2 k1 k2 s1' s2 rest
    | Some y => let '(s2', o2) := fstep k2 s2 t y in o2 :: frun2 k1 k2 s1' s2' rest
    end
  end.

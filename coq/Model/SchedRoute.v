(* Model of ScheduleParameter.create_request's routing (structures/schedules.py): the schedule a switch / parameter belongs to is the
   part of its name before the first "_schedule_"; SetScheduleRequest then carries SCHEDULES.index(that name). *)
From Coq Require Import NArith List Bool Arith String Ascii.
From PV Require Import Generated.Tables.
Import ListNotations.
Open Scope string_scope.

Fixpoint is_prefix (p s : string) : bool :=
  match p, s with
  | EmptyString, _ => true
  | String a p', String b s' => Ascii.eqb a b && is_prefix p' s'
  | _, _ => false
  end.

(* str.split(sep, 1)[0] *)
Fixpoint split_first (sep s : string) : string :=
  if is_prefix sep s then EmptyString
  else match s with
       | EmptyString => EmptyString
       | String a s' => String a (split_first sep s')
       end.

Fixpoint index_of (x : string) (l : list string) : option nat :=
  match l with
  | [] => None
  | y :: r => if String.eqb x y then Some 0%nat else option_map S (index_of x r)
  end.

(* schedule index put into the set-schedule request built for the parameter called pname *)
Definition routed_index (pname : string) : option nat := index_of (split_first "_schedule_" pname) schedules.


(* Model of Parameter.set / Parameter.update (helpers/parameter.py): range check, optimistic
   local value, set / refresh / sleep / retry loop, confirmation by a controller report.
   A coroutine is modelled through its suspension points: the call itself (start) and the
   expiry of each asyncio.sleep(timeout) (Tick); controller reports arrive as events. *)
From Coq Require Import ZArith List Bool.
Import ListNotations.
Open Scope Z_scope.

Record triple := mkTriple { tv : Z; tlo : Z; thi : Z }.

Inductive pev := Tick | Report (t : triple).
Inductive pout := OSet (raw : Z) | ORefresh | ORet (b : bool) | ORaise.
Inductive phase := PSleeping | PDone.

Record pst := mkPst {
  vals : triple;      (* locally held (value, min, max) *)
  prev : Z;           (* _previous_value *)
  pending : bool;     (* _pending_update *)
  left : nat;         (* retries left *)
  reqv : Z;           (* the requested raw value (local variable `value`) *)
  sets : nat;         (* transmissions so far (ghost: selects the tracking oracle) *)
  ph : phase
}.

Definition with_value (t : triple) (v : Z) : triple := mkTriple v (tlo t) (thi t).

(* head of the while loop *)
Definition attempt (tracking : nat -> bool) (s : pst) : pst * list pout :=
  if negb (pending s) then
    (mkPst (vals s) (prev s) (pending s) (left s) (reqv s) (sets s) PDone, [ORet true])
  else
    match left s with
    | O => (mkPst (vals s) (prev s) (pending s) O (reqv s) (sets s) PDone, [ORet false])
    | S k =>
      (mkPst (with_value (vals s) (reqv s)) (prev s) (pending s) k (reqv s) (S (sets s)) PSleeping,
       OSet (reqv s) :: (if tracking (sets s) then [] else [ORefresh]))
    end.

(* the call: range check first, then the no-op shortcut, then the loop *)
Definition start (tracking : nat -> bool) (t : triple) (req : Z) (retries : nat) : pst * list pout :=
  if (req <? tlo t) || (thi t <? req) then
    (mkPst t 0 false retries req 0 PDone, [ORaise])
  else if req =? tv t then
    (mkPst t 0 false retries req 0 PDone, [ORet true])
  else
    attempt tracking (mkPst (with_value t req) (tv t) true retries req 0 PSleeping).

Definition step (tracking : nat -> bool) (s : pst) (e : pev) : pst * list pout :=
  match e with
  | Report t =>
    (* Parameter.update *)
    (mkPst t (prev s) (pending s && (prev s =? tv t)) (left s) (reqv s) (sets s) (ph s), [])
  | Tick =>
    match ph s with
    | PSleeping => attempt tracking s
    | PDone => (s, [])
    end
  end.

(* outputs per event, in order: element 0 belongs to the call itself *)
Fixpoint run (tracking : nat -> bool) (s : pst) (evs : list pev) : list (list pout) * pst :=
  match evs with
  | [] => ([], s)
  | e :: t =>
    let '(s1, o) := step tracking s e in
    let '(os, s2) := run tracking s1 t in (o :: os, s2)
  end.

Definition run_set (tracking : nat -> bool) (t : triple) (req : Z) (retries : nat) (evs : list pev)
  : list (list pout) * pst :=
  let '(s0, o0) := start tracking t req retries in
  let '(os, s) := run tracking s0 evs in (o0 :: os, s).

(* Model of SensorDataMessage.decode_message (frames/messages.py) and of the sixteen structure
   decoders it chains (structures/*.py).  Every section is  list N -> nat(offset) -> option (value * nat);
   None = the Python code raises (IndexError / struct.error).  Floats are their 32-bit patterns. *)
From Coq Require Import NArith List Bool Arith.
From PV Require Import Lib.Bytes Generated.Tables Model.Versions.
Import ListNotations.
Open Scope N_scope.

Notation "'let?' x ':=' e 'in' k" := (match e with Some x => k | None => None end)
  (at level 200, x pattern, e at level 100, k at level 200, right associativity).

Definition byte_at (m : list N) (off : nat) : option N := nth_error m off.
Definition uint_at (n : nat) (m : list N) (off : nat) : option N :=
  if Nat.ltb (length m) (off + n) then None else Some (le_decode (firstn n (skipn off m))).

Definition is_nan32 (b : N) : bool := ((b / 8388608) mod 256 =? 255) && negb (b mod 8388608 =? 0).
Definition positive32 (b : N) : bool := (b <? 2147483648) && negb (b =? 0) && negb (is_nan32 b).

(* FrameVersionsStructure *)
Fixpoint dec_versions (m : list N) (off : nat) (n : nat) : option (list (N * N) * nat) :=
  match n with
  | O => Some ([], off)
  | S k =>
    let? t := byte_at m off in
    let? v := uint_at 2 m (off + 1) in
    let? (rest, off') := dec_versions m (off + 3) k in
    Some ((t, v) :: rest, off')
  end.
Definition dec_frame_versions (m : list N) (off : nat) : option (list (N * N) * nat) :=
  let? n := byte_at m off in
  let? (pairs, off') := dec_versions m (off + 1) (N.to_nat n) in
  Some (dict_of pairs, off').

(* DeviceState(value) with EXTRA_DEVICE_STATES; unknown values stay raw *)
Definition state_view (x : N) : N :=
  match find (fun p => fst p =? x) extra_device_states with Some p => snd p | None => x end.

(* TemperaturesStructure: (index, f32) pairs; NaN or index beyond the table are dropped; later entries override *)
Definition temperatures_count : N := n_temperatures.
Fixpoint dec_temps (m : list N) (off : nat) (n : nat) : option (list (N * N) * nat) :=
  match n with
  | O => Some ([], off)
  | S k =>
    let? i := byte_at m off in
    let? t := uint_at 4 m (off + 1) in
    let? (rest, off') := dec_temps m (off + 5) k in
    Some ((if negb (is_nan32 t) && (i <? temperatures_count) then (i, t) :: rest else rest), off')
  end.

(* ModulesStructure: six versions; 0xFF = absent; module A carries a vendor pair *)
Definition dec_module (with_vendor : bool) (m : list N) (off : nat) : option (option (list N) * nat) :=
  let? b := byte_at m off in
  if b =? byte_undefined then Some (None, S off)
  else
    if Nat.ltb (length m) (off + 3) then None
    else
      if with_vendor then
        if Nat.ltb (length m) (off + 5) then None
        else Some (Some (firstn 5 (skipn off m)), (off + 5)%nat)
      else Some (Some (firstn 3 (skipn off m)), (off + 3)%nat).

Fixpoint dec_modules (m : list N) (off : nat) (flags : list bool) : option (list (option (list N)) * nat) :=
  match flags with
  | [] => Some ([], off)
  | v :: r =>
    let? (x, off1) := dec_module v m off in
    let? (rest, off2) := dec_modules m off1 r in
    Some (x :: rest, off2)
  end.

(* ThermostatSensorsStructure *)
Record thermo := mkThermo { th_state : N; th_current : N; th_target : N; th_contacts : bool; th_schedule : bool }.
Fixpoint dec_thermos (m : list N) (off : nat) (contacts : N) (i : N) (n : nat) : option (list (N * thermo) * nat) :=
  match n with
  | O => Some ([], off)
  | S k =>
    let? st := byte_at m off in
    let? cur := uint_at 4 m (off + 1) in
    let? tgt := uint_at 4 m (off + 5) in
    let? (rest, off') := dec_thermos m (off + 9) contacts (i + 1) k in
    Some ((if negb (is_nan32 cur) && positive32 tgt
           then (i, mkThermo st cur tgt (N.testbit contacts i) (N.testbit contacts (i + 3))) :: rest else rest), off')
  end.

(* MixerSensorsStructure: 8 bytes per mixer *)
Record mixer_s := mkMixer { mx_current : N; mx_target : N; mx_pump : bool }.
Fixpoint dec_mixers (m : list N) (off : nat) (i : N) (n : nat) : option (list (N * mixer_s) * nat) :=
  match n with
  | O => Some ([], off)
  | S k =>
    let? cur := uint_at 4 m off in
    let present := negb (is_nan32 cur) in
    let? entry :=
      (if present then
         let? tgt := byte_at m (off + 4) in
         let? pump := byte_at m (off + 6) in
         Some (Some (mkMixer cur tgt (N.testbit pump 0)))
       else Some None) in
    let? (rest, off') := dec_mixers m (off + 8) (i + 1) k in
    Some ((match entry with Some e => (i, e) :: rest | None => rest end), off')
  end.

Record sensors := mkSensors {
  s_versions : list (N * N);
  s_state : N;
  s_outputs : N;            (* 32-bit word; outputs are its bits 0..11 *)
  s_flags : N;              (* 32-bit word; flags are bits 2, 3, 4 and 11 *)
  s_temps : list (N * N);
  s_statuses : list N;
  s_pending : N;
  s_fuel_level : option N;
  s_transmission : N;
  s_fan_power : option N;
  s_boiler_load : option N;
  s_boiler_power : option N;
  s_fuel_consumption : option N;
  s_thermostat : N;
  s_modules : list (option (list N));
  s_lambda : option (N * N * N);
  s_thermostats : option (N * list (N * thermo));     (* (thermostats available, connected ones) *)
  s_mixers : N * list (N * mixer_s)
}.

Definition opt_f32 (b : N) : option N := if is_nan32 b then None else Some b.
Definition opt_byte (b : N) : option N := if b =? byte_undefined then None else Some b.

(* the sections, each decoding from an offset and returning the next offset *)
Definition dec_head (m : list N) (off : nat) : option ((N * N * N) * nat) :=
  let? state := byte_at m off in
  let? outputs := uint_at 4 m (off + 1) in
  let? flags := uint_at 4 m (off + 5) in
  Some ((state, outputs, flags), (off + 9)%nat).

Definition dec_temps_section (m : list N) (off : nat) : option (list (N * N) * nat) :=
  let? n := byte_at m off in dec_temps m (S off) (N.to_nat n).

Definition dec_status_pending (m : list N) (off : nat) : option ((list N * N) * nat) :=
  let? st0 := byte_at m off in let? st1 := byte_at m (off + 1) in let? st2 := byte_at m (off + 2) in let? st3 := byte_at m (off + 3) in
  let? pending := byte_at m (off + 4) in
  Some (([st0; st1; st2; st3], pending), (off + 5 + N.to_nat pending)%nat).

Definition dec_fixed16 (m : list N) (off : nat) : option ((N * N * N * N * N * N * N) * nat) :=
  let? fuel := byte_at m off in
  let? transmission := byte_at m (off + 1) in
  let? fan := uint_at 4 m (off + 2) in
  let? load := byte_at m (off + 6) in
  let? power := uint_at 4 m (off + 7) in
  let? fcons := uint_at 4 m (off + 11) in
  let? thermostat := byte_at m (off + 15) in
  Some ((fuel, transmission, fan, load, power, fcons, thermostat), (off + 16)%nat).

Definition dec_lambda (m : list N) (off : nat) : option (option (N * N * N) * nat) :=
  let? lstate := byte_at m off in
  if lstate =? byte_undefined then Some (None, S off)
  else let? tgt := byte_at m (off + 1) in let? lvl := uint_at 2 m (off + 2) in Some (Some (lstate, tgt, lvl), (off + 4)%nat).

Definition dec_thermo_section (m : list N) (off : nat) : option (option (N * list (N * thermo)) * nat) :=
  let? tb := byte_at m off in
  if tb =? byte_undefined then Some (None, S off)
  else let? cnt := byte_at m (off + 1) in
       let? (l, o) := dec_thermos m (off + 2) tb 0 (N.to_nat cnt) in Some (Some (cnt, l), o).

Definition dec_mixer_section (m : list N) (off : nat) : option ((N * list (N * mixer_s)) * nat) :=
  let? nmix := byte_at m off in
  let? (mixers, o) := dec_mixers m (S off) 0 (N.to_nat nmix) in Some ((nmix, mixers), o).

Definition decode_sensor_data (m : list N) : option (sensors * nat) :=
  let? (versions, o1) := dec_frame_versions m 0 in
  let? ((state, outputs, flags), o2) := dec_head m o1 in
  let? (temps, o3) := dec_temps_section m o2 in
  let? ((statuses, pending), o4) := dec_status_pending m o3 in
  let? ((fuel, transmission, fan, load, power, fcons, thermostat), o5) := dec_fixed16 m o4 in
  let? (modules, o6) := dec_modules m o5 [true; false; false; false; false; false] in
  let? (lam, o7) := dec_lambda m o6 in
  let? (thermos, o8) := dec_thermo_section m o7 in
  let? (mixers, o9) := dec_mixer_section m o8 in
  Some (mkSensors versions (state_view state) outputs flags (dict_of temps) statuses pending
                  (match opt_byte fuel with Some f => Some (if fuel_level_offset <=? f then f - fuel_level_offset else f) | None => None end)
                  transmission (opt_f32 fan) (opt_byte load) (opt_f32 power) (opt_f32 fcons) thermostat modules lam thermos
                  mixers, o9).

(* Model of the schedule bitmap codec (structures/schedules.py) and of ScheduleDay.set_state
   (helpers/schedule.py).  Executable definitions only. *)
From Coq Require Import NArith List Bool.
From PV Require Import Lib.Bytes Generated.Tables.
Import ListNotations.
Open Scope N_scope.

(* _split_byte: most significant bit first *)
Definition split_byte (b : N) : list bool :=
  map (fun i => N.testbit b i) [7; 6; 5; 4; 3; 2; 1; 0].

(* _join_bits: reduce(lambda acc, bit: (acc << 1) | bit, bits) *)
Definition bitval (b : bool) : N := if b then 1 else 0.
Definition join_bits (bits : list bool) : N := fold_left (fun acc b => 2 * acc + bitval b) bits 0.

(* day[i : i + 8] for i in range(0, len(day), 8) *)
Fixpoint chunks8 (fuel : nat) (l : list bool) : list (list bool) :=
  match fuel with
  | O => []
  | S k => match l with
           | [] => []
           | _ => firstn 8 l :: chunks8 k (skipn 8 l)
           end
  end.

Definition encode_day (day : list bool) : list N := map join_bits (chunks8 (length day) day).
Definition encode_bitmap (days : list (list bool)) : list N := concat (map encode_day days).

(* SchedulesStructure.encode: b"\1" + index + switch + parameter (one byte each) + bitmap *)
Definition encode_schedule (idx switch param : N) (days : list (list bool)) : option (list N) :=
  if byteb idx && byteb switch && byteb param
  then Some ([1; idx; switch; param] ++ encode_bitmap days)
  else None.

(* _unpack_schedule: 42 bytes -> 336 bits -> 7 days of 48 *)
Fixpoint chunks48 (fuel : nat) (l : list bool) : list (list bool) :=
  match fuel with
  | O => []
  | S k => match l with
           | [] => []
           | _ => firstn 48 l :: chunks48 k (skipn 48 l)
           end
  end.
Definition decode_bitmap (bs : list N) : list (list bool) :=
  let bits := concat (map split_byte bs) in chunks48 (length bits) bits.

(* ---- ScheduleDay.set_state ---- *)
(* time "HH:MM" as (h, m); slot index = floor(minutes / 30) *)
Definition slot (h m : N) : N := (60 * h + m) / 30.
Definition valid_time (h m : N) : bool := (h <? 24) && (m <? 60).

(* _get_time_range: None = ValueError *)
Definition time_range (sh sm eh em : N) : option (N * N) :=
  if negb (valid_time sh sm && valid_time eh em) then None
  else
    let smin := 60 * sh + sm in
    let emin0 := 60 * eh + em in
    let emin := if emin0 =? 0 then 24 * 60 - 30 else emin0 in
    if emin <=? smin then None
    else Some (smin / 30, emin / 30).

(* states: 0 "on", 1 "off", 2 "day", 3 "night"; anything else is not allowed *)
Definition state_value (st : N) : option bool :=
  match st with 0 => Some true | 2 => Some true | 1 => Some false | 3 => Some false | _ => None end.

Fixpoint set_range (day : list bool) (i : nat) (lo hi : nat) (v : bool) : list bool :=
  match day with
  | [] => []
  | b :: t => (if Nat.leb lo i && Nat.leb i hi then v else b) :: set_range t (S i) lo hi v
  end.

Definition set_state (day : list bool) (st : N) (sh sm eh em : N) : option (list bool) :=
  match state_value st with
  | None => None
  | Some v =>
    match time_range sh sm eh em with
    | None => None
    | Some (lo, hi) =>
      if Nat.ltb (N.to_nat hi) (length day) then Some (set_range day 0 (N.to_nat lo) (N.to_nat hi) v)
      else None   (* IndexError: day shorter than the addressed slot *)
    end
  end.

(* Model of the consumer side of AsyncProtocol (protocol.py frame_consumer / get_device_entry and
   EcoMAX.handle_frame): frames that the reader delivered are put on the read queue (unfinished + 1)
   and taken by one of `n` consumer tasks.  Whether a payload decodes is an input (oracle).
   `guarded` = the consumer catches exceptions and always calls task_done (the tree as repaired);
   guarded = false is the behaviour of the pinned tree, kept for the refutation. *)
From Coq Require Import NArith List Bool Arith.
Import ListNotations.
Open Scope N_scope.

Record pframe := mkPF { pf_tag : N; pf_sender : N; pf_kind : N; pf_decodable : bool }.

Definition has_device (s : N) : bool := (s =? 69) || (s =? 81).

Record pst := mkP {
  alive : nat;                  (* consumer tasks still running *)
  unfinished : nat;             (* read queue: put() minus task_done() *)
  handed : list N;              (* tags of frames handed to a device (handle_frame called), in order *)
  responses : list (N * N);     (* (kind, recipient) of the automatic replies queued *)
  stuck : list N                (* frames left on the queue because no consumer is alive *)
}.

Definition reply (f : pframe) : list (N * N) :=
  if pf_sender f =? 69 then
    (if pf_kind f =? 64 then [(192, pf_sender f)] else if pf_kind f =? 48 then [(176, pf_sender f)] else [])
  else [].

Definition feed (guarded : bool) (s : pst) (f : pframe) : pst :=
  match alive s with
  | O => mkP O (S (unfinished s)) (handed s) (responses s) (stuck s ++ [pf_tag f])
  | S k =>
    if has_device (pf_sender f) then
      if pf_decodable f then mkP (alive s) (unfinished s) (handed s ++ [pf_tag f]) (responses s ++ reply f) (stuck s)
      else (* decode_message raises inside handle_frame, after the reply has been queued *)
        if guarded then mkP (alive s) (unfinished s) (handed s ++ [pf_tag f]) (responses s ++ reply f) (stuck s)
        else mkP k (S (unfinished s)) (handed s ++ [pf_tag f]) (responses s ++ reply f) (stuck s)
    else (* no device class for this sender: get_device_entry raises *)
      if guarded then s else mkP k (S (unfinished s)) (handed s) (responses s) (stuck s)
  end.

Definition run_pipeline (guarded : bool) (n : nat) (fs : list pframe) : pst :=
  fold_left (feed guarded) fs (mkP n 0 [] [] []).

(* Model of the parameter-block decoders: helpers/parameter.py unpack_parameter / check_parameter,
   structures/ecomax_parameters.py, mixer_parameters.py, thermostat_parameters.py and the parameter
   part of schedules.py.  Python slices truncate silently (firstn / skipn); indexing raises (None). *)
From Coq Require Import NArith List Bool Arith.
From PV Require Import Lib.Bytes Generated.Tables Model.Schedule.
Import ListNotations.
Open Scope N_scope.

Definition pvals := (N * N * N)%type.     (* value, min, max *)

Definition slice (off len : nat) (m : list N) : list N := firstn len (skipn off m).

(* unpack_parameter(data, offset, size) *)
Definition unpack_parameter (m : list N) (off size : nat) : option pvals :=
  if existsb (fun x => negb (x =? byte_undefined)) (slice off (3 * size) m) then
    Some (le_decode (slice off size m), le_decode (slice (size + off) size m), le_decode (slice (2 * size + off) size m))
  else None.

(* for index in range(start, start + count): one 3-byte slot each *)
Fixpoint unpack_slots (m : list N) (off : nat) (index : N) (count : nat) : list (N * pvals) * nat :=
  match count with
  | O => ([], off)
  | S k =>
    let '(rest, off') := unpack_slots m (3 + off) (index + 1) k in
    match unpack_parameter m off 1 with
    | Some p => ((index, p) :: rest, off')
    | None => (rest, off')
    end
  end.

(* EcomaxParametersStructure.decode *)
Definition decode_ecomax_params (m : list N) : option (list (N * pvals)) :=
  match nth_error m 1, nth_error m 2 with
  | Some start, Some count => Some (fst (unpack_slots m 3 start (N.to_nat count)))
  | _, _ => None
  end.

(* MixerParametersStructure.decode: mixers blocks of `count` slots; a mixer without any defined slot is omitted *)
Fixpoint unpack_mixers (m : list N) (off : nat) (start : N) (count : nat) (mixer : N) (mixers : nat)
  : list (N * list (N * pvals)) :=
  match mixers with
  | O => []
  | S k =>
    let '(ps, off') := unpack_slots m off start count in
    let rest := unpack_mixers m off' start count (mixer + 1) k in
    match ps with [] => rest | _ => (mixer, ps) :: rest end
  end.

Definition decode_mixer_params (m : list N) : option (list (N * list (N * pvals))) :=
  match nth_error m 1, nth_error m 2, nth_error m 3 with
  | Some start, Some count, Some mixers => Some (unpack_mixers m 4 start (N.to_nat count) 0 (N.to_nat mixers))
  | _, _, _ => None
  end.

(* thermostat parameters: slot width from the description table; None = IndexError (index beyond the table) *)
Definition thermostat_size (index : N) : option nat :=
  match nth_error thermostat_params (N.to_nat index) with
  | Some d => Some (N.to_nat (pd_size d))
  | None => None
  end.

Fixpoint unpack_tslots (m : list N) (off : nat) (index : N) (count : nat) : option (list (N * pvals) * nat) :=
  match count with
  | O => Some ([], off)
  | S k =>
    match thermostat_size index with
    | None => None
    | Some size =>
      match unpack_tslots m (off + 3 * size) (index + 1) k with
      | None => None
      | Some (rest, off') =>
        match unpack_parameter m off size with
        | Some p => Some ((index, p) :: rest, off')
        | None => Some (rest, off')
        end
      end
    end
  end.

Fixpoint unpack_thermostats (m : list N) (off : nat) (start : N) (count : nat) (t : N) (n : nat)
  : option (list (N * list (N * pvals))) :=
  match n with
  | O => Some []
  | S k =>
    match unpack_tslots m off start count with
    | None => None
    | Some (ps, off') =>
      match unpack_thermostats m off' start count (t + 1) k with
      | None => None
      | Some rest => Some (match ps with [] => rest | _ => (t, ps) :: rest end)
      end
    end
  end.

(* ThermostatParametersStructure.decode with `thermostats` = thermostats_available of the owning device.
   Result: None = raises; Some None = "thermostat_parameters: None"; Some (Some (profile, per thermostat)) *)
Definition decode_thermostat_params (thermostats : N) (m : list N)
  : option (option (option pvals * list (N * list (N * pvals)))) :=
  if thermostats =? 0 then Some None
  else
    match nth_error m 1, nth_error m 2 with
    | Some start, Some total =>
      let per := Nat.sub (N.to_nat ((start + total - 1) / thermostats)) (N.to_nat start) in
      match unpack_thermostats m 6 start per 0 (N.to_nat thermostats) with
      | Some l => Some (Some (unpack_parameter m 3 1, l))
      | None => None
      end
    | _, _ => None
    end.

(* SchedulesStructure.decode: per schedule: index, switch, parameter triple, 42 bitmap bytes *)
Fixpoint unpack_schedules (m : list N) (off : nat) (count : nat)
  : option (list (N * list (list bool)) * list (N * pvals)) :=
  match count with
  | O => Some ([], [])
  | S k =>
    match nth_error m off, nth_error m (off + 1) with
    | Some index, Some switch =>
      if Nat.ltb (length m) (off + 5 + 42) then None    (* message[i] raises inside _unpack_schedule *)
      else
        match unpack_schedules m (off + 47) k with
        | None => None
        | Some (ss, ps) =>
          let bitmap := decode_bitmap (slice (off + 5) 42 m) in
          let sw := (index * 2, (switch, 0, 1)) in
          Some ((index, bitmap) :: ss,
                match unpack_parameter m (off + 2) 1 with
                | Some p => sw :: (index * 2 + 1, p) :: ps
                | None => sw :: ps
                end)
        end
    | _, _ => None
    end
  end.

Definition decode_schedules (m : list N) : option (list (N * list (list bool)) * list (N * pvals)) :=
  match nth_error m 1, nth_error m 2 with
  | Some _, Some count => unpack_schedules m 3 (N.to_nat count)
  | _, _ => Some ([], [])         (* except IndexError: no schedules *)
  end.

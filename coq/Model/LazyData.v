(* Model of the lazily decoded data of a received frame (frames/__init__.py: Frame.data, Frame.assign_to): the message is decoded
   on the first access and the result is cached; decoders of some kinds depend on the device the frame is assigned to (regulator
   data: the schema; thermostat parameters: the number of thermostats).  reset = assign_to() drops what was decoded before the
   device was known (the code as repaired, D25); reset = false keeps it (the pinned behaviour, kept for the refutation). *)
From Coq Require Import List Bool.
Import ListNotations.

Inductive lop (H : Type) := LAccess | LAssign (h : H).
Arguments LAccess {H}.
Arguments LAssign {H} h.

Record lframe (H D : Type) := mkLF { lf_handler : option H; lf_cache : option D }.
Arguments mkLF {H D}.
Arguments lf_handler {H D}.
Arguments lf_cache {H D}.

Definition lstep {H D : Type} (reset : bool) (dec : option H -> D) (f : lframe H D) (o : lop H) : lframe H D :=
  match o with
  | LAccess => match lf_cache f with Some _ => f | None => mkLF (lf_handler f) (Some (dec (lf_handler f))) end
  | LAssign h => mkLF (Some h) (if reset then None else lf_cache f)
  end.

Definition lrun {H D : Type} (reset : bool) (dec : option H -> D) (ops : list (lop H)) : lframe H D :=
  fold_left (lstep reset dec) ops (mkLF None None).

(* what .data returns now *)
Definition ldata {H D : Type} (dec : option H -> D) (f : lframe H D) : D :=
  match lf_cache f with Some d => d | None => dec (lf_handler f) end.

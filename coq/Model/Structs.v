(* Model of the two structures that can be both built from data and decoded:
   structures/network_info.py and structures/program_version.py. *)
From Coq Require Import NArith List Bool.
From PV Require Import Lib.Bytes Generated.Tables Model.DataTypes.
Import ListNotations.
Open Scope N_scope.

Record netinfo := mkNet {
  e_ip : list N; e_mask : list N; e_gw : list N; e_status : bool;
  w_ip : list N; w_mask : list N; w_gw : list N;
  n_server : bool; w_enc : N; w_quality : N; w_status : bool; w_ssid : list N   (* ssid as UTF-8 bytes *)
}.

Definition bbyte (b : bool) : N := if b then 1 else 0.

(* NetworkInfoStructure.encode *)
Definition encode_netinfo (n : netinfo) : option (list N) :=
  match pack_var (w_ssid n) with
  | None => None
  | Some ss =>
    if Nat.eqb (length (e_ip n)) 4 && Nat.eqb (length (e_mask n)) 4 && Nat.eqb (length (e_gw n)) 4 &&
       Nat.eqb (length (w_ip n)) 4 && Nat.eqb (length (w_mask n)) 4 && Nat.eqb (length (w_gw n)) 4 &&
       bytesb (e_ip n ++ e_mask n ++ e_gw n ++ w_ip n ++ w_mask n ++ w_gw n) && byteb (w_enc n) && byteb (w_quality n)
    then Some ([1] ++ e_ip n ++ e_mask n ++ e_gw n ++ [bbyte (e_status n)] ++ w_ip n ++ w_mask n ++ w_gw n ++
               [bbyte (n_server n); w_enc n; w_quality n; bbyte (w_status n)] ++ [0; 0; 0; 0] ++ ss)
    else None
  end.

Definition slice (off len : nat) (m : list N) : option (list N) := take len (skipn off m).
Definition byte_at (off : nat) (m : list N) : option N := nth_error m off.

(* NetworkInfoStructure.decode(message, offset): EncryptionType(int) raises for values above 4 *)
Definition decode_netinfo (offset : nat) (m : list N) : option netinfo :=
  match slice offset 4 m, slice (offset + 4) 4 m, slice (offset + 8) 4 m, byte_at (offset + 12) m,
        slice (offset + 13) 4 m, slice (offset + 17) 4 m, slice (offset + 21) 4 m,
        byte_at (offset + 25) m, byte_at (offset + 26) m, byte_at (offset + 27) m, byte_at (offset + 28) m,
        unpack_var (skipn (offset + 33) m) with
  | Some a, Some b, Some c, Some es, Some d, Some e, Some f, Some sv, Some en, Some q, Some ws, Some (ss, _) =>
    if en <=? 4 then
      Some (mkNet a b c (negb (es =? 0)) d e f (negb (sv =? 0)) en q (negb (ws =? 0)) ss)
    else None
  | _, _, _, _, _, _, _, _, _, _, _, _ => None
  end.

(* program version: struct "<2sB2s3s3HB" *)
Record version := mkVer { v_tag : list N; v_struct : N; v_dev : list N; v_sig : list N; v_s1 : N; v_s2 : N; v_s3 : N }.

Definition encode_version (v : version) (sender : N) : option (list N) :=
  if Nat.eqb (length (v_tag v)) 2 && Nat.eqb (length (v_dev v)) 2 && Nat.eqb (length (v_sig v)) 3 &&
     bytesb (v_tag v ++ v_dev v ++ v_sig v) && byteb (v_struct v) && byteb sender &&
     (v_s1 v <? 65536) && (v_s2 v <? 65536) && (v_s3 v <? 65536)
  then Some (v_tag v ++ [v_struct v] ++ v_dev v ++ v_sig v ++ le_encode 2 (v_s1 v) ++ le_encode 2 (v_s2 v) ++
             le_encode 2 (v_s3 v) ++ [sender])
  else None.

Definition decode_version (m : list N) : option version :=
  match take 15 m with
  | Some b =>
    Some (mkVer (firstn 2 b) (nth 2 b 0) (firstn 2 (skipn 3 b)) (firstn 3 (skipn 5 b))
                (le_decode (firstn 2 (skipn 8 b))) (le_decode (firstn 2 (skipn 10 b))) (le_decode (firstn 2 (skipn 12 b))))
  | None => None
  end.

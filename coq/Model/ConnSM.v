(* Event-level model of connection loss / reconnect (protocol.py frame_producer / connection_lost /
   connection_established, connection.py _reconnect), finer than Model/Conn.v: a state machine over the faults,
   open results and back-off expiries in ANY order and number, with a log of what the devices and the transport see.
   `breaks` = the producer leaves its loop after a fault (the code as it is); breaks = false keeps it running
   (kept for the refutation).  `guarded` = connection_lost() does nothing when already disconnected. *)
From Coq Require Import NArith List Bool Arith.
From PV Require Import Generated.Tables.
Import ListNotations.

Inductive cev :=
| EFault          (* a read or write of a live producer ends in EOF / OSError / timeout *)
| EOpen (ok : bool)   (* the open attempt in progress completes *)
| EBackoff        (* the back-off sleep of a failed attempt ends *)
| ENewDevice.     (* a frame from a new address creates a device entry *)

Inductive lev :=
| LNew                  (* a device entry was created *)
| LDown (i : nat)       (* device i is told connected=False *)
| LClose                (* the transport is closed *)
| LOpen (ok : bool)     (* an open attempt *)
| LBackoff              (* the back-off interval has passed since a failed attempt *)
| LStartMaster          (* start-master handed to the transmit queue *)
| LUp (i : nat).        (* device i is told connected=True *)

Record cst := mkC {
  c_connected : bool;
  c_producers : nat;     (* live producer tasks *)
  c_consumers : nat;     (* live consumer tasks *)
  c_devices : nat;
  c_transports : nat;    (* transports opened and not yet closed *)
  c_opening : bool;      (* an open attempt is in progress *)
  c_sleeping : bool;     (* a failed attempt is in its back-off sleep *)
  c_log : list lev       (* newest first *)
}.

Definition downs (n : nat) : list lev := map LDown (seq 0 n).
Definition ups (n : nat) : list lev := map LUp (seq 0 n).

(* the state right after the first establishment *)
Definition cinit : cst := mkC true 1 (N.to_nat consumers_count) 0 1 false false [].

Definition cstep (breaks guarded : bool) (s : cst) (e : cev) : cst :=
  match e with
  | EFault =>
    match c_producers s with
    | O => s                                   (* nobody is reading or writing *)
    | S p =>
      let producers := if breaks then p else S p in
      if c_connected s || negb guarded then
        (* connection_lost: flag cleared, devices told, transport closed, reconnect routine invoked *)
        mkC false producers (c_consumers s) (c_devices s) (Nat.pred (c_transports s)) true (c_sleeping s)
            (rev (downs (c_devices s) ++ [LClose]) ++ c_log s)
      else
        mkC (c_connected s) producers (c_consumers s) (c_devices s) (c_transports s) (c_opening s) (c_sleeping s) (c_log s)
    end
  | EOpen ok =>
    if c_opening s then
      if ok then
        (* connection_established: start-master queued, one producer started, missing consumers replaced, devices told *)
        mkC true (S (c_producers s)) (Nat.max (c_consumers s) (N.to_nat consumers_count)) (c_devices s) (S (c_transports s))
            false (c_sleeping s) (rev ([LOpen true; LStartMaster] ++ ups (c_devices s)) ++ c_log s)
      else
        mkC (c_connected s) (c_producers s) (c_consumers s) (c_devices s) (c_transports s) false true (LOpen false :: c_log s)
    else s
  | EBackoff =>
    if c_sleeping s then
      mkC (c_connected s) (c_producers s) (c_consumers s) (c_devices s) (c_transports s) true false (LBackoff :: c_log s)
    else s
  | ENewDevice =>
    mkC (c_connected s) (c_producers s) (c_consumers s) (S (c_devices s)) (c_transports s) (c_opening s) (c_sleeping s) (LNew :: c_log s)
  end.

Definition crun (breaks guarded : bool) (evs : list cev) : cst := fold_left (cstep breaks guarded) evs cinit.
Definition clog (s : cst) : list lev := rev (c_log s).

(* the events of one loss / reconnect cycle of Model/Conn.v: a fault, `fails` failing attempts each followed by its back-off, a success *)
Fixpoint attempts (fails : nat) : list cev :=
  match fails with O => [EOpen true] | S k => EOpen false :: EBackoff :: attempts k end.
Definition cycle_events (fails : nat) : list cev := EFault :: attempts fails.

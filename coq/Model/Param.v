(* Model of the scaling code of the Number parameters (ecomax_parameters.py, mixer_parameters.py,
   thermostat_parameters.py): displayed value, raw value of a displayed value, normalisation. *)
From Coq Require Import ZArith NArith List Bool PrimFloat.
From PV Require Import Lib.PyFloat Generated.Tables.
Import ListNotations.
Open Scope Z_scope.

Definition mult_of (d : pdesc) : float := float_of_me (pd_mm d) (pd_me d).

(* Number.value / min_value / max_value:  round((raw - offset) * multiplier, precision) *)
Definition display (d : pdesc) (raw : Z) : option float :=
  py_round (PrimFloat.mul (float_of_Z (raw - pd_offset d)) (mult_of d)) (Z.of_N (pd_precision d)).

(* Number.set(value): value += offset; value = round(value / multiplier, precision); int(value) *)
Definition to_raw (d : pdesc) (x : float) : option Z :=
  match py_round (PrimFloat.div (PrimFloat.add x (float_of_Z (pd_offset d))) (mult_of d)) (Z.of_N (pd_precision d)) with
  | Some r => Some (py_int r)
  | None => None
  end.

(* C17 check for one (description, raw): displaying and writing back gives the raw value again *)
Definition inverse_ok (d : pdesc) (raw : Z) : bool :=
  match display d raw with
  | Some x => match to_raw d x with Some r => r =? raw | None => false end
  | None => false
  end.

(* Model of PhysicalDevice.update_frame_versions (devices/__init__.py) and of the dict built by
   FrameVersionsStructure (structures/frame_versions.py). *)
From Coq Require Import NArith List Bool.
From PV Require Import Lib.Bytes Generated.Tables Model.Frame.
Import ListNotations.
Open Scope N_scope.

(* dict(pairs): first occurrence fixes the position, the last value wins *)
Fixpoint dict_set (k v : N) (d : list (N * N)) : list (N * N) :=
  match d with
  | [] => [(k, v)]
  | (k', v') :: t => if k' =? k then (k, v) :: t else (k', v') :: dict_set k v t
  end.
Definition dict_of (pairs : list (N * N)) : list (N * N) :=
  fold_left (fun d kv => dict_set (fst kv) (snd kv) d) pairs [].

Fixpoint lookup (c : N) (m : list (N * N)) : option N :=
  match m with
  | [] => None
  | (k, v) :: t => if k =? c then Some v else lookup c t
  end.

Definition request_kind (c : N) : bool := existsb (fun kv => (fst kv =? c) && (snd kv =? 0)) frame_types.

(* has_frame_version(frame_type, version) *)
Definition has_version (m : list (N * N)) (c v : N) : bool :=
  match lookup c m with Some v' => v' =? v | None => false end.

(* one pass over the announced dict; the recorded versions are kept newest-first.
   A known kind that is not a request kind makes Request.create raise TypeError: the handler
   aborts (third component). *)
Fixpoint announce_pairs (unsup : list N) (m : list (N * N)) (l : list (N * N)) : list (N * N) * list N * bool :=
  match l with
  | [] => (m, [], false)
  | (c, v) :: t =>
    if known_kind c && negb (memN c unsup) && negb (has_version m c v) then
      if request_kind c then
        let '(m', o, a) := announce_pairs unsup ((c, v) :: m) t in (m', c :: o, a)
      else (m, [], true)
    else announce_pairs unsup m t
  end.

Definition announce (unsup : list N) (m : list (N * N)) (pairs : list (N * N)) : list (N * N) * list N * bool :=
  announce_pairs unsup m (dict_of pairs).

(* a history of announcements: outputs per announcement *)
Fixpoint announce_all (unsup : list N) (m : list (N * N)) (h : list (list (N * N))) : list (list N) * list (N * N) :=
  match h with
  | [] => ([], m)
  | a :: t =>
    let '(m1, o, _) := announce unsup m a in
    let '(os, m2) := announce_all unsup m1 t in (o :: os, m2)
  end.

(* histories in which set-up finishes at some point: before that no kind is unsupported *)
Inductive hev := HAnn (pairs : list (N * N)) | HSetup (unsup : list N).

Fixpoint announce_hist (unsup : list N) (m : list (N * N)) (h : list hev) : list (list N) :=
  match h with
  | [] => []
  | HAnn a :: t => let '(m1, o, _) := announce unsup m a in o :: announce_hist unsup m1 t
  | HSetup u :: t => [] :: announce_hist u m t
  end.

(* Universal value type crossing the extracted interface: integers and lists only. *)
From Coq Require Import NArith ZArith List Bool.
Import ListNotations.

Inductive uval := VZ (z : Z) | VL (l : list uval).

Definition vN (n : N) : uval := VZ (Z.of_N n).
Definition vnat (n : nat) : uval := VZ (Z.of_nat n).
Definition vbool (b : bool) : uval := VZ (if b then 1 else 0)%Z.
Definition vbytes (l : list N) : uval := VL (map vN l).
Definition vlist {A} (f : A -> uval) (l : list A) : uval := VL (map f l).
Definition vopt {A} (f : A -> uval) (o : option A) : uval :=
  match o with None => VL [] | Some a => VL [f a] end.

Definition getZ (v : uval) : Z := match v with VZ z => z | VL _ => 0%Z end.
Definition getN (v : uval) : N := Z.to_N (getZ v).
Definition getnat (v : uval) : nat := Z.to_nat (getZ v).
Definition getbool (v : uval) : bool := negb (Z.eqb (getZ v) 0).
Definition getL (v : uval) : list uval := match v with VL l => l | VZ _ => [] end.
Definition getbytes (v : uval) : list N := map getN (getL v).
Definition arg (i : nat) (v : uval) : uval := nth i (getL v) (VL []).
Definition getopt {A} (f : uval -> A) (v : uval) : option A :=
  match getL v with [] => None | a :: _ => Some (f a) end.

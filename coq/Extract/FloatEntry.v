(* Entry points evaluated inside Coq (vm_compute) for the float parts of the model: results are
   lists of integers so that the harness can parse them. *)
From Coq Require Import ZArith NArith List Bool PrimFloat String.
From PV Require Import Lib.PyFloat Generated.Tables Model.Param Spec.C17.
Import ListNotations.
Open Scope Z_scope.

Definition table (i : Z) : list pdesc :=
  match i with
  | 0 => ecomax_params_p | 1 => ecomax_params_i | 2 => mixer_params_p | 3 => mixer_params_i
  | 4 => thermostat_params | 5 => schedule_params | 6 => ecomax_control_param | _ => thermostat_profile_param
  end.
Definition dummy_desc : pdesc :=
  {| pd_name := ""%string; pd_switch := false; pd_mm := 1; pd_me := 0; pd_offset := 0; pd_precision := 6; pd_size := 1 |}.
Definition desc_at (tbl idx : Z) : pdesc := nth (Z.to_nat idx) (table tbl) dummy_desc.

Definition key_or_zero (x : float) : list Z :=
  let '(s, m, e) := float_key x in if m =? 0 then [0; 0; 0] else [s; m; e].

(* display: [ok; sign; mantissa; exponent] *)
Definition fe_display (tbl idx raw : Z) : list Z :=
  match display (desc_at tbl idx) raw with
  | Some x => 1 :: key_or_zero x
  | None => [0; 0; 0; 0]
  end.
(* to_raw of a displayed float: [ok; raw] *)
Definition fe_to_raw (tbl idx : Z) (x : float) : list Z :=
  match to_raw (desc_at tbl idx) x with Some r => [1; r] | None => [0; 0] end.

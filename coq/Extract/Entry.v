(* Entry points of the extracted model and spec relations: every one is uval -> uval. *)
From Coq Require Import NArith ZArith List Bool.
From PV Require Import Lib.Bytes Generated.Tables Model.Frame Model.Reader Spec.C01 Extract.Val.
Import ListNotations.
Open Scope N_scope.

Definition vframe (f : frame) : uval :=
  VL [vN (f_kind f); vN (f_rcpt f); vN (f_sender f); vN (f_etype f); vN (f_ever f); vbytes (f_payload f)].
Definition getframe (v : uval) : frame :=
  mkFrame (getN (arg 0 v)) (getN (arg 1 v)) (getN (arg 2 v)) (getN (arg 3 v)) (getN (arg 4 v)) (getbytes (arg 5 v)).

(* outcome tags: 0 delivered, 1 ignored, 2 read error, 3 checksum, 4 unknown device, 5 unknown frame, 6 broken *)
Definition voutcome (o : outcome) : uval :=
  match o with
  | Delivered f => VL [vN 0; vframe f]
  | Ignored => VL [vN 1]
  | ErrRead => VL [vN 2]
  | ErrChecksum => VL [vN 3]
  | ErrUnknownDevice => VL [vN 4]
  | ErrUnknownFrame => VL [vN 5]
  | Broken => VL [vN 6]
  end.
Definition getoutcome (v : uval) : outcome :=
  match getN (arg 0 v) with
  | 0 => Delivered (getframe (arg 1 v))
  | 1 => Ignored | 2 => ErrRead | 3 => ErrChecksum | 4 => ErrUnknownDevice | 5 => ErrUnknownFrame
  | _ => Broken
  end.

(* read_all : bytes -> list (consumed length, outcome) *)
Definition e_read_all (v : uval) : uval :=
  vlist (fun co => VL [vnat (length (fst co)); voutcome (snd co)]) (read_all (getbytes v)).

(* P01 on an observed behaviour: [stream; list (consumed length, outcome)] -> bool.
   The consumed pieces are re-cut from the stream by their lengths. *)
Fixpoint cut (s : list N) (ls : list (nat * outcome)) : list (list N * outcome) :=
  match ls with
  | [] => []
  | (n, o) :: t => (firstn n s, o) :: cut (skipn n s) t
  end.
Definition e_P01 (v : uval) : uval :=
  let s := getbytes (arg 0 v) in
  let ls := map (fun x => (getnat (arg 0 x), getoutcome (arg 1 x))) (getL (arg 1 v)) in
  vbool (P01 s (cut s ls)).

Definition e_frame_bytes (v : uval) : uval := vopt vbytes (frame_bytes (getframe v)).
Definition e_bcc (v : uval) : uval := vN (bcc (getbytes v)).

(* ---- envelope family ---- *)
From PV Require Import Spec.Envelope Spec.C03 Spec.C04 Spec.C14.

Definition getobserved (v : uval) : list (nat * outcome) :=
  map (fun x => (getnat (arg 0 x), getoutcome (arg 1 x))) (getL v).

Definition e_enc (v : uval) : uval := vbytes (enc (getframe v)).
Definition e_classify (v : uval) : uval := voutcome (classify (getframe v)).
Definition e_wf_frame (v : uval) : uval := vbool (wf_frame (getframe v)).

(* P04: [frames; observed] *)
Definition e_P04 (v : uval) : uval :=
  let fs := map getframe (getL (arg 0 v)) in
  let s := concat (map enc fs) in
  vbool (forallb wf_frame fs && P04 fs (cut s (getobserved (arg 1 v)))).

(* P14: [stream; observed] *)
Definition e_P14 (v : uval) : uval :=
  let s := getbytes (arg 0 v) in
  vbool (P14 s (cut s (getobserved (arg 1 v)))).

(* resynchronisation with the bound of the property text: some call delivers f and the bytes
   consumed before that call are fewer than |noise| + 1000 + |enc f|.  [noise; frame; k; observed] *)
Fixpoint first_delivery (f : frame) (pos : nat) (outs : list (nat * outcome)) : option nat :=
  match outs with
  | [] => None
  | (n, o) :: t => if outcome_is f o then Some pos else first_delivery f (pos + n) t
  end.
Definition e_resync (v : uval) : uval :=
  let noise := getbytes (arg 0 v) in
  let f := getframe (arg 1 v) in
  match first_delivery f 0 (getobserved (arg 3 v)) with
  | None => vbool false
  | Some pos => vbool (Nat.ltb pos (length noise + 1000 + length (enc f)))
  end.

(* C03: [frame; bytes produced by the implementation; observed reading of (bytes ++ rest); rest] *)
Definition e_P03_roundtrip (v : uval) : uval :=
  let f := getframe (arg 0 v) in
  let bs := getbytes (arg 1 v) in
  let obs := getobserved (arg 2 v) in
  let rest := getbytes (arg 3 v) in
  vbool (list_eqb N.eqb bs (enc f) &&
         match obs with
         | (n, o) :: _ => Nat.eqb n (length bs) && outcome_is f o
         | [] => false
         end).
Definition e_frame_eqb (v : uval) : uval := vbool (frame_eqb (getframe (arg 0 v)) (getframe (arg 1 v))).

(* ---- C02 ---- *)
From PV Require Import Model.Schedule Model.Requests Spec.C02.

Definition getreq (v : uval) : req :=
  match getN (arg 0 v) with
  | 0 => RPlain (getN (arg 1 v))
  | 1 => RParams (getN (arg 1 v)) (getN (arg 2 v)) (getN (arg 3 v))
  | 2 => RSetEcomax (getN (arg 1 v)) (getN (arg 2 v))
  | 3 => RSetMixer (getN (arg 1 v)) (getN (arg 2 v)) (getN (arg 3 v))
  | 4 => RSetThermostat (getN (arg 1 v)) (getopt getN (arg 2 v)) (getN (arg 3 v)) (getN (arg 4 v))
  | 5 => REcomaxControl (getN (arg 1 v))
  | 6 => RAlerts (getN (arg 1 v)) (getN (arg 2 v))
  | _ => RSetSchedule (getN (arg 1 v)) (getN (arg 2 v)) (getN (arg 3 v))
                      (map (fun d => map getbool (getL d)) (getL (arg 4 v)))
  end.

(* [req; rcpt; sender; etype; ever] -> option bytes *)
Definition e_req_bytes (v : uval) : uval :=
  vopt vbytes (req_bytes (getreq (arg 0 v)) (getN (arg 1 v)) (getN (arg 2 v)) (getN (arg 3 v)) (getN (arg 4 v))).
Definition e_req_ok (v : uval) : uval := vbool (req_ok (getreq v)).
Definition e_spec_payload (v : uval) : uval := vbytes (spec_payload (getreq v)).
(* P02 for a request: [req; rcpt; sender; etype; ever; bytes written by the implementation] *)
Definition e_P02_req (v : uval) : uval :=
  let r := getreq (arg 0 v) in
  vbool (P02_env (mkFrame (req_code r) (getN (arg 1 v)) (getN (arg 2 v)) (getN (arg 3 v)) (getN (arg 4 v)) (spec_payload r))
                 (getbytes (arg 5 v))).
(* P02 for a frame given by message: [frame; bytes] *)
Definition e_P02_env (v : uval) : uval := vbool (P02_env (getframe (arg 0 v)) (getbytes (arg 1 v))).
Definition e_tx_ok (v : uval) : uval := vbool (tx_ok (getframe v)).

(* ---- C19 ---- *)
From PV Require Import Model.DataTypes Spec.C19.
Definition getdtype (v : uval) : dtype :=
  match getN (arg 0 v) with
  | 0 => DTUndefined | 1 => DTSInt (getN (arg 1 v)) | 2 => DTUInt (getN (arg 1 v)) | 3 => DTFloat | 4 => DTDouble
  | 5 => DTBit | 6 => DTString | 7 => DTIPv4 | _ => DTIPv6
  end.
Definition getdval (v : uval) : dval :=
  match getN (arg 0 v) with
  | 0 => DNone | 1 => DInt (getZ (arg 1 v)) | 2 => DBits (getN (arg 1 v)) | 3 => DRaw (getbytes (arg 1 v))
  | _ => DBool (getbool (arg 1 v))
  end.
Definition vdval (d : dval) : uval :=
  match d with
  | DNone => VL [vN 0] | DInt z => VL [vN 1; VZ z] | DBits b => VL [vN 2; vN b] | DRaw b => VL [vN 3; vbytes b]
  | DBool b => VL [vN 4; vbool b]
  end.
Definition e_dt_pack (v : uval) : uval := vopt vbytes (pack (getdtype (arg 0 v)) (getdval (arg 1 v))).
Definition e_dt_unpack (v : uval) : uval :=
  vopt (fun r => VL [vdval (fst r); vnat (snd r)]) (unpack (getdtype (arg 0 v)) (getN (arg 1 v)) (getbytes (arg 2 v))).
Definition e_dt_representable (v : uval) : uval := vbool (representable (getdtype (arg 0 v)) (getdval (arg 1 v))).
(* [type; value; packed by impl; value read back by impl; size reported by impl] *)
Definition e_P19 (v : uval) : uval :=
  vbool (P19 (getdtype (arg 0 v)) (getdval (arg 1 v)) (getbytes (arg 2 v)) (getdval (arg 3 v)) (getnat (arg 4 v))).
Definition e_pack_var (v : uval) : uval := vopt vbytes (pack_var (getbytes v)).
Definition e_unpack_var (v : uval) : uval :=
  vopt (fun r => VL [vbytes (fst r); vnat (snd r)]) (unpack_var (getbytes v)).
Definition e_bit_next (v : uval) : uval := vN (bit_next (getN v)).

(* ---- C06 / C08 ---- *)
From PV Require Import Model.ParamSet Model.ParamSetHop Spec.C08 Spec.C06.
Definition gettriple (v : uval) : triple := mkTriple (getZ (arg 0 v)) (getZ (arg 1 v)) (getZ (arg 2 v)).
Definition vtriple (t : triple) : uval := VL [VZ (tv t); VZ (tlo t); VZ (thi t)].
Definition getpev (v : uval) : pev :=
  match getN (arg 0 v) with 0%N => Tick | _ => Report (gettriple (arg 1 v)) end.
Definition vpout (o : pout) : uval :=
  match o with
  | OSet r => VL [vN 0; VZ r] | ORefresh => VL [vN 1] | ORet b => VL [vN 2; vbool b] | ORaise => VL [vN 3]
  end.
Definition getpout (v : uval) : pout :=
  match getN (arg 0 v) with
  | 0%N => OSet (getZ (arg 1 v)) | 1%N => ORefresh | 2%N => ORet (getbool (arg 1 v)) | _ => ORaise
  end.
Definition gettracking (v : uval) : nat -> bool := fun i => nth i (map getbool (getL v)) false.

(* [tracking; triple; req; retries; events] -> [outputs per point; triple held at the end] *)
Definition e_run_set (v : uval) : uval :=
  let r := run_set (gettracking (arg 0 v)) (gettriple (arg 1 v)) (getZ (arg 2 v)) (getnat (arg 3 v))
                   (map getpev (getL (arg 4 v))) in
  VL [vlist (vlist vpout) (fst r); vtriple (vals (snd r))].
(* [tracking; triple; req; retries; reports inside the first transmission step; events] with events
   [0; reports inside that step] (timer expiry) | [1; triple] (report) -> [outputs per point; triple held at the end] *)
Definition getphev (v : uval) : phev :=
  match getN (arg 0 v) with 0%N => HTick (map gettriple (getL (arg 1 v))) | _ => HReport (gettriple (arg 1 v)) end.
Definition e_run_set_hop (v : uval) : uval :=
  let r := run_set_hop true (gettracking (arg 0 v)) (gettriple (arg 1 v)) (getZ (arg 2 v)) (getnat (arg 3 v))
                       (map gettriple (getL (arg 4 v))) (map getphev (getL (arg 5 v))) in
  VL [vlist (vlist vpout) (fst r); vtriple (vals (snd r))].
(* [tracking; triple; req; retries; events; observed outputs per point] *)
Definition e_P08 (v : uval) : uval :=
  vbool (P08 (gettracking (arg 0 v)) (gettriple (arg 1 v)) (getZ (arg 2 v)) (getnat (arg 3 v))
             (map getpev (getL (arg 4 v))) (map (fun o => map getpout (getL o)) (getL (arg 5 v)))).
(* [triple; req; observed outputs per point; triple held after the call] *)
Definition e_P06 (v : uval) : uval :=
  vbool (P06 (gettriple (arg 0 v)) (getZ (arg 1 v)) (map (fun o => map getpout (getL o)) (getL (arg 2 v)))
             (gettriple (arg 3 v))).

(* ---- C18 ---- *)
From PV Require Import Spec.C18.
Definition getbools (v : uval) : list bool := map getbool (getL v).
Definition vbools (l : list bool) : uval := VL (map vbool l).
(* [day; st; sh; sm; eh; em] *)
Definition e_set_state (v : uval) : uval :=
  vopt vbools (set_state (getbools (arg 0 v)) (getN (arg 1 v)) (getN (arg 2 v)) (getN (arg 3 v)) (getN (arg 4 v)) (getN (arg 5 v))).
(* [day; st; sh; sm; eh; em; observed result (option day)] *)
Definition e_P18_edit (v : uval) : uval :=
  vbool (P18_edit (getbools (arg 0 v)) (getN (arg 1 v)) (getN (arg 2 v)) (getN (arg 3 v)) (getN (arg 4 v)) (getN (arg 5 v))
                  (getopt getbools (arg 6 v))).
Definition e_encode_bitmap (v : uval) : uval := vbytes (encode_bitmap (map getbools (getL v))).
Definition e_decode_bitmap (v : uval) : uval := vlist vbools (decode_bitmap (getbytes v)).
Definition e_spec_bitmap (v : uval) : uval := vbytes (spec_bitmap (map getbools (getL v))).

(* ---- C15 ---- *)
From PV Require Import Model.Versions Spec.C15.
Definition getpairs (v : uval) : list (N * N) := map (fun p => (getN (arg 0 p), getN (arg 1 p))) (getL v).
(* [unsupported; history] -> [outputs per announcement; aborted flags] *)
Fixpoint announce_flags (unsup : list N) (m : list (N * N)) (h : list (list (N * N))) : list bool :=
  match h with
  | [] => []
  | a :: t => let '(m1, _, ab) := announce unsup m a in ab :: announce_flags unsup m1 t
  end.
Definition e_announce_all (v : uval) : uval :=
  let unsup := getbytes (arg 0 v) in
  let h := map getpairs (getL (arg 1 v)) in
  VL [vlist vbytes (fst (announce_all unsup [] h)); vlist vbool (announce_flags unsup [] h)].
(* [unsupported; history; observed outputs per announcement] *)
Definition e_P15 (v : uval) : uval :=
  let h := map getpairs (getL (arg 1 v)) in
  vbool (forallb wf_ann h && P15 (getbytes (arg 0 v)) h (map getbytes (getL (arg 2 v)))).
Definition e_wf_ann (v : uval) : uval := vbool (wf_ann (getpairs v)).
(* history events: [0; pairs] announcement, [1; unsupported] set-up finished *)
Definition gethev (v : uval) : hev :=
  match getN (arg 0 v) with 0%N => HAnn (getpairs (arg 1 v)) | _ => HSetup (getbytes (arg 1 v)) end.
Definition e_announce_hist (v : uval) : uval := vlist vbytes (announce_hist [] [] (map gethev (getL v))).
(* [history; observed outputs per event] *)
Definition e_P15h (v : uval) : uval :=
  let h := map gethev (getL (arg 0 v)) in
  vbool (forallb wf_hev h && P15h h (map getbytes (getL (arg 1 v)))).

(* ---- C16 ---- *)
From PV Require Import Model.Setup Spec.C16.
Definition getans (v : uval) : N -> option nat :=
  let l := map (fun p => (getN (arg 0 p), getopt getnat (arg 1 p))) (getL v) in
  fun k => match find (fun q => N.eqb (fst q) k) l with Some q => snd q | None => None end.
Definition vres (r : setup_result) : uval :=
  VL [vbytes (r_errors r); vnat (r_loaded_attempt r); vlist (fun p => VL [vN (fst p); vnat (snd p)]) (r_tx r); vbytes (r_data r)].
Definition getres (v : uval) : setup_result :=
  mkRes (getbytes (arg 0 v)) (getnat (arg 1 v)) (map (fun p => (getN (arg 0 p), getnat (arg 1 p))) (getL (arg 2 v))) (getbytes (arg 3 v)).
(* [mixers_present; answers; retries] *)
Definition e_timeline (v : uval) : uval := vres (timeline (getbool (arg 0 v)) (getans (arg 1 v)) (getnat (arg 2 v))).
(* [mixers_present; answers; retries; observed result] *)
Definition e_P16 (v : uval) : uval :=
  vbool (P16 (getbool (arg 0 v)) (getans (arg 1 v)) (getnat (arg 2 v)) setup_kinds (getres (arg 3 v))).

(* a further set-up of the same device: [mixers_present; answers of the first run; answers now; retries (; observed result)] *)
Definition e_timeline_again (v : uval) : uval :=
  vres (timeline_again (getbool (arg 0 v)) (getans (arg 1 v)) (getans (arg 2 v)) (getnat (arg 3 v))).
Definition e_P16_again (v : uval) : uval :=
  let mixers := getbool (arg 0 v) in
  let have := r_data (timeline mixers (getans (arg 1 v)) (getnat (arg 3 v))) in
  vbool (P16 mixers (effective have (getans (arg 2 v))) (getnat (arg 3 v)) setup_kinds (getres (arg 4 v))).

(* ---- C20 ---- *)
From PV Require Import Model.Filters Spec.C20.
Definition getfval (v : uval) : fval :=
  match getN (arg 0 v) with
  | 0%N => FNum (getZ (arg 1 v))
  | 1%N => FStr (getZ (arg 1 v))
  | 2%N => FList (map getZ (getL (arg 1 v)))
  | _ => FParam (getZ (arg 1 v)) (getZ (arg 2 v)) (getZ (arg 3 v)) (getbool (arg 4 v))
  end.
Definition vfval (x : fval) : uval :=
  match x with
  | FNum z => VL [vN 0; VZ z] | FStr i => VL [vN 1; VZ i] | FList l => VL [vN 2; VL (map VZ l)]
  | FParam v lo hi p => VL [vN 3; VZ v; VZ lo; VZ hi; vbool p]
  end.
Definition getfkind (v : uval) : fkind :=
  match getN (arg 0 v) with
  | 0%N => KOnChange | 1%N => KDebounce (getnat (arg 1 v)) | 2%N => KThrottle (getZ (arg 1 v)) | 3%N => KDelta
  | _ => KAggregate (getZ (arg 1 v))
  end.
Definition getcalls (v : uval) : list (Z * fval) := map (fun c => (getZ (arg 0 c), getfval (arg 1 c))) (getL v).
Definition getouts (v : uval) : list (option fval) := map (getopt getfval) (getL v).
(* [kind; t0; calls] -> [deliveries; final baseline (option); final pending sum] *)
Definition e_frun (v : uval) : uval :=
  let r := frun (getfkind (arg 0 v)) (finit (getfkind (arg 0 v)) (getZ (arg 1 v))) (getcalls (arg 2 v)) in
  VL [vlist (vopt vfval) (fst r); vopt vfval (f_value (snd r)); VZ (f_sum (snd r))].
(* overlapping calls: [kind; t0; events] with events [0; t; value] (a call) | [1] (the oldest running callback returns) *)
From PV Require Import Model.FiltersOverlap.
Definition getoev (v : uval) : oev :=
  match getN (arg 0 v) with 0%N => OCall (getZ (arg 1 v)) (getfval (arg 2 v)) | _ => ODone end.
Definition e_orun (v : uval) : uval :=
  let k := getfkind (arg 0 v) in
  let r := orun false k (mkO (finit k (getZ (arg 1 v))) []) (map getoev (getL (arg 2 v))) in
  VL [vlist (vopt vfval) (fst r); vopt vfval (f_value (o_f (snd r))); VZ (f_sum (o_f (snd r)))].
Definition e_frun2 (v : uval) : uval :=
  vlist (vopt vfval) (frun2 (getfkind (arg 0 v)) (getfkind (arg 1 v)) (finit (getfkind (arg 0 v)) (getZ (arg 2 v)))
                            (finit (getfkind (arg 1 v)) (getZ (arg 2 v))) (getcalls (arg 3 v))).
(* P20: [kind; t0; calls; observed deliveries; observed baseline (option); observed pending sum] *)
Definition e_P20 (v : uval) : uval :=
  let calls := getcalls (arg 2 v) in
  let outs := getouts (arg 3 v) in
  vbool
    match getfkind (arg 0 v) with
    | KOnChange => P_on_change None calls outs
    | KDebounce n => P_debounce n None 0 calls outs
    | KThrottle sec => P_throttle sec None calls outs && gaps_ok sec (delivery_times calls outs)
    | KDelta =>
        match calls, getopt getfval (arg 4 v) with
        | (_, FNum x0) :: _, Some (FNum base) =>
            Nat.eqb (length calls) (length outs) &&
            (sum_outs outs =? base - x0)%Z &&
            (Z.abs (num_of (snd (last calls (0%Z, FNum x0))) - base) <=? tol64)%Z
        | [], _ => match outs with [] => true | _ => false end
        | _, _ => false
        end
    | KAggregate sec =>
        Nat.eqb (length calls) (length outs) && (sum_outs outs + getZ (arg 5 v) =? sum_calls calls)%Z
    end.

(* ---- C13 ---- *)
From PV Require Import Model.EventMgr Spec.C13.
Definition getsub (v : uval) : sub :=
  match getN (arg 0 v) with 0%N => Plain (getnat (arg 1 v)) | _ => Once (getnat (arg 1 v)) (getnat (arg 2 v)) end.
Definition vsub (s : sub) : uval :=
  match s with Plain c => VL [vN 0; vnat c] | Once c w => VL [vN 1; vnat c; vnat w] end.
Definition getscript (v : uval) : script :=
  fun c => let e := nth c (getL v) (VL []) in (getnat (arg 0 e), getopt getZ (arg 1 e)).
Definition geteop (v : uval) : eop :=
  match getN (arg 0 v) with
  | 0%N => Subscribe (getnat (arg 1 v)) (getnat (arg 2 v))
  | 1%N => SubscribeOnce (getnat (arg 1 v)) (getnat (arg 2 v))
  | 2%N => Unsubscribe (getnat (arg 1 v)) (getsub (arg 2 v))
  | 3%N => Spawn (getnat (arg 1 v)) (getZ (arg 2 v))
  | 4%N => Resume (getnat (arg 1 v))
  | 5%N => Get (getnat (arg 1 v)) (getopt getZ (arg 2 v))
  | _ => Advance (getZ (arg 1 v))
  end.
Definition vlev (e : lev) : uval :=
  match e with
  | LSpawn t n x snap => VL [vN 0; vnat t; vnat n; VZ x; vlist vsub snap]
  | LCalled t s x => VL [vN 1; vnat t; vsub s; VZ x]
  | LStored t n x => VL [vN 2; vnat t; vnat n; VZ x]
  | LGot w n x => VL [vN 3; vnat w; vnat n; VZ x]
  | LTimeout w n => VL [vN 4; vnat w; vnat n]
  | LUnsub n s f => VL [vN 5; vnat n; vsub s; vbool f]
  | LSub n s => VL [vN 6; vnat n; vsub s]
  | LWait w n => VL [vN 7; vnat w; vnat n]
  end.
Definition getlev (v : uval) : lev :=
  match getN (arg 0 v) with
  | 0%N => LSpawn (getnat (arg 1 v)) (getnat (arg 2 v)) (getZ (arg 3 v)) (map getsub (getL (arg 4 v)))
  | 1%N => LCalled (getnat (arg 1 v)) (getsub (arg 2 v)) (getZ (arg 3 v))
  | 2%N => LStored (getnat (arg 1 v)) (getnat (arg 2 v)) (getZ (arg 3 v))
  | 3%N => LGot (getnat (arg 1 v)) (getnat (arg 2 v)) (getZ (arg 3 v))
  | 4%N => LTimeout (getnat (arg 1 v)) (getnat (arg 2 v))
  | 5%N => LUnsub (getnat (arg 1 v)) (getsub (arg 2 v)) (getbool (arg 3 v))
  | 6%N => LSub (getnat (arg 1 v)) (getsub (arg 2 v))
  | _ => LWait (getnat (arg 1 v)) (getnat (arg 2 v))
  end.
(* [script; ops] -> chronological log *)
Definition e_erun (v : uval) : uval := vlist vlev (rev (log (erun (getscript (arg 0 v)) (map geteop (getL (arg 1 v)))))).
(* [script; chronological log] *)
Definition e_P13 (v : uval) : uval := vbool (P13 (getscript (arg 0 v)) (map getlev (getL (arg 1 v)))).

(* ---- C03 structures ---- *)
From PV Require Import Model.Structs Spec.C03s.
Definition getnet (v : uval) : netinfo :=
  mkNet (getbytes (arg 0 v)) (getbytes (arg 1 v)) (getbytes (arg 2 v)) (getbool (arg 3 v))
        (getbytes (arg 4 v)) (getbytes (arg 5 v)) (getbytes (arg 6 v))
        (getbool (arg 7 v)) (getN (arg 8 v)) (getN (arg 9 v)) (getbool (arg 10 v)) (getbytes (arg 11 v)).
Definition vnet (n : netinfo) : uval :=
  VL [vbytes (e_ip n); vbytes (e_mask n); vbytes (e_gw n); vbool (e_status n); vbytes (w_ip n); vbytes (w_mask n);
      vbytes (w_gw n); vbool (n_server n); vN (w_enc n); vN (w_quality n); vbool (w_status n); vbytes (w_ssid n)].
Definition e_encode_netinfo (v : uval) : uval := vopt vbytes (encode_netinfo (getnet v)).
Definition e_decode_netinfo (v : uval) : uval := vopt vnet (decode_netinfo (getnat (arg 0 v)) (getbytes (arg 1 v))).
Definition e_wf_netinfo (v : uval) : uval := vbool (wf_netinfo (getnet v)).
Definition getver (v : uval) : version :=
  mkVer (getbytes (arg 0 v)) (getN (arg 1 v)) (getbytes (arg 2 v)) (getbytes (arg 3 v)) (getN (arg 4 v)) (getN (arg 5 v)) (getN (arg 6 v)).
Definition vver (x : version) : uval :=
  VL [vbytes (v_tag x); vN (v_struct x); vbytes (v_dev x); vbytes (v_sig x); vN (v_s1 x); vN (v_s2 x); vN (v_s3 x)].
Definition e_encode_version (v : uval) : uval := vopt vbytes (encode_version (getver (arg 0 v)) (getN (arg 1 v))).
Definition e_decode_version (v : uval) : uval := vopt vver (decode_version (getbytes v)).

(* ---- C09 ---- *)
From PV Require Import Model.Pipeline Spec.C09.
Definition getpframe (v : uval) : pframe := mkPF (getN (arg 0 v)) (getN (arg 1 v)) (getN (arg 2 v)) (getbool (arg 3 v)).
Definition vpairs (l : list (N * N)) : uval := vlist (fun p => VL [vN (fst p); vN (snd p)]) l.
(* [guarded; consumers; frames] -> [valid frames handed; replies; unfinished; alive; stuck] *)
Definition e_run_pipeline (v : uval) : uval :=
  let fs := map getpframe (getL (arg 2 v)) in
  let s := run_pipeline (getbool (arg 0 v)) (getnat (arg 1 v)) fs in
  let '(h, r, u) := observe09 fs s in
  VL [vbytes h; vpairs r; vnat u; vnat (alive s); vbytes (stuck s)].
(* [frames; valid frames handed; replies; unfinished] *)
Definition e_P09 (v : uval) : uval :=
  vbool (P09 (map getpframe (getL (arg 0 v))) (getbytes (arg 1 v)) (getpairs (arg 2 v)) (getnat (arg 3 v))).

(* ---- C10 ---- *)
From PV Require Import Model.DeviceEntry Spec.C10.
Definition getdevev (v : uval) : dev_ev :=
  match getN (arg 0 v) with 0%N => Arrive (getnat (arg 1 v)) | 1%N => CreateDone (getnat (arg 1 v)) | _ => UserGet (getnat (arg 1 v)) end.
Definition vnatpairs (l : list (nat * nat)) : uval := vlist (fun p => VL [vnat (fst p); vnat (snd p)]) l.
Definition getnatpairs (v : uval) : list (nat * nat) := map (fun p => (getnat (arg 0 p), getnat (arg 1 p))) (getL v).
(* [locked; events] -> [objects; setups; handled; got; pending creations; lock waiters] *)
Definition e_drun (v : uval) : uval :=
  let s := drun (getbool (arg 0 v)) (map getdevev (getL (arg 1 v))) in
  VL [vnat (next_obj s); vnat (setups s); vnatpairs (handled s); vnatpairs (got s); vnat (length (creating s)); vnat (length (waitq s))].
(* [objects; setups; handled; got] *)
Definition e_P10 (v : uval) : uval :=
  vbool (P10 (getnat (arg 0 v)) (getnat (arg 1 v)) (getnatpairs (arg 2 v)) (getnatpairs (arg 3 v))).

(* ---- C11 ---- *)
From PV Require Import Model.Conn Spec.C11.
Definition getcin (v : uval) : cycle_in := mkCin (getnat (arg 0 v)) (getnat (arg 1 v)).
Definition vcout (o : cycle_out) : uval :=
  VL [vlist vnat (co_down o); vnat (co_closes o); vlist (fun p => VL [vN (fst p); vbool (snd p)]) (co_opens o);
      vnat (co_startmaster o); vlist vnat (co_up o); vnat (co_producers o); vnat (co_consumers o)].
Definition getcout (v : uval) : cycle_out :=
  mkCout (map getnat (getL (arg 0 v))) (getnat (arg 1 v)) (map (fun p => (getN (arg 0 p), getbool (arg 1 p))) (getL (arg 2 v)))
         (getnat (arg 3 v)) (map getnat (getL (arg 4 v))) (getnat (arg 5 v)) (getnat (arg 6 v)).
Definition e_run_conn (v : uval) : uval := vlist vcout (run_conn (getbool (arg 0 v)) (map getcin (getL (arg 1 v)))).
(* [cycles in; observed cycles out] *)
Definition e_P11 (v : uval) : uval := vbool (P11 (map getcin (getL (arg 0 v))) (map getcout (getL (arg 1 v)))).

(* event-level model: events [0] fault | [1; ok] open result | [2] back-off over | [3] new device;
   log entries [0] new | [1; i] down | [2] close | [3; ok] open | [4] back-off | [5] start-master | [6; i] up *)
From PV Require Import Model.ConnSM.
Definition getcev (v : uval) : cev :=
  match getN (arg 0 v) with 0%N => EFault | 1%N => EOpen (getbool (arg 1 v)) | 2%N => EBackoff | _ => ENewDevice end.
Definition vlev11 (e : ConnSM.lev) : uval :=
  match e with
  | LNew => VL [vN 0] | LDown i => VL [vN 1; vnat i] | LClose => VL [vN 2] | LOpen ok => VL [vN 3; vbool ok]
  | LBackoff => VL [vN 4] | LStartMaster => VL [vN 5] | LUp i => VL [vN 6; vnat i]
  end.
Definition getlev11 (v : uval) : ConnSM.lev :=
  match getN (arg 0 v) with
  | 0%N => LNew | 1%N => LDown (getnat (arg 1 v)) | 2%N => LClose | 3%N => LOpen (getbool (arg 1 v))
  | 4%N => LBackoff | 5%N => LStartMaster | _ => LUp (getnat (arg 1 v))
  end.
Definition e_sm_log (v : uval) : uval := vlist vlev11 (clog (crun true true (map getcev (getL v)))).
Definition e_mon11 (v : uval) : uval := vbool (mon_ok (map getlev11 (getL v))).

(* ---- C12 ---- *)
From PV Require Import Model.Shutdown Spec.C12.
Definition getcstate (v : uval) : cstate :=
  mkCS (getbool (arg 0 v)) (getnat (arg 1 v)) (getnat (arg 2 v)) (getbool (arg 3 v)) (getbool (arg 4 v)) (getnat (arg 5 v))
       (getnatpairs (arg 6 v)) (getnatpairs (arg 7 v)).
Definition vcresult (r : cresult) : uval := VL [vbool (r_returns r); vN (r_seconds r); vnat (r_left r); vbool (r_writer_closed r)].
(* the walk of the connection's task set is not observable from outside: the reconnect chain as one running task *)
(* [state fields (8); stall: [] never / [d] confirmed after d seconds] *)
Definition e_close (v : uval) : uval :=
  vcresult (close true true true true true true [s_reconnecting (getcstate v)] 0 (getopt getN (arg 8 v)) (getcstate v)).
(* observed: [returns; seconds; tasks left; writer closed] *)
Definition e_P12 (v : uval) : uval :=
  vbool (P12 (mkCR (getbool (arg 0 v)) (getN (arg 1 v)) (getnat (arg 2 v)) (getbool (arg 3 v)))).

(* ---- C05 parameter blocks / C07 ---- *)
From PV Require Import Model.ParamBlocks Model.Handlers Spec.C05p Spec.C07.
From Coq Require Import String.
Definition getpvals (v : uval) : pvals := (getN (arg 0 v), getN (arg 1 v), getN (arg 2 v)).
Definition vpvals (p : pvals) : uval := let '(a, b, c) := p in VL [vN a; vN b; vN c].
Definition getslot (v : uval) : option pvals := getopt getpvals v.
Definition vindexed (l : list (N * pvals)) : uval := vlist (fun q => VL [vN (fst q); vpvals (snd q)]) l.
Definition getindexed (v : uval) : list (N * pvals) := map (fun q => (getN (arg 0 q), getpvals (arg 1 q))) (getL v).
Definition vblocks (l : list (N * list (N * pvals))) : uval := vlist (fun q => VL [vN (fst q); vindexed (snd q)]) l.
(* encoders: [b0; start; slots] *)
Definition e_enc_ecomax_params (v : uval) : uval :=
  vbytes (enc_ecomax_params (getN (arg 0 v)) (getN (arg 1 v)) (map getslot (getL (arg 2 v)))).
Definition e_decode_ecomax_params (v : uval) : uval := vopt vindexed (decode_ecomax_params (getbytes v)).
(* [b0; start; count; blocks] *)
Definition e_enc_mixer_params (v : uval) : uval :=
  vbytes (enc_mixer_params (getN (arg 0 v)) (getN (arg 1 v)) (getnat (arg 2 v)) (map (fun b => map getslot (getL b)) (getL (arg 3 v)))).
Definition e_decode_mixer_params (v : uval) : uval := vopt vblocks (decode_mixer_params (getbytes v)).
(* [b0; per; profile; blocks] *)
Definition e_enc_thermostat_params (v : uval) : uval :=
  vbytes (enc_thermostat_params (getN (arg 0 v)) (getnat (arg 1 v)) (getslot (arg 2 v)) (map (fun b => map getslot (getL b)) (getL (arg 3 v)))).
(* [thermostats; bytes] -> [] raises | [[]] none | [[profile; blocks]] *)
Definition e_decode_thermostat_params (v : uval) : uval :=
  vopt (vopt (fun r => VL [vopt vpvals (fst r); vblocks (snd r)])) (decode_thermostat_params (getN (arg 0 v)) (getbytes (arg 1 v))).
(* [b0; start; schedules([index; switch; param slot; week])] *)
Definition getsched (v : uval) : sched_val :=
  mkSched (getN (arg 0 v)) (getN (arg 1 v)) (getslot (arg 2 v)) (map getbools (getL (arg 3 v))).
Definition e_enc_schedules (v : uval) : uval := vbytes (enc_schedules (getN (arg 0 v)) (getN (arg 1 v)) (map getsched (getL (arg 2 v)))).
Definition e_decode_schedules (v : uval) : uval :=
  vopt (fun r => VL [vlist (fun q => VL [vN (fst q); vlist vbools (snd q)]) (fst r); vindexed (snd r)]) (decode_schedules (getbytes v)).

(* device handlers: ops [0; params] ecoMAX, [1; mixer; params], [2; thermostat; params];
   result per named parameter: [ctx tag; sub index; position of its name in the table; stored index; offset; size; request payload for its value] *)
Fixpoint name_pos (name : string) (t : list pdesc) (i : N) : N :=
  match t with [] => 999 | d :: r => if String.eqb (pd_name d) name then i else name_pos name r (i + 1) end.
Definition ctx_table (product : N) (c : pctx) : list pdesc :=
  match c with CEcomax => ecomax_table product | CMixer _ => mixer_table product | CThermostat _ _ => thermostat_params
             | CControl => ecomax_control_param | CProfile => thermostat_profile_param end.
Definition vparam (product : N) (np : string * param) : uval :=
  let '(name, p) := np in
  let '(v, _, _) := p_vals p in
  let '(tag, sub, off) := match p_ctx p with CEcomax => (0, 0, 0) | CMixer m => (1, m, 0) | CThermostat t o => (2, t, o)
                                           | CControl => (3, 0, 0) | CProfile => (4, 0, 0) end%N in
  VL [vN tag; vN sub; vN (name_pos name (ctx_table product (p_ctx p)) 0); vN (p_index p); vN off; vN (p_size p);
      vopt vbytes (payload_of (request_of p v))].
Definition e_handlers (v : uval) : uval :=
  let product := getN (arg 0 v) in
  let step (acc : pdata * list (N * pdata) * list (N * pdata)) (op : uval) :=
    let '(eco, mixers, therms) := acc in
    match getN (arg 0 op) with
    | 0%N => (handle_ecomax product eco (getindexed (arg 1 op)), mixers, therms)
    | 1%N =>
      let m := getN (arg 1 op) in
      let cur := match find (fun q => N.eqb (fst q) m) mixers with Some q => snd q | None => [] end in
      (eco, (m, handle_mixer product m cur (getindexed (arg 2 op))) :: filter (fun q => negb (N.eqb (fst q) m)) mixers, therms)
    | _ =>
      let t := getN (arg 1 op) in
      let cur := match find (fun q => N.eqb (fst q) t) therms with Some q => snd q | None => [] end in
      (eco, mixers, (t, handle_thermostat t cur (getindexed (arg 2 op))) :: filter (fun q => negb (N.eqb (fst q) t)) therms)
    end in
  let '(eco, mixers, therms) := fold_left step (getL (arg 1 v)) ([], [], []) in
  VL (map (vparam product) eco ++ flat_map (fun q => map (vparam product) (snd q)) mixers ++
      flat_map (fun q => map (vparam product) (snd q)) therms).

(* ---- C05 decoders ---- *)
From PV Require Import Model.SensorData Model.OtherKinds.
Definition vthermo (q : N * thermo) : uval :=
  VL [vN (fst q); vN (th_state (snd q)); vN (th_current (snd q)); vN (th_target (snd q)); vbool (th_contacts (snd q)); vbool (th_schedule (snd q))].
Definition vmixer (q : N * mixer_s) : uval := VL [vN (fst q); vN (mx_current (snd q)); vN (mx_target (snd q)); vbool (mx_pump (snd q))].
Definition vsensors (s : sensors) : uval :=
  VL [vpairs (s_versions s); vN (s_state s); vN (s_outputs s); vN (s_flags s); vpairs (s_temps s); vbytes (s_statuses s);
      vN (s_pending s); vopt vN (s_fuel_level s); vN (s_transmission s); vopt vN (s_fan_power s); vopt vN (s_boiler_load s);
      vopt vN (s_boiler_power s); vopt vN (s_fuel_consumption s); vN (s_thermostat s); vlist (vopt vbytes) (s_modules s);
      vopt (fun l => let '(a, b, c) := l in VL [vN a; vN b; vN c]) (s_lambda s);
      vopt (fun t => VL [vN (fst t); vlist vthermo (snd t)]) (s_thermostats s);
      VL [vN (fst (s_mixers s)); vlist vmixer (snd (s_mixers s))]].
Definition e_decode_sensor (v : uval) : uval := vopt (fun r => VL [vsensors (fst r); vnat (snd r)]) (decode_sensor_data (getbytes v)).
Definition e_decode_schema (v : uval) : uval := vopt (vopt vpairs) (decode_schema (getbytes v)).
(* [schema option; bytes] *)
Definition e_decode_regdata (v : uval) : uval :=
  vopt (vopt (fun r => VL [vpairs (fst r); vopt (vlist (fun q => VL [vN (fst q); vdval (snd q)])) (snd r)]))
       (decode_regdata (getopt getpairs (arg 0 v)) (getbytes (arg 1 v))).
(* schedule index a set-schedule request is routed to for position j of the schedule-parameter table *)
From PV Require Import Model.SchedRoute.
Definition e_routed_schedule (v : uval) : uval :=
  vopt vnat (match nth_error schedule_params (getnat v) with Some d => routed_index (pd_name d) | None => None end).
(* the Coq layout of regulator data: [[id; code; value]...] -> [admissible; bytes] *)
From PV Require Import Spec.C05r.
Definition e_enc_regdata (v : uval) : uval :=
  let l := map (fun q => mkRE (getN (arg 0 q)) (getN (arg 1 q)) (getdval (arg 2 q))) (getL v) in
  VL [vbool (forallb entry_ok l); vbytes (enc_entries [] l)].
Definition vdt (d : N * N * N * N * N * N) : uval := let '(y, mo, dd, h, mi, s) := d in VL [vN y; vN mo; vN dd; vN h; vN mi; vN s].
Definition e_decode_alerts (v : uval) : uval :=
  vopt (fun r => VL [vN (fst r); vopt (vlist (fun a => VL [vN (a_code a); vdt (a_from a); vopt vdt (a_to a)])) (snd r)]) (decode_alerts (getbytes v)).
Definition e_decode_product (v : uval) : uval :=
  vopt (fun p => VL [vN (pr_type p); vN (pr_id p); vbytes (pr_uid p); vN (pr_logo p); vN (pr_image p); vbytes (pr_model p)]) (decode_product (getbytes v)).
Definition e_decode_password (v : uval) : uval := vopt vbytes (decode_password (getbytes v)).

(* ---- C05 spec encoders ---- *)
From PV Require Import Spec.C05s.
Definition getsv (v : uval) : sensor_val :=
  mkSV (getpairs (arg 0 v)) (getN (arg 1 v)) (getN (arg 2 v)) (getN (arg 3 v)) (getpairs (arg 4 v)) (getbytes (arg 5 v))
       (getbytes (arg 6 v)) (getN (arg 7 v)) (getN (arg 8 v)) (getN (arg 9 v)) (getN (arg 10 v)) (getN (arg 11 v)) (getN (arg 12 v))
       (getN (arg 13 v)) (map (getopt getbytes) (getL (arg 14 v)))
       (getopt (fun l => (getN (arg 0 l), getN (arg 1 l), getN (arg 2 l))) (arg 15 v))
       (getopt (fun t => (getN (arg 0 t), map (fun x => mkTV (getN (arg 0 x)) (getN (arg 1 x)) (getN (arg 2 x))) (getL (arg 1 t)))) (arg 16 v))
       (map (fun x => mkMV (getN (arg 0 x)) (getN (arg 1 x)) (getN (arg 2 x)) (getN (arg 3 x)) (getN (arg 4 x))) (getL (arg 17 v))).
Definition e_enc_sensor (v : uval) : uval := vbytes (enc_sensor (getsv v)).
Definition e_view_sensor (v : uval) : uval := vsensors (view_sensor (getsv v)).
Definition e_wf_sensor (v : uval) : uval := vbool (wf_sensor (getsv v)).
Definition e_enc_schema (v : uval) : uval := vbytes (enc_schema (getpairs v)).

(* Entry points of the extracted model and spec relations: every one is uval -> uval. *)
From Coq Require Import NArith ZArith List Bool.
From PV Require Import Lib.Bytes Generated.Tables Model.Frame Model.Reader Spec.C01 Extract.Val.
Import ListNotations.
Open Scope N_scope.

Definition vframe (f : frame) : uval :=
  VL [vN (f_kind f); vN (f_rcpt f); vN (f_sender f); vN (f_etype f); vN (f_ever f); vbytes (f_payload f)].
Definition getframe (v : uval) : frame :=
  mkFrame (getN (arg 0 v)) (getN (arg 1 v)) (getN (arg 2 v)) (getN (arg 3 v)) (getN (arg 4 v)) (getbytes (arg 5 v)).

(* outcome tags: 0 delivered, 1 ignored, 2 read error, 3 checksum, 4 unknown device, 5 unknown frame, 6 broken *)
Definition voutcome (o : outcome) : uval :=
  match o with
  | Delivered f => VL [vN 0; vframe f]
  | Ignored => VL [vN 1]
  | ErrRead => VL [vN 2]
  | ErrChecksum => VL [vN 3]
  | ErrUnknownDevice => VL [vN 4]
  | ErrUnknownFrame => VL [vN 5]
  | Broken => VL [vN 6]
  end.
Definition getoutcome (v : uval) : outcome :=
  match getN (arg 0 v) with
  | 0 => Delivered (getframe (arg 1 v))
  | 1 => Ignored | 2 => ErrRead | 3 => ErrChecksum | 4 => ErrUnknownDevice | 5 => ErrUnknownFrame
  | _ => Broken
  end.

(* read_all : bytes -> list (consumed length, outcome) *)
Definition e_read_all (v : uval) : uval :=
  vlist (fun co => VL [vnat (length (fst co)); voutcome (snd co)]) (read_all (getbytes v)).

(* P01 on an observed behaviour: [stream; list (consumed length, outcome)] -> bool.
   The consumed pieces are re-cut from the stream by their lengths. *)
Fixpoint cut (s : list N) (ls : list (nat * outcome)) : list (list N * outcome) :=
  match ls with
  | [] => []
  | (n, o) :: t => (firstn n s, o) :: cut (skipn n s) t
  end.
Definition e_P01 (v : uval) : uval :=
  let s := getbytes (arg 0 v) in
  let ls := map (fun x => (getnat (arg 0 x), getoutcome (arg 1 x))) (getL (arg 1 v)) in
  vbool (P01 s (cut s ls)).

Definition e_frame_bytes (v : uval) : uval := vopt vbytes (frame_bytes (getframe v)).
Definition e_bcc (v : uval) : uval := vN (bcc (getbytes v)).

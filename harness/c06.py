"""C06 -- no write request ever carries a value outside the controller-reported range."""
from __future__ import annotations

from harness import coqeval, model, param_impl, vloop
from harness import frames_gen as G
from harness.common import Prop


class C06(Prop):
    id = "C06"
    prop_file = "Props/C06.v"
    rule = ("every description of every table (ecoMAX P/I, mixer P/I, thermostat, control, profile) x triples {(v,0,max), (v,10,20), inverted "
            "(v,20,10), v outside its own range} x requested raw in {min-1, min, max, max+1, v, interior} rendered as int, as the displayed float, "
            "as displayed float +/- 1e-7, as bool / 'on' / 'off' for switches; observed: ValueError or not, queued set requests and their raw "
            "value, held triple right after the call; sessions of several calls, and calls with out-of-range values arriving while an in-range call is pending.  The raw encoding of a float request is computed by the Coq model (vm_compute, PrimFloat).  "
            "Non-trivial = request differs from the held value; distinct by case content.")
    assumptions = ["non-finite floats have no raw encoding (int(inf) raises OverflowError) and are outside the domain",
                   "schedule parameters (table 5) are exercised under C07/C18 where their device context exists"]

    def generate(self, rng, tier):
        t = G.tables()
        cases = []
        per = 6 if tier == "quick" else 40
        for tbl, name in enumerate(param_impl.TABLES):
            if tbl == 5:
                continue
            for idx, d in enumerate(t[name]):
                hi = 255 if d["size"] == 1 else 65535
                for _ in range(per):
                    shape = rng.choice(["full", "mid", "inverted", "outside", "point"])
                    v = rng.randrange(hi + 1)
                    if shape == "full":
                        tr = [v, 0, hi]
                    elif shape == "mid":
                        lo = rng.randrange(0, hi)
                        tr = [rng.randrange(lo, min(hi, lo + 40) + 1), lo, min(hi, lo + 40)]
                    elif shape == "inverted":
                        tr = [v, 20, 10]
                    elif shape == "outside":
                        tr = [rng.choice([5, 35, hi]), 10, 30]
                    else:
                        tr = [v, v, v]
                    if d["switch"]:
                        tr = rng.choice([[0, 0, 1], [1, 0, 1], [1, 0, 0], [0, 1, 1], [2, 0, 1]])
                        reqs = [("str", "on"), ("str", "off"), ("bool", True), ("bool", False), ("int", 0), ("int", 1), ("int", 2)]
                        kind, val = rng.choice(reqs)
                        cases.append({"kind": "switch:" + kind, "tbl": tbl, "idx": idx, "triple": tr, "vkind": kind, "value": val})
                        continue
                    lo, hb = tr[1], tr[2]
                    raw = rng.choice([lo - 1, lo, hb, hb + 1, tr[0], rng.randrange(0, hi + 1), lo + 1, hb - 1])
                    if raw < 0 and d["offset"] == 0:
                        raw = rng.choice([lo, hb + 1])
                    render = rng.choice(["int", "display", "display+", "display-"])
                    cases.append({"kind": "number:" + render + ":" + shape, "tbl": tbl, "idx": idx, "triple": tr, "vkind": render,
                                  "raw_hint": raw, "mult": d["multiplier"], "offset": d["offset"]})
        # the call made through Device.set(name, value) of the owning device, the requested NUMBER being numerically equal to the raw
        # value held (scaled descriptions: its raw encoding is another value, often outside the range)
        for tbl, name in enumerate(param_impl.TABLES):
            if tbl not in (0, 1, 2, 3, 4):
                continue
            for idx, d in enumerate(t[name]):
                if d["switch"] or (d["multiplier"] == 1.0 and d["offset"] == 0):
                    continue
                hi = 255 if d["size"] == 1 else 65535
                for _ in range(2 if tier == "quick" else 12):
                    h = rng.randrange(1, 60)
                    shape = rng.choice(["tight", "wide"])
                    tr = [h, 0, min(hi, h + rng.randrange(0, 8))] if shape == "tight" else [h, 0, hi]
                    cases.append({"kind": "number:device-set:" + shape, "tbl": tbl, "idx": idx, "triple": tr, "vkind": "literal", "value": h,
                                  "mult": d["multiplier"], "offset": d["offset"], "via_device": True})
        # sessions: an unconfirmed call, reports that move the bounds (also with the old value), then a second call
        plain = [(tbl, idx) for tbl, name in enumerate(param_impl.TABLES) if tbl != 5
                 for idx, d in enumerate(t[name]) if not d["switch"] and d["multiplier"] == 1.0 and d["offset"] == 0 and d["size"] == 1]
        for _ in range(150 if tier == "quick" else 3000):
            tbl, idx = rng.choice(plain)
            v = rng.randrange(20, 200)
            lo, hi = rng.randrange(0, v + 1), rng.randrange(v, 256)
            req1 = rng.choice([x for x in (lo, hi, min(hi, v + 3), max(lo, v - 3)) if x != v] or [v])
            retries = rng.choice([1, 2])
            nlo, nhi = rng.randrange(lo, v + 1), rng.randrange(v, hi + 1)
            evs = []
            for _ in range(rng.randrange(1, 5)):
                r = rng.random()
                if r < 0.4:
                    evs.append([0])
                elif r < 0.75:
                    evs.append([1, [v, nlo, nhi]])                    # old value, new bounds
                else:
                    evs.append([1, [rng.choice([req1, v]), rng.randrange(lo, v + 1), rng.randrange(v, hi + 1)]])
            evs += [[0]] * (retries + 1)
            req2 = rng.choice([lo, hi, nlo - 1, nhi + 1, nlo, nhi, rng.randrange(0, 256)])
            if req2 < 0:
                req2 = nhi + 1
            cases.append({"kind": "session", "tbl": tbl, "idx": idx, "triple": [v, lo, hi],
                          "calls": [[req1, retries, evs], [req2, 1, []]]})
        # the triple reaches the parameter the way it does in use: decoded from an ecoMAX-parameters response frame by a real device
        # (inverted and degenerate ranges included), then set() is called on the parameter the device created
        eco = [(tbl, idx) for tbl, idx in plain if tbl in (0, 1)]
        for _ in range(80 if tier == "quick" else 1500):
            tbl, idx = rng.choice(eco)
            shape = rng.choice(["inverted", "inverted", "point", "mid", "full"])
            if shape == "inverted":
                hi_, lo_ = sorted(rng.sample(range(0, 255), 2))
                tr = [rng.randrange(255), lo_, hi_]            # min > max
            elif shape == "point":
                v = rng.randrange(255)
                tr = [v, v, v]
            elif shape == "mid":
                lo_ = rng.randrange(0, 200)
                tr = [rng.randrange(lo_, lo_ + 41), lo_, lo_ + 40]
            else:
                tr = [rng.randrange(255), 0, 254]
            if tr == [255, 255, 255]:
                tr = [1, 255, 255]
            req = rng.choice([tr[1], tr[2], (tr[1] + tr[2]) // 2, tr[1] - 1 if tr[1] > 0 else tr[2] + 1, tr[2] + 1, rng.randrange(255)])
            cases.append({"kind": "frames:" + shape, "tbl": tbl, "idx": idx, "triple": tr, "vkind": "int", "raw_hint": req, "mult": 1.0,
                          "offset": 0, "b0": rng.randrange(256)})
        # overlapping calls: while an in-range call is pending (between its retransmissions), further set() calls with values
        # outside the range arrive on the same parameter: each must raise, transmit nothing, and leave the pending call's
        # retransmissions carrying the value that was accepted
        for _ in range(80 if tier == "quick" else 1500):
            tbl, idx = rng.choice(plain)
            v = rng.randrange(20, 200)
            lo, hi = rng.randrange(0, v + 1), rng.randrange(v, 255)
            req = rng.choice([x for x in (lo, hi, min(hi, v + 3), max(lo, v - 3)) if x != v] or [v])
            retries = rng.choice([2, 3, 4])
            evs = []
            for _ in range(rng.randrange(1, 6)):
                evs.append([0] if rng.random() < 0.5 else [2, rng.choice([hi + 1, 255, lo - 1 if lo > 0 else hi + 1, hi + rng.randrange(1, 50)])])
            evs += [[0]] * 2
            cases.append({"kind": "overlap", "tbl": tbl, "idx": idx, "triple": [v, lo, hi], "req": req, "retries": retries, "events": evs})
        return cases

    def _pyvalue(self, c):
        """The Python value handed to set() and the float the model scales."""
        if c["vkind"] in ("str", "bool", "literal"):
            return c["value"]
        if c["vkind"] == "int" and c["kind"].startswith("switch"):
            return c["value"]
        raw = c["raw_hint"]
        x = round((raw - c["offset"]) * c["mult"], 6)
        if c["vkind"] == "int":
            return int(x)
        if c["vkind"] == "display+":
            return x + 1e-7
        if c["vkind"] == "display-":
            return x - 1e-7
        return x

    def run_impl(self, c):
        if c["kind"] == "mixers":
            return self._mixer_run(c)
        if c["kind"] == "reports":
            return self._reports_run(c)
        if c["kind"] == "overlap":
            return vloop.run(param_impl.run_overlap, c["tbl"], c["idx"], c["triple"], c["req"], c["retries"], c["events"])
        if c["kind"].startswith("frames:"):
            payload = list(model.call("enc_ecomax_params", [c["b0"], c["idx"], [[c["triple"]]]]))
            outs, after, _ = vloop.run(param_impl.run_set_call_frames, c["tbl"], c["idx"], c["triple"], self._pyvalue(c), 2, 5.0, [],
                                       False, [payload])
            return [outs, after]
        if c["kind"] == "session":
            return vloop.run(param_impl.run_session, c["tbl"], c["idx"], c["triple"], c["calls"], False)
        outs, after, after_call = vloop.run(param_impl.run_set_call, c["tbl"], c["idx"], c["triple"], self._pyvalue(c), 2, 5.0, [],
                                            False, 0, c.get("via_device", False))
        return [outs, after_call]

    def _reqs(self, cases):
        """Raw encoding of every request, by the Coq model."""
        if getattr(self, "_req_cache_for", None) is cases:
            return self._req_cache
        exprs, idx = [], []
        reqs = [None] * len(cases)
        for i, c in enumerate(cases):
            if c["kind"] in ("session", "overlap"):
                reqs[i] = c["kind"]
                continue
            v = self._pyvalue(c)
            if c["kind"].startswith("switch"):
                reqs[i] = (1 if v == "on" else 0) if isinstance(v, str) else int(v)
            else:
                exprs.append(f"fe_to_raw {c['tbl']} {c['idx']} {coqeval.float_lit(float(v))}")
                idx.append(i)
        for i, r in zip(idx, coqeval.eval_many(exprs, "C06")):
            reqs[i] = r[1] if r[0] == 1 else None
        self._req_cache_for, self._req_cache = cases, reqs
        return reqs

    def model_many(self, cases):
        if cases and all(c["kind"] in ("mixers", "reports") for c in cases):
            return [None] * len(cases)
        reqs = self._reqs(cases)
        fix = lambda r: [[([o[0], bool(o[1])] if o[0] == 2 else o) for o in pt] for pt in r]
        args = [[[False] * 4, c["triple"], (r if isinstance(r, int) else 0), 2, []] for c, r in zip(cases, reqs)]
        res = model.call_many("run_set", args)
        out = []
        for c, r, q in zip(cases, res, reqs):
            if q is None:
                out.append(None)
            elif q == "overlap":
                # the intruding calls are no-ops of the model: the pending call sees only the timer expiries
                expiries = [ev for ev in c["events"] if ev[0] == 0]
                m = model.call("run_set", [[False] * 8, c["triple"], c["req"], c["retries"], expiries])
                tx = [[o[1] for o in pt if o[0] == 0] for pt in m[0]]
                pts, k = [tx[0]], 1
                for ev in c["events"]:
                    if ev[0] == 0:
                        pts.append(tx[k])
                        k += 1
                    else:
                        pts.append([])
                out.append([pts, [["ValueError"] for ev in c["events"] if ev[0] == 2], None])
            elif q == "session":
                held = c["triple"]
                sess = []
                for req, retries, evs in c["calls"]:
                    m = model.call("run_set", [[False] * 8, held, req, retries, evs])
                    m0 = model.call("run_set", [[False] * 8, held, req, retries, []])
                    sess.append([fix(m[0]), held, m0[1]])
                    held = m[1]
                out.append(sess)
            else:
                out.append([fix(r[0]), r[1]])
        return out

    def obs(self, c, b):
        if b is None:
            return None
        if c["kind"] == "overlap":
            return [b[0], b[1]]
        if c["kind"] == "session":
            return [[[[o for o in pt if o[0] in (0, 3)] for pt in call[0]], call[1], call[2]] for call in b]
        # the optimistic local value is part of the observation; the return value of an in-range call is C08's business
        return [[[o for o in pt if o[0] in (0, 3)] for pt in b[0]], b[1]]

    def spec_many(self, cases, behaviours):
        if cases and all(c["kind"] in ("mixers", "reports") for c in cases):
            return [(self._mixer_ok if c["kind"] == "mixers" else self._reports_ok)(c, b) for c, b in zip(cases, behaviours)]
        reqs = self._reqs(cases)
        args, idx = [], []
        res = [True] * len(cases)
        for i, (c, b, q) in enumerate(zip(cases, behaviours, reqs)):
            if q is None:
                continue
            if q == "overlap":
                pts, intr, held = b
                lo, hi = c["triple"][1], c["triple"][2]
                res[i] = (all(x == c["req"] and lo <= x <= hi for pt in pts for x in pt) and all(r == ["ValueError"] for r in intr)
                          and all(pts[k + 1] == [] for k, ev in enumerate(c["events"]) if ev[0] == 2)
                          and held[1:] == [lo, hi] and lo <= held[0] <= hi)
                continue
            if q == "session":
                # each call is judged against the bounds the controller LAST REPORTED before it (ground truth of the
                # harness, not the implementation's state) and the value held when it was made
                lo, hi = c["triple"][1], c["triple"][2]
                ok = True
                for (req, retries, evs), call in zip(c["calls"], b):
                    outs, before, after_call = call
                    if any(isinstance(o[0], str) for pt in outs for o in pt):
                        ok = False
                        break
                    ok = ok and bool(model.call("P06", [[before[0], lo, hi], req, outs, after_call if not (lo <= req <= hi) else [before[0], lo, hi]]))
                    for ev in evs:
                        if ev[0] == 1:
                            lo, hi = ev[1][1], ev[1][2]
                res[i] = ok
                continue
            if any(isinstance(o[0], str) for pt in b[0] for o in pt):
                res[i] = False
                continue
            args.append([c["triple"], q, b[0], b[1]])
            idx.append(i)
        for i, r in zip(idx, model.call_many("P06", args)):
            res[i] = bool(r)
        return res

    # ---- mixers of a real device: the ranges reach each Mixer through the ecoMAX's decoding of multi-mixer responses ----
    def _mixer_case(self, rng):
        t = G.tables()
        product = rng.choice([0, 1])
        tab = t[param_impl.TABLES[2 + product]]
        plain = [i for i, d in enumerate(tab) if not d["switch"] and d["multiplier"] == 1.0 and d["offset"] == 0 and d["size"] == 1]
        pidx = rng.choice(plain)
        nm = rng.choice([2, 2, 3, 4])
        reports = []
        for _ in range(rng.choice([1, 1, 2, 3])):
            slots = []
            for m in range(nm):
                if rng.random() < 0.35:
                    slots.append(None)                                   # this mixer is not connected: its block is all 0xFF
                else:
                    lo = rng.randrange(0, 100)
                    hi = rng.randrange(lo, 255)
                    slots.append([rng.randrange(lo, hi + 1), lo, hi])
            if all(x is None for x in slots):
                slots[rng.randrange(nm)] = [40, 30, 60]
            reports.append(slots)
        mixer = rng.randrange(nm)
        last = next((r[mixer] for r in reversed(reports) if r[mixer] is not None), None)
        cand = [0, 254, rng.randrange(255)]
        for r in reports:
            for x in r:
                if x is not None:
                    cand += [x[1], x[2], x[2] + 1, max(0, x[1] - 1)]
        value = rng.choice([c for c in cand if 0 <= c <= 254])
        return {"kind": "mixers", "product": product, "pidx": pidx, "reports": reports, "mixer": mixer, "value": value, "last": last,
                "b0": rng.randrange(256)}

    def _mixer_run(self, c):
        payloads = []
        for slots in c["reports"]:
            blocks = [[([x] if x is not None else [])] for x in slots]
            payloads.append(list(model.call("enc_mixer_params", [c["b0"], c["pidx"], 1, blocks])))
        return vloop.run(param_impl.run_mixer_session, c["product"], payloads, c["mixer"], c["pidx"], c["value"])

    def _mixer_ok(self, c, b):
        """judged against what the controller last reported for THAT mixer (ground truth of the harness)"""
        last = c["last"]
        if last is None:
            # nothing was ever reported for this mixer: no range exists, so nothing may be written to it
            return b in (["no-mixer"], ["no-parameter"]) or (len(b) == 3 and b[1] == [])
        if len(b) != 3:
            return False
        out, sent, held = b
        v, lo, hi = c["value"], last[1], last[2]
        if lo <= v <= hi:
            return out != "ValueError" and all(m == [c["mixer"], c["pidx"], v] for m in sent) and held[1:] == [lo, hi] and \
                (sent != [] or v == last[0])
        return out == "ValueError" and sent == [] and held == last

    # ---- reports arriving back to back on a device whose parameter events have (slow) user subscribers ----
    def _reports_case(self, rng):
        t = G.tables()
        product = rng.choice([0, 1])
        tab = t[param_impl.TABLES[product]]
        plain = [i for i, d in enumerate(tab) if not d["switch"] and d["multiplier"] == 1.0 and d["offset"] == 0 and d["size"] == 1 and i < 40]
        first = rng.randrange(0, 6)
        count = rng.randrange(3, 9)
        cand = [i for i in plain if first <= i < first + count]
        if not cand:
            return None
        pidx = rng.choice(cand)
        reports = []
        settled_first = rng.random() < 0.5
        for _ in range(rng.choice([2, 2, 3]) + (1 if settled_first else 0)):
            slots = []
            for i in range(count):
                lo = rng.randrange(0, 100)
                hi = rng.randrange(lo, 255)
                if rng.random() < 0.15:
                    slots.append([255, lo, 255])            # a value byte of 0xFF is a value like any other while the limits are defined
                else:
                    slots.append([rng.randrange(lo, hi + 1), lo, hi])
            reports.append(slots)
        last = reports[-1][pidx - first]
        # (when the first report is handled on its own, the subscribers are slow on their SECOND call: the first of the burst)
        slow = [[first + i, rng.choice([1, 2, 5]), 2 if settled_first else 1] for i in range(count) if rng.random() < 0.4]
        cands = [0, 254]
        for r in reports:
            x = r[pidx - first]
            cands += [x[1], x[2], x[2] + 1, max(0, x[1] - 1), (x[1] + x[2]) // 2]
        value = rng.choice([c for c in cands if 0 <= c <= 255])
        return {"kind": "reports", "product": product, "first": first, "pidx": pidx, "reports": reports, "slow": slow, "value": value,
                "last": last, "b0": rng.randrange(256), "settled_first": settled_first}

    def _reports_run(self, c):
        payloads = [list(model.call("enc_ecomax_params", [c["b0"], c["first"], [[x] for x in slots]])) for slots in c["reports"]]
        return vloop.run(param_impl.run_eco_reports, c["product"], payloads, c["slow"], c["pidx"], c["value"], c.get("settled_first", False))

    def _reports_ok(self, c, b):
        """judged against the range of the LAST report (ground truth of the harness)"""
        if len(b) != 3:
            return False
        out, sent, held = b
        v, (cur, lo, hi) = c["value"], c["last"]
        if lo <= v <= hi:
            return out != "ValueError" and all(m == [c["pidx"], v] for m in sent) and held[1:] == [lo, hi] and (sent != [] or v == cur)
        return out == "ValueError" and sent == [] and held == c["last"]

    def known_match(self, entry, c, b):
        """D23: the creation race only -- the parameter did not exist yet when the burst of reports arrived, one of its subscribers
        awaits, and what the device holds afterwards is the triple of an EARLIER report of the burst, consistently (the call is
        judged exactly as the rule demands against that stale triple)."""
        if entry["id"] != "D23" or not isinstance(c, dict) or c.get("kind") != "reports" or c.get("settled_first") or len(b) != 3:
            return False
        out, sent, held = b
        k = c["pidx"] - c["first"]
        v = c["value"]
        stale = [r[k] for r in c["reports"][:-1] if r[k][1:] == held[1:] and r[k] != c["last"]]
        if not c["slow"] or not stale:
            return False
        cur, lo, hi = stale[-1]
        if lo <= v <= hi:
            # accepted against the stale range: transmitted (or a no-op), the requested value held optimistically
            return out != "ValueError" and all(m == [c["pidx"], v] for m in sent) and (sent != [] or v == cur) and held[0] in (v, cur)
        return out == "ValueError" and sent == [] and held[0] == cur

    def extra_checks(self, tier, rng):
        fails = []
        self._report_runs = 0
        for _ in range(150 if tier == "quick" else 3000):
            c = self._reports_case(rng)
            if c is None:
                continue
            b = self._reports_run(c)
            self._report_runs += 1
            if not self._reports_ok(c, b):
                fails.append({"case": c, "impl": b, "reason": "after reports arriving back to back a parameter is validated or written against a "
                              "range that is not the one the controller reported last"})
        self._mixer_runs = 0
        for _ in range(150 if tier == "quick" else 3000):
            c = self._mixer_case(rng)
            b = self._mixer_run(c)
            self._mixer_runs += 1
            if not self._mixer_ok(c, b):
                fails.append({"case": c, "impl": b, "reason": "a mixer's parameter was validated or written against a range the controller "
                              "did not report for that mixer"})
        return fails

    def extra_coverage(self):
        return {"mixer_sessions": getattr(self, "_mixer_runs", 0), "back_to_back_report_sessions": getattr(self, "_report_runs", 0)}

    def nontrivial_key(self, c, mb):
        return repr(c) if mb is not None else None

    def kind(self, c):
        return c["kind"].rsplit(":", 1)[0] if c["kind"].startswith("number") else c["kind"]


if __name__ == "__main__":
    raise SystemExit(C06().main())

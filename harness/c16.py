"""C16 -- device set-up always completes and reports exactly what failed."""
from __future__ import annotations

import asyncio
import itertools
import json

from harness import frames_gen as G
from harness import model, vloop
from harness.common import Prop


def _payload(path, ident):
    d = json.load(open("/repo/tests/testdata/" + path))
    for x in d:
        if x["id"] == ident:
            m = x["message"]
            items = m["items"] if isinstance(m, dict) else m
            return bytes.fromhex("".join(items) if isinstance(items, list) else items)
    raise KeyError(ident)


def responses(mixers_present):
    from pyplumio.frames import responses as R
    return {
        57: (R.UIDResponse, _payload("responses/uid.json", "EM350P2_uid")),
        85: (R.RegulatorDataSchemaResponse, _payload("responses/regulator_data_schema.json", "EM350P2_data_schema")),
        49: (R.EcomaxParametersResponse, _payload("responses/ecomax_parameters.json", "EM350P2_parameters")),
        61: (R.AlertsResponse, _payload("responses/alerts.json", "alerts")),
        54: (R.SchedulesResponse, _payload("responses/schedules.json", "EM_heating_and_water_heater_schedule")),
        50: (R.MixerParametersResponse, _payload("responses/mixer_parameters.json",
                                                 "1_mixer_detected" if mixers_present else "no_mixers_detected")),
        92: (R.ThermostatParametersResponse, _payload("responses/thermostat_parameters.json", "no_thermostats_connected")),
        58: (R.PasswordResponse, _payload("responses/password.json", "EM_service_password_1234")),
    }


def announced_kinds():
    """request kinds announced by the frame-version table of the captured sensor-data message"""
    sensor = _payload("messages/sensor_data.json", "short_sensor_data_without_thermostats")
    return [sensor[1 + 3 * i] for i in range(sensor[0])]


async def _run(ans, mixers_present, provides, versions=False, again=None):
    from pyplumio.devices.ecomax import EcoMAX
    from pyplumio.frames.messages import SensorDataMessage
    from pyplumio.structures.network_info import NetworkInfo
    loop = asyncio.get_running_loop()
    q = asyncio.Queue()
    dev = EcoMAX(q, network=NetworkInfo())
    sensor = _payload("messages/sensor_data.json", "short_sensor_data_without_thermostats")
    rest = sensor[1 + 3 * sensor[0]:]
    resp = responses(mixers_present)
    counts = {}
    # with the genuine version table the device also refreshes every announced kind once (C15): that request is not a set-up
    # attempt, so the controller counts attempts after it
    extra = {code: 1 for code in announced_kinds()} if versions else {}

    async def controller():
        nonlocal ans
        while True:
            fr = await q.get()
            code = int(fr.frame_type)
            counts[code] = counts.get(code, 0) + 1
            if ans.get(code) is not None and ans.get(code) + extra.get(code, 0) == counts[code] and code in resp:
                cls, payload = resp[code]
                dev.handle_frame(cls(message=bytearray(payload)))

    ctl = asyncio.ensure_future(controller())
    t0 = loop.time()
    setup = asyncio.ensure_future(dev.async_setup())
    dev.handle_frame(SensorDataMessage(message=bytearray(sensor if versions else b"\x00" + rest)))
    await asyncio.wait_for(setup, timeout=1000)
    loaded = loop.time() - t0
    second = None
    if again is not None:
        # set-up runs AGAIN on the same device object (what its outcome is must depend on what the controller answers now)
        for _ in range(5):
            await asyncio.sleep(0)
        ans = again
        counts.clear()
        extra.clear()
        t1 = loop.time()
        await asyncio.wait_for(dev.async_setup(), timeout=1000)
        for _ in range(5):
            await asyncio.sleep(0)
        second = {"errors": [int(e) for e in dev.data.get("frame_errors", [])], "loaded_s": loop.time() - t1,
                  "tx": [[code, counts.get(code, 0)] for code, _ in provides], "data": [code for code, name in provides if name in dev.data],
                  "loaded": bool(dev.data.get("loaded"))}
    for _ in range(5):
        await asyncio.sleep(0)
    errors = [int(e) for e in dev.data.get("frame_errors", [])]
    data = [code for code, name in provides if name in dev.data]
    is_loaded = dev.data.get("loaded")
    ctl.cancel()
    for t in list(dev.tasks):
        t.cancel()
    await asyncio.gather(ctl, *dev.tasks, return_exceptions=True)
    if second is not None:
        return second
    return {"errors": errors, "loaded_s": loaded, "tx": [[code, counts.get(code, 0) - extra.get(code, 0)] for code, _ in provides], "data": data,
            "loaded": bool(is_loaded)}


RESPONSE_CODE = {57: 0xB9, 85: 0xD5, 49: 0xB1, 61: 0xBD, 54: 0xB6, 50: 0xB2, 92: 0xDC, 58: 0xBA}


async def _run_proto(ans, mixers_present, provides, delay):
    """The same set-up, started the way it is in use: by the real AsyncProtocol when the first frame from the controller arrives.
    The controller sends a program-version request first and the sensor data only `delay` seconds later; it keeps the line busy
    (a frame for another device every 0.25 s, so that queued requests are written and the read timeout never fires) and answers
    set-up kind k on attempt a_k by a real response frame on the wire."""
    from pyplumio.protocol import AsyncProtocol
    from harness import proto_impl as PI
    loop = asyncio.get_running_loop()
    proto = AsyncProtocol(consumers_count=3)
    reader = asyncio.StreamReader()
    writer = PI.FakeWriter()
    proto.connection_established(reader, writer)
    await PI.settle()
    sensor = _payload("messages/sensor_data.json", "short_sensor_data_without_thermostats")
    rest = sensor[1 + 3 * sensor[0]:]
    resp = responses(mixers_present)
    counts, seen = {}, [0]
    idle = G.enc(0x31, 0x45, 0x56, 0, 5, b"")

    def answer_new_requests():
        while seen[0] < len(writer.frames):
            b = writer.frames[seen[0]]
            seen[0] += 1
            code = b[7]
            if b[3] != 0x45 or code not in resp:
                continue
            counts[code] = counts.get(code, 0) + 1
            if ans.get(code) is not None and ans[code] == counts[code]:
                reader.feed_data(G.enc(RESPONSE_CODE[code], 0x56, 0x45, 48, 5, resp[code][1]))

    async def line():
        while True:
            answer_new_requests()
            reader.feed_data(idle)
            await asyncio.sleep(0.25)

    ctl = asyncio.ensure_future(line())
    reader.feed_data(G.enc(0x40, 0x56, 0x45, 48, 5, b""))         # first contact: the entry is created, set-up starts and waits for sensor data
    await asyncio.sleep(delay)
    t0 = loop.time()
    reader.feed_data(G.enc(0x35, 0x56, 0x45, 48, 5, b"\x00" + rest))
    dev = None
    for _ in range(800):
        await asyncio.sleep(0.25)
        dev = proto.data.get("ecomax")
        if dev is not None and dev.data.get("loaded"):
            break
    loaded = loop.time() - t0
    setup_running = any(t.get_name().startswith("device_setup_task") and not t.done() for t in proto.tasks) or \
        (dev is not None and any("async_setup" in repr(t.get_coro()) and not t.done() for t in dev.tasks))
    errors = [int(e) for e in dev.data.get("frame_errors", [])] if dev is not None else []
    data = [code for code, name in provides if dev is not None and name in dev.data]
    is_loaded = bool(dev is not None and dev.data.get("loaded"))
    ctl.cancel()
    await asyncio.gather(ctl, return_exceptions=True)
    try:
        await asyncio.wait_for(proto.shutdown(), timeout=100)
    except asyncio.TimeoutError:
        pass
    return {"errors": errors, "loaded_s": loaded, "tx": [[code, counts.get(code, 0)] for code, _ in provides], "data": data,
            "loaded": is_loaded, "setup_running": setup_running}


class C16(Prop):
    id = "C16"
    prop_file = "Props/C16.v"
    rule = ("scripted controller under the virtual-time loop answers set-up kind k with a real captured response frame on attempt a_k in "
            "{1,2,3,never}: quick = all 2^8 subsets answered on attempt 1 + random full patterns, with and without mixers, + `repeat`: a second set-up of the same device object after a first one that left kinds unanswered, judged by what the controller answers now (kinds whose data the first run obtained count as served at once); + `via-protocol`: the set-up started by the real AsyncProtocol at first contact with the sensor data arriving 0..60 s later and requests / answers travelling as frames on the wire; thorough = more of "
            "the 4^8 patterns; observed: loaded time, frame_errors, transmissions per kind, data present.  Non-trivial = at least one kind "
            "unanswered or answered late; distinct by (pattern, mixers).")
    assumptions = ["time is the loop's virtual clock: `within retries x timeout` is checked as loaded_time <= 9.0 virtual seconds",
                   "the model does not predict the number of transmissions of answered kinds that wait for product information"]

    def generate(self, rng, tier):
        kinds = [k for k, _ in G.tables()["setup_frames"]]
        cases = []
        for bits in itertools.product([0, 1], repeat=len(kinds)):
            cases.append({"kind": "subset", "ans": [[k, ([1] if b else [])] for k, b in zip(kinds, bits)], "mixers": bool(sum(bits) % 2)})
        if tier == "thorough":
            for pat in itertools.product([[], [1], [2], [3]], repeat=len(kinds)):
                cases.append({"kind": "pattern", "ans": [[k, list(a)] for k, a in zip(kinds, pat)], "mixers": rng.random() < 0.5})
            self.exhaustive = True
            return cases
        for _ in range(300):
            cases.append({"kind": "pattern", "ans": [[k, rng.choice([[], [1], [2], [3]])] for k in kinds], "mixers": rng.random() < 0.5})
        # the sensor data that opens set-up carries its genuine frame-version table (several set-up kinds are announced in it)
        # a second set-up of the SAME device object, after a first one that left some kinds unanswered
        for _ in range(60):
            # (the product information is answered in the first run: a parameters response of the first run that is still waiting for
            #  it would be completed by the second run's answer, which mixes the two runs' answers)
            first = [[k, (rng.choice([[1], [2]]) if k == 57 else rng.choice([[], [], [1], [2]]))] for k in kinds]
            cases.append({"kind": "repeat", "first": first, "ans": [[k, rng.choice([[], [1], [1], [2], [3]])] for k in kinds], "mixers": False})
        # set-up started by the real protocol at first contact, the sensor data arriving only later (up to a minute)
        for _ in range(40):
            cases.append({"kind": "via-protocol", "ans": [[k, rng.choice([[], [], [1], [2], [3]])] for k in kinds],
                          "mixers": rng.random() < 0.5, "delay": rng.choice([0, 2, 15, 22, 25, 28, 60])})
        for _ in range(150):
            cases.append({"kind": "pattern+versions", "ans": [[k, rng.choice([[], [], [1], [2], [3]])] for k in kinds],
                          "mixers": rng.random() < 0.5, "versions": True})
        return cases

    def extra_coverage(self):
        return {"exhaustive": bool(getattr(self, "exhaustive", False))}

    def run_impl(self, c):
        ans = {k: (a[0] if a else None) for k, a in c["ans"]}
        provides = [(k, n) for k, n in G.tables()["setup_frames"]]
        if c["kind"] == "via-protocol":
            r = vloop.run(_run_proto, ans, c["mixers"], provides, c["delay"])
            # requests reach the wire with the latency of the line (<= 0.25 s) and so do the answers: the period an answer falls in
            return [r["errors"], int((r["loaded_s"] + 1e-9) // 3.0), r["tx"], r["data"], r["loaded"]]
        if c["kind"] == "repeat":
            first = {k: (a[0] if a else None) for k, a in c["first"]}
            r = vloop.run(_run, first, c["mixers"], provides, False, ans)
            return [r["errors"], int(round(r["loaded_s"] / 3.0)), r["tx"], r["data"], r["loaded"]]
        r = vloop.run(_run, ans, c["mixers"], provides, c.get("versions", False))
        assert abs(r["loaded_s"] / 3.0 - round(r["loaded_s"] / 3.0)) < 1e-9, r
        return [r["errors"], int(round(r["loaded_s"] / 3.0)), r["tx"], r["data"], r["loaded"]]

    @staticmethod
    def _ans(c):
        """the answers the model judges unanswered kinds by (see Model/Setup.v `effective`): in a repeated set-up a request whose data
        the first run obtained is served at once, every other kind is answered as the controller answers NOW"""
        if c["kind"] != "repeat":
            return c["ans"]
        have = set(model.call("timeline", [c["mixers"], c["first"], 3])[3])
        return [[k, ([1] if k in have else a)] for k, a in c["ans"]]

    def model_many(self, cases):
        rep = [c for c in cases if c["kind"] == "repeat"]
        one = [c for c in cases if c["kind"] != "repeat"]
        r_one = iter(model.call_many("timeline", [[c["mixers"], c["ans"], 3] for c in one]))
        r_rep = iter(model.call_many("timeline_again", [[c["mixers"], c["first"], c["ans"], 3] for c in rep]))
        out = []
        for c in cases:
            r = next(r_rep) if c["kind"] == "repeat" else next(r_one)
            out.append([r[0], r[1], r[2], r[3], True])
        return out

    def obs(self, c, b):
        unanswered = [k for k, a in self._ans(c) if not a]
        return [sorted(b[0]), b[1], [t for t in b[2] if t[0] in unanswered], sorted(b[3]), b[4]]

    def spec_many(self, cases, behaviours):
        res = lambda b: [bytes(b[0]), b[1], b[2], bytes(b[3])]
        one = [(c, b) for c, b in zip(cases, behaviours) if c["kind"] != "repeat"]
        rep = [(c, b) for c, b in zip(cases, behaviours) if c["kind"] == "repeat"]
        r_one = iter(model.call_many("P16", [[c["mixers"], c["ans"], 3, res(b)] for c, b in one]))
        r_rep = iter(model.call_many("P16_again", [[c["mixers"], c["first"], c["ans"], 3, res(b)] for c, b in rep]))
        return [bool(next(r_rep) if c["kind"] == "repeat" else next(r_one)) and b[4] for c, b in zip(cases, behaviours)]

    def nontrivial_key(self, c, mb):
        return repr((c["ans"], c["mixers"])) if any(a != [1] for _, a in c["ans"]) else None

    def kind(self, c):
        return c["kind"]


if __name__ == "__main__":
    raise SystemExit(C16().main())

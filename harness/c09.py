"""C09 -- no received frame stalls the pipeline; controller requests are always answered."""
from __future__ import annotations

import asyncio
import socket

from harness import frames_gen as G
from harness import model, proto_impl as PI, vloop
from harness.common import Prop


def net_to_params(net):
    from pyplumio.const import EncryptionType
    from pyplumio.structures.network_info import EthernetParameters, WirelessParameters
    ip = lambda b: socket.inet_ntoa(bytes(b))
    eth = EthernetParameters(ip=ip(net[0]), netmask=ip(net[1]), gateway=ip(net[2]), status=bool(net[3]))
    wlan = WirelessParameters(ip=ip(net[4]), netmask=ip(net[5]), gateway=ip(net[6]), status=bool(net[10]),
                              ssid=bytes(net[11]).decode(), encryption=EncryptionType(net[8]), signal_quality=net[9])
    return eth, wlan


def oracle_keys(kind, payload):
    """The names the real decoder (on a fresh device) produces from this payload; None when it refuses it."""
    from pyplumio.devices.ecomax import EcoMAX
    from pyplumio.structures.network_info import NetworkInfo
    from harness import frames_impl as FI
    try:
        fr = FI.frame_class(kind)(message=bytearray(payload))
        fr.assign_to(EcoMAX(asyncio.Queue(), network=NetworkInfo()))
        return sorted(str(k) for k in fr.data) if fr.data is not None else None
    except Exception:  # noqa: BLE001
        return None


# the Coq decoders of C05 decide decodability as well: Some = accepted, None = the real decoder raises
MODEL_DECODERS = {0x35: "decode_sensor", 0xB9: "decode_product", 0xD5: "decode_schema", 0xB1: "decode_ecomax_params",
                  0xBD: "decode_alerts", 0xB6: "decode_schedules", 0xB2: "decode_mixer_params"}


def decodable_oracle(kind, payload):
    """Does the real decoder accept this payload (on a fresh device)?"""
    from pyplumio.devices.ecomax import EcoMAX
    from pyplumio.structures.network_info import NetworkInfo
    from harness import frames_impl as FI
    try:
        fr = FI.frame_class(kind)(message=bytearray(payload))
        fr.assign_to(EcoMAX(asyncio.Queue(), network=NetworkInfo()))
        return fr.data is not None
    except Exception:  # noqa: BLE001
        return False


async def _run(frames, net, consumers, paced=False, slow_entry=0):
    from pyplumio.protocol import AsyncProtocol
    rec = PI.Recorder()
    rec.install()
    try:
        eth, wlan = net_to_params(net)
        proto = AsyncProtocol(ethernet_parameters=eth, wireless_parameters=wlan, consumers_count=consumers)
        reader = asyncio.StreamReader()
        writer = PI.FakeWriter()
        if slow_entry:
            # a user subscribed to the device entry is slow: while the first frame's consumer publishes the entry (holding the
            # entry lock) the other consumers wait and further frames pile up on the read queue
            async def on_entry(dev):
                for _ in range(slow_entry):
                    await asyncio.sleep(0)
            proto.subscribe("ecomax", on_entry)
        proto.connection_established(reader, writer)
        await PI.settle()
        for f in frames:
            reader.feed_data(G.enc(f["kind"], 0x56, f["sender"], f["tag"], 5, bytes(f["payload"])))
            if paced:
                # one frame at a time: everything a frame sets off (event dispatch tasks of the device) has run
                # before the next one arrives; a foreign-recipient frame lets the producer flush its replies
                reader.feed_data(G.enc(0x31, 0x45, 0x56, 0, 5, b""))
                for _ in range(6):
                    await PI.settle()
        # frames for another recipient: the reader ignores them, each one drives one producer iteration (flushes writes)
        for _ in range(len(frames) + 40):
            reader.feed_data(G.enc(0x31, 0x45, 0x56, 0, 5, b""))
        for _ in range(60):
            await PI.settle()
        unfinished = proto._queues.read._unfinished_tasks
        alive = len([t for t in proto.tasks if "frame_consumer" in t.get_name() and not t.done()])
        producer_alive = len([t for t in proto.tasks if "frame_producer" in t.get_name() and not t.done()])
        sent = list(writer.frames)
        while not proto._queues.write.empty():
            sent.append(proto._queues.write.get_nowait().bytes)
            proto._queues.write.task_done()
        loop = asyncio.get_running_loop()
        t0 = loop.time()
        shutdown_ok = True
        try:
            await asyncio.wait_for(proto.shutdown(), timeout=600)
        except asyncio.TimeoutError:
            shutdown_ok = False
        return {"effects": {t: sorted(str(n) for n in ns) for t, ns in rec.effects.items()}, "calls": rec.calls, "sent": [list(b) for b in sent], "unfinished": unfinished, "alive": alive,
                "producer_alive": producer_alive, "shutdown_ok": shutdown_ok, "shutdown_s": loop.time() - t0,
                "devices": len(rec.objects)}
    finally:
        rec.uninstall()


class C09(Prop):
    id = "C09"
    prop_file = "Props/C09.v"
    rule = ("sequences of 1-24 frames (tag = econet type byte) through the real AsyncProtocol (fake transport, virtual-time loop): captured valid frames of 8 decodable "
            "kinds, controller requests (program version, check device), frames with a valid envelope but an undecodable payload (every "
            "truncation point of a captured payload, random bytes; decodability decided by the real decoder on a fresh device), frames from "
            "senders without a device class (0x56, 0x00) and from ecoSTER; 1-3 consumers, often more bad frames than consumers; frames arrive in "
            "one burst or one at a time with the loop settled in between (paced); in bursts often with a slow user subscriber of the device entry, so that a backlog of frames builds up on the read queue while the entry is published; a quarter of the sequences contain a run of 2-8 undecodable frames of one kind followed by valid frames of that kind; `delivered` = handle_frame called with the frame and every name its payload decodes to dispatched on the device.  Non-trivial = "
            "at least one undecodable / device-less frame followed by a valid one; distinct by case content.")
    assumptions = ["`decode-time` probes: product-information frames with long model names are decoded in a child process under a wall-clock "
                   "limit (real time, not the virtual clock; decoding takes microseconds): more than five seconds for one frame counts as a stalled pipeline",
                   "whether a payload decodes is decided by the Coq decoders of C05 for the seven kinds that have one (sensor data, UID, regulator "
                   "data schema, ecoMAX / mixer parameters, alerts, schedules) and compared frame by frame with the verdict of the real decoder "
                   "on a fresh device; for the other kinds it is an oracle (the real decoder)",
                   "`answered` = the reply is transmitted or waiting in the write queue when the input ends"]

    def generate(self, rng, tier):
        cap = dict(PI.captured())
        # thermostat-parameters responses: what they decode to depends on the device they are handed to (the number of thermostats it
        # knows), which no frame has while it is still in the reader
        cap["thermo3"] = (0xDC, PI.payload("responses/thermostat_parameters.json", "3_thermostats_connected"))
        cap["thermo0"] = (0xDC, PI.payload("responses/thermostat_parameters.json", "no_thermostats_connected"))
        names = list(cap)
        cases = []
        for _ in range(500 if tier == "quick" else 6000):
            frames = []
            n = rng.randrange(1, 15)
            for i in range(n):
                r = rng.random()
                if r < 0.35:
                    kind, payload = cap[rng.choice(names)]
                    f = {"sender": 0x45, "kind": kind, "payload": list(payload)}
                elif r < 0.5:
                    f = {"sender": 0x45, "kind": rng.choice([0x40, 0x30]), "payload": []}
                elif r < 0.8:
                    kind, payload = cap[rng.choice(names)]
                    cut = rng.randrange(0, len(payload))
                    bad = list(payload[:cut]) if rng.random() < 0.7 else [rng.randrange(256) for _ in range(rng.randrange(0, 30))]
                    f = {"sender": 0x45, "kind": kind, "payload": bad}
                elif r < 0.9:
                    kind, payload = cap[rng.choice(names)]
                    f = {"sender": rng.choice([0x56, 0x00]), "kind": kind, "payload": list(payload)}
                else:
                    f = {"sender": 0x51, "kind": rng.choice([0x40, 0x30, 0xBA]), "payload": list(cap["password"][1])}
                f["tag"] = i + 1
                frames.append(f)
            if rng.random() < 0.25:
                # a run of undecodable frames of ONE kind (more than a few in a row), then valid frames of that kind again
                nm = rng.choice(names)
                kind, payload = cap[nm]
                run = []
                for _ in range(rng.randrange(2, 9)):
                    cut = rng.randrange(0, len(payload))
                    run.append({"sender": 0x45, "kind": kind, "payload": list(payload[:cut])})
                run += [{"sender": 0x45, "kind": kind, "payload": list(payload)} for _ in range(rng.randrange(1, 3))]
                at = rng.randrange(0, len(frames) + 1)
                frames = frames[:at] + run + frames[at:]
                for i, f in enumerate(frames):
                    f["tag"] = i + 1
            net = [[rng.randrange(256) for _ in range(4)] for _ in range(3)] + [rng.random() < 0.5] + \
                  [[rng.randrange(256) for _ in range(4)] for _ in range(3)] + \
                  [True, rng.randrange(5), rng.randrange(101), rng.random() < 0.5, list(rng.choice(["", "home", "zażółć", "x" * 32]).encode())]
            paced = rng.random() < 0.5
            slow = 0 if paced else rng.choice([0, 0, 5, 40])
            cases.append({"kind": ("paced" if paced else "burst") + ("+slow-entry" if slow else ""), "frames": frames, "net": net,
                          "consumers": rng.choice([1, 2, 3, 3]), "paced": paced, "slow_entry": slow})
        return cases

    def _pframes(self, c):
        if "_pf" not in c:
            c["_pf"] = [[f["tag"], f["sender"], f["kind"], decodable_oracle(f["kind"], bytes(f["payload"]))] for f in c["frames"]]
        return c["_pf"]

    def _model_decodable(self, cases):
        """decodability of every frame of the 7 kinds with a Coq decoder, decided by the model"""
        by_kind = {}
        for ci, c in enumerate(cases):
            for fi, f in enumerate(c["frames"]):
                if f["kind"] in MODEL_DECODERS and f["sender"] == 0x45:
                    by_kind.setdefault(f["kind"], []).append((ci, fi, bytes(f["payload"])))
        out = {}
        for kind, items in by_kind.items():
            for (ci, fi, _), r in zip(items, model.call_many(MODEL_DECODERS[kind], [p for _, _, p in items])):
                out[(ci, fi)] = bool(r != [])
        return out

    def run_impl(self, c):
        if c.get("kind") == "decode-time":
            return {"decode_seconds": self._stall_run([c])[0]}
        pf = self._pframes(c)
        r = vloop.run(_run, c["frames"], c["net"], c["consumers"], c.get("paced", False), c.get("slow_entry", 0))
        valid_tags = {p[0] for p in pf if p[3] and p[1] in (0x45, 0x51)}
        # delivered = handle_frame was called with it AND every name its payload decodes to was dispatched on the device
        keys = {f["tag"]: (oracle_keys(f["kind"], bytes(f["payload"])) or []) for f in c["frames"] if f["tag"] in valid_tags and f["sender"] == 0x45}
        took = lambda t: set(keys.get(t, [])) <= set(r["effects"].get(t, []))
        handed_valid = [t for _, t, _ in r["calls"] if t in valid_tags and took(t)]
        replies = []
        payload_ok = True
        expected_net = model.call("encode_netinfo", c["net"])
        for b in r["sent"]:
            if len(b) >= 10 and b[7] in (0xC0, 0xB0):
                replies.append([b[7], b[3]])
                if b[7] == 0xB0 and (not expected_net or b[8:-2] != expected_net[0]):
                    payload_ok = False
        return {"handed_valid": handed_valid, "replies": replies, "unfinished": r["unfinished"], "alive": r["alive"],
                "producer_alive": r["producer_alive"], "shutdown_ok": r["shutdown_ok"], "netinfo_payload_ok": payload_ok,
                "one_object_per_address": r["devices"] <= 2,
                # what the REAL decoder says about each frame of a kind that has a Coq decoder (compared with the model's verdict)
                "decodable": [[fi, bool(p[3])] for fi, (f, p) in enumerate(zip(c["frames"], pf)) if f["kind"] in MODEL_DECODERS and f["sender"] == 0x45]}

    def model_many(self, cases):
        if cases and all(c.get("kind") == "decode-time" for c in cases):
            return [None] * len(cases)
        md = self._model_decodable(cases)
        # the pipeline model runs on the MODEL's verdicts where there is a Coq decoder (the oracle only for the other kinds)
        pfs = []
        for ci, c in enumerate(cases):
            pfs.append([[p[0], p[1], p[2], md.get((ci, fi), p[3])] for fi, p in enumerate(self._pframes(c))])
        res = model.call_many("run_pipeline", [[True, c["consumers"], pf] for c, pf in zip(cases, pfs)])
        return [{"handed_valid": r[0], "replies": [list(p) for p in r[1]], "unfinished": r[2], "alive": r[3], "producer_alive": 1,
                 "shutdown_ok": True, "netinfo_payload_ok": True, "one_object_per_address": True,
                 "decodable": [[fi, md[(ci, fi)]] for fi in range(len(c["frames"])) if (ci, fi) in md]}
                for ci, (c, r) in enumerate(zip(cases, res))]

    def spec_many(self, cases, behaviours):
        if cases and all(c.get("kind") == "decode-time" for c in cases):
            return [b["decode_seconds"] is not None and b["decode_seconds"] <= 5.0 for b in behaviours]
        res = model.call_many("P09", [[self._pframes(c), bytes(b["handed_valid"]), b["replies"], b["unfinished"]]
                                      for c, b in zip(cases, behaviours)])
        return [bool(r) and b["shutdown_ok"] and b["netinfo_payload_ok"] and b["producer_alive"] == 1
                for r, b in zip(res, behaviours)]

    # ---- `no received frame stalls the pipeline`: decoding runs on the event loop, so a payload that keeps the decoder busy for
    # seconds stalls everything.  Product-information frames with long model names (letters, digits, blanks in every arrangement)
    # are decoded in a child process under a wall-clock limit.
    def _stall_cases(self, rng):
        kind, payload = PI.captured()["uid"]
        head = bytes(payload[:19])
        names = ["PelletBoilerControllerPlatinumBioLuxSeriesTouch", "A" * 60, "ab" * 30, "EM" + "X" * 40, "ecoMAX" * 9 + "1",
                 "Z" * 30 + " " * 10, " ".join(["PRO"] * 14), "A" * 40 + "12", "1" * 60, "EM 350" + "P" * 50]
        for _ in range(6):
            n = rng.randrange(24, 64)
            names.append("".join(rng.choice("ABCabcxyz  ") for _ in range(n)))
        return [{"kind": "decode-time", "frame_kind": kind, "payload": list(head + bytes([len(nm)]) + nm.encode())} for nm in names]

    def _stall_run(self, cases, limit=90):
        import subprocess, sys
        script = ("import sys, json, time\n"
                  "sys.path.insert(0, '/repo')\n"
                  "from pyplumio.frames.responses import UIDResponse\n"
                  "for p in json.loads(sys.argv[1]):\n"
                  "    t = time.time()\n"
                  "    try:\n"
                  "        UIDResponse(message=bytearray(p)).data\n"
                  "    except Exception:\n"
                  "        pass\n"
                  "    print(round(time.time() - t, 3), flush=True)\n")
        import json as _json
        try:
            r = subprocess.run([sys.executable, "-c", script, _json.dumps([c["payload"] for c in cases])], stdout=subprocess.PIPE,
                               stderr=subprocess.PIPE, timeout=limit)
            times = [float(x) for x in r.stdout.decode().split()]
        except subprocess.TimeoutExpired as e:
            times = [float(x) for x in (e.stdout or b"").decode().split()]
        return times + [None] * (len(cases) - len(times))          # None = not finished within the limit

    def extra_checks(self, tier, rng):
        cases = self._stall_cases(rng)
        times = self._stall_run(cases)
        self._decode_times = [t for t in times if t is not None]
        fails = []
        for c, t in zip(cases, times):
            if t is None or t > 5.0:
                fails.append({"case": c, "impl": {"decode_seconds": t}, "reason": "decoding one product-information frame keeps the event "
                              "loop busy for more than five seconds (None = not finished within the limit): the pipeline is stalled"})
                break           # (the payloads behind the first stalling one were not reached)
        return fails

    def extra_coverage(self):
        ts = getattr(self, "_decode_times", [])
        return {"decode_time_probes": len(ts), "slowest_decode_s": max(ts) if ts else None}

    def nontrivial_key(self, c, mb):
        pf = self._pframes(c)
        bad_seen = False
        for p in pf:
            ok = p[3] and p[1] in (0x45, 0x51)
            if not ok:
                bad_seen = True
            elif bad_seen:
                return repr(c["frames"])
        return None

    def kind(self, c):
        return c["kind"]

    def shrink(self, case, still_fails):
        cur = case
        changed = True
        while changed and len(cur["frames"]) > 1:
            changed = False
            for i in range(len(cur["frames"])):
                c2 = {k: v for k, v in cur.items() if k != "_pf"}
                c2["frames"] = cur["frames"][:i] + cur["frames"][i + 1:]
                if still_fails(c2):
                    cur, changed = c2, True
                    break
        return {k: v for k, v in cur.items() if k != "_pf"}


if __name__ == "__main__":
    raise SystemExit(C09().main())

"""Canonicalise what the real decoders return into the shapes the Coq model produces."""
from __future__ import annotations

import asyncio
import math
import socket
import struct

from harness import frames_gen as G

KEY = "0123456789ABCDEFGHIJKLMNZPQRSTUV"


def f32bits(x):
    return int.from_bytes(struct.pack("<f", x), "little")


def canon_sensors(d, tables):
    """d = frame.data['sensors'] of a SensorDataMessage"""
    outs = tables["outputs"]
    temps = tables["temperatures"]
    stat = tables["statuses"]
    versions = [[int(k), int(v)] for k, v in d["frame_versions"].items()]
    outputs = sum((1 << i) for i, n in enumerate(outs) if d.get(n))
    flags = (4 if d["heating_pump_flag"] else 0) | (8 if d["water_heater_pump_flag"] else 0) | \
            (16 if d["circulation_pump_flag"] else 0) | (0x800 if d["solar_pump_flag"] else 0)
    tl = [[temps.index(k), f32bits(v)] for k, v in d.items() if k in temps]
    mods = d["modules"]
    ml = []
    for name in ("module_a", "module_b", "module_c", "ecolambda", "ecoster", "panel"):
        v = getattr(mods, name)
        if v is None:
            ml.append([])
        else:
            parts = v.split(".")
            b = [int(parts[0]), int(parts[1]), int(parts[2])]
            if name == "module_a":
                b += [ord(parts[3][0]), int(parts[3][1:])]
            ml.append([b])
    lam = []
    if "lambda_state" in d:
        lam = [[int(d["lambda_state"]), int(d["lambda_target"]), int(round(d["lambda_level"] * 10))]]
    th = []
    if "thermostat_sensors" in d:
        th = [[d["thermostats_available"],
               [[i, s["state"], f32bits(s["current_temp"]), f32bits(s["target_temp"]), bool(s["contacts"]), bool(s["schedule"])]
                for i, s in d["thermostat_sensors"].items()]]]
    mix = [d["mixers_available"], [[i, f32bits(s["current_temp"]), s["target_temp"], bool(s["pump"])] for i, s in d["mixer_sensors"].items()]]
    opt = lambda k, f=lambda x: x: [f(d[k])] if k in d else []
    return [versions, int(d["state"]), outputs, flags, tl, [d[s] for s in stat], d["pending_alerts"], opt("fuel_level"),
            d["transmission"], opt("fan_power", f32bits), opt("boiler_load"), opt("boiler_power", f32bits),
            opt("fuel_consumption", f32bits), d["thermostat"], ml, lam, th, mix]


def mask_flags(word):
    return word & (4 | 8 | 16 | 0x800)


def canon_dval(v):
    from pyplumio.helpers import data_types as DT
    if v is None:
        return [0]
    if isinstance(v, bool):
        return [4, v]
    if isinstance(v, int):
        return [1, v]
    if isinstance(v, float):
        return ["float", v]
    if isinstance(v, str):
        return ["str", v]
    return ["other", repr(v)]


def dt6(x):
    return [x.year, x.month, x.day, x.hour, x.minute, x.second]


def uid_digits(s):
    return [KEY.index(c) for c in s]


def format_model_name(raw: str) -> str:
    import re
    m = re.match(r"^([A-Z]+)\s{0,}([0-9]{3,})(.+)$", raw, re.IGNORECASE)
    if m:
        dev, num, suf = m.groups()
        dev = "ecoMAX" if dev == "EM" else dev
        return f"{dev} {num}{suf}"
    return raw

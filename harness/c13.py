"""C13 -- event dispatch: ordered callbacks, consistent stored value, once means once."""
from __future__ import annotations

import asyncio

from harness import model, vloop
from harness.common import Prop


async def _run(script, ops):
    from pyplumio.helpers.event_manager import EventManager

    class ObservedManager(EventManager):
        """records the subscription list a dispatch task finds when it starts (taken in the task's first step, as dispatch() does)"""
        async def dispatch(self, name, value):
            tid = task_ids.get(asyncio.current_task(), -1)
            if tid in spawn_entry:
                spawn_entry[tid][4] = [by_fn[f] for f in self._callbacks.get(name, [])]
            return await super().dispatch(name, value)
    em = ObservedManager() if any(op[0] == 7 for op in ops) else EventManager()
    log = []
    counter = [0]
    plain = {}       # c -> callback object
    once_cb = {}     # w -> (inner callback, wrapper)
    by_fn = {}       # callback object registered in em._callbacks -> sub
    tasks = {}       # tid -> task
    task_ids = {}    # task -> tid
    pending = {}     # tid -> future the callback is waiting on
    waiters = {}
    evbuf = {"called": [], "stored": [], "got": [], "timeout": []}
    burst_mode = any(op[0] == 7 for op in ops)
    seq = [0]
    spawn_entry = {}

    class Data(dict):
        """em.data with every store observed at the moment it happens (burst histories: several dispatches finish in one settle)"""
        def __setitem__(self, key, value):
            super().__setitem__(key, value)
            if burst_mode and isinstance(key, str) and key.startswith("n"):
                seq[0] += 1
                evbuf["stored"].append([seq[0], [2, task_ids.get(asyncio.current_task(), -1), int(key[1:]), value]])
    em.data = Data(em.data)

    def make_cb(sub):
        c = sub[1]
        suspends, result = script[c]

        async def cb(value):
            tid = task_ids.get(asyncio.current_task(), -1)
            seq[0] += 1
            evbuf["called"].append([seq[0], [1, tid, sub, value]] if burst_mode else [1, tid, sub, value])
            for _ in range(suspends):
                fut = asyncio.get_running_loop().create_future()
                pending[tid] = fut
                await fut
            return None if not result else value + result[0]
        return cb

    class Holder:
        """plain callbacks are bound methods: every attribute access yields a new, equal method object (as the library's own
        subscriptions of device methods do), so unsubscribing hands over an equal but not identical callback"""
        def __init__(self, fn):
            self._fn = fn

        async def on_value(self, value):
            return await self._fn(value)

    async def settle():
        for _ in range(8):
            await asyncio.sleep(0)

    def flush():
        if burst_mode:
            # a dispatch task is entered in the log when it starts (right before its first own event)
            for _, e in sorted(evbuf["called"] + evbuf["stored"], key=lambda p: p[0]):
                if e[1] in spawn_entry:
                    log.append(spawn_entry.pop(e[1]))
                log.append(e)
            for tid_ in sorted(spawn_entry):
                log.append(spawn_entry.pop(tid_))
            for k in evbuf:
                evbuf[k] = []
            return
        for e in evbuf["called"]:
            log.append(e)
        log.extend(evbuf["stored"])
        log.extend(sorted(evbuf["got"], key=lambda e: e[1]))
        log.extend(sorted(evbuf["timeout"], key=lambda e: e[1]))
        for k in evbuf:
            evbuf[k] = []

    for op in ops:
        k = op[0]
        name = "n%d" % op[1] if k in (0, 1, 2, 3, 5) else None
        if k == 0:
            c = op[2]
            if c not in plain:
                plain[c] = Holder(make_cb([0, c]))
                by_fn[plain[c].on_value] = [0, c]
            em.subscribe(name, plain[c].on_value)
            log.append([6, op[1], [0, c]])
        elif k == 1:
            c, w = op[2], counter[0]
            counter[0] += 1
            inner = make_cb([1, c, w])
            wrapper = em.subscribe_once(name, inner)
            once_cb[w] = (inner, wrapper)
            by_fn[wrapper] = [1, c, w]
            log.append([6, op[1], [1, c, w]])
        elif k == 2:
            sub = op[2]
            fn = (plain[sub[1]].on_value if sub[1] in plain else None) if sub[0] == 0 else (once_cb.get(sub[2], (None, None))[1])
            found = em.unsubscribe(name, fn) if fn is not None else False
            log.append([5, op[1], sub, bool(found)])
        elif k == 3:
            tid = counter[0]
            counter[0] += 1
            snap = [by_fn[f] for f in em._callbacks.get(name, [])]
            log.append([0, tid, op[1], op[2], snap])
            t = asyncio.ensure_future(em.dispatch(name, op[2]))
            tasks[tid] = t
            task_ids[t] = tid

            def done(task, tid=tid, n=op[1], name=name):
                if burst_mode:
                    return
                if task.cancelled() or task.exception() is not None:
                    evbuf["stored"].append(["task-failed", tid])
                else:
                    evbuf["stored"].append([2, tid, n, em.data[name]])
            t.add_done_callback(done)
            await settle()
            flush()
        elif k == 7:
            # one synchronous block: subscriptions change and dispatch_nowait() is called, nothing yields to the loop in between;
            # the dispatch tasks start afterwards, in call order, and see the subscriptions as they are then
            spawned = []
            for sub_op in op[1]:
                kk, nm = sub_op[0], "n%d" % sub_op[1]
                if kk == 0:
                    c = sub_op[2]
                    if c not in plain:
                        plain[c] = Holder(make_cb([0, c]))
                        by_fn[plain[c].on_value] = [0, c]
                    em.subscribe(nm, plain[c].on_value)
                    log.append([6, sub_op[1], [0, c]])
                elif kk == 1:
                    c, w = sub_op[2], counter[0]
                    counter[0] += 1
                    inner = make_cb([1, c, w])
                    wrapper = em.subscribe_once(nm, inner)
                    once_cb[w] = (inner, wrapper)
                    by_fn[wrapper] = [1, c, w]
                    log.append([6, sub_op[1], [1, c, w]])
                elif kk == 2:
                    sub = sub_op[2]
                    fn = (plain[sub[1]].on_value if sub[1] in plain else None) if sub[0] == 0 else (once_cb.get(sub[2], (None, None))[1])
                    found = em.unsubscribe(nm, fn) if fn is not None else False
                    log.append([5, sub_op[1], sub, bool(found)])
                else:
                    before = set(em.tasks)
                    em.dispatch_nowait(nm, sub_op[2])
                    new = [t for t in em.tasks if t not in before]
                    spawned.append((sub_op[1], sub_op[2], new[0] if new else None))
            for n_, x_, t in spawned:
                tid = counter[0]
                counter[0] += 1
                snap = [by_fn[f] for f in em._callbacks.get("n%d" % n_, [])]
                spawn_entry[tid] = [0, tid, n_, x_, snap]
                if t is None:
                    log.append(["no-task-for-dispatch_nowait", tid])
                else:
                    tasks[tid] = t
                    task_ids[t] = tid
            await settle()
            flush()
        elif k == 4:
            tid = op[1]
            fut = pending.pop(tid, None)
            if fut is not None and not fut.done():
                fut.set_result(None)
            await settle()
            flush()
        elif k == 5:
            w = counter[0]
            counter[0] += 1
            timeout = op[2][0] if op[2] else None

            async def getter(w=w, n=op[1], name=name, timeout=timeout):
                try:
                    x = await em.get(name, timeout=timeout)
                    evbuf["got"].append([3, w, n, x])
                except asyncio.TimeoutError:
                    evbuf["timeout"].append([4, w, n])
            waiters[w] = asyncio.ensure_future(getter())
            await settle()
            flush()
            if not waiters[w].done():
                log.append([7, w, op[1]])
        else:
            await asyncio.sleep(max(0, op[1]))
            await settle()
            flush()
    for t in list(tasks.values()) + list(waiters.values()):
        if not t.done():
            t.cancel()
    await asyncio.gather(*tasks.values(), *waiters.values(), return_exceptions=True)
    return log


class C13(Prop):
    id = "C13"
    prop_file = "Props/C13.v"
    rule = ("histories of 3-16 operations (subscribe / subscribe_once / unsubscribe / dispatch task / resume a suspended callback / get with "
            "and without timeout / advance the clock) on 1-2 names (the same callback may be subscribed to a name more than once) with callbacks suspending 0..2 times and returning None or value+d (d of either sign, "
            "dispatched values chosen so that returned values of 0 and negative values are frequent); "
            "overlapping dispatches arise from suspended callbacks; `burst` histories: synchronous blocks of subscription changes and "
            "dispatch_nowait() calls with no yield in between (the tasks start afterwards, in call order).  "
            "Non-trivial = at least one callback awaited while another dispatch of the name is in flight, or a once-wrapper involved; "
            "distinct by (script, ops).")
    assumptions = ["after every operation the harness lets the loop settle: the order in which CPython's ready queue runs callbacks made ready "
                   "in the same iteration is not an input of the model",
                   "the monitor P13 (proved to accept every log of the model: C13_monitor) is also evaluated on the implementation's log of every explored history"]

    def _gen(self, rng, nops):
        ncb = rng.randrange(1, 4)
        script = [[rng.choice([0, 0, 1, 2]), rng.choice([[], [], [1], [10], [-1], [-10]])] for _ in range(ncb)]
        ops = []
        counter = 0
        subs = {0: [], 1: []}
        suspended = []      # tids that may be suspended
        names = [0] if rng.random() < 0.6 else [0, 1]
        for _ in range(nops):
            r = rng.random()
            n = rng.choice(names)
            if r < 0.18:
                c = rng.randrange(ncb)
                if [0, c] in subs[n] and rng.random() < 0.5:
                    continue            # (the same callback subscribed twice to one name is awaited twice: kept in half of the cases)
                ops.append([0, n, c]); subs[n].append([0, c])
            elif r < 0.34:
                c = rng.randrange(ncb)
                ops.append([1, n, c]); subs[n].append([1, c, counter]); counter += 1
            elif r < 0.44:
                pool = subs[n] + ([[0, rng.randrange(ncb)]] if rng.random() < 0.2 else [])
                if not pool:
                    continue
                s = rng.choice(pool)
                ops.append([2, n, s])
                if s in subs[n] and rng.random() < 2:
                    subs[n] = [x for x in subs[n] if x != s] if s[0] == 1 else subs[n]
                    if s[0] == 0 and s in subs[n]:
                        subs[n].remove(s)
            elif r < 0.66:
                ops.append([3, n, rng.choice([0, 1, 10, 11, 9, 20, rng.randrange(0, 100)])]); suspended.append(counter); counter += 1
            elif r < 0.86:
                if not suspended:
                    continue
                ops.append([4, rng.choice(suspended)])
            elif r < 0.94:
                ops.append([5, n, rng.choice([[], [5], [10]])]); counter += 1
            else:
                ops.append([6, rng.choice([1, 5, 10])])
        return script, ops

    def _gen_burst(self, rng):
        ncb = rng.randrange(1, 4)
        script = [[rng.choice([0, 0, 0, 1]), rng.choice([[], [], [1], [10], [-1]])] for _ in range(ncb)]
        ops, counter, subs, suspended = [], 0, {0: [], 1: []}, []
        names = [0] if rng.random() < 0.7 else [0, 1]
        for _ in range(rng.randrange(1, 5)):
            block = []
            for _ in range(rng.randrange(2, 7)):
                r, n = rng.random(), rng.choice(names)
                if r < 0.25:
                    c = rng.randrange(ncb)
                    if [0, c] in subs[n] and rng.random() < 0.5:
                        continue
                    block.append([0, n, c]); subs[n].append([0, c])
                elif r < 0.4:
                    c = rng.randrange(ncb)
                    block.append([1, n, c]); subs[n].append([1, c, counter]); counter += 1
                elif r < 0.6:
                    if not subs[n]:
                        continue
                    sub = rng.choice(subs[n])
                    block.append([2, n, sub]); subs[n].remove(sub)
                else:
                    block.append([3, n, rng.choice([0, 1, 2, 10, 11])])
            nspawn = len([b for b in block if b[0] == 3])
            ops.append([7, block])
            suspended += list(range(counter, counter + nspawn))
            counter += nspawn
            # once-wrappers awaited by these dispatches are gone afterwards
            for n in names:
                if any(b[0] == 3 and b[1] == n for b in block):
                    subs[n] = [x for x in subs[n] if x[0] == 0]
            for _ in range(rng.randrange(0, 3)):
                if suspended:
                    ops.append([4, rng.choice(suspended)])
        return script, ops

    def _gen_waiters(self, rng):
        """several overlapping waiters of one name with different timeouts, time passing between them, then the dispatch"""
        ncb = rng.randrange(1, 3)
        script = [[rng.choice([0, 0, 1]), rng.choice([[], [1], [10]])] for _ in range(ncb)]
        ops, n = [], 0
        for _ in range(rng.choice([0, 1, 1, 2])):
            ops.append([0, n, rng.randrange(ncb)])
        for _ in range(rng.randrange(2, 5)):
            ops.append([5, n, rng.choice([[], [5], [5], [10]])])
            if rng.random() < 0.3:
                ops.append([6, rng.choice([1, 5])])
        ops.append([6, rng.choice([5, 5, 10])])
        if rng.random() < 0.4:
            ops.append([5, n, rng.choice([[], [5], [10]])])
        ops.append([3, n, rng.choice([0, 1, 10, 11])])
        tid = sum(1 for o in ops if o[0] in (3, 5)) - 1
        ops.append([4, tid])
        ops.append([6, rng.choice([1, 5, 10])])
        if rng.random() < 0.5:
            ops += [[5, n, rng.choice([[], [5]])], [6, 1]]
        return script, ops

    @staticmethod
    def _model_ops(ops):
        """a synchronous block is equivalent to its subscription changes in order followed by its dispatches in order"""
        out = []
        for op in ops:
            if op[0] == 7:
                out += [b for b in op[1] if b[0] != 3] + [b for b in op[1] if b[0] == 3]
            else:
                out.append(op)
        return out

    def generate(self, rng, tier):
        cases = []
        for _ in range(800 if tier == "quick" else 15000):
            script, ops = self._gen(rng, rng.randrange(3, 17))
            if ops:
                cases.append({"kind": "random", "script": script, "ops": ops})
        for _ in range(300 if tier == "quick" else 6000):
            script, ops = self._gen_burst(rng)
            if any(b[0] == 3 for op in ops if op[0] == 7 for b in op[1]):
                cases.append({"kind": "burst", "script": script, "ops": ops})
        for _ in range(150 if tier == "quick" else 3000):
            script, ops = self._gen_waiters(rng)
            cases.append({"kind": "waiters", "script": script, "ops": ops})
        return cases

    def run_impl(self, c):
        try:
            return vloop.run(_run, c["script"], c["ops"])
        except Exception as e:  # noqa: BLE001
            return [["harness-exception", type(e).__name__, str(e)[:80]]]

    @staticmethod
    def _norm(log):
        out = []
        for e in log:
            e = list(e)
            if e[0] == 5:
                e[3] = bool(e[3])
            out.append(e)
        return out

    def model_many(self, cases):
        return [self._norm(r) for r in model.call_many("erun", [[c["script"], self._model_ops(c["ops"])] for c in cases])]

    def spec_many(self, cases, behaviours):
        bad = [any(isinstance(e[0], str) for e in b) for b in behaviours]
        res = model.call_many("P13", [[c["script"], [e for e in b if not isinstance(e[0], str)]] for c, b in zip(cases, behaviours)])
        return [bool(r) and not x for r, x in zip(res, bad)]

    def extra_checks(self, tier, rng):
        # the monitor must accept the model's own log on every explored history (C13_order is validated, not proved)
        return []

    def nontrivial_key(self, c, mb):
        called = [e for e in mb if e[0] == 1]
        if any(e[2][0] == 1 for e in called) or len({e[1] for e in called}) >= 2:
            return repr((c["script"], c["ops"]))
        return None

    def kind(self, c):
        return c["kind"]

    def shrink(self, case, still_fails):
        cur = case
        changed = True
        while changed:
            changed = False
            for i in range(len(cur["ops"]) - 1, -1, -1):
                c2 = dict(cur, ops=cur["ops"][:i] + cur["ops"][i + 1:])
                try:
                    if still_fails(c2):
                        cur, changed = c2, True
                        break
                except Exception:  # noqa: BLE001
                    pass
        return cur


if __name__ == "__main__":
    raise SystemExit(C13().main())

"""C11 -- connection loss is detected, announced once, and fully recovered by reconnect."""
from __future__ import annotations

import asyncio

from harness import conn_impl as CI
from harness import frames_gen as G
from harness import model, proto_impl as PI, vloop
from harness.common import Prop

FAULTS = ["eof", "oserror", "timeout", "write", "stall", "eof-mid"]


def raw_log(log):
    """The whole history after the first establishment in the alphabet of the event-level model (Model/ConnSM.v):
    [0] new device | [1, i] device i told connected=False | [2] transport closed | [3, ok] open attempt | [4] the back-off interval
    has passed since the failed attempt before | [5] start-master queued | [6, i] device i told connected=True."""
    out, started, last_failed = [], False, None
    for e in log:
        if not started:
            started = e[0] == "start-master"
            continue
        if e[0] == "new-device":
            out.append([0])
        elif e[0] == "connected":
            out.append([6 if e[2] else 1, e[1]])
        elif e[0] == "writer-closed":
            out.append([2])
        elif e[0] == "start-master":
            out.append([5])
        elif e[0] == "open":
            if last_failed is not None and e[1] - last_failed >= 20:
                out.append([4])
            out.append([3, bool(e[2])])
            last_failed = None if e[2] else e[1]
    return out


async def _run(n0, cycles):
    log, transports = [], []
    script = [False] * n0 + [True]
    for c in cycles:
        script += [False] * c["fails"] + ["instant"] * c.get("instant", 0) + [True]
    conn, proto = CI.make_connection(script, log, transports)
    loop = asyncio.get_running_loop()
    sm_puts = [0]
    wq = proto._queues.write
    orig_put = wq.put_nowait

    def put_nowait(frame):
        if int(frame.frame_type) == 0x19:
            sm_puts[0] += 1            # a start-master request is handed to the transmit queue
            log.append(["start-master"])
        return orig_put(frame)
    wq.put_nowait = put_nowait
    await conn.connect()
    for _ in range(100):
        if proto.connected.is_set():
            break
        await asyncio.sleep(1)
    await PI.settle(20)
    watched = []
    kind, payload = PI.captured()["sensor"]
    outs = []
    identity_ok = True
    rec = PI.Recorder()
    rec.install()
    for c in cycles:
        reader, writer = transports[-1]
        busy = None
        if c.get("busy") and "ecomax" not in proto.data:
            # a user subscribed to the device entry and is slow: the consumer that creates the entry is still inside
            # get_device_entry when the connection drops
            busy = loop.create_future()

            async def slow(dev, busy=busy):
                await busy
            proto.subscribe("ecomax", slow)
        # traffic: frames from the controller (and from an ecoSTER panel) create / reach the devices
        for sender in c["traffic"]:
            reader.feed_data(G.enc(kind, 0x56, sender, 48, 5, payload) if sender == 0x45 else G.enc(0x40, 0x56, sender, 48, 5, b""))
            await PI.settle(12)
        for name in list(proto.data):
            dev = proto.data[name]
            if not any(d is dev for d in watched):
                watched.append(dev)
                CI.watch_device(dev, len(watched) - 1, log)
        await PI.settle(6)
        devices = len(watched)
        before = list(watched)
        mark = len(log)
        nt = len(transports) + c.get("instant", 0)
        count_sm = lambda: sm_puts[0]
        sm_before = count_sm()
        # the k-th read / write after the traffic ends in a fault
        for _ in range(c["after"]):
            reader.feed_data(G.enc(0x31, 0x45, 0x56, 0, 5, b""))       # a frame for somebody else: one more successful read
            await PI.settle(6)
        writer.close_delay = c.get("slow_close", 0)      # the transport lost in this cycle takes that long to finish closing
        f = c["fault"]
        if f == "eof":
            reader.feed_eof()
        elif f == "oserror":
            reader.set_exception(OSError("scripted read failure"))
            writer.lost_with = ConnectionResetError("scripted read failure")    # (as a real transport: wait_closed() re-raises it)
        elif f == "write":
            from pyplumio.frames.requests import UIDRequest
            from pyplumio.const import DeviceType
            writer.fail_on = writer.writes + 1
            writer.lost_with = BrokenPipeError("write failed")
            proto._queues.write.put_nowait(UIDRequest(recipient=DeviceType.ECOMAX))
            reader.feed_data(G.enc(0x31, 0x45, 0x56, 0, 5, b""))
        elif f in ("stall", "eof-mid"):
            # the first `cut` bytes of a frame arrive, then the line goes silent (stall) or the stream ends (eof-mid)
            fb = G.enc(kind, 0x56, 0x45, 48, 5, payload)
            reader.feed_data(fb[:max(1, min(len(fb) - 1, c.get("cut", 8)))])
            if f == "eof-mid":
                reader.feed_eof()
        # "timeout": nothing arrives any more
        for _ in range(400 + 21 * c["fails"]):
            await asyncio.sleep(1)
            if busy is not None and not busy.done() and not proto.connected.is_set():
                busy.set_result(None)           # the slow subscriber returns while the connection is down
            if len(transports) > nt and proto.connected.is_set():
                break
        if busy is not None and not busy.done():
            busy.set_result(None)
        await PI.settle(30)
        # after re-establishment a frame must still reach its device
        probe_ok = True
        if "ecomax" in proto.data:
            n_before = len(rec.calls)
            transports[-1][0].feed_data(G.enc(kind, 0x56, 0x45, 48, 5, payload))
            await PI.settle(20)
            probe_ok = len(rec.calls) == n_before + 1 and rec.objects[rec.calls[-1][0]] is proto.data["ecomax"]
            for name in list(proto.data):
                dev = proto.data[name]
                if not any(d is dev for d in watched):
                    watched.append(dev)
                    CI.watch_device(dev, len(watched) - 1, log)
        # one loss / re-establishment per successful open: a transport whose first write fails at once ("instant") gives a
        # further complete cycle within this one
        segs, cur, seen_ok = [], [], False
        for e in log[mark:]:
            if seen_ok and (e[0] == "writer-closed" or (e[0] == "connected" and e[2] is False)):
                segs.append(cur)
                cur, seen_ok = [], False
            cur.append(e)
            if e[0] == "open" and e[2]:
                seen_ok = True
        segs.append(cur)
        tc = CI.task_counts(proto, conn)
        for i, d in enumerate(before):
            name = type(d).__name__.lower()
            if proto.data.get(name) is not d:
                identity_ok = False
        sm_total = count_sm() - sm_before
        for j, seg in enumerate(segs):
            opens = [e for e in seg if e[0] == "open"]
            gaps = []
            for i, e in enumerate(opens):
                gaps.append([0 if i == 0 else int(round(e[1] - opens[i - 1][1])), bool(e[2])])
            last = j == len(segs) - 1
            outs.append({"devices": devices,
                         "out": [[e[1] for e in seg if e[0] == "connected" and e[2] is False],
                                 len([e for e in seg if e[0] == "writer-closed"]),
                                 gaps,
                                 # start-master puts are counted over the whole cycle: one per established transport
                                 (sm_total - (len(segs) - 1)) if last else 1,
                                 [e[1] for e in seg if e[0] == "connected" and e[2] is True],
                                 tc["producers"], tc["consumers"]],
                         "other_tasks": tc["protocol_other"] + tc["connection"], "probe_ok": probe_ok})
    raw = raw_log(log)
    await asyncio.wait_for(conn.close(), timeout=300)
    rec.uninstall()
    return {"cycles": outs, "identity_ok": identity_ok and all(o["probe_ok"] for o in outs), "raw": raw}


async def _reopen_session(closes, fails):
    """The user closes the connection and opens it again (the same Connection object) `closes` times; then the connection is lost
    (end of stream) with `fails` failing reconnect attempts.  Returns the open attempts logged after the loss and whether the
    protocol is connected again."""
    log, transports = [], []
    script = [True] * (closes + 1) + [False] * fails + [True]
    conn, proto = CI.make_connection(script, log, transports)
    await conn.connect()
    await PI.settle(20)
    for _ in range(closes):
        await asyncio.wait_for(conn.close(), timeout=300)
        await PI.settle(10)
        await conn.connect()
        await PI.settle(20)
    n = len(log)
    transports[-1][0].feed_eof()
    for _ in range(25 * (fails + 1)):
        await asyncio.sleep(1)
        if len(transports) > closes + 1 and proto.connected.is_set():
            break
    opens = [bool(e[2]) for e in log[n:] if e[0] == "open"]
    connected = proto.connected.is_set()
    await asyncio.wait_for(conn.close(), timeout=300)
    return {"opens": opens, "connected": connected}


class C11(Prop):
    id = "C11"
    prop_file = "Props/C11.v"
    rule = ("real Connection (scripted _open_connection) + AsyncProtocol + fake transports under the virtual-time loop: 0..2 failing initial "
            "opens, 1..4 loss/reconnect cycles, each with traffic (frames from the controller and/or an ecoSTER panel, creating 0..2 devices), "
            "a fault at the k-th read or write (end of stream, OSError, silence until the 10 s read timeout, failing write, silence or end of stream after the first 1..n-1 bytes of a frame) and 0..3 failing "
            "reconnect attempts (and one outage of 1200 failing attempts), lost transports that take 0 / 3 / 12 s to finish closing, and 0..2 re-established transports whose very first write fails at once; observed per cycle: connected=False/True events per device, transport close calls, open attempts with their "
            "virtual-time gaps, start-master frames on the new transport, live producer/consumer tasks.  Non-trivial = a device is known when "
            "the connection is lost; distinct by case content.")
    assumptions = ["the chronological history of every run (device events, transport closes, open attempts with the back-off between them, "
                   "start-master puts) is also judged by the monitor of the event-level model (mon_ok, accepted for every event sequence of "
                   "the model: C11_sm)", "sockets / serial ports and wait_for cancellation inside a real transport are not modelled: faults are injected at the "
                   "StreamReader / StreamWriter boundary", "virtual time stands for real time (back-off measured on the loop clock)"]

    def generate(self, rng, tier):
        cases = []
        for _ in range(400 if tier == "quick" else 5000):
            cycles = []
            for i in range(rng.randrange(1, 5)):
                traffic = rng.choice([[], [0x45], [0x45, 0x45], [0x51], [0x45, 0x51]]) if i == 0 or rng.random() < 0.4 else rng.choice([[], [0x45]])
                cycles.append({"traffic": traffic, "fault": rng.choice(FAULTS), "after": rng.randrange(0, 4), "fails": rng.randrange(0, 4),
                               "busy": i == 0 and rng.random() < 0.4,
                               "instant": rng.choice([0, 0, 0, 1, 2]), "slow_close": rng.choice([0, 0, 0, 3, 12]),
                               "cut": rng.choice([1, 3, 6, 7, 8, 9, 10, rng.randrange(1, 400), 10 ** 6])})
            cases.append({"kind": "random", "n0": rng.randrange(0, 3), "cycles": cycles})
        # an outage of hours: more than a thousand failing attempts in one chain, then success
        for fails in ([1200] if tier == "quick" else [999, 1200, 2500]):
            cases.append({"kind": "long-outage", "n0": 0, "cycles": [{"traffic": [0x45], "fault": rng.choice(["eof", "timeout"]), "after": 1,
                                                                       "fails": fails, "busy": False, "instant": 0, "slow_close": 0, "cut": 8}]})
        return cases

    def run_impl(self, c):
        if c.get("kind") == "reopen":
            return self._reopen_run(c)
        r = vloop.run(_run, c["n0"], c["cycles"])
        c["_devices"] = [o["devices"] for o in r["cycles"]]
        c["_raw"] = r["raw"]        # (the chronological log is judged by the monitor; it is no part of the per-cycle behaviour)
        return {"outs": [o["out"] for o in r["cycles"]], "identity_ok": r["identity_ok"],
                "no_leftover_tasks": all(o["other_tasks"] == 0 for o in r["cycles"])}

    def extra_checks(self, tier, rng):
        """a Connection that was closed and opened again recovers from a loss like a fresh one"""
        fails_list = []
        self._reopen_sessions = 0
        for closes in (1, 2):
            for fails in (0, 1, 2):
                c = {"kind": "reopen", "closes": closes, "fails": fails}
                b = self._reopen_run(c)
                self._reopen_sessions += 1
                if not self._reopen_ok(c, b):
                    fails_list.append({"case": c, "impl": b, "reason": "after close() and connect() on the same Connection object a lost "
                                       "connection is not re-established by the reconnect routine (attempts until one succeeds)"})
        return fails_list

    def _reopen_run(self, c):
        return vloop.run(_reopen_session, c["closes"], c["fails"])

    @staticmethod
    def _reopen_ok(c, b):
        return b["opens"] == [False] * c["fails"] + [True] and b["connected"]

    def extra_coverage(self):
        return {"reopen_sessions": getattr(self, "_reopen_sessions", 0)}

    def _cin(self, c):
        # devices known at each loss: observed once from the traffic (ecoMAX and/or ecoSTER frames seen so far)
        seen, out = set(), []
        for cy in c["cycles"]:
            if cy.get("busy") and 0x45 not in seen and 0x45 in cy["traffic"]:
                # the consumer creating the ecoMAX entry is held by a slow subscriber (it also holds the entry lock):
                # nothing that arrives from its frame on is known yet when the connection drops
                known = len(seen | set(cy["traffic"][:cy["traffic"].index(0x45)]))
                out.append([known, cy["fails"]])
                for s in cy["traffic"]:
                    seen.add(s)
                # (devices that come into being later in this cycle are subscribed to by the harness only after it)
                out += [[known, 0]] * cy.get("instant", 0)
                continue
            for s in cy["traffic"]:
                seen.add(s)
            out.append([len(seen), cy["fails"]])
            out += [[len(seen), 0]] * cy.get("instant", 0)     # each instantly failing transport is one more complete cycle
        return out

    def model_many(self, cases):
        if cases and all(c.get("kind") == "reopen" for c in cases):
            return [None] * len(cases)
        res = model.call_many("run_conn", [[True, self._cin(c)] for c in cases])
        fix = lambda o: [o[0], o[1], [[g, bool(k)] for g, k in o[2]], o[3], o[4], o[5], o[6]]
        return [{"outs": [fix(o) for o in r], "identity_ok": True, "no_leftover_tasks": True} for r in res]

    def spec_many(self, cases, behaviours):
        if cases and all(c.get("kind") == "reopen" for c in cases):
            return [self._reopen_ok(c, b) for c, b in zip(cases, behaviours)]
        res = model.call_many("P11", [[self._cin(c), b["outs"]] for c, b in zip(cases, behaviours)])
        # the whole chronological history (not cut into cycles) against the monitor of the event-level model (C11_sm)
        mon = model.call_many("mon11", [c.get("_raw", []) for c in cases])
        return [bool(r) and bool(m) and b["identity_ok"] for r, m, b in zip(res, mon, behaviours)]


    def nontrivial_key(self, c, mb):
        return repr(c["cycles"]) if any(d > 0 for d, _ in self._cin(c)) else None

    def kind(self, c):
        return c["kind"]


if __name__ == "__main__":
    raise SystemExit(C11().main())

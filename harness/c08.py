"""C08 -- set / confirm / retry: requested value only, bounded attempts, truthful result."""
from __future__ import annotations

import itertools

from harness import frames_gen as G
from harness import model, param_impl, vloop
from harness.common import Prop


class C08(Prop):
    id = "C08"
    prop_file = "Props/C08.v"
    rule = ("histories of one set call: retries 0..3 x retry interval (5 s default, 0.3, 0.75, 2.2, 11 s) x reports {stale (old value), confirming (requested value), third value, narrowed bounds} "
            "placed before / between / after each timer expiry x version tracking on/off, for ecoMAX, mixer, thermostat, control and profile "
            "parameters; observed per point (the call, each event): set requests with their value, refresh requests, return value.  "
            "Non-trivial = at least one set request transmitted; distinct by (parameter, triple, request, retries, history, tracking).")
    assumptions = ["asyncio.sleep granularity and the order in which a report and a timer expiring at the same virtual instant are served are "
                   "fixed by the harness (both orders are generated as distinct histories)",
                   "reports are delivered through Parameter.update (the call the device handlers make) and, for ecoMAX parameters, also "
                   "as response frames through a real device (kind `frames`; `frames-hop`: the thread-pool job behind Request.create is completed by the harness, "
                   "so that a report can be handled while the request of a transmission is being built)"]

    def generate(self, rng, tier):
        t = G.tables()
        cases = []
        targets = []
        for tbl, name in enumerate(param_impl.TABLES):
            if tbl == 5:
                continue
            for idx, d in enumerate(t[name]):
                if not d["switch"] and d["multiplier"] == 1.0 and d["offset"] == 0:
                    targets.append((tbl, idx, d["size"]))
        base = [targets[0]] + [x for x in targets if x[0] in (2, 4, 7)][:3] + [rng.choice(targets) for _ in range(3)]
        n_hist = 0
        for tbl, idx, size in base:
            for retries in (0, 1, 2, 3):
                for tracking in (False, True):
                    # systematic: one report of each kind at each position among `retries+1` ticks
                    nticks = retries + 1
                    for kind in ("stale", "confirm", "third", "none"):
                        for pos in range(nticks + 1):
                            evs = []
                            for i in range(nticks + 1):
                                if i == pos and kind != "none":
                                    evs.append(kind)
                                if i < nticks:
                                    evs.append("tick")
                            cases.append(self._case(rng, tbl, idx, size, retries, tracking, evs, "systematic:" + kind))
                            n_hist += 1
        extra = 300 if tier == "quick" else 8000
        for _ in range(extra):
            tbl, idx, size = rng.choice(targets)
            retries = rng.choice([0, 1, 2, 3, 5])
            evs = [rng.choice(["tick", "tick", "stale", "confirm", "third", "narrow"]) for _ in range(rng.randrange(0, 9))]
            cases.append(self._case(rng, tbl, idx, size, retries, rng.random() < 0.5, evs, "random"))
        # two calls on the SAME parameter object: the first goes unconfirmed (every request lost), the second asks to revert, or for
        # a third value, while the controller confirms, reports the first request late, or stays silent
        for _ in range(80 if tier == "quick" else 2000):
            tbl, idx, size = rng.choice([x for x in targets if x[2] == 1])
            v0, v1, v2 = rng.sample(range(1, 250), 3)
            r1 = rng.choice([1, 2])
            call1 = [v1, r1, [[0]] * (r1 + 1)]
            req2 = rng.choice([v0, v2])
            r2 = rng.choice([1, 2, 3])
            evs2 = []
            for _ in range(rng.randrange(0, 5)):
                e = rng.choice(["tick", "confirm", "late-first", "old"])
                evs2.append([0] if e == "tick" else [1, [req2 if e == "confirm" else v1 if e == "late-first" else v0, 0, 255]])
            evs2 += [[0]] * (r2 + 1)
            cases.append({"kind": "two-calls", "tbl": tbl, "idx": idx, "triple": [v0, 0, 255], "tracking": rng.random() < 0.5,
                          "calls": [call1, [req2, r2, evs2]], "req": v1, "retries": r1, "events": call1[2], "sub": 0})
        # the call made through Device.set(name, displayed value) on SCALED numbers, the value held before being the raw value that is
        # numerically equal to the displayed value requested (raw 2 held = 0.2 displayed, 2.0 requested = raw 20)
        scaled = [(tbl, idx, d) for tbl, name in enumerate(param_impl.TABLES) if tbl in (0, 1, 2, 3, 4)
                  for idx, d in enumerate(t[name]) if not d["switch"] and (d["multiplier"] != 1.0 or d["offset"] != 0)]
        dev_cases = []
        for _ in range(60 if tier == "quick" else 1200):
            tbl, idx, d = rng.choice(scaled)
            hi = 255 if d["size"] == 1 else 65535
            req_raw = rng.randrange(1, hi + 1)
            shown = round((req_raw - d["offset"]) * d["multiplier"], 6)
            held = int(shown) if (0 <= int(shown) <= hi and int(shown) != req_raw and rng.random() < 0.7) else (req_raw + 1) % (hi + 1)
            retries = rng.choice([1, 2])
            evs = [rng.choice(["tick", "stale", "confirm"]) for _ in range(rng.randrange(0, 5))] + ["tick"] * (retries + 1)
            events = [[0] if e == "tick" else [1, [held if e == "stale" else req_raw, 0, hi]] for e in evs]
            dev_cases.append({"kind": "device-set", "tbl": tbl, "idx": idx, "triple": [held, 0, hi], "req": req_raw, "shown": shown,
                              "retries": retries, "tracking": rng.random() < 0.5, "events": events, "sub": 0})
        # the raw value of each displayed request by the Coq model (PrimFloat); cases where it is not the intended raw are dropped
        from harness import coqeval
        back = coqeval.eval_many([f"fe_to_raw {c['tbl']} {c['idx']} {coqeval.float_lit(float(c['shown']))}" for c in dev_cases], "C08d")
        cases += [c for c, b in zip(dev_cases, back) if b[0] == 1 and b[1] == c["req"]]
        # the same histories on a real ecoMAX device: parameter created and every report delivered by ecoMAX-parameters response
        # frames (a stale report is then byte-identical to the frame that created the parameter)
        eco = [x for x in targets if x[0] in (0, 1)]
        for _ in range(120 if tier == "quick" else 3000):
            tbl, idx, size = rng.choice(eco)
            retries = rng.choice([1, 2, 3])
            evs = [rng.choice(["tick", "tick", "stale", "stale", "confirm", "third"]) for _ in range(rng.randrange(1, 8))]
            c = self._case(rng, tbl, idx, size, retries, rng.random() < 0.5, evs, "frames")
            c["b0"] = rng.randrange(256)
            cases.append(c)
        # a mixer parameter of a real device; the creating response starts at slot 0, every later report is a PARTIAL response that starts at
        # the parameter's own slot and also carries the next slot with an unrelated value
        mix = [x for x in targets if x[0] in (2, 3) and x[1] >= 1]
        for _ in range(80 if tier == "quick" else 1500):
            tbl, idx, size = rng.choice(mix)
            retries = rng.choice([1, 2, 3])
            evs = [rng.choice(["tick", "tick", "stale", "stale", "confirm", "third"]) for _ in range(rng.randrange(1, 8))]
            c = self._case(rng, tbl, idx, size, retries, rng.random() < 0.5, evs, "mixer-frames")
            c["b0"] = rng.randrange(256)
            c["unrelated"] = rng.choice([v for v in range(1, 250) if v not in (c["triple"][0], c["req"])])
            cases.append(c)
        # ... with the thread-pool job behind Request.create completing late: a report is handled while the request of a
        # transmission is being built (`hop` = first event, or the event right after a timer expiry)
        for _ in range(150 if tier == "quick" else 3000):
            tbl, idx, size = rng.choice(eco)
            retries = rng.choice([1, 2, 3])
            evs = []
            for j in range(rng.randrange(1, 6)):
                if j > 0 or rng.random() < 0.4:
                    evs.append("tick")
                if rng.random() < 0.6:
                    evs.append(rng.choice(["hop-stale", "hop-stale", "hop-third", "hop-confirm"]))
                if rng.random() < 0.2:
                    evs.append(rng.choice(["stale", "confirm"]))
            c = self._case(rng, tbl, idx, size, retries, rng.random() < 0.5, evs, "frames-hop")
            c["b0"] = rng.randrange(256)
            cases.append(c)
        return cases

    def _case(self, rng, tbl, idx, size, retries, tracking, evs, kind):
        hi = 255 if size == 1 else 65535
        lo_b, hi_b = 0, hi
        old = rng.randrange(0, hi + 1)
        req = rng.choice([v for v in (0, 1, hi, hi - 1, rng.randrange(hi + 1)) if v != old])
        third = rng.choice([v for v in range(0, min(hi, 300)) if v not in (old, req)])
        events = []
        for e in evs:
            if e == "tick":
                events.append([0])
            elif e == "stale":
                events.append([1, [old, lo_b, hi_b]])
            elif e == "confirm":
                events.append([1, [req, lo_b, hi_b]])
            elif e == "third":
                events.append([1, [third, lo_b, hi_b]])
            elif e.startswith("hop-"):
                # a report right after another hop report (no transmission in between) is an ordinary report
                first_or_after_tick = not events or events[-1] == [0]
                events.append([3 if first_or_after_tick else 1, [{"stale": old, "third": third, "confirm": req}[e[4:]], lo_b, hi_b]])
            else:
                events.append([1, [old, old, old]])
        return {"kind": kind, "tbl": tbl, "idx": idx, "triple": [old, lo_b, hi_b], "req": req, "retries": retries,
                "tracking": tracking, "events": events, "sub": rng.choice([0, 1]),
                # the retry interval: the default and values that are no multiple of any convenient polling step
                "timeout": rng.choice([5.0, 5.0, 0.3, 0.75, 2.2, 11.0])}

    def run_impl(self, c):
        if c["kind"] == "two-calls":
            res = vloop.run(param_impl.run_session, c["tbl"], c["idx"], c["triple"], c["calls"], c["tracking"])
            return [[r[0] for r in res], [r[1] for r in res]]
        if c["kind"] == "mixer-frames":
            if "_payloads" not in c:
                idx = c["idx"]
                full = [[[([c["triple"]] if k == idx else [[k + 1, 0, 255]]) for k in range(idx + 2)]]]
                pls = [list(model.call("enc_mixer_params", [c["b0"], 0, idx + 2, full[0:1] and [full[0][0]]]))]
                for ev in c["events"]:
                    if ev[0] == 1:
                        pls.append(list(model.call("enc_mixer_params", [c["b0"], idx, 2, [[[ev[1]], [[c["unrelated"], 0, 255]]]]])))
                c["_payloads"] = pls
            outs, after, _ = vloop.run(param_impl.run_set_call_frames, c["tbl"] - 2, c["idx"], c["triple"], c["req"], c["retries"],
                                       c.get("timeout", 5.0), c["events"], c["tracking"], c["_payloads"], False, True)
            return [outs, after]
        if c["kind"] in ("frames", "frames-hop"):
            if "_payloads" not in c:
                trs = [c["triple"]] + [ev[1] for ev in c["events"] if ev[0] in (1, 3)]
                c["_payloads"] = [list(model.call("enc_ecomax_params", [c["b0"], c["idx"], [[tr]]])) for tr in trs]
            outs, after, _ = vloop.run(param_impl.run_set_call_frames, c["tbl"], c["idx"], c["triple"], c["req"], c["retries"], c.get("timeout", 5.0),
                                       c["events"], c["tracking"], c["_payloads"], c["kind"] == "frames-hop")
            return [outs, after]
        if c["kind"] == "device-set":
            outs, after, _ = vloop.run(param_impl.run_set_call, c["tbl"], c["idx"], c["triple"], c["shown"], c["retries"], c.get("timeout", 5.0),
                                       c["events"], c["tracking"], c["sub"], True)
            return [outs, after]
        outs, after, _ = vloop.run(param_impl.run_set_call, c["tbl"], c["idx"], c["triple"], c["req"], c["retries"], c.get("timeout", 5.0),
                                   c["events"], c["tracking"], c["sub"])
        return [outs, after]

    def _margs(self, c):
        # a report handled while a request is being built is, for the model and the monitor, a report right after that transmission
        # (the value a request carries is fixed when the transmission step starts)
        evs = [[1, ev[1]] if ev[0] == 3 else ev for ev in c["events"]]
        return [[c["tracking"]] * 12, c["triple"], c["req"], c["retries"], evs]

    def _session_model(self, c):
        fix = lambda r: [[([o[0], bool(o[1])] if o[0] == 2 else o) for o in pt] for pt in r]
        held, outs, befores = c["triple"], [], []
        for req, retries, evs in c["calls"]:
            m = model.call("run_set", [[c["tracking"]] * 12, held, req, retries, evs])
            outs.append(fix(m[0]))
            befores.append(held)
            held = m[1]
        return [outs, befores]

    @staticmethod
    def _hop_args(c):
        """frames-hop history in the shape of the finer model: reports inside the first transmission step, then timer expiries
        with the reports handled inside their step, and ordinary reports"""
        evs = list(c["events"])
        during0 = [evs.pop(0)[1]] if evs and evs[0][0] == 3 else []
        hevs = []
        for i, ev in enumerate(evs):
            if ev[0] == 0:
                hevs.append([0, []])
            elif ev[0] == 3 and i > 0 and evs[i - 1][0] == 0:
                hevs[-1][1].append(ev[1])
            else:
                hevs.append([1, ev[1]])
        return [[c["tracking"]] * 12, c["triple"], c["req"], c["retries"], during0, hevs]

    def model_many(self, cases):
        single = [c for c in cases if c["kind"] != "two-calls"]
        # frames-hop: the finer model (Model/ParamSetHop.v), proved equal to the coarse one on the flattened history (C08_hop_refines)
        res = iter([model.call("run_set_hop", self._hop_args(c)) if c["kind"] == "frames-hop" else r
                    for c, r in zip(single, model.call_many("run_set", [self._margs(c) for c in single]))])
        out = []
        for c in cases:
            if c["kind"] == "two-calls":
                out.append(self._session_model(c))
            else:
                r = next(res)
                out.append([[[([o[0], bool(o[1])] if o[0] == 2 else o) for o in pt] for pt in r[0]], r[1]])
        return out

    def spec_many(self, cases, behaviours):
        two = [(c, b) for c, b in zip(cases, behaviours) if c["kind"] == "two-calls"]
        if two:
            rest = [(c, b) for c, b in zip(cases, behaviours) if c["kind"] != "two-calls"]
            r_rest = iter(self.spec_many([c for c, _ in rest], [b for _, b in rest])) if rest else iter([])
            out = []
            for c, b in zip(cases, behaviours):
                if c["kind"] != "two-calls":
                    out.append(next(r_rest))
                    continue
                ok = True
                for (req, retries, evs), outs, before in zip(c["calls"], b[0], b[1]):
                    if any(isinstance(o[0], str) for pt in outs for o in pt):
                        ok = False
                        break
                    # each call is judged on its own: the value held before it, its request, its history
                    ok = ok and bool(model.call("P08", [[c["tracking"]] * 12, before, req, retries, evs, outs]))
                out.append(ok)
            return out
        args = []
        bad = []
        for c, b in zip(cases, behaviours):
            outs = b[0]
            bad.append(any(isinstance(o[0], str) for pt in outs for o in pt))
            args.append(self._margs(c) + [[[o for o in pt if not isinstance(o[0], str)] for pt in outs]])
        res = model.call_many("P08", args)
        return [bool(r) and not x for r, x in zip(res, bad)]

    def nontrivial_key(self, c, mb):
        if c["kind"] == "two-calls":
            return repr(c)
        if any(o[0] == 0 for pt in mb[0] for o in pt):
            return repr(c)
        return None

    def kind(self, c):
        return c["kind"]


if __name__ == "__main__":
    raise SystemExit(C08().main())

"""C19 -- primitive wire types pack, unpack and size consistently for every value."""
from __future__ import annotations

import socket
import struct

from harness import model
from harness.common import Prop

# (class name, model type tag)
INTS = {"SignedChar": [1, 1], "Short": [1, 2], "Int": [1, 4], "Int64": [1, 8],
        "UnsignedChar": [2, 1], "UnsignedShort": [2, 2], "UnsignedInt": [2, 4], "UInt64": [2, 8]}


def rand_text(rng, nmax):
    pools = [(0x20, 0x7E), (0xA0, 0x7FF), (0x800, 0xD7FF), (0x10000, 0x1FFFF)]
    out = []
    for _ in range(rng.randrange(0, nmax + 1)):
        lo, hi = pools[rng.choice([0, 0, 1, 1, 2, 3])]
        out.append(chr(rng.randrange(lo, hi + 1)))
    return "".join(out)


class C19(Prop):
    id = "C19"
    prop_file = "Props/C19.v"
    rule = ("boundary and random interior values of each integer type, random non-NaN float/double bit patterns plus the edges of both ranges (zeros, subnormals, largest finite values, infinities), random IPv4/IPv6 addresses and the special IPv6 blocks (IPv4-mapped / -compatible, NAT64, loopback, unspecified, link-local, multicast, all ones), "
            "Unicode strings mixing 1-4 byte code points (String, VarString; VarString also with leading / embedded / trailing NUL, blanks and control characters), byte strings of length 0..255 (VarBytes), all bit positions x "
            "random bytes (BitArray), each followed by random trailing bytes; observed to_bytes(), from_bytes().value, .size.  Non-trivial = "
            "value representable; distinct by (type, value, trailing).")
    assumptions = ["UTF-8 codec, socket.inet_* and struct double<->single conversion are CPython's; floats are compared by bit pattern"]

    def generate(self, rng, tier):
        n = 400 if tier == "quick" else 6000
        cases = []
        tr = lambda: [rng.randrange(256) for _ in range(rng.choice([0, 0, 1, 3, 9]))]
        for name, (tag, w) in INTS.items():
            lo, hi = (-(1 << (8 * w - 1)), (1 << (8 * w - 1)) - 1) if tag == 1 else (0, (1 << (8 * w)) - 1)
            vals = [lo, lo + 1, hi - 1, hi, 0, 1, -1 if tag == 1 else 2, 255, 256, 127, 128]
            vals = [v for v in vals if lo <= v <= hi] + [rng.randrange(lo, hi + 1) for _ in range(n // 16)]
            for v in vals:
                cases.append({"kind": name, "v": v, "trailing": tr()})
        # the edges of the binary32 / binary64 ranges: zeros, smallest and largest subnormals and normals, the infinities
        for sign in (0, 1):
            for b in (0x00000000, 0x00000001, 0x007FFFFF, 0x00800000, 0x00800001, 0x3F800000, 0x7F7FFFFD, 0x7F7FFFFE, 0x7F7FFFFF, 0x7F800000):
                cases.append({"kind": "Float", "v": b | (sign << 31), "trailing": tr()})
            for d in (0, 1, (1 << 52) - 1, 1 << 52, 0x3FF0000000000000, 0x47EFFFFFE0000000, 0x7FEFFFFFFFFFFFFE, 0x7FEFFFFFFFFFFFFF,
                      0x7FF0000000000000):
                cases.append({"kind": "Double", "v": d | (sign << 63), "trailing": tr()})
        for _ in range(n):
            b = rng.getrandbits(32)
            if (b >> 23) & 0xFF == 0xFF and b & 0x7FFFFF:
                continue
            cases.append({"kind": "Float", "v": b, "trailing": tr()})
            d = rng.getrandbits(64)
            if (d >> 52) & 0x7FF == 0x7FF and d & ((1 << 52) - 1):
                continue
            cases.append({"kind": "Double", "v": d, "trailing": tr()})
        for _ in range(n // 2):
            cases.append({"kind": "IPv4", "v": [rng.randrange(256) for _ in range(4)], "trailing": tr()})
            cases.append({"kind": "IPv6", "v": [rng.choice([0, 0, rng.randrange(256)]) for _ in range(16)], "trailing": tr()})
        # the special blocks of the IPv6 address space (textual forms differ: IPv4-mapped and -compatible addresses, NAT64, loopback,
        # unspecified, link-local, multicast, documentation, all ones)
        v4 = lambda: [rng.randrange(256) for _ in range(4)]
        for _ in range(max(8, n // 8)):
            for pre in ([0] * 10 + [0xFF, 0xFF], [0] * 12, [0, 0x64, 0xFF, 0x9B] + [0] * 8, [0] * 8 + [0xFF, 0xFF, 0, 0],
                        [0] * 10 + [0xFF, 0xFE], [0xFE, 0x80] + [0] * 10, [0xFF, 0x02] + [0] * 10, [0x20, 0x01, 0x0D, 0xB8] + [0] * 8):
                cases.append({"kind": "IPv6", "v": list(pre) + v4(), "trailing": tr()})
        for v in ([0] * 16, [0] * 15 + [1], [0xFF] * 16, [0] * 10 + [0xFF, 0xFF, 0, 0, 0, 0], [0] * 10 + [0xFF, 0xFF, 255, 255, 255, 255]):
            cases.append({"kind": "IPv6", "v": list(v), "trailing": tr()})
        for _ in range(n):
            s = rand_text(rng, 12).replace("\0", "")
            cases.append({"kind": "String", "v": list(s.encode()), "trailing": tr()})
            s = rand_text(rng, 40)
            if rng.random() < 0.3:
                # a length-prefixed string may contain and end in anything: NUL, blanks, control characters
                pad = rng.choice(["\0", "\0\0", " ", "\n", "\t", "\x7f"])
                s = rng.choice([s + pad, pad + s, s[:len(s) // 2] + pad + s[len(s) // 2:], pad])
            if len(s.encode()) <= 255:
                cases.append({"kind": "VarString", "v": list(s.encode()), "trailing": tr()})
            cases.append({"kind": "VarBytes", "v": [rng.randrange(256) for _ in range(rng.choice([0, 1, 2, 255, rng.randrange(256)]))],
                          "trailing": tr()})
        # an object that has unpacked another value before (often one the new value merely extends, or an empty one)
        for c in list(cases):
            if rng.random() >= 0.3 or c["kind"] in ("IPv4", "IPv6"):
                continue
            d = dict(c)
            if c["kind"] in ("String", "VarString"):
                txt = bytes(c["v"]).decode()
                cut = rng.choice([0, len(txt) // 2, max(0, len(txt) - 1), len(txt)])
                d["prev"] = list(txt[:cut].encode())
            elif c["kind"] == "VarBytes":
                d["prev"] = list(c["v"][:rng.randrange(0, len(c["v"]) + 1)])
            else:
                others = [o for o in cases if o["kind"] == c["kind"]]
                d["prev"] = rng.choice(others)["v"]
            d["kind"] = c["kind"]
            d["reused"] = True
            cases.append(d)
        for bit in range(8):
            for byte in ([0, 1, 0x80, 0xFF, 0x55] + [rng.randrange(256) for _ in range(6)] if tier == "quick" else range(256)):
                cases.append({"kind": "BitArray", "v": bit, "byte": byte, "trailing": tr()})
        return cases

    def run_impl(self, case):
        from pyplumio.helpers import data_types as DT
        k, v, tr = case["kind"], case["v"], bytes(case["trailing"])
        def read_back(cls, data, make_prev):
            """from_bytes on a fresh object - or, when the case has an earlier value, unpack on an object that has already unpacked
            that earlier value (decoders keep and reuse their data-type objects from frame to frame)"""
            if "prev" not in case:
                return cls.from_bytes(data)
            obj = cls()
            obj.unpack(make_prev(case["prev"]).to_bytes() + b"\x00\x00\x00\x00\x00\x00\x00\x00")
            obj.unpack(data)
            return obj
        try:
            if k in INTS:
                cls = getattr(DT, k)
                o = cls(v)
                packed, s0 = o.to_bytes(), o.size
                o2 = read_back(cls, packed + tr, cls)
                return {"packed": list(packed), "size0": s0, "value": [1, o2.value], "size": o2.size}
            if k in ("Float", "Double"):
                fmt, cls = ("<f", DT.Float) if k == "Float" else ("<d", DT.Double)
                w = 4 if k == "Float" else 8
                val = struct.unpack(fmt, v.to_bytes(w, "little"))[0]
                o = cls(val)
                packed, s0 = o.to_bytes(), o.size
                o2 = read_back(cls, packed + tr, lambda pv: cls(struct.unpack(fmt, pv.to_bytes(w, "little"))[0]))
                return {"packed": list(packed), "size0": s0,
                        "value": [2, int.from_bytes(struct.pack(fmt, o2.value), "little")], "size": o2.size}
            if k in ("IPv4", "IPv6"):
                cls = getattr(DT, k)
                text = socket.inet_ntoa(bytes(v)) if k == "IPv4" else socket.inet_ntop(socket.AF_INET6, bytes(v))
                o = cls(text)
                packed, s0 = o.to_bytes(), o.size
                o2 = cls.from_bytes(packed + tr)
                try:
                    raw = socket.inet_aton(o2.value) if k == "IPv4" else socket.inet_pton(socket.AF_INET6, o2.value)
                except OSError:
                    raw = b""           # the value read back is not an address of this family at all
                return {"packed": list(packed), "size0": s0, "value": [3, list(raw)], "size": o2.size}
            if k in ("String", "VarString"):
                cls = getattr(DT, k)
                o = cls(bytes(v).decode())
                packed, s0 = o.to_bytes(), o.size
                o2 = read_back(cls, packed + tr, lambda pv: cls(bytes(pv).decode()))
                return {"packed": list(packed), "size0": s0, "value": [3, list(o2.value.encode())], "size": o2.size}
            if k == "VarBytes":
                o = DT.VarBytes(bytes(v))
                packed, s0 = o.to_bytes(), o.size
                o2 = read_back(DT.VarBytes, packed + tr, lambda pv: DT.VarBytes(bytes(pv)))
                return {"packed": list(packed), "size0": s0, "value": [3, list(o2.value)], "size": o2.size}
            if k == "BitArray":
                src = DT.BitArray(value=case["byte"], index=v)
                packed = src.to_bytes()                     # the byte that carries the eight flags
                o = DT.BitArray(index=v)
                o.unpack(packed + tr)
                nxt = DT.BitArray().next(v)
                return {"value": [4, bool(o.value)], "size": o.size, "next": nxt, "packed": list(packed), "src_value": bool(src.value)}
        except Exception as e:  # noqa: BLE001
            return {"error": type(e).__name__}

    @staticmethod
    def _mtype(case):
        k = case["kind"]
        if k in INTS:
            return INTS[k], [1, case["v"]]
        return {"Float": ([3], [2, case["v"]]), "Double": ([4], [2, case["v"]]), "IPv4": ([7], [3, case["v"]]),
                "IPv6": ([8], [3, case["v"]]), "String": ([6], [3, case["v"]])}[k]

    def model_many(self, cases):
        out = [None] * len(cases)
        fixed = [(i, c) for i, c in enumerate(cases) if c["kind"] not in ("VarString", "VarBytes", "BitArray")]
        packs = model.call_many("dt_pack", [list(self._mtype(c)) for _, c in fixed])
        unp = model.call_many("dt_unpack", [[self._mtype(c)[0], 0, bytes(p[0] if p else []) + bytes(c["trailing"])]
                                            for (_, c), p in zip(fixed, packs)])
        for (i, c), p, u in zip(fixed, packs, unp):
            if not p or not u:
                out[i] = {"error": "model:None"}
            else:
                val = u[0][0]
                val = [val[0], bool(val[1])] if val[0] == 4 else val
                out[i] = {"packed": p[0], "size0": len(p[0]), "value": val, "size": u[0][1]}
        var = [(i, c) for i, c in enumerate(cases) if c["kind"] in ("VarString", "VarBytes")]
        packs = model.call_many("pack_var", [bytes(c["v"]) for _, c in var])
        unp = model.call_many("unpack_var", [bytes(p[0] if p else []) + bytes(c["trailing"]) for (_, c), p in zip(var, packs)])
        for (i, c), p, u in zip(var, packs, unp):
            out[i] = {"packed": p[0], "size0": len(p[0]), "value": [3, u[0][0]], "size": u[0][1]} if p and u else {"error": "model:None"}
        bits = [(i, c) for i, c in enumerate(cases) if c["kind"] == "BitArray"]
        unp = model.call_many("dt_unpack", [[[5], c["v"], bytes([c["byte"]]) + bytes(c["trailing"])] for _, c in bits])
        nxt = model.call_many("bit_next", [c["v"] for _, c in bits])
        for (i, c), u, nx in zip(bits, unp, nxt):
            out[i] = {"value": [4, bool(u[0][0][1])], "size": u[0][1], "next": nx, "packed": [c["byte"]],
                      "src_value": bool((c["byte"] >> c["v"]) & 1)}
        return out

    def spec_many(self, cases, behaviours):
        res = []
        fixed_args, fixed_idx = [], []
        for i, (c, b) in enumerate(zip(cases, behaviours)):
            if "error" in b:
                res.append(False)
                continue
            k = c["kind"]
            if k in ("VarString", "VarBytes"):
                res.append(b["value"] == [3, c["v"]] and b["size"] == len(b["packed"]) == b["size0"]
                           and b["packed"] == [len(c["v"])] + c["v"])
            elif k == "BitArray":
                res.append(b["value"] == [4, bool((c["byte"] >> c["v"]) & 1)] and b["size"] == (1 if c["v"] == 7 else 0)
                           and b["next"] == (c["v"] + 1) % 8 and b["packed"] == [c["byte"]] and b["src_value"] == bool((c["byte"] >> c["v"]) & 1))
            else:
                t, v = self._mtype(c)
                fixed_args.append([t, v, bytes(b["packed"]), b["value"], b["size"]])
                fixed_idx.append(i)
                res.append(b["size0"] == len(b["packed"]))
        for i, r in zip(fixed_idx, model.call_many("P19", fixed_args)):
            res[i] = res[i] and bool(r)
        return res

    def kind(self, case):
        return case["kind"]


if __name__ == "__main__":
    raise SystemExit(C19().main())

"""C03 -- codec round trips and structural frame equality (frame level)."""
from __future__ import annotations

from harness import frames_gen as G
from harness import frames_impl as FI
from harness import model, reader_impl
from harness.common import Prop


class C03(Prop):
    id = "C03"
    prop_file = "Props/C03.v"
    rule = ("round trip: every frame kind x random addressing/versions/payload, serialised by Frame.bytes, read back by FrameReader with "
            "random trailing bytes; equality: pairs differing in exactly one of kind/recipient/sender/type/version/payload, equal-argument "
            "pairs, self pairs, message-built and data-built.  Non-trivial = a frame was delivered or a pair compared; distinct by case content.")
    assumptions = ["the two-way structures (network information, program version) are checked by the structure-level part of this check (C03s)"]

    def generate(self, rng, tier):
        kinds = [r["code"] for r in G.tables()["frame_types"]]
        n = 1500 if tier == "quick" else 30000
        cases = []
        for i in range(n):
            f, _ = G.rand_frame(rng, kinds, own=True, known_sender=True, known_kind=True,
                                maxlen=rng.choice([10, 40, 200, 990]))
            rest = G.rand_payload(rng, rng.choice([0, 0, 1, 5, 20]), dense68=rng.random() < 0.3)
            case = {"kind": "roundtrip", "f": [f[0], f[1], f[2], f[3], f[4], list(f[5])], "rest": list(rest)}
            if rng.random() < 0.25:
                # the frame object had an earlier life: built and serialised with other addressing / versions / payload, then
                # re-assigned (attributes; payload through the setter or edited in place) to the fields of this case
                pre = {"rcpt": rng.choice([f[1], 0x56, 0]), "sender": rng.choice([f[2], 0x45, 0x51]), "etype": rng.choice([f[3], rng.randrange(256)]),
                       "ever": rng.choice([f[4], rng.randrange(256)]), "payload": list(f[5]), "inplace": False}
                r = rng.random()
                if r < 0.35 and f[5]:
                    pre["payload"] = [rng.randrange(256) for _ in f[5]]
                    pre["inplace"] = True
                elif r < 0.6:
                    pre["payload"] = [rng.randrange(256) for _ in range(rng.choice([0, 1, 7]))]
                case["pre"] = pre
                case["kind"] = "roundtrip"
            cases.append(case)
        # payloads at and next to the size limit (frames of 998, 999 and 1000 bytes)
        for k in kinds:
            for plen in (988, 989, 990):
                if rng.random() < (0.2 if tier == "quick" else 1.0):
                    f = [k, rng.choice(G.OUR_RCPT), rng.choice(G.KNOWN_SENDERS), 48, 5, list(G.rand_payload(rng, plen))]
                    cases.append({"kind": "roundtrip", "f": f, "rest": list(G.rand_payload(rng, rng.choice([0, 3])))})
        for i in range(n):
            f, _ = G.rand_frame(rng, kinds, own=None, known_sender=None, known_kind=True, maxlen=12)
            f = [f[0], f[1], f[2], f[3], f[4], list(f[5])]
            g = list(f)
            g[5] = list(f[5])
            which = rng.choice(["same", "kind", "rcpt", "sender", "etype", "ever", "payload", "payload_len"])
            if which == "kind":
                g[0] = rng.choice([k for k in kinds if k != f[0]])
            elif which in ("rcpt", "sender"):
                i_ = 1 if which == "rcpt" else 2
                g[i_] = rng.choice([a for a in (0, 0x45, 0x51, 0x56) if a != f[i_]])
            elif which in ("etype", "ever"):
                i_ = 3 if which == "etype" else 4
                g[i_] = (f[i_] + rng.randrange(1, 256)) % 256
            elif which == "payload":
                if g[5]:
                    j = rng.randrange(len(g[5]))
                    g[5][j] = (g[5][j] + rng.randrange(1, 256)) % 256
                else:
                    g[5] = [rng.randrange(256)]
            elif which == "payload_len":
                g[5] = g[5] + [0]
            # what has been looked at on the two objects before they are compared (lazily decoded data, a logged repr, the bytes)
            # (equal-argument pairs are compared as built: equality after one of two equal frames has lazily materialised its
            #  data or message is outside the statement, DESIGN section 6 C03 "Limits")
            touch = "none" if which == "same" else rng.choice(["none", "none", "data-both", "repr-both", "data-a", "bytes-both", "data-both"])
            cases.append({"kind": "eq:" + which, "f": f, "g": g, "touch": touch})
        for _ in range(n // 3):
            net = [[rng.randrange(256) for _ in range(4)] for _ in range(3)] + [rng.random() < 0.5] + \
                  [[rng.choice([0, rng.randrange(256)]) for _ in range(4)] for _ in range(3)] + \
                  [rng.random() < 0.5, rng.randrange(5), rng.randrange(256), rng.random() < 0.5,
                   list(rng.choice(["", "home", "zażółć", "x" * 32, "ÿ" * 100]).encode())]
            cases.append({"kind": "netinfo", "net": net})
            ver = [[rng.randrange(256) for _ in range(2)], rng.randrange(256), [rng.randrange(256) for _ in range(2)],
                   [rng.randrange(256) for _ in range(3)], rng.choice([0, 1, 255, 256, 65535, rng.randrange(65536)]),
                   rng.randrange(65536), rng.randrange(65536)]
            cases.append({"kind": "version", "ver": ver, "sender": rng.choice([0x56, 0x45, rng.randrange(256)])})
        return cases

    def run_impl(self, case):
        if case["kind"] == "netinfo":
            import socket
            from harness.c09 import net_to_params
            from pyplumio.frames.responses import DeviceAvailableResponse
            from pyplumio.structures.network_info import NetworkInfo
            try:
                eth, wlan = net_to_params(case["net"])
                ni = NetworkInfo(eth=eth, wlan=wlan, server_status=bool(case["net"][7]))
                msg = bytes(DeviceAvailableResponse(data={"network": ni}).message)
                back = DeviceAvailableResponse(message=bytearray(msg)).data["network"]
                a = lambda x: list(socket.inet_aton(x))
                dec = [a(back.eth.ip), a(back.eth.netmask), a(back.eth.gateway), bool(back.eth.status), a(back.wlan.ip),
                       a(back.wlan.netmask), a(back.wlan.gateway), bool(back.server_status), int(back.wlan.encryption),
                       int(back.wlan.signal_quality), bool(back.wlan.status), list(back.wlan.ssid.encode())]
                return {"message": list(msg), "decoded": dec}
            except Exception as e:  # noqa: BLE001
                return {"error": type(e).__name__}
        if case["kind"] == "version":
            from pyplumio.frames.responses import ProgramVersionResponse
            from pyplumio.structures.program_version import VersionInfo
            v = case["ver"]
            try:
                vi = VersionInfo(software="%d.%d.%d" % (v[4], v[5], v[6]), struct_tag=bytes(v[0]), struct_version=v[1],
                                 device_id=bytes(v[2]), processor_signature=bytes(v[3]))
                msg = bytes(ProgramVersionResponse(sender=FI.addr(case["sender"]), data={"version": vi}).message)
                back = ProgramVersionResponse(message=bytearray(msg)).data["version"]
                sw = [int(x) for x in back.software.split(".")]
                dec = [list(back.struct_tag), back.struct_version, list(back.device_id), list(back.processor_signature)] + sw
                return {"message": list(msg), "decoded": dec}
            except Exception as e:  # noqa: BLE001
                return {"error": type(e).__name__}
        if case["kind"] == "roundtrip":
            f = case["f"]
            pre = case.get("pre")
            if pre is None:
                frame = FI.make_frame(*f)
            else:
                frame = FI.make_frame(f[0], pre["rcpt"], pre["sender"], pre["etype"], pre["ever"], pre["payload"])
                first = frame.bytes
                assert first
                frame.recipient, frame.sender, frame.econet_type, frame.econet_version = FI.addr(f[1]), FI.addr(f[2]), f[3], f[4]
                if pre["inplace"]:
                    frame.message[:] = bytes(f[5])
                elif list(pre["payload"]) != list(f[5]):
                    frame.message = bytearray(f[5])
            bs = frame.bytes
            outs = reader_impl.read_all(bs + bytes(case["rest"]), max_calls=1)
            return {"bytes": list(bs), "read": outs}
        a = FI.make_frame(*case["f"])
        b = FI.make_frame(*case["g"])
        a2 = FI.make_frame(*case["f"])
        touch = case.get("touch", "none")
        same_args = bool(a == a2)
        for obj in ((a, b) if touch.endswith("both") else (a,) if touch == "data-a" else ()):
            try:
                _ = obj.data if touch.startswith("data") else repr(obj) if touch.startswith("repr") else obj.bytes
            except Exception:  # noqa: BLE001  (a random payload need not decode; the comparison is still defined)
                pass
        return {"eq": bool(a == b), "ne": bool(a != b), "self": bool(a == a), "same_args": same_args,
                "sym": bool(b == a)}

    def model_many(self, cases):
        rt = [c for c in cases if c["kind"] == "roundtrip"]
        eq = [c for c in cases if c["kind"].startswith("eq")]
        nets = [c for c in cases if c["kind"] == "netinfo"]
        vers = [c for c in cases if c["kind"] == "version"]
        fixnet = lambda n: [n[0], n[1], n[2], bool(n[3]), n[4], n[5], n[6], bool(n[7]), n[8], n[9], bool(n[10]), n[11]]
        r_net = iter(model.call_many("encode_netinfo", [c["net"] for c in nets]))
        r_ver = iter(model.call_many("encode_version", [[c["ver"], c["sender"]] for c in vers]))
        encs = model.call_many("enc", [c["f"] for c in rt])
        reads = model.call_many("read_all", [bytes(e) + bytes(c["rest"]) for e, c in zip(encs, rt)])
        eqs = model.call_many("frame_eqb", [[c["f"], c["g"]] for c in eq])
        out = []
        it_rt = iter(zip(encs, reads))
        it_eq = iter(eqs)
        for c in cases:
            if c["kind"] == "netinfo":
                m = next(r_net)
                d = model.call("decode_netinfo", [1, bytes(m[0])]) if m else None
                out.append({"message": m[0], "decoded": fixnet(d[0])} if m and d else {"error": "model:None"})
            elif c["kind"] == "version":
                m = next(r_ver)
                d = model.call("decode_version", bytes(m[0])) if m else None
                out.append({"message": m[0], "decoded": d[0]} if m and d else {"error": "model:None"})
            elif c["kind"] == "roundtrip":
                e, r = next(it_rt)
                out.append({"bytes": e, "read": r[:1]})
            else:
                v = bool(next(it_eq))
                out.append({"eq": v, "ne": not v, "self": True, "same_args": True, "sym": v})
        return out

    def spec_many(self, cases, behaviours):
        rt = [(c, b) for c, b in zip(cases, behaviours) if c["kind"] == "roundtrip"]
        res_rt = model.call_many("P03_roundtrip", [[c["f"], bytes(b["bytes"]), b["read"], bytes(c["rest"])] for c, b in rt])
        it = iter(res_rt)
        out = []
        for c, b in zip(cases, behaviours):
            if c["kind"] == "netinfo":
                n = c["net"]
                exp = [n[0], n[1], n[2], bool(n[3]), n[4], n[5], n[6], bool(n[7]), n[8], n[9], bool(n[10]), n[11]]
                out.append(b.get("decoded") == exp)      # building from data then decoding returns the same data
            elif c["kind"] == "version":
                out.append(b.get("decoded") == c["ver"] and b.get("message", [None])[-1] == c["sender"])
            elif c["kind"] == "roundtrip":
                out.append(bool(next(it)))
            else:
                differ = c["f"] != c["g"]
                ok = b["self"] and b["same_args"] and (b["eq"] == (not differ)) and (b["ne"] == differ) and b["sym"] == b["eq"]
                out.append(bool(ok))
        return out

    def extra_checks(self, tier, rng):
        """Data-built frames: equal arguments compare equal; a differing argument compares unequal."""
        from pyplumio.frames import requests as R
        from pyplumio.const import DeviceType
        fails = []
        self._data_pairs = 0
        for _ in range(300 if tier == "quick" else 5000):
            i, v = rng.randrange(256), rng.randrange(256)
            v2 = (v + rng.randrange(1, 256)) % 256
            a = R.SetEcomaxParameterRequest(recipient=DeviceType.ECOMAX, data={"index": i, "value": v})
            b = R.SetEcomaxParameterRequest(recipient=DeviceType.ECOMAX, data={"index": i, "value": v})
            c = R.SetEcomaxParameterRequest(recipient=DeviceType.ECOMAX, data={"index": i, "value": v2})
            d = R.SetMixerParameterRequest(recipient=DeviceType.ECOMAX, data={"index": i, "value": v, "device_index": 0})
            self._data_pairs += 3
            if not (a == b) or (a == c) or (a == d) or not (a != c):
                fails.append({"case": {"kind": "eq:data-built", "index": i, "value": v, "value2": v2},
                              "impl": {"a==b": a == b, "a==c": a == c, "a==d": a == d},
                              "reason": "data-built frames: equality is not structural"})
        # device-available / program-version responses built from data objects: two frames whose data differ in exactly ONE
        # field of the network configuration / version block never compare equal; equal data compare equal
        from harness.c09 import net_to_params
        from pyplumio.frames.responses import DeviceAvailableResponse, ProgramVersionResponse
        from pyplumio.structures.network_info import NetworkInfo
        from pyplumio.structures.program_version import VersionInfo

        def ni_of(net):
            eth, wlan = net_to_params(net)
            return NetworkInfo(eth=eth, wlan=wlan, server_status=bool(net[7]))

        def vi_of(v):
            return VersionInfo(software="%d.%d.%d" % (v[4], v[5], v[6]), struct_tag=bytes(v[0]), struct_version=v[1],
                               device_id=bytes(v[2]), processor_signature=bytes(v[3]))
        for _ in range(60 if tier == "quick" else 1000):
            net = [[rng.randrange(256) for _ in range(4)] for _ in range(3)] + [rng.random() < 0.5] + \
                  [[rng.randrange(256) for _ in range(4)] for _ in range(3)] + \
                  [rng.random() < 0.5, rng.randrange(5), rng.randrange(101), rng.random() < 0.5, list(rng.choice(["", "home", "x" * 32]).encode())]
            for field in range(12):
                other = [list(x) if isinstance(x, list) else x for x in net]
                if field in (0, 1, 2, 4, 5, 6):
                    other[field][rng.randrange(4)] ^= rng.randrange(1, 256)
                elif field in (3, 7, 10):
                    other[field] = not other[field]
                elif field == 8:
                    other[8] = (other[8] + rng.randrange(1, 5)) % 5
                elif field == 9:
                    other[9] = (other[9] + rng.randrange(1, 100)) % 101
                else:
                    other[11] = other[11] + [0x41]
                try:
                    a = DeviceAvailableResponse(data={"network": ni_of(net)})
                    a2 = DeviceAvailableResponse(data={"network": ni_of(net)})
                    b = DeviceAvailableResponse(data={"network": ni_of(other)})
                    self._data_pairs += 2
                    res = {"same": bool(a == a2), "differ": bool(a == b), "ne": bool(a != b)}
                except Exception as e:  # noqa: BLE001
                    res = {"exception": type(e).__name__}
                if res != {"same": True, "differ": False, "ne": True}:
                    fails.append({"case": {"kind": "eq:data-built-netinfo", "net": net, "other": other, "field": field}, "impl": res,
                                  "reason": "device-available responses built from data: equality is not structural"})
            v = [[rng.randrange(256) for _ in range(2)], rng.randrange(256), [rng.randrange(256) for _ in range(2)],
                 [rng.randrange(256) for _ in range(3)], rng.randrange(65536), rng.randrange(65536), rng.randrange(65536)]
            for field in range(7):
                w = [list(x) if isinstance(x, list) else x for x in v]
                if field in (0, 2, 3):
                    w[field][0] ^= rng.randrange(1, 256)
                elif field == 1:
                    w[1] = (w[1] + rng.randrange(1, 256)) % 256
                else:
                    w[field] = (w[field] + rng.randrange(1, 65536)) % 65536
                try:
                    a = ProgramVersionResponse(data={"version": vi_of(v)})
                    b = ProgramVersionResponse(data={"version": vi_of(w)})
                    self._data_pairs += 1
                    res = {"differ": bool(a == b), "ne": bool(a != b)}
                except Exception as e:  # noqa: BLE001
                    res = {"exception": type(e).__name__}
                if res != {"differ": False, "ne": True}:
                    fails.append({"case": {"kind": "eq:data-built-version", "ver": v, "other": w, "field": field}, "impl": res,
                                  "reason": "program-version responses built from data: equality is not structural"})
        return fails

    def extra_coverage(self):
        return {"data_built_pairs": getattr(self, "_data_pairs", 0)}

    def kind(self, case):
        return case["kind"]


if __name__ == "__main__":
    raise SystemExit(C03().main())

"""C12 -- close() always terminates and leaves nothing running."""
from __future__ import annotations

import asyncio

from harness import conn_impl as CI
from harness import frames_gen as G
from harness import model, proto_impl as PI, vloop
from harness.common import Prop


async def _run(ops, talking, late_fail=False, close_stall=0, write_fault=None):
    log, transports = [], []
    script = []
    for op in ops:
        if op[0] == "connect":
            script += [False] * op[1] + [True]
        elif op[0] == "loss-slow-retry":
            script += [False, ["slow", op[1]]]
        elif op[0] == "loss":
            script += [False] * op[1] + ([True] if op[2] else [False] * 50)
    conn, proto = CI.make_connection(script, log, transports, default_ok=not late_fail)
    loop = asyncio.get_running_loop()
    sensor_full = PI.payload("messages/sensor_data.json", "full_sensor_data")
    sensor_full = b"\x00" + sensor_full[1 + 3 * sensor_full[0]:]
    mixer_params = PI.payload("responses/mixer_parameters.json", "1_mixer_detected")
    uid = PI.payload("responses/uid.json", "EM350P2_uid")
    nan, t20 = 0x7FC00000, 0x41A00000

    def sensor_with(mixers_present, thermostats_present):
        """sensor data listing three mixer slots / three thermostat slots of which only the given ones are connected"""
        val = [[], 0, 0, 0, [], [0, 0, 0, 0], [], 50, 0, nan, 0, nan, nan, 0, [[] for _ in range(6)], [],
               [[0, [[0, (t20 if i in thermostats_present else nan), t20] for i in range(3)]]],
               [[(t20 if i in mixers_present else nan), 30, 0, 1, 0] for i in range(3)]]
        return bytes(model.call("enc_sensor", val))
    blockers = []

    def block_on(dev):
        """a pending task owned by `dev`: a subscribed callback that never returns"""
        fut = loop.create_future()
        blockers.append(fut)

        async def cb(value):
            await fut
        dev.subscribe("verif_block", cb)
        dev.dispatch_nowait("verif_block", 1)

    feeder = None
    for op in ops:
        k = op[0]
        if k == "connect":
            await conn.connect()
            for _ in range(100):
                if proto.connected.is_set():
                    break
                await asyncio.sleep(1)
            await PI.settle(10)
        elif k == "traffic" and transports and proto.connected.is_set():
            reader = transports[-1][0]
            for name in op[1]:
                if name == "sensor":
                    reader.feed_data(G.enc(0x35, 0x56, 0x45, 48, 5, sensor_full))
                elif name == "mixer":
                    reader.feed_data(G.enc(0xB2, 0x56, 0x45, 48, 5, mixer_params))
                elif name == "uid":
                    reader.feed_data(G.enc(0xB9, 0x56, 0x45, 48, 5, uid))
                elif name == "ecoster":
                    reader.feed_data(G.enc(0x40, 0x56, 0x51, 48, 5, b""))
                elif isinstance(name, list) and name[0] == "sensor-with":
                    reader.feed_data(G.enc(0x35, 0x56, 0x45, 48, 5, sensor_with(name[1], name[2])))
                elif name == "bad":
                    reader.feed_data(G.enc(0xB6, 0x56, 0x45, 48, 5, b"\x00\x00\x05\x01"))
                await PI.settle(12)
        elif k == "queue":
            from pyplumio.const import DeviceType
            from pyplumio.frames.requests import UIDRequest
            for _ in range(op[1]):
                proto._queues.write.put_nowait(UIDRequest(recipient=DeviceType.ECOMAX))
        elif k == "subtasks":
            eco = proto.data.get("ecomax")
            if eco is not None:
                for target in op[1]:
                    if target == "device":
                        block_on(eco)
                    elif target == "set":
                        eco.set_nowait("nonexistent_parameter", 1)
                    else:
                        kind, idx = target
                        subs = eco.data.get("mixers" if kind == "mixer" else "thermostats", {})
                        if idx in subs:
                            block_on(subs[idx])
                await PI.settle(6)
        elif k == "loss" and transports and proto.connected.is_set():
            busy = None
            if len(op) > 4 and op[4]:
                # the connection drops while a consumer is still busy with the frame that arrived last: a user subscribed to
                # the device entry is slow (under the virtual loop class loading itself takes no time), and returns only
                # once the connection is down
                if "ecomax" not in proto.data:
                    busy = loop.create_future()

                    async def slow(dev, busy=busy):
                        await busy
                    proto.subscribe("ecomax", slow)
                transports[-1][0].feed_data(G.enc(0x35, 0x56, 0x45, 48, 5, sensor_full))
            transports[-1][0].feed_eof()
            await PI.settle(20)
            if busy is not None and not (len(op) > 5 and op[5]):
                busy.set_result(None)
                await PI.settle(10)
            elif busy is not None:
                blockers.append(busy)       # the subscriber is still awaiting when close() is issued (and afterwards)
            if op[2]:
                for _ in range(200):
                    if proto.connected.is_set():
                        break
                    await asyncio.sleep(1)
                await PI.settle(10)
            else:
                await asyncio.sleep(op[3])          # close while the reconnect chain is sleeping / retrying
        elif k == "loss-slow-retry" and transports and proto.connected.is_set():
            # the first reconnect attempt fails; the retry (a task of the connection) is in the middle of opening the transport --
            # an open that takes op[1] more loop iterations and then succeeds -- when close() is issued
            from pyplumio.connection import RECONNECT_TIMEOUT
            transports[-1][0].feed_eof()
            await PI.settle(20)
            await asyncio.sleep(RECONNECT_TIMEOUT)
        elif k == "silence":
            await asyncio.sleep(op[1])
    # ---- the state close() is issued in ----
    eco = proto.data.get("ecomax")

    def pending(dev):
        return len([t for t in dev.tasks if not t.done()])
    devs = [d for d in proto.data.values()]
    mixers = [[i, pending(m)] for i, m in (eco.data.get("mixers", {}) if eco else {}).items()]
    therms = [[i, pending(t)] for i, t in (eco.data.get("thermostats", {}) if eco else {}).items()]
    tc = CI.task_counts(proto, conn)
    connected = proto.connected.is_set()
    state = [connected, proto._queues.write.qsize(), proto._queues.read._unfinished_tasks, bool(talking and connected),
             bool(tc["protocol_other"] + tc["connection"]), sum(pending(d) for d in devs), mixers, therms]
    if talking and connected:
        async def feed():
            while True:
                await asyncio.sleep(1)
                try:
                    transports[-1][0].feed_data(G.enc(0x31, 0x45, 0x56, 0, 5, b""))
                except Exception:  # noqa: BLE001
                    return
        feeder = asyncio.ensure_future(feed())
    for _, w in transports:
        w.close_delay = close_stall          # how long the transport takes to confirm that it is closed (a stalled peer: never)
        if write_fault == "oserror":
            w.fail_on = w.writes + 1         # from now on the next write fails (connection reset not noticed yet)
        elif write_fault == "stall":
            w.drain_delay = 10 ** 6          # the peer stopped reading: every further write stalls until the write time-out
    t0 = loop.time()
    returned = True
    me = asyncio.current_task()
    try:
        await asyncio.wait_for(conn.close(), timeout=600)
    except Exception:  # noqa: BLE001   (close() must return; an exception escaping from it is not a return)
        returned = False
    dur = loop.time() - t0
    await PI.settle(4)
    left = [t for t in asyncio.all_tasks() if t is not me and t is not feeder and not t.done()]
    writer_closed = all(w.closed >= 1 for _, w in transports)
    names = sorted(t.get_name() if not t.get_name().startswith("Task-") else "anonymous" for t in left)
    if feeder:
        feeder.cancel()
    for f in blockers:
        if not f.done():
            f.cancel()
    for t in left:
        t.cancel()
    await asyncio.gather(*left, *([feeder] if feeder else []), return_exceptions=True)
    return {"state": state, "result": [returned, int(dur + 0.999), len(left), writer_closed], "left_names": names, "dur": dur}


class C12(Prop):
    id = "C12"
    prop_file = "Props/C12.v"
    rule = ("histories over: connect (0..2 failing opens), frames creating the ecoMAX device, mixers 0 and 4 and thermostat 0 (overlapping "
            "index), an ecoSTER device, undecodable frames; queued requests; pending tasks owned by the device / a mixer / a thermostat / "
            "set_nowait; connection loss (also while a consumer is still creating the device entry, held by a slow user subscriber that returns before or only after close()) with a reconnect chain that succeeds or keeps failing; silence; close() issued at the end of every "
            "prefix, with a silent or a talking controller, on transports that confirm closing at once, after 2 / 9 / 11 s, or never, and on which every write from now on fails (OSError) or stalls until the write time-out.  Observed: close() returns, its virtual duration, tasks still pending afterwards "
            "(asyncio.all_tasks), transports closed.  Non-trivial = something is queued, pending or disconnected when close() is issued; "
            "distinct by (history, talking).")
    assumptions = ["the state close() is issued in (connected, queue sizes, pending tasks per owner) is read from the implementation just "
                   "before the call; the model maps that state to the outcome",
                   "virtual time stands for real time; the duration with a talking controller is compared only against the bound"]

    def generate(self, rng, tier):
        cases = []
        for _ in range(60 if tier == "quick" else 1200):
            ops = [["connect", rng.choice([0, 0, 1, 2])]]
            for _ in range(rng.randrange(0, 7)):
                r = rng.random()
                if r < 0.3:
                    ops.append(["traffic", [rng.choice(["sensor", "mixer", "uid", "ecoster", "bad",
                                                        ["sensor-with", sorted(rng.sample(range(3), rng.randrange(0, 4))),
                                                         sorted(rng.sample(range(3), rng.randrange(0, 4)))]])
                                            for _ in range(rng.randrange(1, 4))]])
                elif r < 0.45:
                    ops.append(["queue", rng.randrange(1, 6)])
                elif r < 0.65:
                    ops.append(["subtasks", [rng.choice(["device", "set", ["mixer", 0], ["mixer", 1], ["mixer", 2], ["mixer", 4], ["thermostat", 0],
                                                         ["thermostat", 1]])
                                             for _ in range(rng.randrange(1, 4))]])
                elif r < 0.8:
                    back = rng.random() < 0.5
                    ops.append(["loss", rng.randrange(0, 3), back, rng.choice([0, 1, 5, 19, 21, 45]), rng.random() < 0.4, rng.random() < 0.5])
                else:
                    ops.append(["silence", rng.choice([0, 1, 5, 9, 11, 30])])
            # close() at every point of the history
            for cut in range(1, len(ops) + 1):
                cases.append({"kind": "prefix", "ops": ops[:cut], "talking": rng.random() < 0.3, "late_fail": rng.random() < 0.5,
                              "close_stall": rng.choice([0, 0, 0, 2, 9, 11, 10 ** 6]),
                              "write_fault": rng.choice([None, None, None, "oserror", "stall"])})
        # close() issued in the very loop iteration in which one reconnect attempt hands over to the next
        # (the finished task is still registered when cancel_tasks() runs)
        # sub-devices that come and go in the sensor data: tasks started on a mixer / thermostat that a later message no longer lists
        for _ in range(10 if tier == "quick" else 200):
            first = sorted(rng.sample(range(3), rng.randrange(1, 4)))
            later = sorted(rng.sample(range(3), rng.randrange(0, 3)))
            kind = rng.choice(["mixer", "thermostat"])
            ops = [["connect", 0],
                   ["traffic", [["sensor-with", first if kind == "mixer" else [], first if kind == "thermostat" else []]]],
                   ["subtasks", [[kind, rng.choice(first)] for _ in range(rng.randrange(1, 3))]],
                   ["traffic", [["sensor-with", later if kind == "mixer" else [], later if kind == "thermostat" else []]]]]
            cases.append({"kind": "sub-devices-come-and-go", "ops": ops, "talking": False, "late_fail": False})
        # close() while a reconnect retry is opening the transport (the open completes 0..8 loop iterations later), with and
        # without a device entry
        for y in range(0, 9):
            for with_dev in (False, True):
                ops = [["connect", 0]] + ([["traffic", ["sensor"]]] if with_dev else []) + [["loss-slow-retry", y]]
                cases.append({"kind": "close-during-open", "ops": ops, "talking": False, "late_fail": False, "repeat": 3})
        from pyplumio.connection import RECONNECT_TIMEOUT
        for k in (1, 2, 3, 4):
            for lf in (True, False):
                # (the last sleep of the history is started after the attempt's own back-off sleep, so that the attempt wakes first)
                cases.append({"kind": "handover", "ops": [["connect", 0], ["loss", 0, False, int(RECONNECT_TIMEOUT) * k - 7], ["silence", 7]],
                              "talking": False, "late_fail": lf, "repeat": 10})
        return cases

    def run_impl(self, c):
        try:
            r = vloop.run(_run, c["ops"], c["talking"], c.get("late_fail", False), c.get("close_stall", 0), c.get("write_fault"))
            # which task cancel_tasks() meets first depends on the addresses of the task objects: repeat the
            # history and keep the worst outcome
            for _ in range(c.get("repeat", 1) - 1):
                r2 = vloop.run(_run, c["ops"], c["talking"], c.get("late_fail", False), c.get("close_stall", 0), c.get("write_fault"))
                if (not r2["result"][0], r2["result"][2], not r2["result"][3]) > (not r["result"][0], r["result"][2], not r["result"][3]):
                    r = r2
        except vloop.Deadlock:
            return {"state": None, "result": [False, 0, 0, False], "left_names": ["quiescent-deadlock"]}
        c["_state"] = r["state"]
        return {"state": r["state"], "result": r["result"], "left_names": r["left_names"]}

    def model_many(self, cases):
        states = [c.get("_state") for c in cases]
        stall = lambda c: [] if c.get("close_stall", 0) >= 10 ** 6 else [int(c.get("close_stall", 0))]
        res = model.call_many("close", [s + [stall(c)] for c, s in zip(cases, states) if s is not None])
        it = iter(res)
        out = []
        for c, s in zip(cases, states):
            if s is None:
                out.append(None)
            else:
                r = next(it)
                out.append({"state": s, "result": [bool(r[0]), r[1], r[2], bool(r[3])], "left_names": []})
        return out

    def obs(self, c, b):
        if b is None:
            return None
        r = b["result"]
        # duration: the model gives an upper bound
        return [r[0], r[2], r[3]]

    def spec_many(self, cases, behaviours):
        res = model.call_many("P12", [b["result"] for b in behaviours])
        out = []
        for c, b, r in zip(cases, behaviours, res):
            ok = bool(r)
            out.append(ok)
        return out

    def extra_checks(self, tier, rng):
        return []

    def nontrivial_key(self, c, mb):
        s = c.get("_state")
        if s and (not s[0] or s[1] or s[2] or s[4] or s[5] or s[6] or s[7]):
            return repr((c["ops"], c["talking"]))
        return None

    def kind(self, c):
        return c["kind"]


if __name__ == "__main__":
    raise SystemExit(C12().main())

"""C10 -- one device object per controller address, for every arrival timing."""
from __future__ import annotations

import asyncio
import importlib
import itertools

from harness import frames_gen as G
from harness import model, proto_impl as PI, vloop
from harness.common import Prop


async def _run(events, consumers, sub_hops=0):
    from pyplumio.protocol import AsyncProtocol
    loop = asyncio.get_running_loop()
    jobs = []

    def hook(lp, func, *args):
        if func is importlib.import_module and args and str(args[0]).startswith("pyplumio.devices."):
            fut = lp.create_future()
            jobs.append((fut, func, args))
            return fut
        return None

    loop.executor_hook = hook
    rec = PI.Recorder()
    rec.install()
    try:
        proto = AsyncProtocol(consumers_count=consumers)
        setups = [0]
        orig_create = proto.create_task

        def counting_create(coro, name=None):
            if name and name.startswith("device_setup_task"):
                setups[0] += 1
            return orig_create(coro, name=name)
        proto.create_task = counting_create
        reader = asyncio.StreamReader()
        writer = PI.FakeWriter()
        proto.connection_established(reader, writer)
        await PI.settle()
        kind, payload = PI.captured()["sensor"]
        registry = []

        def oid(obj):
            for i, o in enumerate(registry):
                if o is obj:
                    return i
            registry.append(obj)
            return len(registry) - 1

        getters = {}
        got = []
        if sub_hops:
            # a user subscribed to the device entry on the protocol; the callback awaits (every time it is called)
            async def on_entry(dev):
                got.append([200 + len([g for g in got if g[0] >= 200]), dev])
                for _ in range(sub_hops):
                    await asyncio.sleep(0)
            proto.subscribe("ecomax", on_entry)
        for ev in events:
            if ev[0] == 0:
                reader.feed_data(G.enc(kind, 0x56, 0x45, ev[1], 5, payload))
            elif ev[0] == 4:
                # the connection drops and is re-established (as the reconnect routine does) - possibly while the class is loading
                reader.feed_eof()
                await PI.settle(20)
                reader = asyncio.StreamReader()
                writer = PI.FakeWriter()
                proto.connection_established(reader, writer)
            elif ev[0] == 6:
                # the user closes the connection and opens it again: the same protocol object is shut down and re-established
                await asyncio.wait_for(proto.shutdown(), timeout=100)
                await PI.settle(10)
                reader = asyncio.StreamReader()
                writer = PI.FakeWriter()
                proto.connection_established(reader, writer)
            elif ev[0] == 3:
                await asyncio.sleep(ev[1])          # time passes (the class loading may take seconds on a cold or busy system)
            elif ev[0] == 1:
                if ev[1] < len(jobs):
                    fut, func, args = jobs.pop(ev[1])
                    fut.set_result(func(*args))
            elif ev[0] == 5:
                # every class-loading job that is pending completes, one after the other, ev[1] scheduler yields apart
                while jobs:
                    fut, func, args = jobs.pop(0)
                    if not fut.done():
                        fut.set_result(func(*args))
                    await PI.settle(ev[1])
            else:
                g = ev[1]
                tmo = ev[3] if len(ev) > 3 else None

                async def getter(g=g, tmo=tmo):
                    try:
                        obj = await proto.get("ecomax", timeout=tmo)
                    except asyncio.TimeoutError:
                        return              # (a caller that gave up before the entry existed got nothing)
                    got.append([g, obj])
                getters[g] = asyncio.ensure_future(getter())
            await PI.settle(ev[2] if len(ev) > 2 else 12)
        await PI.settle(12)
        # ids by first publication / first use
        handled = []
        for obj_idx, tag, _ in rec.calls:
            handled.append([tag, oid(rec.objects[obj_idx])])
        got_ids = [[g, oid(o)] for g, o in got]
        if "ecomax" in proto.data:
            oid(proto.data["ecomax"])
        pending_jobs = len(jobs)
        for t in list(getters.values()):
            t.cancel()
        for fut, _, _ in jobs:
            fut.cancel()
        proto.cancel_tasks()
        for d in registry:
            d.cancel_tasks()
        await asyncio.gather(*getters.values(), *proto.tasks, return_exceptions=True)
        return [len(registry), setups[0], handled, sorted(got_ids), pending_jobs]
    finally:
        rec.uninstall()


class C10(Prop):
    id = "C10"
    prop_file = "Props/C10.v"
    rule = ("exhaustive: the first 1..4 frames from the controller address x 1..3 consumer tasks x every position of the completion of the "
            "(thread-pool) class loading among the arrivals x 0..2 user get('ecomax') calls at every position; run_in_executor is replaced by "
            "harness-held futures so that the completion is an event; `slow-subscriber`: a user callback subscribed to the device entry on the protocol awaits 1 / 3 / 8 loop iterations while the entry is published.  Non-trivial = at least two frames arrive before the class loading "
            "completes, or a get() is issued before it; distinct by (events, consumers).")
    assumptions = ["thread-pool timing is represented by the position of the completion event; the order in which CPython runs callbacks "
                   "made ready in one loop iteration is fixed by letting the loop settle after each event"]

    def generate(self, rng, tier):
        cases = []
        for consumers in (1, 2, 3):
            for k in (1, 2, 3, 4):
                for done_pos in range(1, k + 1):       # CreateDone right after the done_pos-th arrival
                    base = []
                    for i in range(k):
                        base.append([0, i + 1])
                        if i + 1 == done_pos:
                            base.append([1, 0])
                    for m in (0, 1, 2):
                        for pos in itertools.combinations_with_replacement(range(len(base) + 1), m):
                            evs = list(base)
                            for j, p in enumerate(sorted(pos, reverse=True)):
                                evs.insert(p, [2, 100 + m - 1 - j])
                            cases.append({"kind": "exhaustive", "events": evs, "consumers": consumers})
        # tight schedules: only 0..3 scheduler yields between the completion of the class loading and a neighbouring
        # arrival (the consumer that loaded the class and the consumer of the next frame resume in the same iterations)
        for consumers in (1, 2, 3):
            for before in (1, 2):
                for after in (1, 2):
                    for y1 in (0, 1, 2, 3):
                        for y2 in (0, 1, 2, 3):
                            evs = [[0, i + 1] for i in range(before)]
                            evs[-1] = evs[-1] + [y1] if before > 1 else evs[-1]
                            evs.append([1, 0, y2])
                            evs += [[0, before + j + 1, rng.choice([0, 1, 12])] for j in range(after)]
                            evs.append([2, 100])
                            cases.append({"kind": "tight", "events": evs, "consumers": consumers})
        # slow class loading: seconds pass between the arrivals and the completion of the loading
        for consumers in (1, 3):
            for k in (1, 2, 4):
                for wait in (1, 3, 4):       # (the line must not stay silent for the 10 s read timeout: that is a connection loss, C11)
                    evs = [[0, 1], [2, 100]] + [[3, wait]] + [[0, i + 2] for i in range(k - 1)] + [[3, wait], [1, 0], [0, k + 1], [2, 101]]
                    cases.append({"kind": "slow-loading", "events": evs, "consumers": consumers})
        # a reconnect while the class is loading: frames of the old and of the new connection, one object
        for consumers in (1, 2, 3):
            for before in (1, 2):
                for after in (1, 2, 3):
                    evs = [[0, i + 1] for i in range(before)] + [[2, 100], [4]] + [[0, before + j + 1] for j in range(after)] + \
                          [[1, 0], [0, before + after + 1], [2, 101]]
                    cases.append({"kind": "reconnect-while-loading", "events": evs, "consumers": consumers})
        # a user subscriber of the device entry that awaits while the entry is being published; every pending class-loading job
        # completes (there is one, unless consumers load the class concurrently)
        for consumers in (1, 2, 3):
            for k in (2, 3, 4):
                for hops in (1, 3, 8):
                    for apart in (0, 1, 4):
                        evs = [[0, i + 1] for i in range(k)] + [[2, 100], [5, apart], [0, k + 1], [2, 101]]
                        cases.append({"kind": "slow-subscriber", "events": evs, "consumers": consumers, "sub_hops": hops})
        # the protocol is shut down and re-established (close() and connect() of the user) after the entry exists: the same object
        # for every later caller and every later frame
        for consumers in (1, 3):
            for k in (1, 2):
                evs = [[0, i + 1] for i in range(k)] + [[1, 0], [2, 100], [6], [2, 101], [0, k + 1], [2, 102], [0, k + 2]]
                cases.append({"kind": "shutdown-and-reopen", "events": evs, "consumers": consumers})
        # callers of get() with a time-out that expires while the class is still loading, next to callers that keep waiting
        for consumers in (1, 3):
            for k in (1, 2):
                for order in (0, 1):
                    getters = [[2, 100, 12, 2], [2, 101]] if order == 0 else [[2, 101], [2, 100, 12, 2]]
                    evs = getters + [[0, i + 1] for i in range(k)] + [[3, 3], [2, 102, 12, 1], [3, 2], [1, 0], [0, k + 1], [2, 103]]
                    cases.append({"kind": "getter-timeouts", "events": evs, "consumers": consumers, "gave_up": [100, 102]})
        self.exhaustive = True
        return cases

    def extra_coverage(self):
        return {"exhaustive": True}

    def run_impl(self, c):
        return vloop.run(_run, c["events"], c["consumers"], c.get("sub_hops", 0))

    def model_many(self, cases):
        # (the passing of time is not an event of the model: nothing in it depends on how long the loading takes)
        res = model.call_many("drun", [[True, [([1, 0] if e[0] == 5 else e[:2]) for e in c["events"]
                                             if e[0] not in (3, 4, 6) and not (e[0] == 2 and e[1] in c.get("gave_up", []))]] for c in cases])
        out = []
        for c, r in zip(cases, res):
            got = sorted(list(p) for p in r[3])
            if c.get("sub_hops"):
                got = sorted(got + [[200, 0]])          # the subscriber is handed the one object, once
            out.append([r[0], r[1], [list(p) for p in r[2]], got, r[4]])
        return out

    def obs(self, c, b):
        # with more frames than consumers some frames are still on the read queue while the class is loading:
        # they are handled afterwards, in arrival order -- compare what the property can see
        return [b[0], b[1], sorted(b[2]), b[3]]

    def spec_many(self, cases, behaviours):
        res = model.call_many("P10", [[b[0], b[1], b[2], b[3]] for b in behaviours])
        out = []
        for c, b, r in zip(cases, behaviours, res):
            arrived = [e[1] for e in c["events"] if e[0] == 0]
            done = any(e[0] == 1 for e in c["events"])
            complete = (sorted(t for t, _ in b[2]) == sorted(arrived)) if done else True
            # every caller of get() that did not give up before the entry existed has received it
            waiting = {e[1] for e in c["events"] if e[0] == 2} - set(c.get("gave_up", []))
            answered = {g for g, _ in b[3] if g < 200}
            out.append(bool(r) and complete and (answered == waiting if done else True))
        return out

    def nontrivial_key(self, c, mb):
        evs = c["events"]
        d = next((i for i, e in enumerate(evs) if e[0] == 1), len(evs))
        before = [e for e in evs[:d]]
        if len([e for e in before if e[0] == 0]) >= 2 or any(e[0] == 2 for e in before):
            return repr((evs, c["consumers"]))
        return None

    def kind(self, c):
        return c["kind"]


if __name__ == "__main__":
    raise SystemExit(C10().main())

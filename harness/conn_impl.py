"""Real Connection + AsyncProtocol under the virtual-time loop with scripted transports and faults."""
from __future__ import annotations

import asyncio

from harness import frames_gen as G
from harness import proto_impl as PI


def make_connection(open_script, log, transports, consumers=3, default_ok=True):
    """open_script: list of booleans (success / failure) consumed by successive _open_connection calls."""
    from pyplumio.connection import Connection
    from pyplumio.protocol import AsyncProtocol

    class Scripted(Connection):
        async def _open_connection(self):
            loop = asyncio.get_running_loop()
            ok = open_script.pop(0) if open_script else default_ok
            if isinstance(ok, (list, tuple)) and ok and ok[0] == "slow":
                # the open takes a few loop iterations (and then succeeds)
                for _ in range(int(ok[1])):
                    await asyncio.sleep(0)
                ok = True
            log.append(["open", loop.time(), bool(ok)])
            if not ok:
                raise OSError("scripted open failure")
            reader = asyncio.StreamReader()
            # "instant": the open succeeds, but the very first write on the new transport (start-master) fails
            writer = PI.FakeWriter(log=log, tag=len(transports), fail_on=1 if ok == "instant" else None)
            transports.append((reader, writer))
            return reader, writer

    proto = AsyncProtocol(consumers_count=consumers)
    return Scripted(protocol=proto), proto


def task_counts(proto, conn):
    names = [t.get_name() for t in proto.tasks if not t.done()]
    return {"producers": sum(1 for n in names if n.startswith("frame_producer")),
            "consumers": sum(1 for n in names if n.startswith("frame_consumer")),
            "protocol_other": sum(1 for n in names if not n.startswith("frame_") and not n.startswith("device_setup_task")),
            "connection": len([t for t in conn.tasks if not t.done()])}


def watch_device(dev, idx, log):
    """Log every connected=... event of a device (public subscription)."""
    async def cb(value, idx=idx):
        log.append(["connected", idx, bool(value)])
    dev.subscribe("connected", cb)
    log.append(["new-device", idx])

"""Helpers to build real pyplumio frame objects."""
from __future__ import annotations

import importlib
from functools import lru_cache


@lru_cache(maxsize=None)
def frame_class(code: int):
    from pyplumio.frames import get_frame_handler
    path = get_frame_handler(code)
    mod, cname = path.rsplit(".", 1)
    return getattr(importlib.import_module("pyplumio." + mod), cname)


def addr(a: int):
    from pyplumio.const import DeviceType
    try:
        return DeviceType(a)
    except ValueError:
        return a


def make_frame(kind, rcpt, sender, etype, ever, payload):
    cls = frame_class(kind)
    return cls(recipient=addr(rcpt), sender=addr(sender), econet_type=etype, econet_version=ever,
               message=bytearray(payload))

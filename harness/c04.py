"""C04 -- reassembly is fragmentation-independent; skipped frames never desync the reader."""
from __future__ import annotations

import itertools

from harness import frames_gen as G
from harness import model, reader_impl
from harness.c01 import chunking
from harness.common import Prop


def project(outs):
    """obs04: delivered frame / not delivered / broken, plus bytes consumed per call."""
    res = []
    for n, o in outs:
        if o[0] == 0:
            res.append([n, o])
        elif o[0] == 6:
            res.append([n, [6]])
        elif o[0] == "other":
            res.append([n, o])
        else:
            res.append([n, ["skipped"]])
    return res


class C04(Prop):
    id = "C04"
    prop_file = "Props/C04.v"
    rule = ("sequences of 1-6 well-formed frames mixing own/broadcast/foreign-recipient/unknown-sender/unknown-kind, payloads dense in 0x68 and "
            "in header-shaped sub-sequences; chunkings: one chunk, byte by byte, random cuts with 0-5 scheduler yields between chunks, `slow-line`: pauses of 0.5-4 s between some chunks (arrival "
            "interleaved with reader progress); thorough adds all 2^(n-1) cut sets of short streams.  Non-trivial = at least two frames or a "
            "skipped frame; distinct by frames+chunking.")

    def _frame(self, rng, kinds):
        r = rng.random()
        kw = {}
        if r < 0.35:
            kw = dict(own=True, known_sender=True, known_kind=True)
        elif r < 0.6:
            kw = dict(own=False, known_sender=True, known_kind=True)
        elif r < 0.8:
            kw = dict(own=True, known_sender=False, known_kind=True)
        else:
            kw = dict(own=True, known_sender=True, known_kind=False)
        f, _ = G.rand_frame(rng, kinds, maxlen=30, dense68=rng.random() < 0.6, **kw)
        f = [f[0], f[1], f[2], f[3], f[4], list(f[5])]
        if rng.random() < 0.3:
            # header-shaped sub-sequence inside the payload
            ln = rng.choice([10, 11, 12, len(f[5]) + 10, 1000, 9])
            f[5] = f[5] + [0x68, ln & 0xFF, ln >> 8, rng.choice([0x56, 0, 0x45]), rng.choice([0x45, 0x51, 0x33]), 48, 5,
                           rng.randrange(256)]
        return f

    def generate(self, rng, tier):
        kinds = [r["code"] for r in G.tables()["frame_types"]]
        cases = []
        n = 1200 if tier == "quick" else 20000
        for _ in range(n):
            fs = [self._frame(rng, kinds) for _ in range(rng.randrange(1, 7))]
            total = sum(10 + len(f[5]) for f in fs)
            cases.append({"kind": "random-chunking", "frames": fs, "chunks": chunking(rng, total)})
            if rng.random() < 0.3:
                # the same stream on a slow line: pauses of up to a few seconds between some of the chunks (each well below the
                # 10 s read timeout, also in sum within one frame)
                ch = chunking(rng, total) or [[max(1, total // 2), 0], [total - max(1, total // 2), 0]]
                ch = [list(c) for c in ch[:40]]
                for c in rng.sample(ch, min(len(ch), rng.choice([1, 1, 2]))):
                    c.append(rng.choice([0.5, 1.3, 2.5, 4.0]))
                cases.append({"kind": "slow-line", "frames": fs, "chunks": ch})
        # look-alikes within one stream: frames of the same kind, addressing and length whose contents differ but have the
        # same XOR (permuted payload bytes, two bytes changed by the same mask), with other frames in between
        for _ in range(n // 6):
            base = self._frame(rng, kinds)
            while len(base[5]) < 2:
                base = self._frame(rng, kinds)
            fs = [base]
            for _ in range(rng.randrange(1, 4)):
                if rng.random() < 0.4:
                    fs.append(self._frame(rng, kinds))
                p = list(fs[0][5])
                i, j = rng.sample(range(len(p)), 2)
                if rng.random() < 0.5 and p[i] != p[j]:
                    p[i], p[j] = p[j], p[i]
                else:
                    m = rng.randrange(1, 256)
                    p[i] ^= m
                    p[j] ^= m
                fs.append([base[0], base[1], base[2], base[3], base[4], p])
            total = sum(10 + len(f[5]) for f in fs)
            cases.append({"kind": "xor-twins", "frames": fs, "chunks": chunking(rng, total) if rng.random() < 0.5 else None})
        # frames of the maximum size (1000 bytes) and one below, for us, broadcast and for others, between ordinary frames
        for _ in range(10 if tier == "quick" else 200):
            fs = [self._frame(rng, kinds) for _ in range(rng.randrange(0, 3))]
            big = list(self._frame(rng, kinds))
            big[5] = list(G.rand_payload(rng, rng.choice([990, 990, 989]), dense68=rng.random() < 0.5))
            fs.append(big)
            fs += [self._frame(rng, kinds) for _ in range(rng.randrange(1, 3))]
            total = sum(10 + len(f[5]) for f in fs)
            cases.append({"kind": "max-size", "frames": fs, "chunks": chunking(rng, total) if rng.random() < 0.5 else None})
        # cuts exactly at every header/body boundary
        for _ in range(n // 6):
            fs = [self._frame(rng, kinds) for _ in range(rng.randrange(1, 4))]
            chunks = []
            for f in fs:
                for part in (1, 6, 1 + len(f[5]), 2):
                    if part:
                        chunks.append([part, rng.choice([0, 1, 3])])
            cases.append({"kind": "boundary-chunking", "frames": fs, "chunks": chunks})
        if tier == "thorough":
            for _ in range(12):
                fs = [self._frame(rng, kinds) for _ in range(2)]
                fs = [[f[0], f[1], f[2], f[3], f[4], f[5][:1]] for f in fs]
                total = sum(10 + len(f[5]) for f in fs)
                for cutset in itertools.product([0, 1], repeat=min(total - 1, 13)):
                    chunks, cur = [], 1
                    for c in cutset:
                        if c:
                            chunks.append([cur, 1])
                            cur = 1
                        else:
                            cur += 1
                    chunks.append([cur, 1])
                    cases.append({"kind": "all-cutsets", "frames": fs, "chunks": chunks})
        return cases

    def _stream(self, case):
        return b"".join(G.enc(*f[:5], bytes(f[5])) for f in case["frames"])

    def run_impl(self, case):
        return reader_impl.read_all(self._stream(case), case.get("chunks"))

    def model_many(self, cases):
        streams = model.call_many("enc", [f for c in cases for f in c["frames"]])
        out, i = [], 0
        per = []
        for c in cases:
            k = len(c["frames"])
            per.append(b"".join(bytes(s) for s in streams[i:i + k]))
            i += k
        self._model_streams = per
        return model.call_many("read_all", per)

    def obs(self, case, behaviour):
        return project(behaviour)

    def spec_many(self, cases, behaviours):
        args = []
        bad = []
        for c, b in zip(cases, behaviours):
            bad.append(any(o[1][0] == "other" for o in b))
            args.append([c["frames"], [[n, (o if o[0] != "other" else [6])] for n, o in b]])
        res = model.call_many("P04", args)
        # the python rendering of the frames (G.enc) must be the Coq spec layout
        ok_layout = [self._stream(c) == ms for c, ms in zip(cases, getattr(self, "_model_streams", []))] or [True] * len(cases)
        return [bool(r) and not o and l for r, o, l in zip(res, bad, ok_layout)]

    def nontrivial_key(self, case, mb):
        if len(case["frames"]) >= 2 or any(o[1][0] != 0 for o in mb[:-1]):
            return repr((case["frames"], case["chunks"]))
        return None

    def kind(self, case):
        return case["kind"]

    def shrink(self, case, still_fails):
        cur = dict(case, chunks=None)
        if not still_fails(cur):
            cur = dict(case)
        fs = list(cur["frames"])
        changed = True
        while changed and len(fs) > 1:
            changed = False
            for i in range(len(fs)):
                c2 = dict(cur, frames=fs[:i] + fs[i + 1:], chunks=None)
                if still_fails(c2):
                    fs, cur, changed = c2["frames"], c2, True
                    break
        return cur


if __name__ == "__main__":
    raise SystemExit(C04().main())

"""C01 -- only intact, correctly addressed frames are delivered."""
from __future__ import annotations

import random

from harness import frames_gen as G
from harness import model, reader_impl
from harness.common import Prop


def chunking(rng: random.Random, n: int):
    mode = rng.choice(["one", "bytewise", "random", "random"])
    if mode == "one" or n == 0:
        return None
    if mode == "bytewise":
        return [[1, rng.choice([0, 1, 3])] for _ in range(n)]
    out = []
    left = n
    while left > 0:
        k = rng.randrange(1, min(left, 20) + 1)
        out.append([k, rng.choice([0, 1, 2, 5])])
        left -= k
    return out


class C01(Prop):
    id = "C01"
    prop_file = "Props/C01.v"
    rule = ("streams = concatenations of valid frames (all 33 kinds, boundary payload lengths, own/broadcast/foreign recipients, "
            "known/unknown senders), corrupted frames (single byte, XOR-preserving double flips, computed-XOR-zero, stored-checksum-zero, "
            "length field, truncation), and noise; random chunking.  Non-trivial = the model's behaviour contains at least one delivered "
            "frame or a protocol error; distinct by stream bytes.")
    assumptions = ["asyncio.StreamReader.read/readexactly buffering (CPython) is not modelled: chunk independence is exercised on the "
                   "implementation, the model works on the concatenated stream"]

    def generate(self, rng, tier):
        kinds = [r["code"] for r in G.tables()["frame_types"]]
        cases = []
        n = 2500 if tier == "quick" else 40000
        # systematic part: every kind x boundary payload lengths
        for k in kinds:
            for ln in (0, 1, 2, 255, 256, 989, 990):
                f = (k, rng.choice(G.OUR_RCPT), rng.choice(G.KNOWN_SENDERS), 48, 5, G.rand_payload(rng, ln))
                cases.append({"kind": "valid-systematic", "stream": list(G.enc(*f)), "chunks": None})
        f = (0x40, 0x56, 0x45, 48, 5, G.rand_payload(rng, 991))
        cases.append({"kind": "too-long", "stream": list(G.enc(*f)), "chunks": None})
        # length fields at and below the minimum (10): for every claimed length L in 7..12 and every known kind, bytes shaped so
        # that whatever the reader takes for checksum and type byte at that length is consistent (byte L-2 = XOR of the bytes
        # before it, last byte 0x16, and - where the checksum position coincides with the type position - the XOR is a known kind)
        for k in kinds:
            for L in (7, 8, 9, 10, 11, 12):
                for _ in range(1 if tier == "quick" else 4):
                    b = [0x68, L, 0, rng.choice(G.OUR_RCPT), rng.choice(G.KNOWN_SENDERS), rng.randrange(256), 0]
                    # choose the version byte so that the XOR of the seven header bytes is the kind k
                    x = 0
                    for v in b:
                        x ^= v
                    b[6] = x ^ k
                    body = [k] + [rng.randrange(256) for _ in range(4)]
                    fb = (b + body)[:max(L, 7)]
                    if L >= 9:
                        x = 0
                        for v in fb[:L - 2]:
                            x ^= v
                        fb[L - 2] = x
                        fb[L - 1] = 0x16
                    tail = list(G.enc(k, 0x56, 0x45, 48, 5, b"")) if rng.random() < 0.5 else []
                    cases.append({"kind": "short-length:%d" % L, "stream": fb + tail, "chunks": chunking(rng, len(fb + tail)) if rng.random() < 0.5 else None})
        # frames for ANOTHER recipient (and frames from unknown senders / of unknown kinds) whose payload embeds the complete image of a
        # valid frame for us, followed by a genuine frame; arriving in two pieces cut at every offset, the second piece while the
        # reader is already working on the first
        for _ in range(12 if tier == "quick" else 120):
            k = rng.choice(kinds)
            inner = G.enc(k, 0x56, 0x45, 48, 5, G.rand_payload(rng, rng.choice([0, 1, 4])))
            pad = G.rand_payload(rng, rng.choice([0, 1, 3]))
            outer_kind = rng.choice(["foreign", "unknown-sender", "unknown-kind"])
            rc, sd, kd = (0x45, 0x51, rng.choice(kinds)) if outer_kind == "foreign" else \
                         (0x56, 0x33, rng.choice(kinds)) if outer_kind == "unknown-sender" else (0x56, 0x45, 0x99)
            outer = G.enc(kd, rc, sd, 48, 5, pad + inner + G.rand_payload(rng, rng.choice([0, 2])))
            genuine = G.enc(rng.choice(kinds), 0x56, 0x45, 48, 5, b"")
            st = outer + genuine
            for cut in range(1, len(outer)):
                cases.append({"kind": "embedded-in-" + outer_kind, "stream": list(st), "chunks": [[cut, rng.choice([1, 3, 6])], [len(st) - cut, 0]]})
        # frame-shaped runs whose FIRST byte is not the delimiter (checksum compensated) while a 0x68 sits elsewhere in the
        # seven header bytes (length low byte, sender-type or version byte), arriving whole or in chunks
        for k in kinds:
            for where in ("len104", "len360", "etype", "ever"):
                plen = {"len104": 94, "len360": 350}.get(where, rng.choice([0, 3, 20]))
                et, ev = (0x68 if where == "etype" else 48), (0x68 if where == "ever" else 5)
                fb = bytearray(G.enc(k, rng.choice(G.OUR_RCPT), rng.choice(G.KNOWN_SENDERS), et, ev, G.rand_payload(rng, plen)))
                new0 = rng.choice([0x00, 0x69, 0xE8, rng.randrange(256)])
                if new0 == 0x68:
                    new0 = 0x00
                fb[-2] ^= fb[0] ^ new0          # keep the checksum consistent with the changed first byte
                fb[0] = new0
                tail = bytes(G.enc(k, 0x56, 0x45, 48, 5, b"")) if rng.random() < 0.5 else b""
                st = bytes(fb) + tail
                cases.append({"kind": "no-start+inner68:" + where, "stream": list(st), "chunks": None if rng.random() < 0.6 else chunking(rng, len(st))})
        # sessions on ONE reader object: runs of intact frames drawn from a few (recipient, sender) pairs, so that consecutive
        # frames often carry the same addresses (bus chatter between other devices, a repeated unknown sender, ...)
        pairs = [(0x56, 0x45), (0x00, 0x45), (0x45, 0x51), (0x51, 0x45), (0x56, 0x33), (0x45, 0x33), (0x56, 0x51), (0x10, 0x45)]
        for _ in range(200 if tier == "quick" else 3000):
            pool = rng.sample(pairs, rng.choice([1, 2, 2, 3]))
            st = b""
            for _ in range(rng.randrange(2, 6)):
                rc, sd = rng.choice(pool)
                k = rng.choice(kinds) if rng.random() < 0.85 else 0x99
                st += G.enc(k, rc, sd, 48, 5, G.rand_payload(rng, rng.choice([0, 1, 2, 5])))
            cases.append({"kind": "session:same-addresses", "stream": list(st), "chunks": None if rng.random() < 0.5 else chunking(rng, len(st))})
        for _ in range(n):
            parts = []
            kindtag = []
            for _ in range(rng.choice([1, 1, 2, 3])):
                r = rng.random()
                if r < 0.35:
                    _, fb = G.rand_frame(rng, kinds)
                    parts.append(fb)
                    kindtag.append("valid")
                elif r < 0.85:
                    _, fb = G.rand_frame(rng, kinds, own=True, known_sender=True, known_kind=True)
                    mode, cb = G.corrupt(rng, fb)
                    parts.append(cb)
                    kindtag.append("corrupt:" + mode)
                else:
                    mode = rng.choice(["uniform", "dense68", "header"])
                    parts.append(G.noise(rng, rng.randrange(0, 40), mode))
                    kindtag.append("noise:" + mode)
            stream = b"".join(parts)
            cases.append({"kind": kindtag[0] + ("+more" if len(kindtag) > 1 else ""), "stream": list(stream),
                          "chunks": chunking(rng, len(stream))})
        return cases

    def run_impl(self, case):
        b = reader_impl.read_all(bytes(case["stream"]), case.get("chunks"))
        if case.get("chunks"):
            # "every fragmentation of the stream into arrival chunks": what the reader does with the pieces is what it does with
            # the whole (a relation between two runs of the implementation)
            whole = reader_impl.read_all(bytes(case["stream"]), None)
            if whole != b:
                b = b + [[0, ["other", "differs-from-unfragmented:" + repr(whole)[:300]]]]
        return b

    def model_many(self, cases):
        return model.call_many("read_all", [bytes(c["stream"]) for c in cases])

    def spec_many(self, cases, behaviours):
        args = []
        bad = []
        for c, b in zip(cases, behaviours):
            other = any(o[1][0] == "other" for o in b)
            bad.append(other)
            args.append([bytes(c["stream"]), [[n, (o if o[0] != "other" else [6])] for n, o in b]])
        res = model.call_many("P01", args)
        return [bool(r) and not o for r, o in zip(res, bad)]

    def nontrivial_key(self, case, mb):
        if any(o[1][0] in (0, 2, 3, 4, 5) for o in mb):
            return bytes(case["stream"]).hex()
        return None

    def known_match(self, entry, case, ib):
        return False

    def shrink(self, case, still_fails):
        s = list(case["stream"])
        cur = dict(case, chunks=None)
        if not still_fails(cur):
            return case
        changed = True
        while changed and len(s) > 1:
            changed = False
            for i in range(len(s)):
                t = s[:i] + s[i + 1:]
                c2 = dict(cur, stream=t)
                if still_fails(c2):
                    s, cur, changed = t, c2, True
                    break
        return cur


if __name__ == "__main__":
    raise SystemExit(C01().main())

"""Generic check runner: rebuild the Coq development against the current /repo, re-check the
property's theorems (Print Assumptions), run corpus + correspondence + spec evaluation on the
implementation, search / report, write evidence."""
from __future__ import annotations

import fcntl
import hashlib
import json
import os
import random
import re
import subprocess
import sys
import time

ROOT = os.path.dirname(os.path.dirname(os.path.abspath(__file__)))
COQ = os.path.join(ROOT, "coq")
BUILD = os.path.join(ROOT, "build")
OCAMLRUNPARAM = "s=4M,h=256M"
ALLOWED_ASSUMPTIONS_PREFIX = (
    # kernel primitives (not axioms): listed by Print Assumptions when PrimFloat / Uint63 are used
    "PrimFloat.", "PrimInt63.",
)

sys.path.insert(0, "/repo")
import logging  # noqa: E402
logging.disable(logging.CRITICAL)  # the library logs retries / unknown frames: not part of the observed behaviour


def sh(cmd, cwd=ROOT, timeout=3600, env=None):
    e = dict(os.environ)
    e["OCAMLRUNPARAM"] = OCAMLRUNPARAM
    e["PYTHONPATH"] = "/repo"
    e["PYTHONHASHSEED"] = "0"
    if env:
        e.update(env)
    p = subprocess.run(cmd, shell=True, cwd=cwd, stdout=subprocess.PIPE, stderr=subprocess.STDOUT,
                       timeout=timeout, env=e, executable="/bin/bash")
    out = "\n".join(l for l in p.stdout.decode(errors="replace").splitlines() if "conda.cli" not in l)
    return p.returncode, out


class BuildResult:
    def __init__(self):
        self.translator_ok = True
        self.translator_msg = ""
        self.failed_files: list[str] = []
        self.driver_ok = True
        self.gate_ok = True
        self.gate_msg = ""
        self.log = ""


def _dep_closure(vfile: str) -> list[str]:
    """Transitive project-local dependencies of a .v file (from coqdep)."""
    rc, out = sh(f"coqdep -Q . PV -sort {vfile} 2>/dev/null", cwd=COQ)
    # coqdep -sort prints all files it needed in dependency order
    files = [f for f in out.split() if f.endswith(".v")]
    res = []
    for f in files:
        f = f[2:] if f.startswith("./") else f
        res.append(f)
    if vfile not in res:
        res.append(vfile)
    return res


def build(prop_file: str) -> tuple[BuildResult, dict]:
    """Rebuild everything against the current tree.  Returns build status and theorem info."""
    os.makedirs(BUILD, exist_ok=True)
    br = BuildResult()
    info = {"obligations": 0, "discharged": 0, "assumptions": [], "theorems": [], "closure": [], "broken": []}
    lock = open(os.path.join(BUILD, ".lock"), "w")
    fcntl.flock(lock, fcntl.LOCK_EX)
    try:
        rc, out = sh("/venv/bin/python tools/gen_tables.py coq/Generated")
        if rc != 0:
            br.translator_ok = False
            br.translator_msg = out[-2000:]
            info["broken"].append("translator tools/gen_tables.py (fail-closed): " + out.strip().splitlines()[-1] if out.strip() else "translator failed")
        if not os.path.exists(os.path.join(COQ, "Makefile.coq")):
            sh("coq_makefile -f _CoqProject -o Makefile.coq", cwd=COQ)
        rc, out = sh("timeout 3000 make -k -f Makefile.coq -j16 2>&1", cwd=COQ, timeout=3100)
        br.log = out
        if rc != 0:
            for m in re.finditer(r"File \"\./([^\"]+\.v)\", line", out):
                if m.group(1) not in br.failed_files:
                    br.failed_files.append(m.group(1))
            for m in re.finditer(r"\*\*\* \[[^\]]*?([A-Za-z0-9_/]+\.vo)\]", out):
                f = m.group(1)[:-1]
                if f not in br.failed_files:
                    br.failed_files.append(f)
        # gate
        rc, out = sh("make -s gate")
        if rc != 0:
            br.gate_ok = False
            br.gate_msg = out[-2000:]
            info["broken"].append("gate: forbidden construct in the development: " + out[-300:])
        # extraction + driver (only if the executable definitions compiled)
        need = [f for f in os.listdir(os.path.join(COQ, "Extract")) if f.endswith(".v")]
        ok = all(os.path.exists(os.path.join(COQ, "Extract", f + "o")) and
                 os.path.getmtime(os.path.join(COQ, "Extract", f + "o")) >= os.path.getmtime(os.path.join(COQ, "Extract", f))
                 for f in need)
        driver = os.path.join(BUILD, "driver")
        if ok:
            newest = max(os.path.getmtime(os.path.join(COQ, "Extract", f + "o")) for f in need)
            if (not os.path.exists(driver)) or os.path.getmtime(driver) < newest or \
                    os.path.getmtime(driver) < os.path.getmtime(os.path.join(ROOT, "ocaml", "driver.ml")):
                rc, out = sh("make -s driver-only 2>&1")
                if rc != 0:
                    br.driver_ok = False
                    br.log += "\n" + out
        else:
            br.driver_ok = os.path.exists(driver)
            info["broken"].append("executable model no longer compiles: " + ", ".join(br.failed_files))
        # theorem bookkeeping for this property
        closure = _dep_closure(prop_file)
        info["closure"] = closure
        stmt = re.compile(r"^\s*(Theorem|Lemma|Corollary|Example|Fact|Proposition)\s+([A-Za-z0-9_']+)", re.M)
        for f in closure:
            if f.startswith("Generated/") or f.startswith("Model/") and False:
                continue
            try:
                text = open(os.path.join(COQ, f)).read()
            except OSError:
                continue
            names = [m.group(2) for m in stmt.finditer(text)]
            info["obligations"] += len(names)
            if f not in br.failed_files and os.path.exists(os.path.join(COQ, f + "o")):
                info["discharged"] += len(names)
            else:
                info["broken"].append(f"proof file {f} does not compile")
        # re-check the property file itself and capture Print Assumptions
        if all(f not in br.failed_files for f in closure):
            rc, out = sh(f"timeout 1200 coqc -Q . PV {prop_file} 2>&1", cwd=COQ, timeout=1300)
            if rc != 0:
                info["broken"].append(f"{prop_file} does not compile: " + out[-400:])
                info["discharged"] -= len(stmt.findall(open(os.path.join(COQ, prop_file)).read()))
            else:
                info["assumptions"], info["theorems"] = parse_assumptions(out, open(os.path.join(COQ, prop_file)).read())
                for a in info["assumptions"]:
                    if not a.startswith(ALLOWED_ASSUMPTIONS_PREFIX):
                        info["broken"].append(f"assumption outside the trusted base: {a}")
        info["broken"] = sorted(set(info["broken"]))
    finally:
        fcntl.flock(lock, fcntl.LOCK_UN)
        lock.close()
    return br, info


def parse_assumptions(out: str, src: str):
    thms = re.findall(r"^\s*Theorem\s+([A-Za-z0-9_']+)", src, re.M)
    axioms = []
    closed = out.count("Closed under the global context")
    in_ax = False
    for line in out.splitlines():
        if line.startswith("Axioms:"):
            in_ax = True
            continue
        if in_ax:
            m = re.match(r"^([A-Za-z0-9_.']+)\s*:", line)
            if m:
                axioms.append(m.group(1))
            elif line and not line.startswith(" "):
                in_ax = False
    return sorted(set(axioms)), [{"name": t} for t in thms] + [{"closed_under_global_context": closed}]


# ------------------------------------------------------------------------------------------

def load_known(pid: str):
    path = os.path.join(ROOT, "KNOWN_FINDINGS.json")
    if not os.path.exists(path):
        return []
    data = json.load(open(path))
    return [e for e in data.get("findings", []) if e.get("property") == pid]


def write_replay(pid: str, payload: dict) -> str:
    os.makedirs(os.path.join(ROOT, "replays"), exist_ok=True)
    h = hashlib.sha1(json.dumps(payload, sort_keys=True, default=str).encode()).hexdigest()[:10]
    path = os.path.join(ROOT, "replays", f"{pid}-{h}.json")
    with open(path, "w") as f:
        json.dump(payload, f, indent=1, sort_keys=True, default=str)
    return path


def write_evidence(pid: str, tier: str, seed: int, coverage: dict, wall: float, violations: int, assumptions: list[str]):
    os.makedirs(os.path.join(ROOT, "evidence"), exist_ok=True)
    ev = {
        "property_id": pid,
        "tier": tier,
        "seed": seed,
        "level": "proof",
        "coverage": coverage,
        "assumptions": assumptions,
        "wall_s": round(wall, 2),
        "violations": violations,
    }
    with open(os.path.join(ROOT, "evidence", f"{pid}.json"), "w") as f:
        json.dump(ev, f, indent=1, sort_keys=True, default=str)


class Prop:
    """Base class of a property check.  Subclasses define the pieces; `main` drives them."""

    id = "C00"
    prop_file = "Props/C00.v"
    rule = ""
    assumptions: list[str] = []

    # -- to override ---------------------------------------------------------------------
    def corpus(self) -> list:
        """Committed minimised witnesses (list of cases)."""
        d = os.path.join(ROOT, "corpus", self.id)
        cases = []
        if os.path.isdir(d):
            for fn in sorted(os.listdir(d)):
                if fn.endswith(".json"):
                    c = json.load(open(os.path.join(d, fn)))
                    c.setdefault("origin", "corpus:" + fn)
                    cases.append(c)
        return cases

    def generate(self, rng: random.Random, tier: str) -> list:
        raise NotImplementedError

    def run_impl(self, case) -> object:
        raise NotImplementedError

    def model_many(self, cases: list) -> list:
        raise NotImplementedError

    def spec_many(self, cases: list, behaviours: list) -> list[bool]:
        """P(x, behaviour) through the extracted spec relation."""
        raise NotImplementedError

    def obs(self, case, behaviour):
        """Projection to what the property can see (default: everything)."""
        return behaviour

    def nontrivial_key(self, case, behaviour):
        """Return a hashable key if the case is non-trivial, else None."""
        return json.dumps(case, sort_keys=True, default=str)

    def kind(self, case) -> str:
        return case.get("kind", "?") if isinstance(case, dict) else "?"

    def known_match(self, entry, case, impl_b) -> bool:
        return False

    def shrink(self, case, still_fails):
        return case

    def extra_checks(self, tier, rng) -> list[dict]:
        """Additional impl-only checks; returns a list of failure dicts."""
        return []

    # -- driver ------------------------------------------------------------------------------
    def main(self, argv=None):
        import argparse
        ap = argparse.ArgumentParser()
        ap.add_argument("--tier", default=os.environ.get("VERIF_TIER", "quick"))
        ap.add_argument("--replay", default=None)
        args = ap.parse_args(argv)
        tier = args.tier if args.tier in ("quick", "thorough") else "quick"
        seed = int(os.environ.get("VERIF_SEED", "0"))
        t0 = time.time()
        if args.replay:
            return self.replay(args.replay)
        br, info = build(self.prop_file)
        broken = list(info["broken"])
        coqchk_axioms = None
        if tier == "thorough" and not broken:
            coqchk_axioms, chk_broken = self.coqchk()
            broken += chk_broken

        rng = random.Random(seed)
        corpus = self.corpus()
        gen = self.generate(rng, tier)
        all_cases = corpus + gen
        cases, impl_bs = [], []
        failures = []      # (case, impl behaviour, reason)
        harness_errors = []
        for c in all_cases:
            # an exception the harness of the property does not expect is an outcome outside every documented one:
            # reported with the input as replay, never a crash of the check
            try:
                b = self.run_impl(c)
            except Exception as e:  # noqa: BLE001
                import traceback
                tb = traceback.extract_tb(e.__traceback__)
                where = next((f"{fr.filename}:{fr.lineno}" for fr in reversed(tb) if "/repo/" in fr.filename), "")
                if tb and "/repo/" not in tb[-1].filename and "/verif/" in tb[-1].filename and isinstance(e, (AttributeError, ImportError, KeyError, TypeError, NameError)):
                    # raised by the harness's own code (it can no longer observe the implementation, e.g. an internal name it reads
                    # is gone): the correspondence is broken, that is not a failing input of the property
                    harness_errors.append(f"{type(e).__name__}: {str(e)[:160]} at {tb[-1].filename}:{tb[-1].lineno}")
                    continue
                failures.append((c, {"unexpected_exception": type(e).__name__, "text": str(e)[:200], "where": where},
                                 f"the implementation raised {type(e).__name__} ({where}) where the harness expects none"))
                continue
            cases.append(c)
            impl_bs.append(b)
        if harness_errors:
            broken.append(f"correspondence harness cannot observe the implementation on {len(harness_errors)} case(s): " + harness_errors[0])
        disagreements = []
        model_bs = [None] * len(cases)
        spec_ok = [True] * len(cases)
        model_error = None
        if br.driver_ok:
            try:
                model_bs = self.model_many(cases)
                spec_ok = self.spec_many(cases, impl_bs)
            except Exception as e:  # noqa: BLE001
                model_error = f"{type(e).__name__}: {e}"
                broken.append("extracted model failed to run: " + model_error[:300])
        else:
            broken.append("extracted model unavailable (driver not built)")
        fine_dis = 0
        hist: dict[str, int] = {}
        nontrivial = set()
        for c, ib, mb, ok in zip(cases, impl_bs, model_bs, spec_ok):
            k = self.kind(c)
            hist[k] = hist.get(k, 0) + 1
            if mb is not None:
                nk = self.nontrivial_key(c, mb)
                if nk is not None:
                    nontrivial.add(nk)
                if self.obs(c, ib) != self.obs(c, mb):
                    disagreements.append((c, ib, mb))
                elif ib != mb:
                    fine_dis += 1
            if not ok:
                failures.append((c, ib, "spec relation P false on the implementation's behaviour"))
        for f in self.extra_checks(tier, rng):
            failures.append((f.get("case"), f.get("impl"), f.get("reason", "extra check failed")))

        # classification against known findings
        known = [e for e in load_known(self.id) if e.get("status") == "open"]
        reported = []
        known_hits: dict[str, int] = {}
        def kmatch(e, c, ib):
            try:
                return self.known_match(e, c, ib)
            except Exception:  # noqa: BLE001
                return False
        for c, ib, why in failures:
            hit = next((e for e in known if kmatch(e, c, ib)), None)
            if hit is not None:
                known_hits[hit["id"]] = known_hits.get(hit["id"], 0) + 1
            else:
                reported.append((c, ib, why))
        real_dis = []
        for c, ib, mb in disagreements:
            hit = next((e for e in known if kmatch(e, c, ib)), None)
            if hit is None:
                real_dis.append((c, ib, mb))
        for e in known:
            if known_hits.get(e["id"]):
                print(f"KNOWN-FINDING: property={self.id} {e['what']}")

        violations = 0
        rc = 0
        if reported:
            c, ib, why = reported[0]
            def still_fails(x):
                try:
                    bx = self.run_impl(x)
                except Exception:  # noqa: BLE001
                    return True
                return not self.spec_many([x], [bx])[0]

            def behaviour_of(x):
                try:
                    return self.run_impl(x)
                except Exception as e:  # noqa: BLE001
                    return {"unexpected_exception": type(e).__name__, "text": str(e)[:200]}
            try:
                c2 = self.shrink(c, still_fails)
            except Exception:  # noqa: BLE001
                c2 = c
            path = write_replay(self.id, {"property": self.id, "kind": "failing-input", "why": why, "case": c2,
                                          "impl_behaviour": behaviour_of(c2), "original_case": c,
                                          "original_behaviour": ib,
                                          "n_failing_cases": len(reported)})
            print(f"VIOLATION property={self.id} replay={path}")
            violations = len(reported)
            rc = 1
        elif real_dis or broken:
            payload = {"property": self.id, "kind": "no-failing-input-found", "broken": broken}
            if real_dis:
                c, ib, mb = real_dis[0]
                payload.update({"correspondence_case": c, "impl_behaviour": ib, "model_behaviour": mb,
                                "n_disagreements": len(real_dis),
                                "note": "model and implementation differ on this input; the spec relation holds of the implementation's behaviour on every explored input"})
            if br.log and (br.failed_files or not br.translator_ok):
                payload["build_log_tail"] = (br.translator_msg or br.log)[-3000:]
            path = write_replay(self.id, payload)
            print(f"VIOLATION property={self.id} replay={path} no-failing-input-found")
            violations = max(1, len(real_dis))
            rc = 1

        samples = []
        for c, ib in list(zip(cases, impl_bs))[:3] + list(zip(cases, impl_bs))[len(corpus):len(corpus) + 3]:
            samples.append({"case": c, "impl_behaviour": ib})
        trusted = [f"Coq 8.16.1 kernel (coqc, vm_compute); Print Assumptions of {self.prop_file}: " +
                   (", ".join(info["assumptions"]) if info["assumptions"] else "closed under the global context"),
                   "translator tools/gen_tables.py + tools/tools_extra.py (tables regenerated from /repo on this run)",
                   "extraction: ExtrOcamlBasic only (bool, option, unit, list, prod, sumbool, sumor; andb/orb inlined), OCaml 4.13.1, ocaml/driver.ml",
                   "correspondence harness (harness/*.py): differential test of model vs implementation, not a proof"] + \
                  list(self.assumptions)
        if coqchk_axioms is not None:
            trusted.append("coqchk -o axioms: " + (", ".join(coqchk_axioms) if coqchk_axioms else "none"))
        coverage = {
            "obligations": info["obligations"],
            "discharged": info["discharged"],
            "checker_cmd": f"make -C /verif coq  (coq_makefile, full .vo build) && coqc -Q . PV {self.prop_file}" +
                           (" && coqchk -o -silent" if tier == "thorough" else ""),
            "trusted_base": trusted,
            "theorems": info["theorems"],
            "proof_files": info["closure"],
            "evaluations": len(cases),
            "distinct_nontrivial": len(nontrivial),
            "rule": self.rule,
            "samples": samples,
            "input_distribution": hist,
            "corpus_replayed": len(corpus),
            "correspondence_disagreements": len(disagreements),
            "fine_disagreements": fine_dis,
            "spec_failures_on_impl": len(failures),
            "known_findings_reproduced": known_hits,
            "broken": broken,
        }
        coverage.update(self.extra_coverage())
        write_evidence(self.id, tier, seed, coverage, time.time() - t0, violations, list(self.assumptions))
        return rc

    def extra_coverage(self) -> dict:
        return {}

    def coqchk(self):
        mod = "PV." + self.prop_file[:-2].replace("/", ".")
        limit = int(os.environ.get("VERIF_COQCHK_TIMEOUT", "2400"))
        rc, out = sh(f"timeout {limit} coqchk -silent -o -Q . PV {mod} 2>&1", cwd=COQ, timeout=limit + 100)
        if rc == 124:
            # the independent checker re-evaluates the vm_compute sweeps without the VM; running out of time is not a
            # failed proof (the kernel of coqc has accepted every file in build()): recorded, not reported
            return [f"(coqchk did not finish within {limit} s: second opinion not available for this run)"], []
        axioms = []
        grab = False
        for line in out.splitlines():
            if "Axioms:" in line:
                grab = True
                continue
            if grab:
                s = line.strip()
                if s.startswith("*") or not s:
                    if s.startswith("* "):
                        grab = s.startswith("* Axioms")
                    continue
                axioms.append(s)
        broken = []
        if rc != 0:
            broken.append("coqchk failed: " + out[-400:])
        return axioms, broken

    def replay(self, path: str) -> int:
        data = json.load(open(path))
        case = data.get("case") or data.get("correspondence_case")
        if case is None:
            print("replay file names a broken theorem / correspondence, no input to run")
            print(json.dumps(data, indent=1)[:2000])
            return 1
        try:
            ib = self.run_impl(case)
        except Exception as e:  # noqa: BLE001
            print(json.dumps({"case": case, "impl": {"unexpected_exception": type(e).__name__, "text": str(e)[:200]}}, indent=1, default=str))
            print(f"VIOLATION property={self.id} replay={path}")
            return 1
        ok = self.spec_many([case], [ib])[0]
        mb = self.model_many([case])[0]
        print(json.dumps({"case": case, "impl": ib, "model": mb, "spec_holds_on_impl": ok}, indent=1, default=str))
        if not ok:
            print(f"VIOLATION property={self.id} replay={path}")
            return 1
        return 0

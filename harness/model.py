"""Talk to the extracted model (build/driver): s-expressions of hex integers and lists."""
from __future__ import annotations

import os
import subprocess

ROOT = os.path.dirname(os.path.dirname(os.path.abspath(__file__)))
DRIVER = os.path.join(ROOT, "build", "driver")


def enc(v) -> str:
    if isinstance(v, bool):
        return "1" if v else "0"
    if isinstance(v, int):
        return format(v, "x") if v >= 0 else "-" + format(-v, "x")
    if isinstance(v, (bytes, bytearray)):
        return "(" + " ".join(format(b, "x") for b in v) + ")"
    if v is None:
        return "()"
    return "(" + " ".join(enc(x) for x in v) + ")"


def dec(s: str):
    pos = 0
    n = len(s)

    def value():
        nonlocal pos
        while pos < n and s[pos] == " ":
            pos += 1
        if s[pos] == "(":
            pos += 1
            items = []
            while True:
                while pos < n and s[pos] == " ":
                    pos += 1
                if s[pos] == ")":
                    pos += 1
                    return items
                items.append(value())
        st = pos
        while pos < n and s[pos] not in " ()":
            pos += 1
        tok = s[st:pos]
        return -int(tok[1:], 16) if tok.startswith("-") else int(tok, 16)

    return value()


class ModelError(Exception):
    pass


def call_many(cmd: str, args: list) -> list:
    """Evaluate one entry point on many inputs with a single driver process."""
    if not args:
        return []
    inp = "\n".join(f"{cmd} {enc(a)}" for a in args) + "\n"
    env = dict(os.environ)
    env["OCAMLRUNPARAM"] = "s=4M,l=8G"
    p = subprocess.run([DRIVER], input=inp.encode(), stdout=subprocess.PIPE, stderr=subprocess.PIPE,
                       timeout=3600, env=env)
    if p.returncode != 0:
        raise ModelError(f"driver exit {p.returncode}: {p.stderr.decode()[:500]}")
    lines = p.stdout.decode().splitlines()
    if len(lines) != len(args):
        raise ModelError(f"driver returned {len(lines)} lines for {len(args)} inputs")
    out = []
    for ln in lines:
        if ln.startswith("!"):
            raise ModelError(ln)
        out.append(dec(ln))
    return out


def call(cmd: str, arg):
    return call_many(cmd, [arg])[0]

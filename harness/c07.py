"""C07 -- a write targets exactly the controller slot the parameter was read from."""
from __future__ import annotations

import asyncio

from harness import frames_gen as G
from harness import model, proto_impl as PI, vloop
from harness.common import Prop

UID = {0: "EM350P2_uid", 1: "ecoMAX_850i_uid"}


def view_slots(start, slots):
    return [[start + i, s[0]] for i, s in enumerate(slots) if s]


async def _run(product, thermostats, ops, uid_at=None, gap=0, subscribed=None):
    from pyplumio.devices.ecomax import EcoMAX
    from pyplumio.frames import responses as R
    from pyplumio.helpers.parameter import Parameter
    from pyplumio.structures.network_info import NetworkInfo
    q = asyncio.Queue()
    dev = EcoMAX(q, network=NetworkInfo())

    async def settle():
        for _ in range(8):
            pending = [t for t in dev.tasks if not t.done()]
            subs = [t for d in list(dev.data.get("mixers", {}).values()) + list(dev.data.get("thermostats", {}).values())
                    for t in d.tasks if not t.done()]
            if not pending and not subs:
                break
            await asyncio.gather(*pending, *subs, return_exceptions=True)
        await asyncio.sleep(0)

    if subscribed:
        # user subscriptions on the ecoMAX parameter events through the library's filters; the callback passes on what it is given
        from pyplumio import filters as F
        from pyplumio.const import ProductType
        from pyplumio.structures import ecomax_parameters as EP

        async def passthrough(value):
            return value
        for d in EP.ECOMAX_PARAMETERS[ProductType(product)]:
            dev.subscribe(d.name, (F.on_change if subscribed == "on_change" else (lambda cb: F.debounce(cb, 1)))(passthrough))
    if uid_at is not None:
        # the product information arrives late: the responses before it are handled while the product is unknown (their handlers
        # wait for it), so settling is done by letting (virtual) time pass, never by waiting for the handler tasks
        async def settle():  # noqa: F811
            await asyncio.sleep(0.05)
    else:
        dev.handle_frame(R.UIDResponse(message=bytearray(PI.payload("responses/uid.json", UID[product]))))
        await settle()
    await dev.dispatch("thermostats_available", thermostats)
    for k, op in enumerate(list(ops) + [None]):
        if uid_at is not None and k == min(uid_at, len(ops)):
            await asyncio.sleep(gap)
            dev.handle_frame(R.UIDResponse(message=bytearray(PI.payload("responses/uid.json", UID[product]))))
            await settle()
        if op is None:
            break
        cls = {0: R.EcomaxParametersResponse, 1: R.MixerParametersResponse, 2: R.ThermostatParametersResponse,
               3: R.SchedulesResponse}[op["kind"]]
        try:
            dev.handle_frame(cls(message=bytearray(op["payload"])))
        except (IndexError, KeyError, ValueError):
            pass        # the response is refused as a whole (e.g. a thermostat block longer than the table): it must leave no trace
        await settle()
    if uid_at is not None:
        await asyncio.sleep(1)
    out = []

    async def describe(tag, sub, owner):
        for name, p in list(owner.data.items()):
            if isinstance(p, Parameter) and not name.endswith("_schedule_switch") and not name.endswith("_schedule_parameter"):
                if name == "ecomax_control":
                    t = 3
                elif name == "thermostat_profile":
                    t = 4
                else:
                    t = tag
                try:
                    fr = await p.create_request()
                    payload = list(bytes(fr.message))
                    code = int(fr.frame_type)
                except Exception as e:  # noqa: BLE001
                    payload, code = ["exception", type(e).__name__], -1
                out.append({"tag": t, "sub": sub, "name": name, "index": p._index, "offset": getattr(p, "offset", 0),
                            "value": p.values.value, "payload": payload, "code": code})
    await describe(0, 0, dev)
    # schedule switches and parameters: the set-schedule request each of them builds
    from pyplumio.structures.schedules import SCHEDULES
    for name, p in list(dev.data.items()):
        if isinstance(p, Parameter) and (name.endswith("_schedule_switch") or name.endswith("_schedule_parameter")):
            sched = name.rsplit("_schedule_", 1)[0]
            try:
                fr = await p.create_request()
                payload, code = list(bytes(fr.message)), int(fr.frame_type)
            except Exception as e:  # noqa: BLE001
                payload, code = ["exception", type(e).__name__], -1
            out.append({"tag": 5, "sub": SCHEDULES.index(sched) if sched in SCHEDULES else 999, "name": name, "index": p._index,
                        "offset": 1 if name.endswith("_schedule_parameter") else 0, "value": p.values.value, "payload": payload,
                        "code": code})
    for m, mx in sorted(dev.data.get("mixers", {}).items()):
        await describe(1, m, mx)
    for t, th in sorted(dev.data.get("thermostats", {}).items()):
        await describe(2, t, th)
    for t in list(dev.tasks):
        t.cancel()
    await asyncio.gather(*dev.tasks, return_exceptions=True)
    return out


class C07(Prop):
    id = "C07"
    prop_file = "Props/C07.v"
    rule = ("both product types x ecoMAX parameter responses with arbitrary start / count / undefined holes, including positions up to ten "
            "beyond the end of the table, x mixer blocks for 0..4 mixers x thermostat blocks for 0..2 thermostats (1- and 2-byte slots, holes) x "
            "repeated responses (create then update), also with the product information arriving only after some of them (`late-product`, pauses up to minutes), and with user subscriptions on the parameter events through the on_change / debounce filters (`subscribed`); the payloads are rendered by the Coq spec encoders and fed to a real EcoMAX through "
            "handle_frame; then for EVERY named parameter of the device, its mixers and thermostats the request built by create_request() is "
            "compared with the position its name has in the table.  Non-trivial = at least one parameter created from a response with a hole "
            "or a non-zero start; distinct by case content.")
    assumptions = ["schedule parameters and the on/off control are addressed by name (set-schedule / control request) and are exercised under C18 / C06"]

    def _slots(self, rng, n, size_of=lambda i: 1, hole_p=0.2):
        out = []
        for i in range(n):
            if rng.random() < hole_p:
                out.append([])
            else:
                top = 256 ** size_of(i) - 1
                v = [rng.randrange(top + 1) for _ in range(3)]
                if v == [top, top, top]:
                    v[0] = 0
                out.append([v])
        return out

    def generate(self, rng, tier):
        t = G.tables()
        cases = []
        for _ in range(300 if tier == "quick" else 4000):
            product = rng.choice([0, 1])
            etab = t["ecomax_params_p" if product == 0 else "ecomax_params_i"]
            mtab = t["mixer_params_p" if product == 0 else "mixer_params_i"]
            ttab = t["thermostat_params"]
            nth = rng.choice([0, 1, 2, 2, 3])
            ops = []
            for _ in range(rng.randrange(1, 6)):
                k = rng.choice([0, 0, 1, 2, 3])
                if k == 3:
                    # schedules response; names that are prefixes of one another (heating / heating_circulation, water_heater /
                    # water_heater_2, intake / intake_summer) appear together often, in either order
                    names = t["schedules"]
                    pairs = [(a, b) for a in range(len(names)) for b in range(len(names)) if a != b and names[b].startswith(names[a] + "_")]
                    idxs = list(rng.choice(pairs)) if pairs and rng.random() < 0.6 else []
                    if rng.random() < 0.5:
                        idxs.reverse()
                    idxs += [i for i in rng.sample(range(len(names)), rng.randrange(0, 3)) if i not in idxs]
                    ss = [[i, rng.choice([0, 1]), [[rng.randrange(255), 0, 255]],
                           [[int(rng.random() < 0.5) for _ in range(48)] for _ in range(7)]] for i in idxs]
                    ops.append({"kind": 3, "enc": [rng.randrange(256), rng.randrange(256), ss]})
                elif k == 0:
                    start = rng.choice([0, 0, rng.randrange(0, len(etab)), max(0, len(etab) - rng.randrange(1, 6))])
                    count = rng.choice([rng.randrange(0, 20), min(255 - start, len(etab) - start + rng.randrange(0, 11))])
                    ops.append({"kind": 0, "enc": [rng.randrange(256), start, self._slots(rng, count)]})
                elif k == 1:
                    start = rng.choice([0, 0, rng.randrange(0, len(mtab))])
                    count = rng.randrange(0, len(mtab) - start + rng.choice([0, 0, 3]))
                    nm = rng.randrange(0, 5)
                    ops.append({"kind": 1, "enc": [rng.randrange(256), start, count, [self._slots(rng, count, hole_p=rng.choice([0.1, 0.5, 1.0])) for _ in range(nm)]]})
                elif nth > 0:
                    per = rng.choice([rng.randrange(1, len(ttab) + 1), rng.randrange(1, len(ttab) + 1), len(ttab) + 1, len(ttab) + 2])
                    size_of = lambda i: ttab[i]["size"] if i < len(ttab) else 1
                    hp = rng.choice([0.0, 0.0, 0.2])
                    ops.append({"kind": 2, "enc": [rng.randrange(256), per, self._slots(rng, 1, hole_p=0.2)[0],
                                                   # (a thermostat that is not connected reports a block of undefined slots only)
                                                   [self._slots(rng, per, size_of, hole_p=rng.choice([hp, hp, hp, 1.0])) for _ in range(nth)]]})
            if ops:
                cases.append({"kind": "random", "product": product, "thermostats": nth, "ops": ops})
                if rng.random() < 0.25 and any(o["kind"] == 0 for o in ops):
                    cases.append({"kind": "subscribed", "product": product, "thermostats": nth, "ops": [dict(o) for o in ops],
                                  "subscribed": rng.choice(["on_change", "debounce"])})
                if rng.random() < 0.3:
                    # the same history with the product information (UID response) arriving only after some of the responses,
                    # and after a pause of up to minutes
                    cases.append({"kind": "late-product", "product": product, "thermostats": nth, "ops": [dict(o) for o in ops],
                                  "uid_at": rng.randrange(1, len(ops) + 1), "gap": rng.choice([0, 1, 2.9, 3.1, 5, 30, 300])})
        return cases

    def _render(self, c):
        if "_payloads" in c:
            return
        cmds = {0: "enc_ecomax_params", 1: "enc_mixer_params", 2: "enc_thermostat_params", 3: "enc_schedules"}
        for op in c["ops"]:
            op["payload"] = model.call(cmds[op["kind"]], op["enc"])
        c["_payloads"] = True

    def run_impl(self, c):
        self._render(c)
        res = vloop.run(_run, c["product"], c["thermostats"], c["ops"], c.get("uid_at"), c.get("gap", 0), c.get("subscribed"))
        t = G.tables()
        tabs = {0: t["ecomax_params_p" if c["product"] == 0 else "ecomax_params_i"],
                1: t["mixer_params_p" if c["product"] == 0 else "mixer_params_i"], 2: t["thermostat_params"],
                3: t["ecomax_control_param"], 4: t["thermostat_profile_param"]}
        out = []
        for r in res:
            if r["tag"] == 5:
                # [5, schedule index, 0 switch / 1 parameter, ...]
                out.append([5, r["sub"], r["offset"], r["index"], 0, 1, [r["payload"]], r["value"], r["code"]])
                continue
            names = [d["name"] for d in tabs[r["tag"]]]
            pos = names.index(r["name"]) if r["name"] in names else 999
            size = tabs[r["tag"]][pos]["size"] if pos != 999 else 1
            out.append([r["tag"], r["sub"], pos, r["index"], r["offset"] if r["tag"] == 2 else 0, size, [r["payload"]], r["value"], r["code"]])
        return sorted(out)

    def model_many(self, cases):
        args = []
        for c in cases:
            self._render(c)
            ops = []
            for op in c["ops"]:
                if op["kind"] == 0:
                    d = model.call("decode_ecomax_params", bytes(op["payload"]))
                    ops.append([0, d[0]])
                elif op["kind"] == 3:
                    continue
                elif op["kind"] == 1:
                    d = model.call("decode_mixer_params", bytes(op["payload"]))
                    for m, ps in d[0]:
                        ops.append([1, m, ps])
                else:
                    d = model.call("decode_thermostat_params", [c["thermostats"], bytes(op["payload"])])
                    if d and d[0]:
                        prof, blocks = d[0][0]
                        for tt, ps in blocks:
                            ops.append([2, tt, ps])
                        c.setdefault("_profile", []).append(prof)
            args.append([c["product"], ops])
        res = model.call_many("handlers", args)
        out = []
        for c, r in zip(cases, res):
            rows = [[x[0], x[1], x[2], x[3], x[4], x[5], x[6]] for x in r]
            scheds = sorted({i for op in c["ops"] if op["kind"] == 3 for i, *_ in op["enc"][2]})
            for i in scheds:
                for which in (0, 1):
                    m = model.call("routed_schedule", 2 * i + which)
                    rows.append([5, i, which, 0, 0, 1, [[1, (m[0] if m else -1)]], 0, 55])
            out.append(sorted(rows))
        return out

    def obs(self, c, b):
        # parameters created by the device itself (control, profile) are outside the handler model; schedule switches / parameters:
        # the schedule their request is routed to
        rows = [row[:7] for row in b if row[0] in (0, 1, 2)]
        rows += [[5, row[1], row[2], (row[6][0][1] if len(row[6][0]) > 1 and row[6][0][0] != "exception" else -1)] for row in b if row[0] == 5]
        return sorted(rows)

    def _latest(self, c, lenient=False):
        """(tag, sub, position) -> raw value of the slot at that wire position in the latest response defining it.
        A thermostat response with more slots per thermostat than the table has descriptions may be refused as a whole
        (lenient=False) or have its described positions accepted (lenient=True): the property allows both."""
        t = G.tables()
        lens = {0: len(t["ecomax_params_p" if c["product"] == 0 else "ecomax_params_i"]),
                1: len(t["mixer_params_p" if c["product"] == 0 else "mixer_params_i"]), 2: len(t["thermostat_params"])}
        exp = {}
        for op in c["ops"]:
            e = op["enc"]
            if op["kind"] == 0:
                for i, sl in enumerate(e[2]):
                    if sl and e[1] + i < lens[0]:
                        exp[(0, 0, e[1] + i)] = sl[0][0]
            elif op["kind"] == 1:
                for m, block in enumerate(e[3]):
                    for i, sl in enumerate(block):
                        if sl and e[1] + i < lens[1]:
                            exp[(1, m, e[1] + i)] = sl[0][0]
            elif op["kind"] == 2:
                if e[1] > lens[2] and not lenient:
                    continue
                for tt, block in enumerate(e[3]):
                    for i, sl in enumerate(block):
                        if sl and i < lens[2]:
                            exp[(2, tt, i)] = sl[0][0]
        return exp

    def _sched_ok(self, c, b):
        """schedule switches / parameters: a set-schedule request for THAT schedule, carrying its latest switch, parameter and week"""
        latest = {}
        for op in c["ops"]:
            if op["kind"] == 3:
                for i, sw, par, week in op["enc"][2]:
                    latest[i] = (sw, par[0][0], week)
        want = {}
        for i, (sw, par, week) in latest.items():
            bitmap = list(model.call("encode_bitmap", [[bool(x) for x in d] for d in week]))
            for which in (0, 1):
                want[(i, which)] = ([1, i, sw, par] + bitmap, 55)
        got = {(row[1], row[2]): (row[6][0], row[8]) for row in b if row[0] == 5}
        return got == want

    def spec_many(self, cases, behaviours, check_values=True):
        out = []
        for c, b in zip(cases, behaviours):
            ok = True
            self._d8 = getattr(self, "_d8", {})
            # "the position its value was decoded from": the value held under a name is the one the latest response
            # carried at the table position of that name, and every such position is held
            exp = self._latest(c)
            held = {(row[0], row[1], row[2]): row[7] for row in b if row[0] in (0, 1, 2)}
            if check_values and held != exp and held != self._latest(c, lenient=True):
                ok = False
            if check_values and not self._sched_ok(c, b):
                ok = False
            for tag, sub, pos, index, offset, size, payload, value, code in b:
                if tag == 5:
                    continue
                payload = payload[0]
                if payload and payload[0] == "exception":
                    ok = False
                    continue
                if tag == 0:
                    good = pos != 999 and index == pos and code == 51 and payload == [pos, value]
                elif tag == 1:
                    good = pos != 999 and index == pos and code == 52 and payload == [sub, pos, value]
                elif tag == 2:
                    per = self._creating_per(c, sub, pos, self._lenient(c, b))
                    exp = [pos + 1 + sub * per] + list(int(value).to_bytes(size, "little"))
                    good = pos != 999 and index == pos and code == 93 and payload == exp
                elif tag == 4:
                    good = code == 93 and payload == [0, value]
                else:
                    good = code == 59 and payload == [value]
                ok = ok and good
            out.append(ok)
        return out

    def _lenient(self, c, b):
        held = {(row[0], row[1], row[2]): row[7] for row in b if row[0] in (0, 1, 2)}
        return held != self._latest(c) and held == self._latest(c, lenient=True)

    def _creating_per(self, c, t, pos, lenient=False):
        """slots per thermostat of the response that first defined parameter `pos` of thermostat t"""
        nt = len(G.tables()["thermostat_params"])
        for op in c["ops"]:
            if op["kind"] == 2:
                per, blocks = op["enc"][1], op["enc"][3]
                if per > nt and not lenient:
                    continue            # refused as a whole
                if t < len(blocks) and pos < per and blocks[t][pos]:
                    return per
        return 0

    def known_match(self, entry, c, ib):
        if entry["id"] != "D8":
            return False
        # D8: a thermostat t >= 1 whose creating response had an undefined hole; everything else must be right
        bad_other = False
        d8 = False
        for tag, sub, pos, index, offset, size, payload, value, code in ib:
            payload = payload[0]
            if tag == 5:
                continue
            if tag == 2 and sub >= 1:
                per = self._creating_per(c, sub, pos, self._lenient(c, ib))
                exp = [pos + 1 + sub * per] + list(int(value).to_bytes(size, "little"))
                if payload != exp:
                    holes = any(op["kind"] == 2 and sub < len(op["enc"][3]) and any(not s for s in op["enc"][3][sub]) for op in c["ops"])
                    if holes and index == pos:
                        d8 = True
                    else:
                        bad_other = True
        if bad_other or not d8:
            return False
        # everything except the D8 rows must satisfy the spec
        rest = [row for row in ib if not (row[0] == 2 and row[1] >= 1)]
        full = {(row[0], row[1], row[2]): row[7] for row in ib if row[0] in (0, 1, 2)}
        return (full == self._latest(c) or full == self._latest(c, lenient=True)) and self._sched_ok(c, ib) and self.spec_many([c], [rest], check_values=False)[0]

    def nontrivial_key(self, c, mb):
        for op in c["ops"]:
            if op["kind"] == 0 and (op["enc"][1] > 0 or any(not s for s in op["enc"][2])):
                return repr(c["ops"])
            if op["kind"] in (1, 2):
                return repr(c["ops"])
        return None

    def kind(self, c):
        return c["kind"]


if __name__ == "__main__":
    raise SystemExit(C07().main())

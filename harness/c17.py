"""C17 -- displayed and raw values are exact inverses for every scaled parameter."""
from __future__ import annotations

from harness import coqeval, param_impl, vloop
from harness import frames_gen as G
from harness.common import Prop


def _setter(q, via_device):
    """the write call: Parameter.set, or Device.set(name, ...) of the device that owns the parameter"""
    if not via_device:
        return lambda value: q.set(value, retries=1, timeout=1.0)
    q.device.data[q.description.name] = q
    return lambda value: q.device.set(q.description.name, value, retries=1)


def _report(par, triple):
    """a further controller report for an existing parameter (what the device handlers do with it)"""
    from pyplumio.helpers.parameter import ParameterValues
    par.update(ParameterValues(*triple))


def _decoded(triple, size):
    """the triple as the library's own decoder of parameter slots (helpers.parameter.unpack_parameter) delivers it from the bytes
    the controller sends for it (None: an undefined slot)"""
    from pyplumio.helpers.parameter import unpack_parameter
    data = bytearray(b"".join(int(x).to_bytes(size, "little") for x in triple))
    v = unpack_parameter(data, 0, size)
    return None if v is None else [v.value, v.min_value, v.max_value]


async def _probe(tbl, idx, raw, lo, hi, other, via_device=False, prior=None, size=None, racing=False):
    """display of raw / bounds, and the raw value transmitted when the displayed value is written back.
    prior = raw bounds of an EARLIER report carrying the same raw value (the parameter object has a history)."""
    if tbl == 5:
        p, queue, sc, rc, dec = await param_impl.make_schedule_param(idx, [raw, lo, hi])
        q, queue2, sc2, rc2, dec2 = await param_impl.make_schedule_param(idx, [other, 0, 65535])
    else:
        first = [raw, lo, hi] if prior is None else [raw, prior[0], prior[1]]
        if size is not None:
            # the values reach the parameter through the decoder of parameter slots, as they do in use
            first = _decoded(first, size) or first
        p, queue, sc, rc, dec = param_impl.make_param(tbl, idx, first, True, 0)
        if prior is not None:
            _report(p, (_decoded([raw, lo, hi], size) if size is not None else None) or [raw, lo, hi])
        q, queue2, sc2, rc2, dec2 = param_impl.make_param(tbl, idx, [other, 0, 65535], True, 0)
    shown, smin, smax = p.value, p.min_value, p.max_value
    import asyncio
    task = asyncio.ensure_future(_setter(q, via_device)(shown))
    if racing and tbl != 5:
        # a controller report (still the old value) is handled in the very loop iteration in which the write starts
        asyncio.get_running_loop().call_soon(_report, q, [other, 0, 65535])
    for _ in range(8):
        await asyncio.sleep(0)
    outs = param_impl.drain(queue2, sc2, rc2, dec2)
    task.cancel()
    try:
        await task
    except BaseException:  # noqa: BLE001
        pass
    sent = [o[1] for o in outs if o[0] == 0]
    return shown, smin, smax, sent


async def _accept(tbl, idx, w, blo, bhi, held, via_device=False, prior=None):
    """is the displayed form of raw value w accepted by a parameter held with raw bounds [blo, bhi]?  -> transmitted raws / 'refused'
    prior = raw bounds of an earlier report with the same held value"""
    import asyncio
    if tbl == 5:
        src, *_ = await param_impl.make_schedule_param(idx, [w, 0, 65535])
        q, queue2, sc2, rc2, dec2 = await param_impl.make_schedule_param(idx, [held, blo, bhi])
    else:
        src, *_ = param_impl.make_param(tbl, idx, [w, 0, 65535], True, 0)
        q, queue2, sc2, rc2, dec2 = param_impl.make_param(tbl, idx, [held, blo, bhi] if prior is None else [held, prior[0], prior[1]], True, 0)
        if prior is not None:
            _report(q, [held, blo, bhi])
    shown = src.value
    task = asyncio.ensure_future(_setter(q, via_device)(shown))
    for _ in range(8):
        await asyncio.sleep(0)
    outs = param_impl.drain(queue2, sc2, rc2, dec2)
    refused = task.done() and not task.cancelled() and isinstance(task.exception(), ValueError)
    task.cancel()
    try:
        await task
    except BaseException:  # noqa: BLE001
        pass
    sent = [o[1] for o in outs if o[0] == 0]
    return "refused" if refused and not sent else sent


async def _pair(product, i, j, a, b, lo, hi, payload):
    """Two parameters of a real ecoMAX reported with IDENTICAL (value, min, max) bytes in one response; the displayed form of raw b
    is written to the first: what does the second display afterwards, and what after a second identical report?"""
    import asyncio
    from pyplumio.const import ProductType
    from pyplumio.devices.ecomax import EcoMAX
    from pyplumio.frames import responses as R
    from pyplumio.structures import ecomax_parameters as EP
    from pyplumio.structures.network_info import NetworkInfo
    from harness import proto_impl as PI
    dev = EcoMAX(asyncio.Queue(), network=NetworkInfo())

    async def settle():
        for _ in range(8):
            await asyncio.sleep(0)
    dev.handle_frame(R.UIDResponse(message=bytearray(PI.payload("responses/uid.json", {0: "EM350P2_uid", 1: "ecoMAX_850i_uid"}[product]))))
    await settle()
    dev.handle_frame(R.EcomaxParametersResponse(message=bytearray(payload)))
    await settle()
    table = EP.ECOMAX_PARAMETERS[ProductType(product)]
    pi, pj = dev.data[table[i].name], dev.data[table[j].name]
    before = [pi.value, pj.value]
    src, *_ = param_impl.make_param(product, i, [b, 0, 65535], True, 0)
    task = asyncio.ensure_future(pi.set(src.value, retries=1, timeout=1.0))
    await settle()
    other_now = pj.value
    task.cancel()
    try:
        await task
    except BaseException:  # noqa: BLE001
        pass
    # the controller reports the same block again (the write was lost): both parameters show the reported raw value again
    dev.handle_frame(R.EcomaxParametersResponse(message=bytearray(payload)))
    await settle()
    for t in list(dev.tasks):
        t.cancel()
    await asyncio.gather(*dev.tasks, return_exceptions=True)
    return other_now, dev.data[table[i].name].value, dev.data[table[j].name].value, before


class C17(Prop):
    id = "C17"
    prop_file = "Props/C17.v"
    rule = ("every number description of every table x raw values (quick: boundaries + random sample, all 256 for the scaled 1-byte "
            "descriptions, 512 for 2-byte; thorough: all 256 / 8192): displayed value, displayed bounds (bit-exact against the PrimFloat model "
            "evaluated by vm_compute) and the raw value transmitted when the displayed value is written back; half of the triples pass through the library's decoder of parameter slots (bounds in reverse order included); half of the parameter objects have a history (an earlier report carrying the same raw value with other bounds).  Non-trivial = multiplier != 1 or "
            "offset != 0 or raw > 0; distinct by (description, raw).")
    assumptions = ["theorem: exhaustive kernel sweep (vm_compute) over all raw values of all distinct scalings, bound 256^size in the statement",
                   "Python round()/int() on floats are modelled bit-exactly with PrimFloat and validated here on every run"]

    def generate(self, rng, tier):
        t = G.tables()
        cases = []
        for tbl, name in enumerate(param_impl.TABLES):
            for idx, d in enumerate(t[name]):
                if d["switch"]:
                    continue
                hi = 256 ** d["size"] - 1
                scaled = d["multiplier"] != 1.0 or d["offset"] != 0
                if d["size"] == 2:
                    k = 512 if tier == "quick" else 8192
                    raws = sorted(set([0, 1, 255, 256, hi - 1, hi] + [rng.randrange(hi + 1) for _ in range(k)]))
                elif tbl == 5:
                    # the forty schedule parameters (plain one-byte numbers): what matters is that the request goes to THEIR schedule
                    raws = sorted(set([0, 255] + [rng.randrange(256) for _ in range(2 if tier == "quick" else 12)]))
                elif scaled or tier == "thorough":
                    raws = list(range(256))
                else:
                    raws = sorted(set([0, 1, 2, 127, 128, 254, 255] + [rng.randrange(256) for _ in range(6)]))
                for raw in raws:
                    # acceptance clause: raw bounds [blo, bhi] from the interesting values of the width, w inside or just outside
                    marks = [0, 1, 100, 254, 255] + ([256, 257, 511, 32767, 32768, hi - 1, hi] if d["size"] == 2 else [])
                    blo, bhi = sorted([rng.choice(marks), rng.choice(marks)])
                    w = rng.choice([raw, blo, bhi, max(0, blo - 1), min(hi, bhi + 1), rng.randrange(hi + 1)])
                    # the value held before the write: another raw value; for scaled descriptions often the raw value that is
                    # numerically equal to the DISPLAYED value being written (5.0 displayed while raw 5 is held)
                    def held_for(r):
                        x = int((r - d["offset"]) * d["multiplier"])
                        return x if (scaled and 0 <= x <= hi and x != r and rng.random() < 0.6) else (r + 1) % (hi + 1)
                    lo_, hi_ = rng.choice([0, raw]), rng.choice([hi, raw])
                    if rng.random() < 0.15:
                        lo_ = rng.randrange(1, hi + 1)        # bounds reported in reverse order (nothing lies within them)
                        hi_ = rng.randrange(0, lo_)
                    cases.append({"kind": "%s:%s" % (name, "scaled" if scaled else "plain"), "tbl": tbl, "idx": idx, "raw": raw,
                                  "lo": lo_, "hi": hi_, "other": held_for(raw),
                                  "decoded_size": d["size"] if tbl != 5 and rng.random() < 0.5 and (raw, lo_, hi_) != (hi, hi, hi) else None,
                                  # (the controller may report a value outside the bounds it reports with it: writing back what is
                                  #  displayed for it is refused like any other out-of-range value)
                                  "acc": [w, blo, bhi, w if not (blo <= w <= bhi) and rng.random() < 0.4 else held_for(w)],
                                  "via_device": rng.random() < 0.5, "racing": rng.random() < 0.3,
                                  # half of the triples pass through the library's decoder of parameter slots (bounds in reverse order included); half of the parameter objects have a history: an earlier report with the same value and other bounds
                                  "prior": None if tbl == 5 or rng.random() < 0.5 else sorted([rng.choice(marks), rng.choice(marks)])})
        # two parameters reported with identical bytes: writing one must not change what the other displays (nor what either
        # displays for the same report later)
        for product in (0, 1):
            tab = t[param_impl.TABLES[product]]
            nums = [k for k, d in enumerate(tab) if not d["switch"]]
            for _ in range(25 if tier == "quick" else 400):
                i, j = rng.sample(nums, 2)
                if abs(i - j) > 60:
                    continue
                a, b = rng.sample(range(10, 60), 2)
                cases.append({"kind": "pair:" + param_impl.TABLES[product], "tbl": product, "idx": i, "idx2": j, "raw": a, "raw2": b,
                              "lo": 0, "hi": 100})
        return cases

    def run_impl(self, c):
        if c["kind"].startswith("pair:"):
            lo_i, hi_i = min(c["idx"], c["idx2"]), max(c["idx"], c["idx2"])
            slots = [[[c["raw"], c["lo"], c["hi"]]] if k in (c["idx"], c["idx2"]) else [] for k in range(lo_i, hi_i + 1)]
            from harness import model
            payload = list(model.call("enc_ecomax_params", [0, lo_i, slots]))
            other_now, first_later, other_later, before = vloop.run(_pair, c["tbl"], c["idx"], c["idx2"], c["raw"], c["raw2"], c["lo"], c["hi"], payload)
            return {"pair": [coqeval.float_key(float(other_now)), coqeval.float_key(float(first_later)), coqeval.float_key(float(other_later))],
                    "_stable": other_now == before[1] and first_later == before[0] and other_later == before[1]}
        shown, smin, smax, sent = vloop.run(_probe, c["tbl"], c["idx"], c["raw"], c["lo"], c["hi"], c["other"], c.get("via_device", False),
                                            c.get("prior"), c.get("decoded_size"), c.get("racing", False))
        out = {"display": coqeval.float_key(float(shown)), "min": coqeval.float_key(float(smin)),
               "max": coqeval.float_key(float(smax)), "sent": sent}
        if "acc" in c:
            out["accept"] = vloop.run(_accept, c["tbl"], c["idx"], *c["acc"], c.get("via_device", False), c.get("prior"))
        return out

    def model_many(self, cases):
        key = hash(repr(cases))
        if getattr(self, "_mm_key", None) == key:
            return self._mm_val
        val = self._model_many(cases)
        self._mm_key, self._mm_val = key, val
        return val

    def _model_many(self, cases):
        pairs = [c for c in cases if c["kind"].startswith("pair:")]
        if pairs:
            rest = [c for c in cases if not c["kind"].startswith("pair:")]
            r_rest = iter(self._model_many(rest)) if rest else iter([])
            ex = []
            for c in pairs:
                ex += [f"fe_display {c['tbl']} {c['idx2']} {c['raw']}", f"fe_display {c['tbl']} {c['idx']} {c['raw']}"]
            d = coqeval.eval_many(ex, "C17p", chunk=900)
            it = iter(range(len(pairs)))
            out = []
            for c in cases:
                if c["kind"].startswith("pair:"):
                    k = next(it)
                    dj, di = d[2 * k], d[2 * k + 1]
                    out.append({"pair": [dj[1:], di[1:], dj[1:]]} if dj[0] and di[0] else {"error": "model:None"})
                else:
                    out.append(next(r_rest))
            return out
        ex = []
        for c in cases:
            ex.append(f"fe_display {c['tbl']} {c['idx']} {c['raw']}")
            ex.append(f"fe_display {c['tbl']} {c['idx']} {c['lo']}")
            ex.append(f"fe_display {c['tbl']} {c['idx']} {c['hi']}")
            ex.append(f"fe_display {c['tbl']} {c['idx']} {c.get('acc', [c['raw']])[0]}")
        disp = coqeval.eval_many(ex, "C17a", chunk=900)
        # write back the model's own displayed value
        ex2 = []
        for i, c in enumerate(cases):
            for d in (disp[4 * i], disp[4 * i + 3]):
                x = (-1 if d[1] else 1) * d[2] * 2.0 ** d[3] if d[2] else 0.0
                ex2.append(f"fe_to_raw {c['tbl']} {c['idx']} {coqeval.float_lit(x)}")
        back = coqeval.eval_many(ex2, "C17b", chunk=900)
        out = []
        for i, c in enumerate(cases):
            d, lo, hi, b, bw = disp[4 * i], disp[4 * i + 1], disp[4 * i + 2], back[2 * i], back[2 * i + 1]
            if not (d[0] and lo[0] and hi[0] and b[0] and bw[0]):
                out.append({"error": "model:None"})
            else:
                o = {"display": d[1:], "min": lo[1:], "max": hi[1:], "sent": [b[1]]}
                if "acc" in c:
                    # the model's set(): the raw value of the displayed form, transmitted iff within the held raw bounds
                    w, blo, bhi, _ = c["acc"]
                    o["accept"] = [bw[1]] if blo <= bw[1] <= bhi else "refused"
                out.append(o)
        return out

    def obs(self, c, b):
        return {k: v for k, v in b.items() if not k.startswith("_")}

    def spec_many(self, cases, behaviours):
        # functional property: what is transmitted for the displayed value is the raw value itself
        # ... and the displayed form of a raw value is accepted exactly when the raw value lies within the held raw bounds
        out = []
        mods = self.model_many(cases)
        for (c, b), m in zip(zip(cases, behaviours), mods):
            if c["kind"].startswith("pair:"):
                # what a parameter displays for a reported raw value depends on that report alone: not on a write to another
                # parameter reported with the same bytes, nor on an earlier write to itself
                out.append(bool(b.get("_stable")))
                continue
            ok = b["sent"] == [c["raw"]]
            # the displayed value and bounds are the displayed forms (PrimFloat model, bit for bit) of the raw value and raw bounds
            if isinstance(m, dict) and "display" in m:
                ok = ok and b["display"] == m["display"] and b["min"] == m["min"] and b["max"] == m["max"]
            if "acc" in c:
                w, blo, bhi, _ = c["acc"]
                ok = ok and b.get("accept") == ([w] if blo <= w <= bhi else "refused")
            out.append(ok)
        return out

    def nontrivial_key(self, c, mb):
        return (c["tbl"], c["idx"], c["raw"]) if (c["raw"] > 0 or "scaled" in c["kind"]) else None

    def kind(self, c):
        return c["kind"]


if __name__ == "__main__":
    raise SystemExit(C17().main())

"""Virtual-time asyncio event loop: never blocks, the clock jumps to the next timer.

`run(coro)` runs a coroutine to completion under a fresh loop; if nothing is runnable and no
timer is pending the loop raises Deadlock (quiescent deadlock).  run_in_executor is replaced by
an immediately resolved future unless a scripted executor is installed."""
from __future__ import annotations

import asyncio
import selectors


class Deadlock(Exception):
    pass


class _Selector(selectors.BaseSelector):
    def __init__(self, loop_ref):
        self._loop_ref = loop_ref
        self._map = {}

    def register(self, fileobj, events, data=None):
        key = selectors.SelectorKey(fileobj, fileobj if isinstance(fileobj, int) else fileobj.fileno(), events, data)
        self._map[fileobj] = key
        return key

    def unregister(self, fileobj):
        return self._map.pop(fileobj, None)

    def modify(self, fileobj, events, data=None):
        self.unregister(fileobj)
        return self.register(fileobj, events, data)

    def select(self, timeout=None):
        loop = self._loop_ref[0]
        if timeout is None:
            raise Deadlock("nothing runnable and no timer pending")
        if timeout > 0:
            loop._vtime += timeout
        return []

    def close(self):
        self._map.clear()

    def get_map(self):
        return self._map


class VLoop(asyncio.SelectorEventLoop):
    def __init__(self):
        ref = [None]
        self._vtime = 0.0
        super().__init__(_Selector(ref))
        ref[0] = self
        self.executor_hook = None  # callable(func, *args) -> future or None

    def time(self):
        return self._vtime

    def run_in_executor(self, executor, func, *args):
        if self.executor_hook is not None:
            fut = self.executor_hook(self, func, *args)
            if fut is not None:
                return fut
        fut = self.create_future()
        try:
            fut.set_result(func(*args))
        except BaseException as e:  # noqa: BLE001
            fut.set_exception(e)
        return fut


def run(coro_fn, *args, executor_hook=None, **kwargs):
    """Run `coro_fn(*args, **kwargs)` under a fresh virtual loop; returns its result.
    Raises Deadlock if the program can make no progress."""
    loop = VLoop()
    loop.executor_hook = executor_hook
    asyncio.set_event_loop(loop)
    try:
        return loop.run_until_complete(coro_fn(*args, **kwargs))
    finally:
        try:
            pending = [t for t in asyncio.all_tasks(loop) if not t.done()]
            for t in pending:
                t.cancel()
            if pending:
                try:
                    loop.run_until_complete(asyncio.gather(*pending, return_exceptions=True))
                except BaseException:  # noqa: BLE001
                    pass
        finally:
            asyncio.set_event_loop(None)
            loop.close()

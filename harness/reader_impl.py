"""Run the real pyplumio FrameReader over a real asyncio.StreamReader under the virtual loop."""
from __future__ import annotations

import asyncio

from harness import vloop

PROTO_ERRORS = {"ReadError": 2, "ChecksumError": 3, "UnknownDeviceError": 4, "UnknownFrameError": 5}


def frame_fields(frame):
    return [int(frame.frame_type), int(frame.recipient), int(frame.sender), int(frame.econet_type),
            int(frame.econet_version), list(bytes(frame.message))]


async def _read_all(stream: bytes, chunks, max_calls):
    from pyplumio.stream import FrameReader
    reader = asyncio.StreamReader()
    fr = FrameReader(reader)
    fed = 0
    if not chunks:
        reader.feed_data(stream)
        fed = len(stream)
        reader.feed_eof()
        feeder = None
    else:
        async def feed():
            nonlocal fed
            pos = 0
            for ch in chunks:
                n, yields = ch[0], ch[1]
                reader.feed_data(stream[pos:pos + n])
                pos += n
                fed = pos
                for _ in range(yields):
                    await asyncio.sleep(0)
                if len(ch) > 2 and ch[2]:
                    await asyncio.sleep(ch[2])          # a pause on the line, in (virtual) seconds
            if pos < len(stream):
                reader.feed_data(stream[pos:])
                fed = len(stream)
            reader.feed_eof()
        feeder = asyncio.ensure_future(feed())
    outs = []
    consumed_total = 0
    for _ in range(max_calls):
        try:
            frame = await fr.read()
            o = [1] if frame is None else [0, frame_fields(frame)]
        except OSError as e:
            o = [6] if not isinstance(e, TimeoutError) else ["other", "TimeoutError"]
        except asyncio.TimeoutError:
            o = ["other", "TimeoutError"]
        except Exception as e:  # noqa: BLE001
            name = type(e).__name__
            o = [PROTO_ERRORS[name]] if name in PROTO_ERRORS else ["other", name]
        now = fed - len(reader._buffer)
        outs.append([now - consumed_total, o])
        consumed_total = now
        if o == [6]:
            break
    if feeder is not None:
        await feeder
    return outs


def read_all(stream: bytes, chunks=None, max_calls=None):
    """Returns list of [consumed_byte_count, outcome]; outcome as the model encodes it."""
    if max_calls is None:
        max_calls = len(stream) + 2
    outs = vloop.run(_read_all, bytes(stream), chunks, max_calls)
    # the final Broken call is given all remaining bytes by the model as well (there are none: it scanned them)
    return outs

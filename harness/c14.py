"""C14 -- arbitrary line noise causes only protocol errors and bounded loss."""
from __future__ import annotations

import asyncio

from harness import frames_gen as G
from harness import model, reader_impl
from harness.common import Prop


def _piece(rng, what):
    """one whole, frame-shaped piece of line noise that the reader answers with the given class of outcome"""
    payload = bytes(b if b != 0x68 else 0x67 for b in G.rand_payload(rng, rng.choice([0, 2, 7])))
    if what == "checksum":
        fb = bytearray(G.enc(rng.choice([0x30, 0x40, 0xB9]), rng.choice([0x56, 0x00]), rng.choice([0x45, 0x51, 0x56, 0x00]), 48, 5, payload))
        fb[-2] ^= rng.randrange(1, 256)
        if fb[-2] == 0x68:
            fb[-2] ^= 1
        return bytes(fb)
    if what == "unknown-sender":
        return G.enc(0x30, 0x56, rng.choice([0x10, 0x33, 0x99]), 48, 5, payload)
    if what == "unknown-kind":
        return G.enc(rng.choice([0x99, 0x01, 0xEE]), 0x56, 0x45, 48, 5, payload)
    if what == "foreign":
        return G.enc(0x31, 0x45, 0x56, 48, 5, payload)
    if what == "short-length":
        return bytes([0x68, rng.choice([0, 3, 9]), 0, 0x56, 0x45, 48, 5])
    if what == "long-length":
        return bytes([0x68, 0xE9, 0x03, 0x56, 0x45, 48, 5])
    return bytes(b if b != 0x68 else 0x67 for b in G.rand_payload(rng, rng.randrange(1, 30)))        # "garbage": no delimiter at all


PIECES = ["checksum", "unknown-sender", "unknown-kind", "foreign", "short-length", "long-length", "garbage"]


async def _producer_session(noise, frame, k, consumers):
    """the real AsyncProtocol (its producer and consumer tasks) reading noise ++ k copies of a valid frame"""
    from pyplumio.protocol import AsyncProtocol
    from harness import proto_impl as PI
    rec = PI.Recorder()
    rec.install()
    try:
        proto = AsyncProtocol(consumers_count=consumers)
        reader = asyncio.StreamReader()
        writer = PI.FakeWriter()
        proto.connection_established(reader, writer)
        await PI.settle()
        reader.feed_data(noise)
        for _ in range(30):
            await PI.settle()
        reader.feed_data(frame * k)
        for _ in range(30 + 4 * k):
            await PI.settle()
        producer = len([t for t in proto.tasks if "frame_producer" in t.get_name() and not t.done()])
        res = {"producer_alive": producer, "delivered": len(rec.calls), "unread": len(reader._buffer),
               "connected": proto.connected.is_set(), "calls": sorted([c[1], c[2]] for c in rec.calls)}
        try:
            await asyncio.wait_for(proto.shutdown(), timeout=600)
        except asyncio.TimeoutError:
            res["shutdown"] = False
        return res
    finally:
        rec.uninstall()


class C14(Prop):
    id = "C14"
    prop_file = "Props/C14.v"
    rule = ("uniform noise, 0x68-dense noise, header-shaped noise (plausible recipients, senders, lengths), each followed by a run of "
            "k >= 2 + 1000/|frame| identical valid frames of a random kind; per call: outcome class and bytes consumed; resynchronisation: "
            "index of first delivery against |noise| + 1000 + |frame|; plus every type byte 0..255 in a valid, correctly addressed envelope.  Non-trivial = the model reports at least one protocol error; "
            "distinct by stream bytes.")
    assumptions = ["the producer loop surviving protocol errors: `producer` sessions (whole frame-shaped pieces of every error class -- wrong "
                   "checksum, unknown sender, unknown kind, foreign recipient, short / long length field, delimiter-free garbage -- then a run of "
                   "valid frames) through the real AsyncProtocol here, and undecodable payloads under C09",
                   "the 10 s read timeout is a fault event of C11, not part of this model"]

    def generate(self, rng, tier):
        kinds = [r["code"] for r in G.tables()["frame_types"]]
        cases = []
        n = 700 if tier == "quick" else 12000
        for _ in range(n):
            mode = rng.choice(["uniform", "dense68", "header"])
            noise = G.noise(rng, rng.choice([0, 1, 5, 20, 60, 200]), mode)
            r = rng.random()
            if r < 0.5:
                # payload free of the start delimiter
                f, _ = G.rand_frame(rng, kinds, own=True, known_sender=True, known_kind=True, maxlen=rng.choice([4, 20, 60]))
                f = [f[0], f[1], f[2], f[3], f[4], [b if b != 0x68 else 0x67 for b in f[5]]]
            elif r < 0.8:
                f, _ = G.rand_frame(rng, kinds, own=True, known_sender=True, known_kind=True, maxlen=30, dense68=True)
                f = [f[0], f[1], f[2], f[3], f[4], list(f[5])]
            else:
                # payload embedding a header-shaped sequence (known finding D16 class)
                f, _ = G.rand_frame(rng, kinds, own=True, known_sender=True, known_kind=True, maxlen=20)
                p = list(f[5])
                total = 10 + len(p) + 7
                ln = total * rng.choice([1, 1, 2, 3])
                p = p + [0x68, ln & 0xFF, ln >> 8, rng.choice([0, 0x56]), 0x45, 48, 5]
                f = [f[0], f[1], f[2], f[3], f[4], p]
            flen = 10 + len(f[5])
            k = 2 + 1000 // flen + rng.choice([0, 0, 1, 3])
            if rng.random() < 0.3:
                # noise that is a partial copy of the frame itself
                fb = G.enc(*f[:5], bytes(f[5]))
                noise = noise + fb[rng.randrange(1, len(fb)):]
            cases.append({"kind": mode + ("+interior68" if 0x68 in self._tail(f) else ""), "noise": list(noise), "f": f, "k": k})
        # runs of frames at and next to the maximum size (1000 bytes in total)
        for plen in (990, 989, 988):
            for _ in range(2 if tier == "quick" else 10):
                f, _ = G.rand_frame(rng, kinds, own=True, known_sender=True, known_kind=True, maxlen=4)
                f = [f[0], f[1], f[2], f[3], f[4], [b if b != 0x68 else 0x67 for b in G.rand_payload(rng, plen)]]
                noise = G.noise(rng, rng.choice([0, 5, 300]), rng.choice(["uniform", "dense68"]))
                cases.append({"kind": "max-size", "noise": list(noise), "f": f, "k": 3 + rng.choice([0, 1])})
        for _ in range(n // 3):
            mode = rng.choice(["uniform", "dense68", "header"])
            cases.append({"kind": "noise-only:" + mode, "noise": list(G.noise(rng, rng.randrange(0, 300), mode)), "f": None, "k": 0})
        # every one of the 256 type bytes in an otherwise valid, correctly addressed envelope (after a little noise): the
        # reader must answer with a delivery or a protocol error whatever the table of kinds says about that byte
        for kind in range(256):
            for _ in range(1 if tier == "quick" else 6):
                payload = bytes(rng.randrange(256) for _ in range(rng.choice([0, 1, 2, 9])))
                fb = G.enc(kind, rng.choice([0x56, 0x00]), rng.choice([0x45, 0x51]), 48, 5, payload)
                cases.append({"kind": "typebyte-sweep", "noise": list(G.noise(rng, rng.choice([0, 3]), "uniform") + fb), "f": None, "k": 0})
        return cases

    @staticmethod
    def _tail(f):
        return G.enc(*f[:5], bytes(f[5]))[1:]

    def _stream(self, case):
        s = bytes(case["noise"])
        if case["f"] is not None:
            s += G.enc(*case["f"][:5], bytes(case["f"][5])) * case["k"]
        return s

    def run_impl(self, case):
        if case.get("kind") == "producer":
            return self._producer_run(case)
        return reader_impl.read_all(self._stream(case))

    def model_many(self, cases):
        if cases and all(c.get("kind") == "producer" for c in cases):
            return [None] * len(cases)
        return model.call_many("read_all", [self._stream(c) for c in cases])

    def spec_many(self, cases, behaviours):
        if cases and all(c.get("kind") == "producer" for c in cases):
            return [self._producer_ok(c, b) for c, b in zip(cases, behaviours)]
        a14, ars, idx = [], [], []
        bad = []
        for i, (c, b) in enumerate(zip(cases, behaviours)):
            bad.append(any(o[1][0] == "other" for o in b))
            clean = [[n, (o if o[0] != "other" else [6])] for n, o in b]
            a14.append([self._stream(c), clean])
            if c["f"] is not None:
                ars.append([bytes(c["noise"]), c["f"], c["k"], clean])
                idx.append(i)
        r14 = model.call_many("P14", a14)
        rrs = model.call_many("resync", ars)
        res = [bool(r) and not o for r, o in zip(r14, bad)]
        self._resync_fail = set()
        for i, r in zip(idx, rrs):
            if not r:
                res[i] = False
                self._resync_fail.add(i)
        return res

    def extra_checks(self, tier, rng):
        """`the connection's producer loop keeps running`: whole frame-shaped pieces of every error class, then a run of valid frames,
        through the producer / consumer tasks of the real AsyncProtocol"""
        from harness import proto_impl as PI, vloop
        kind, payload = PI.captured()["sensor"]
        frame = G.enc(kind, 0x56, 0x45, 48, 5, payload)
        fails = []
        self._producer_sessions = 0
        plans = [[p] for p in PIECES] + [[rng.choice(PIECES) for _ in range(rng.randrange(1, 8))] for _ in range(40 if tier == "quick" else 800)]
        for plan in plans:
            noise = b"".join(_piece(rng, p) for p in plan)
            k = rng.choice([1, 2, 5])
            c = {"kind": "producer", "plan": plan, "noise": list(noise), "k": k, "consumers": rng.choice([1, 2, 3])}
            b = self._producer_run(c)
            self._producer_sessions += 1
            if not self._producer_ok(c, b):
                fails.append({"case": c, "impl": b, "reason": "after frame-shaped line noise the producer loop is not running any more, or the run of "
                              "valid frames behind the noise was not delivered"})
        # arbitrary noise (the three noise classes of the reader sessions) and a run of a random valid frame: the frames that reach
        # a device are exactly the deliveries the Coq reader model predicts for the stream, and the producer is still running
        kinds = [r["code"] for r in G.tables()["frame_types"]]
        for _ in range(60 if tier == "quick" else 1200):
            noise = G.noise(rng, rng.choice([0, 1, 5, 20, 60, 200]), rng.choice(["uniform", "dense68", "header"]))
            f, fb = G.rand_frame(rng, kinds, own=True, known_sender=True, known_kind=True, maxlen=rng.choice([4, 20, 60]))
            c = {"kind": "producer", "plan": None, "noise": list(noise), "frame": list(fb), "k": rng.choice([1, 3, 2 + 1000 // len(fb)]),
                 "consumers": rng.choice([1, 2, 3])}
            b = self._producer_run(c)
            self._producer_sessions += 1
            if not self._producer_ok(c, b):
                fails.append({"case": c, "impl": b, "reason": "the producer loop stopped, or the frames handed to the devices are not the deliveries the "
                              "reader model predicts for this stream"})
        return fails

    def _producer_run(self, c):
        from harness import proto_impl as PI, vloop
        kind, payload = PI.captured()["sensor"]
        frame = bytes(c["frame"]) if c.get("frame") else G.enc(kind, 0x56, 0x45, 48, 5, payload)
        return vloop.run(_producer_session, bytes(c["noise"]), frame, c["k"], c["consumers"])

    @staticmethod
    def _producer_ok(c, b):
        alive = b["producer_alive"] == 1 and b["connected"] and b.get("shutdown", True)
        if c.get("frame") is None:
            return alive and b["delivered"] == c["k"] and b["unread"] == 0
        outs = model.call("read_all", bytes(c["noise"]) + bytes(c["frame"]) * c["k"])
        want = sorted([o[1][3], o[1][0]] for _, o in outs if o[0] == 0 and o[1][2] in (0x45, 0x51))
        return alive and b["calls"] == want

    def extra_coverage(self):
        return {"producer_sessions": getattr(self, "_producer_sessions", 0)}

    def known_match(self, entry, case, ib):
        if case.get("kind") == "producer":
            return False
        # D16: resynchronisation fails for frames whose bytes after the start delimiter contain another 0x68
        if entry["id"] == "D16" and case.get("f") is not None and 0x68 in self._tail(case["f"]):
            # only the resync clause is covered by the finding: the per-call clauses must still hold
            clean = [[n, (o if o[0] != "other" else [6])] for n, o in ib]
            if any(o[1][0] == "other" for o in ib):
                return False
            return bool(model.call("P14", [self._stream(case), clean]))
        return False

    def nontrivial_key(self, case, mb):
        if any(o[1][0] in (2, 3, 4, 5) for o in mb):
            return self._stream(case).hex()
        return None

    def kind(self, case):
        return case["kind"]


if __name__ == "__main__":
    raise SystemExit(C14().main())

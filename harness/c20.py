"""C20 -- callback filters deliver what they promise over every value sequence."""
from __future__ import annotations

import asyncio

from harness import model, vloop
from harness.common import Prop

KINDS = ["on_change", "debounce", "throttle", "delta", "aggregate"]
SCALE = 2 ** 60          # numbers travel as integers on the 2^-60 grid (see Model/Filters.v)
U64 = 2 ** 54            # 1/64 on that grid
TOL = 115292150460684704  # the double 0.1 on that grid
CLOCK = [0.0]


def to_py(v):
    if v[0] == 0:
        return v[1] / SCALE          # exact: at most 53 significant bits
    if v[0] == 1:
        return "s%d" % v[1]
    if v[0] == 2:
        return list(v[1])
    from pyplumio.helpers.parameter import ParameterValues
    from pyplumio.structures import ecomax_parameters as EP
    from pyplumio.const import ProductType
    p = EP.EcomaxNumber(device=None, description=EP.ECOMAX_PARAMETERS[ProductType.ECOMAX_P][0],
                        values=ParameterValues(v[1], v[2], v[3]), index=0)
    p._pending_update = bool(v[4])
    return p


def from_py(x):
    from pyplumio.helpers.parameter import Parameter
    if isinstance(x, Parameter):
        return [3, x.values.value, x.values.min_value, x.values.max_value, bool(x.pending_update)]
    if isinstance(x, bool):
        return ["bool", x]
    if isinstance(x, (int, float)):
        z = x * SCALE
        return [0, int(z)] if z == int(z) else ["inexact", repr(x)]
    if isinstance(x, str):
        return [1, int(x[1:])] if x.startswith("s") else ["str", x]
    if isinstance(x, list):
        return [2, list(x)]
    return ["other", repr(x)]


def make_filter(kind, cb):
    from pyplumio import filters as F
    k = kind[0]
    if k == 0:
        return F.on_change(cb)
    if k == 1:
        return F.debounce(cb, min_calls=kind[1])
    if k == 2:
        return F.throttle(cb, seconds=float(kind[1]))
    if k == 3:
        return F.delta(cb)
    return F.aggregate(cb, seconds=float(kind[1]))


async def _run_overlap(kinds, t0, calls, release_after):
    """The same calls, but OVERLAPPING: the final callback suspends (a slow user callback), every call is started as its own task
    (as EventManager.dispatch_nowait does with the dispatches of one event) and runs until it suspends or returns; the callbacks
    are released after the calls whose index is in `release_after`, and at the end."""
    from pyplumio import filters as F
    gate = [asyncio.Event()]
    outs = [[] for _ in calls]
    which = {}

    async def cb(value):
        i = which.get(asyncio.current_task(), -1)
        if 0 <= i < len(outs):
            outs[i].append(from_py(value))
        await gate[0].wait()

    old = F.time.monotonic
    F.time.monotonic = lambda: CLOCK[0]
    try:
        CLOCK[0] = float(t0)
        f = cb
        for k in reversed(kinds):
            f = make_filter(k, f)
        tasks = []

        async def release():
            g = gate[0]
            gate[0] = asyncio.Event()
            g.set()
            for _ in range(6):
                await asyncio.sleep(0)
        for i, (t, v) in enumerate(calls):
            CLOCK[0] = float(t)
            task = asyncio.ensure_future(f(to_py(v)))
            which[task] = i
            tasks.append(task)
            for _ in range(4):
                await asyncio.sleep(0)
            if i in release_after:
                await release()
        while any(not t.done() for t in tasks):
            await release()
        res = []
        for i, t in enumerate(tasks):
            if t.exception() is not None:
                res.append(["exception", type(t.exception()).__name__])
            else:
                res.append([outs[i][0]] if len(outs[i]) == 1 else ([] if not outs[i] else ["multiple", len(outs[i])]))
        base = getattr(f, "_value", None)
        base = [] if base is None or (isinstance(base, str) and base == "undefined") else [from_py(base)]
        s = getattr(f, "_sum", 0.0)
        return [res, base, int(s * SCALE) if s * SCALE == int(s * SCALE) else ["inexact", repr(s)]]
    finally:
        F.time.monotonic = old


async def _run(kinds, t0, calls, how=None):
    from pyplumio import filters as F
    delivered = []
    live = None
    if how is not None:
        # ONE parameter object lives through the whole history, changed the way the library changes it: a controller report
        # replaces its values (update), a local set() writes the requested value in place and is then confirmed by a report
        from harness import param_impl
        from pyplumio.helpers.parameter import ParameterValues
        first = calls[0][1] if calls else [3, 10, 0, 100, False]
        live, *_ = param_impl.make_param(0, 0, [first[1], first[2], first[3]], True, 0)

    async def next_value(i, v):
        if live is None:
            return to_py(v)
        from pyplumio.helpers.parameter import ParameterValues
        if how[i] == "set" and live.values.min_value <= v[1] <= live.values.max_value and v[1] != live.values.value:
            task = asyncio.ensure_future(live.set(v[1], retries=1, timeout=1000.0))
            for _ in range(4):
                await asyncio.sleep(0)
            live.update(ParameterValues(v[1], v[2], v[3]))
            task.cancel()
            try:
                await task
            except BaseException:  # noqa: BLE001
                pass
        else:
            live.update(ParameterValues(v[1], v[2], v[3]))
        live._pending_update = bool(v[4])
        return live

    async def cb(value):
        delivered.append(value)

    old = F.time.monotonic
    F.time.monotonic = lambda: CLOCK[0]
    try:
        CLOCK[0] = float(t0)
        f = cb
        for k in reversed(kinds):
            f = make_filter(k, f)
        outs = []
        for i, (t, v) in enumerate(calls):
            CLOCK[0] = float(t)
            n = len(delivered)
            try:
                await f(await next_value(i, v))
            except Exception as e:  # noqa: BLE001
                outs.append(["exception", type(e).__name__])
                continue
            new = delivered[n:]
            outs.append([from_py(new[0])] if len(new) == 1 else ([] if not new else ["multiple", len(new)]))
        base = getattr(f, "_value", None)
        base = [] if base is None or (isinstance(base, str) and base == "undefined") else [from_py(base)]
        s = getattr(f, "_sum", 0.0)
        return [outs, base, int(s * SCALE) if s * SCALE == int(s * SCALE) else ["inexact", repr(s)]]
    finally:
        F.time.monotonic = old


class C20(Prop):
    id = "C20"
    prop_file = "Props/C20.v"
    rule = ("sequences of 0-25 calls with non-decreasing integer call times: numbers as exact multiples of 1/64 with repeats, sub-tolerance "
            "drifts (steps of 1..6/64 versus 7/64), sign changes, differences of exactly one tolerance (the double 0.1) and one grid step off it; strings; lists; parameter objects (value/min/max changes, pending flag), both a "
            "fresh object per call and one live object changed by controller reports and by local set() + confirmation; "
            "aggregate also with strings / lists interspersed among the numbers (refused calls are no inputs); every filter (on_change, debounce n=0..4, throttle, delta, aggregate) and every ordered pair of filters as a chain; time.monotonic "
            "patched to the history's clock.  Non-trivial = at least one value delivered and one suppressed; distinct by case content.")
    assumptions = ["float rounding on arbitrary doubles is modelled, not verified: inputs are dyadic rationals of bounded magnitude on which "
                   "CPython's float +, - and isclose(abs_tol=0.1) are exact",
                   "a string value equal to the sentinel 'undefined' is outside the domain"]

    def _values(self, rng, vt, n):
        vals = []
        if vt == "num":
            cur = rng.randrange(-2000, 2000)
            for _ in range(n):
                mv = rng.choice(["same", "drift", "drift", "edge", "jump", "sign"])
                if mv == "drift":
                    cur += rng.choice([-1, 1]) * rng.randrange(1, 7)
                elif mv == "edge":
                    cur += rng.choice([-7, 7, -6, 6])
                elif mv == "jump":
                    cur += rng.randrange(-3000, 3000)
                elif mv == "sign":
                    cur = -cur
                vals.append([0, cur * U64])
        elif vt == "edge":
            # differences of exactly one tolerance (the double 0.1), just above and just below it, sign changes across zero
            pool = [0, TOL // 2, -(TOL // 2), TOL, -TOL, 2 * TOL, -2 * TOL, 4 * TOL, TOL + 32, TOL - 32, 2 * TOL + 64, 3 * U64, 32 * U64]
            vals = [[0, rng.choice(pool)] for _ in range(n)]
        elif vt == "str":
            vals = [[1, rng.randrange(3)] for _ in range(n)]
        elif vt == "list":
            # lists in any order and with repeated items: the same items in another order, or in other multiplicities, are another value
            vals = []
            for _ in range(n):
                r = rng.random()
                if vals and r < 0.3:
                    prev = list(vals[-1][1])
                    rng.shuffle(prev)
                    vals.append([2, prev])
                elif vals and r < 0.45 and vals[-1][1]:
                    prev = list(vals[-1][1])
                    prev[rng.randrange(len(prev))] = rng.choice(prev)
                    vals.append([2, prev])
                else:
                    vals.append([2, [rng.randrange(6) for _ in range(rng.randrange(0, 4))]])
        else:
            # ("param": a fresh object per call; "live": one object changed in place, see _run)
            v, lo, hi = 10, 0, 100
            for _ in range(n):
                mv = rng.choice(["same", "same", "value", "bounds", "pending"])
                pend = False
                if mv == "value":
                    v = rng.randrange(0, 100)
                elif mv == "bounds":
                    hi = rng.choice([100, 90])
                elif mv == "pending":
                    pend = True
                vals.append([3, v, lo, hi, pend])
        return vals

    def generate(self, rng, tier):
        cases = []
        n = 250 if tier == "quick" else 5000

        def rk(numeric):
            k = rng.choice([0, 1, 2, 3, 4] if numeric else [0, 1, 2])
            return [k, rng.randrange(0, 5)] if k == 1 else [k, rng.choice([1, 5, 10])] if k in (2, 4) else [k]

        for _ in range(n):
            for vt in ("num", "num", "str", "list", "param", "live", "edge"):
                numeric = vt == "num"
                kinds = [rk(numeric)]
                if rng.random() < 0.4:
                    kinds.append(rk(numeric))
                    if kinds[0][0] in (3, 4) and kinds[1][0] in (0, 1):
                        pass
                ncalls = rng.randrange(0, 26)
                t = rng.randrange(0, 5)
                t0 = t
                calls = []
                for v in self._values(rng, vt, ncalls):
                    t += rng.choice([0, 0, 1, 1, 2, 5, 11])
                    calls.append([t, v])
                if vt == "list" and any(k[0] in (3, 4) for k in kinds):
                    continue
                case = {"kind": "+".join(KINDS[k[0]] for k in kinds) + ":" + vt, "kinds": kinds, "t0": t0, "calls": calls}
                if vt == "live":
                    case["how"] = [rng.choice(["update", "set"]) for _ in calls]
                cases.append(case)
                if vt in ("num", "str", "edge") and calls and rng.random() < 0.4:
                    # the same history with OVERLAPPING calls: a slow final callback, each call a task of its own
                    cases.append(dict(case, kind=case["kind"] + ":overlap",
                                      release_after=sorted(i for i in range(len(calls)) if rng.random() < 0.25)))
            # aggregate fed an occasional string or list among the numbers: such a call is refused (ValueError) and is no input --
            # what has been collected, the period and everything delivered later are those of the numeric calls alone
            calls, t = [], rng.randrange(0, 5)
            t0 = t
            for v in self._values(rng, "num", rng.randrange(2, 20)):
                t += rng.choice([0, 0, 1, 1, 2, 5, 11])
                if rng.random() < 0.3:
                    calls.append([t, rng.choice([[1, rng.randrange(3)], [2, [1, 2]]])])
                    t += rng.choice([0, 1, 5, 11])
                calls.append([t, v])
            cases.append({"kind": "aggregate:mixed", "kinds": [[4, rng.choice([1, 5, 10])]], "t0": t0, "calls": calls})
        return cases

    @staticmethod
    def _calls(c):
        return [x for x in c["calls"] if x[1][0] == 0] if c["kind"] == "aggregate:mixed" else c["calls"]

    def run_impl(self, c):
        if c["kind"].endswith(":overlap"):
            return vloop.run(_run_overlap, c["kinds"], c["t0"], c["calls"], c["release_after"])
        b = vloop.run(_run, c["kinds"], c["t0"], c["calls"], c.get("how"))
        if c["kind"] == "aggregate:mixed":
            outs = []
            for (t, v), o in zip(c["calls"], b[0]):
                if v[0] == 0:
                    outs.append(o)
                elif o != ["exception", "ValueError"]:
                    outs.append(["exception", "non-numeric value not refused with ValueError: " + repr(o)[:60]])
            b = [outs, b[1], b[2]]
        return b

    @staticmethod
    def _oevents(c):
        """an :overlap history in the event alphabet of Model/FiltersOverlap.v: calls, and -- at every release point and at the end --
        as many `callback returns` as there can be callbacks running (surplus ones are no-ops)"""
        evs = []
        for i, (t, v) in enumerate(c["calls"]):
            evs.append([0, t, v])
            if i in c["release_after"]:
                evs += [[1]] * (i + 1)
        return evs + [[1]] * len(c["calls"])

    def model_many(self, cases):
        ov = [(i, c) for i, c in enumerate(cases) if c["kind"].endswith(":overlap") and len(c["kinds"]) == 1]
        if ov:
            rest = [c for c in cases if not (c["kind"].endswith(":overlap") and len(c["kinds"]) == 1)]
            r_rest = iter(self.model_many(rest)) if rest else iter([])
            # the event-level model of overlapping calls (proved equal to the sequential one on the same calls: C20_overlap)
            r_ov = iter(model.call_many("orun", [[c["kinds"][0], c["t0"], self._oevents(c)] for _, c in ov]))
            out = []
            for c in cases:
                if c["kind"].endswith(":overlap") and len(c["kinds"]) == 1:
                    r = next(r_ov)
                    out.append([[self._fix(o) for o in r[0]], [self._fixv(x) for x in r[1]], r[2]])
                else:
                    out.append(next(r_rest))
            return out
        one = [(i, c) for i, c in enumerate(cases) if len(c["kinds"]) == 1]
        two = [(i, c) for i, c in enumerate(cases) if len(c["kinds"]) == 2]
        out = [None] * len(cases)
        for (i, c), r in zip(one, model.call_many("frun", [[c["kinds"][0], c["t0"], self._calls(c)] for _, c in one])):
            out[i] = [[self._fix(o) for o in r[0]], [self._fixv(x) for x in r[1]], r[2]]
        for (i, c), r in zip(two, model.call_many("frun2", [[c["kinds"][0], c["kinds"][1], c["t0"], c["calls"]] for _, c in two])):
            out[i] = [[self._fix(o) for o in r], None, None]
        return out

    @staticmethod
    def _fixv(x):
        return [3, x[1], x[2], x[3], bool(x[4])] if x[0] == 3 else x

    def _fix(self, o):
        return [self._fixv(o[0])] if o else []

    def obs(self, c, b):
        if len(c["kinds"]) == 2:
            return b[0]
        k = c["kinds"][0][0]
        if k == 4:
            return [b[0], b[2]]
        if k in (0, 1, 3):
            return [b[0], b[1]]
        return b[0]

    def spec_many(self, cases, behaviours):
        res = [True] * len(cases)
        args, idx = [], []
        for i, (c, b) in enumerate(zip(cases, behaviours)):
            if any(o and isinstance(o[0], str) for o in b[0]) or any(o and isinstance(o[0], list) and isinstance(o[0][0], str) for o in b[0]):
                res[i] = False
                continue
            if len(c["kinds"]) == 1:
                args.append([c["kinds"][0], c["t0"], self._calls(c), b[0], b[1], b[2] if isinstance(b[2], int) else 0])
                idx.append(i)
        for i, r in zip(idx, model.call_many("P20", args)):
            res[i] = bool(r)
        # chains: the inner filter must see exactly the deliveries of the outer one (C20_chain): checked by correspondence
        # with frun2, and here by re-running the two filters separately on the implementation
        for i, (c, b) in enumerate(zip(cases, behaviours)):
            if len(c["kinds"]) == 2 and res[i] and c["kind"].endswith(":overlap"):
                continue            # (chains under overlap are compared with the model of the chain: correspondence)
            if len(c["kinds"]) == 2 and res[i]:
                o1 = vloop.run(_run, c["kinds"][:1], c["t0"], c["calls"])[0]
                delivered = [[t, o[0]] for (t, _), o in zip(c["calls"], o1) if o]
                o2 = vloop.run(_run, c["kinds"][1:], c["t0"], delivered)[0]
                res[i] = [o[0] for o in b[0] if o] == [o[0] for o in o2 if o]
        return res

    def nontrivial_key(self, c, mb):
        outs = mb[0]
        if any(outs) and not all(outs):
            return repr(c)
        return None

    def kind(self, c):
        return c["kind"]


if __name__ == "__main__":
    raise SystemExit(C20().main())

"""C15 -- frame-version announcements trigger exactly the needed refreshes."""
from __future__ import annotations

import asyncio
import json

from harness import frames_gen as G
from harness import model, vloop
from harness.common import Prop

_SENSOR_REST = None


def sensor_rest():
    """Tail of a captured sensor-data payload after its frame-version table."""
    global _SENSOR_REST
    if _SENSOR_REST is None:
        d = json.load(open("/repo/tests/testdata/messages/sensor_data.json"))
        raw = bytes.fromhex("".join(d[0]["message"]["items"]))
        _SENSOR_REST = raw[1 + 3 * raw[0]:]
    return _SENSOR_REST


async def _run_hist(history, via):
    """history: [0, pairs] announcement | [1, unsupported] set-up finishes (frame errors published)."""
    from pyplumio.devices.ecomax import EcoMAX
    from pyplumio.frames.messages import SensorDataMessage
    from pyplumio.structures.network_info import NetworkInfo
    q = asyncio.Queue()
    dev = EcoMAX(q, network=NetworkInfo())
    outs = []

    async def settle():
        for _ in range(6):
            pending = [t for t in dev.tasks if not t.done()]
            if not pending:
                break
            await asyncio.gather(*pending, return_exceptions=True)
        await asyncio.sleep(0)

    for ev in history:
        if ev[0] == 1:
            await dev.dispatch("frame_errors", list(ev[1]))
        elif via == "dispatch":
            d = {}
            for c, v in ev[1]:
                d[c] = v
            try:
                await dev.dispatch("frame_versions", d)
            except Exception as e:  # noqa: BLE001
                outs.append(["exception", type(e).__name__])
                continue
        else:
            ann = ev[1]
            table = bytes([len(ann)]) + b"".join(bytes([c, v & 0xFF, v >> 8]) for c, v in ann)
            dev.handle_frame(SensorDataMessage(message=bytearray(table + sensor_rest())))
        await settle()
        o = []
        while not q.empty():
            o.append(int(q.get_nowait().frame_type))
        outs.append(o)
    return outs


async def _run_two(unsup, history, who):
    """Two physical devices (ecoMAX and ecoSTER) behind one connection share the write queue; step k of the history is announced
    to device who[k].  Per step: the kinds queued, each checked to be addressed to the announcing device."""
    from pyplumio.devices.ecomax import EcoMAX
    from pyplumio.devices.ecoster import EcoSTER
    from pyplumio.structures.network_info import NetworkInfo
    q = asyncio.Queue()
    devs = [EcoMAX(q, network=NetworkInfo()), EcoSTER(q, network=NetworkInfo())]
    for d in devs:
        d.data["frame_errors"] = list(unsup)
    outs = [[], []]
    for step, ann in enumerate(history):
        dev = devs[who[step]]
        try:
            await dev.dispatch("frame_versions", {c: v for c, v in ann})
        except Exception as e:  # noqa: BLE001
            outs[who[step]].append(["exception", type(e).__name__])
            continue
        for _ in range(6):
            pending = [t for d in devs for t in d.tasks if not t.done()]
            if not pending:
                break
            await asyncio.gather(*pending, return_exceptions=True)
        await asyncio.sleep(0)
        o = []
        while not q.empty():
            fr = q.get_nowait()
            o.append(int(fr.frame_type) if int(fr.recipient) == int(dev.address) else ["wrong-recipient", int(fr.frame_type), int(fr.recipient)])
        outs[who[step]].append(o)
    return outs


async def _run(unsup, history, via, sources=None, reconnects=()):
    from pyplumio.devices.ecomax import EcoMAX
    from pyplumio.frames.messages import RegulatorDataMessage, SensorDataMessage
    from pyplumio.structures.network_info import NetworkInfo
    q = asyncio.Queue()
    dev = EcoMAX(q, network=NetworkInfo())
    dev.data["frame_errors"] = list(unsup)
    outs = []

    async def settle():
        for _ in range(6):
            pending = [t for t in dev.tasks if not t.done()]
            if not pending:
                break
            await asyncio.gather(*pending, return_exceptions=True)
        await asyncio.sleep(0)

    for step, ann in enumerate(history):
        if step in reconnects:
            # the connection was lost and re-established before this announcement: the protocol keeps the device object and
            # tells it connected=False, then connected=True (anything queued by that shows up in this step's output)
            await dev.dispatch("connected", False)
            await settle()
            await dev.dispatch("connected", True)
            await settle()
        if via == "dispatch":
            d = {}
            for c, v in ann:
                d[c] = v
            try:
                await dev.dispatch("frame_versions", d)
            except Exception as e:  # noqa: BLE001
                outs.append(["exception", type(e).__name__])
                continue
        else:
            table = bytes([len(ann)]) + b"".join(bytes([c, v & 0xFF, v >> 8]) for c, v in ann)
            if sources is not None and sources[step] == "R":
                # the same table inside a regulator-data message (version word 1.0; no schema known: no data part)
                dev.handle_frame(RegulatorDataMessage(message=bytearray(bytes([0, 0, 0, 1]) + table)))
            else:
                dev.handle_frame(SensorDataMessage(message=bytearray(table + sensor_rest())))
        await settle()
        o = []
        while not q.empty():
            o.append(int(q.get_nowait().frame_type))
        outs.append(o)
    return outs


async def _run_setup(unanswered, later):
    """A REAL set-up: the first sensor-data message carries its genuine frame-version table (several set-up kinds are announced in
    it), EcoMAX.async_setup() runs against a controller that answers every set-up request except the kinds in `unanswered`;
    once the device is loaded the announcements `later` arrive (sensor-data frames).  Returns [frame_errors, kinds queued per
    later announcement]."""
    from pyplumio.devices.ecomax import EcoMAX
    from pyplumio.frames.messages import SensorDataMessage
    from pyplumio.structures.network_info import NetworkInfo
    from harness.c16 import _payload, responses
    q = asyncio.Queue()
    dev = EcoMAX(q, network=NetworkInfo())
    sensor = _payload("messages/sensor_data.json", "short_sensor_data_without_thermostats")
    rest = sensor[1 + 3 * sensor[0]:]
    resp = responses(False)

    async def controller():
        while True:
            fr = await q.get()
            code = int(fr.frame_type)
            if code in resp and code not in unanswered:
                cls, payload = resp[code]
                dev.handle_frame(cls(message=bytearray(payload)))

    ctl = asyncio.ensure_future(controller())
    setup = asyncio.ensure_future(dev.async_setup())
    dev.handle_frame(SensorDataMessage(message=bytearray(sensor)))
    await asyncio.wait_for(setup, timeout=1000)
    for _ in range(10):
        await asyncio.sleep(0)
    ctl.cancel()
    await asyncio.gather(ctl, return_exceptions=True)
    while not q.empty():
        q.get_nowait()
    errors = sorted(int(e) for e in dev.data.get("frame_errors", []))
    outs = []
    for ann in later:
        table = bytes([len(ann)]) + b"".join(bytes([c, v & 0xFF, v >> 8]) for c, v in ann)
        dev.handle_frame(SensorDataMessage(message=bytearray(table + rest)))
        for _ in range(20):          # (handlers that wait for data a kind left unanswered never finish: no waiting for tasks here)
            await asyncio.sleep(0)
        o = []
        while not q.empty():
            o.append(int(q.get_nowait().frame_type))
        outs.append(o)
    for t in list(dev.tasks):
        t.cancel()
    await asyncio.gather(*dev.tasks, return_exceptions=True)
    return [errors, outs]


class C15(Prop):
    id = "C15"
    prop_file = "Props/C15.v"
    rule = ("histories of 1-6 announcements over the known request kinds plus unknown codes with repeated / raised / lowered versions and "
            "duplicate codes inside one table, on devices with every kind of unsupported set (none, one, several, all); delivered as the "
            "frame_versions event, inside real sensor-data frames through handle_frame, and as sensor-data and regulator-data messages alternating "
            "(a third of those replaying an earlier sensor-data message verbatim after a regulator-data announcement; half of them with the connection lost and re-established - connected=False / True told to the same device object - between announcements); `with-setup`: the unanswered kinds come from a real async_setup() against a scripted controller, started by a sensor-data message with its genuine version table, and later announcements are judged by the history model.  Non-trivial = at least one "
            "refresh expected; distinct by (unsupported, history).")
    assumptions = ["announcements naming a known response/message kind make the handler raise TypeError (observation O1): outside the "
                   "property's quantifier, generated separately and compared with the model only"]

    def generate(self, rng, tier):
        t = G.tables()
        req = [r["code"] for r in t["frame_types"] if r["kind"] == 0]
        known = [r["code"] for r in t["frame_types"]]
        unknown = [c for c in range(256) if c not in known]
        cases = []
        n = 500 if tier == "quick" else 8000
        for i in range(n):
            pool = rng.sample(req, rng.randrange(1, 7)) + rng.sample(unknown, rng.randrange(0, 3))
            r = rng.random()
            unsup = [] if r < 0.3 else rng.sample(pool, min(len(pool), rng.randrange(1, 3))) if r < 0.8 else list(req)
            unsup = [c for c in unsup if c in req]
            vers = {c: rng.randrange(0, 3) for c in pool}
            hist = []
            for _ in range(rng.randrange(1, 7)):
                ann = []
                for c in rng.sample(pool, rng.randrange(1, len(pool) + 1)):
                    mv = rng.choice(["same", "same", "up", "down", "rand"])
                    if mv == "up":
                        vers[c] = (vers[c] + 1) % 65536
                    elif mv == "down":
                        vers[c] = max(0, vers[c] - 1)
                    elif mv == "rand":
                        vers[c] = rng.choice([0, 1, 255, 256, 65535])
                    ann.append([c, vers[c]])
                if rng.random() < 0.15 and ann:
                    c0 = ann[0][0]
                    ann.append([c0, (ann[0][1] + 1) % 65536])       # duplicate code in one table: the last value wins
                hist.append(ann)
            if i % 3 == 0:
                # set-up finishes somewhere inside the history: before that nothing is unsupported
                k = rng.randrange(0, len(hist) + 1)
                h2 = [[0, a] for a in hist[:k]] + [[1, unsup]] + [[0, a] for a in hist[k:]]
                if unsup and rng.random() < 0.5:
                    # a further set-up later on: kinds it gets answered are supported from then on (announcements seen while a
                    # kind was unsupported must not count as refreshes of it)
                    j = rng.randrange(k + 1, len(h2) + 1)
                    again = [c for c in unsup if rng.random() < 0.5]
                    h2 = h2[:j] + [[1, again]] + h2[j:] + [[0, a] for a in hist[-2:]]
                cases.append({"kind": "hist:" + ("dispatch" if i % 2 else "sensor-frame"), "hist": h2})
            elif i % 3 == 1 and i % 2:
                # an ecoMAX and an ecoSTER behind the same connection: each keeps its own record and is asked itself
                cases.append({"kind": "two-devices", "unsup": unsup, "history": hist, "who": [rng.randrange(2) for _ in hist]})
            elif i % 3 == 1:
                cases.append({"kind": "dispatch" if i % 2 else "sensor-frame", "unsup": unsup, "history": hist})
            else:
                # both sources of announcements, alternating; a third of these replay an earlier sensor-data message verbatim
                # after a regulator-data message has announced something else
                if rng.random() < 0.35 and len(hist) >= 2:
                    hist = [hist[0], hist[1], hist[0]] + hist[2:]
                    src = ["S", "R", "S"] + [rng.choice("SR") for _ in hist[3:]]
                else:
                    src = [rng.choice("SR") for _ in hist]
                case = {"kind": "mixed-sources", "unsup": unsup, "history": hist, "sources": src}
                if rng.random() < 0.5:
                    case["kind"] = "mixed-sources+reconnects"
                    case["reconnects"] = sorted(rng.sample(range(0, len(hist)), rng.randrange(1, min(3, len(hist)) + 1)))
                cases.append(case)
        return cases

    def run_impl(self, c):
        if c["kind"] == "with-setup":
            return self._setup_run(c)
        if c["kind"] == "two-devices":
            return vloop.run(_run_two, c["unsup"], c["history"], c["who"])
        if "hist" in c:
            return vloop.run(_run_hist, c["hist"], "dispatch" if c["kind"].endswith("dispatch") else "frame")
        return vloop.run(_run, c["unsup"], c["history"], "dispatch" if c["kind"] == "dispatch" else "frame", c.get("sources"),
                         tuple(c.get("reconnects", ())))

    @staticmethod
    def _h(c):
        return [[e[0], (bytes(e[1]) if e[0] == 1 else e[1])] for e in c["hist"]]

    def _split(self, c):
        return [[a for a, w in zip(c["history"], c["who"]) if w == k] for k in (0, 1)]

    def model_many(self, cases):
        if cases and all(c["kind"] == "with-setup" for c in cases):
            return [None] * len(cases)
        two = [c for c in cases if c["kind"] == "two-devices"]
        if two:
            rest = [c for c in cases if c["kind"] != "two-devices"]
            r_rest = iter(self.model_many(rest)) if rest else iter([])
            r_two = iter(model.call_many("announce_all", [[bytes(c["unsup"]), h] for c in two for h in self._split(c)]))
            out = []
            for c in cases:
                out.append([next(r_two)[0], next(r_two)[0]] if c["kind"] == "two-devices" else next(r_rest))
            return out
        a = [c for c in cases if "hist" not in c]
        b = [c for c in cases if "hist" in c]
        ra = iter(model.call_many("announce_all", [[bytes(c["unsup"]), c["history"]] for c in a]))
        rb = iter(model.call_many("announce_hist", [self._h(c) for c in b]))
        return [next(rb) if "hist" in c else next(ra)[0] for c in cases]

    def spec_many(self, cases, behaviours):
        if cases and all(c["kind"] == "with-setup" for c in cases):
            return [self._setup_ok(c, b) for c, b in zip(cases, behaviours)]
        two = [(c, b) for c, b in zip(cases, behaviours) if c["kind"] == "two-devices"]
        if two:
            rest = [(c, b) for c, b in zip(cases, behaviours) if c["kind"] != "two-devices"]
            r_rest = iter(self.spec_many([c for c, _ in rest], [b for _, b in rest])) if rest else iter([])
            args, flags = [], []
            for c, b in two:
                for h, outs in zip(self._split(c), b):
                    flags.append(any(isinstance(x, list) for o in outs for x in o) or any(o and o[0] == "exception" for o in outs))
                    args.append([bytes(c["unsup"]), h, [bytes([x for x in o if isinstance(x, int)]) for o in outs]])
            r_two = iter(zip(model.call_many("P15", args), flags))
            out = []
            for c, b in zip(cases, behaviours):
                if c["kind"] == "two-devices":
                    (r0, f0), (r1, f1) = next(r_two), next(r_two)
                    out.append(bool(r0) and bool(r1) and not f0 and not f1)
                else:
                    out.append(next(r_rest))
            return out
        bad = [any(o and o[0] == "exception" for o in b) for b in behaviours]
        clean = lambda b: [bytes(o) if not (o and o[0] == "exception") else b"" for o in b]
        a = [(c, b) for c, b in zip(cases, behaviours) if "hist" not in c]
        h = [(c, b) for c, b in zip(cases, behaviours) if "hist" in c]
        ra = iter(model.call_many("P15", [[bytes(c["unsup"]), c["history"], clean(b)] for c, b in a]))
        rh = iter(model.call_many("P15h", [[self._h(c), clean(b)] for c, b in h]))
        return [bool(next(rh) if "hist" in c else next(ra)) and not x for c, x in zip(cases, bad)]

    # ---- the unanswered kinds come from a REAL set-up (not from a frame_errors event of the harness) ----
    def _setup_case(self, rng):
        from harness.c16 import _payload
        t = G.tables()
        setup_kinds = [k for k, _ in t["setup_frames"]]
        sensor = _payload("messages/sensor_data.json", "short_sensor_data_without_thermostats")
        first = [[sensor[1 + 3 * i], sensor[2 + 3 * i] | (sensor[3 + 3 * i] << 8)] for i in range(sensor[0])]
        unanswered = sorted(rng.sample(setup_kinds, rng.choice([0, 1, 1, 2, 3])))
        vers = {c: v for c, v in first}
        pool = sorted(set(setup_kinds + [c for c, _ in first]))
        later = []
        for _ in range(rng.randrange(1, 4)):
            ann = []
            for c in rng.sample(pool, rng.randrange(1, min(5, len(pool)) + 1)):
                if rng.random() < 0.6:
                    vers[c] = (vers.get(c, 0) + 1) % 65536
                ann.append([c, vers.get(c, 0)])
            later.append(ann)
        return {"kind": "with-setup", "first": first, "unanswered": unanswered, "later": later}

    def _setup_run(self, c):
        return vloop.run(_run_setup, c["unanswered"], c["later"])

    def _setup_ok(self, c, b):
        errors, outs = b
        # the kinds a set-up leaves unanswered, by the set-up model of C16 (a kind that needs the product information fails with it)
        kinds = [k for k, _ in G.tables()["setup_frames"]]
        failed = sorted(model.call("timeline", [False, [[k, ([] if k in c["unanswered"] else [1])] for k in kinds], 3])[0])
        hist = [[0, c["first"]], [1, bytes(failed)]] + [[0, a] for a in c["later"]]
        m = model.call("announce_hist", hist)
        want = [list(x) for x in m[2:]]
        return errors == failed and [list(o) for o in outs] == want

    def extra_checks(self, tier, rng):
        fails = []
        self._setup_runs = 0
        for _ in range(60 if tier == "quick" else 1200):
            c = self._setup_case(rng)
            b = self._setup_run(c)
            self._setup_runs += 1
            if not self._setup_ok(c, b):
                fails.append({"case": c, "impl": b, "reason": "after a real set-up the kinds it left unanswered are not exactly the ones never "
                              "refreshed (or frame_errors does not list exactly them)"})
        return fails

    def extra_coverage(self):
        return {"real_setup_sessions": getattr(self, "_setup_runs", 0)}

    def nontrivial_key(self, c, mb):
        return repr(c) if any(mb) else None

    def kind(self, c):
        return c["kind"]


if __name__ == "__main__":
    raise SystemExit(C15().main())

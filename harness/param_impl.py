"""Build real pyplumio devices / parameters and observe set() calls under the virtual loop."""
from __future__ import annotations

import asyncio

TABLES = ["ecomax_params_p", "ecomax_params_i", "mixer_params_p", "mixer_params_i", "thermostat_params",
          "schedule_params", "ecomax_control_param", "thermostat_profile_param"]


def make_param(tbl: int, idx: int, triple, tracking: bool, sub_index: int = 0):
    """Returns (parameter, queue, set_code, refresh_code, decode_set)."""
    from pyplumio.const import FrameType, ProductType
    from pyplumio.devices.ecomax import EcoMAX
    from pyplumio.devices.mixer import Mixer
    from pyplumio.devices.thermostat import Thermostat
    from pyplumio.helpers.parameter import ParameterValues
    from pyplumio.structures import ecomax_parameters as EP
    from pyplumio.structures import mixer_parameters as MP
    from pyplumio.structures import thermostat_parameters as TP
    from pyplumio.structures.network_info import NetworkInfo

    queue = asyncio.Queue()
    ecomax = EcoMAX(queue, network=NetworkInfo())
    values = ParameterValues(value=triple[0], min_value=triple[1], max_value=triple[2])
    if tbl in (0, 1):
        desc = EP.ECOMAX_PARAMETERS[ProductType(tbl)][idx]
        cls = EP.EcomaxSwitch if isinstance(desc, EP.EcomaxSwitchDescription) else EP.EcomaxNumber
        p = cls(device=ecomax, description=desc, values=values, index=idx)
        if tracking:
            ecomax._frame_versions[FrameType.REQUEST_ECOMAX_PARAMETERS] = 1
        return p, queue, 51, 49, (lambda m: m[1])
    if tbl in (2, 3):
        desc = MP.MIXER_PARAMETERS[ProductType(tbl - 2)][idx]
        mixer = Mixer(queue, parent=ecomax, index=sub_index)
        cls = MP.MixerSwitch if isinstance(desc, MP.MixerSwitchDescription) else MP.MixerNumber
        p = cls(device=mixer, description=desc, values=values, index=idx)
        if tracking:
            ecomax._frame_versions[FrameType.REQUEST_MIXER_PARAMETERS] = 1
        return p, queue, 52, 50, (lambda m: m[2])
    if tbl == 4:
        desc = TP.THERMOSTAT_PARAMETERS[idx]
        th = Thermostat(queue, parent=ecomax, index=sub_index)
        cls = TP.ThermostatSwitch if isinstance(desc, TP.ThermostatSwitchDescription) else TP.ThermostatNumber
        p = cls(device=th, description=desc, values=values, index=idx, offset=sub_index * len(TP.THERMOSTAT_PARAMETERS))
        if tracking:
            ecomax._frame_versions[FrameType.REQUEST_THERMOSTAT_PARAMETERS] = 1
        return p, queue, 93, 92, (lambda m: int.from_bytes(m[1:], "little"))
    if tbl == 6:
        p = EP.EcomaxSwitch(device=ecomax, description=EP.ECOMAX_CONTROL_PARAMETER, values=values)
        if tracking:
            ecomax._frame_versions[FrameType.REQUEST_ECOMAX_PARAMETERS] = 1
        return p, queue, 59, 49, (lambda m: m[0])
    if tbl == 7:
        p = EP.EcomaxNumber(device=ecomax, description=EP.THERMOSTAT_PROFILE_PARAMETER, values=values)
        if tracking:
            ecomax._frame_versions[FrameType.REQUEST_ECOMAX_PARAMETERS] = 1
        return p, queue, 93, 49, (lambda m: int.from_bytes(m[1:], "little"))
    raise ValueError(tbl)


def drain(queue, set_code, refresh_code, decode):
    outs = []
    while not queue.empty():
        fr = queue.get_nowait()
        code = int(fr.frame_type)
        if code == set_code:
            outs.append([0, decode(bytes(fr.message))])
        elif code == refresh_code:
            outs.append([1])
        else:
            outs.append(["other-frame", code])
    return outs


async def run_set_call(tbl, idx, triple, value, retries, timeout, events, tracking, sub_index=0, via_device=False):
    """Drive one parameter.set(value) call through `events`; returns (outs per point, triple after, triple right after call).
    via_device: the call is Device.set(name, value, retries) of the owning device (timeout 5 s is then the library's default)."""
    from pyplumio.helpers.parameter import ParameterValues
    p, queue, sc, rc, dec = make_param(tbl, idx, triple, tracking, sub_index)
    if via_device:
        p.device.data[p.description.name] = p
        task = asyncio.ensure_future(p.device.set(p.description.name, value, retries=retries))
    else:
        task = asyncio.ensure_future(p.set(value, retries=retries, timeout=timeout))

    async def settle():
        for _ in range(6):
            await asyncio.sleep(0)

    def result_outs():
        if task.done() and not getattr(task, "_reported", False):
            task._reported = True
            exc = task.exception()
            if exc is None:
                return [[2, bool(task.result())]]
            if isinstance(exc, ValueError):
                return [[3]]
            return [["other-exception", type(exc).__name__]]
        return []

    await settle()
    outs = [drain(queue, sc, rc, dec) + result_outs()]
    after_call = [p.values.value, p.values.min_value, p.values.max_value]
    for ev in events:
        if ev[0] == 0:
            await asyncio.sleep(timeout)
            await settle()
        else:
            t = ev[1]
            p.update(ParameterValues(value=t[0], min_value=t[1], max_value=t[2]))
            await settle()
        outs.append(drain(queue, sc, rc, dec) + result_outs())
    if not task.done():
        task.cancel()
        try:
            await task
        except BaseException:  # noqa: BLE001
            pass
    return outs, [p.values.value, p.values.min_value, p.values.max_value], after_call


async def run_session(tbl, idx, triple, calls, tracking, sub_index=0, timeout=5.0):
    """Several set() calls on ONE parameter object, each driven through its events.
    Returns per call: (outs per point, triple held before the call, triple right after the call)."""
    from pyplumio.helpers.parameter import ParameterValues
    p, queue, sc, rc, dec = make_param(tbl, idx, triple, tracking, sub_index)
    results = []

    async def settle():
        for _ in range(6):
            await asyncio.sleep(0)

    for value, retries, events in calls:
        before = [p.values.value, p.values.min_value, p.values.max_value]
        task = asyncio.ensure_future(p.set(value, retries=retries, timeout=timeout))
        reported = [False]

        def result_outs():
            if task.done() and not reported[0]:
                reported[0] = True
                exc = task.exception()
                if exc is None:
                    return [[2, bool(task.result())]]
                return [[3]] if isinstance(exc, ValueError) else [["other-exception", type(exc).__name__]]
            return []

        await settle()
        outs = [drain(queue, sc, rc, dec) + result_outs()]
        after_call = [p.values.value, p.values.min_value, p.values.max_value]
        for ev in events:
            if ev[0] == 0:
                await asyncio.sleep(timeout)
            else:
                t = ev[1]
                p.update(ParameterValues(value=t[0], min_value=t[1], max_value=t[2]))
            await settle()
            outs.append(drain(queue, sc, rc, dec) + result_outs())
        if not task.done():
            task.cancel()
            try:
                await task
            except BaseException:  # noqa: BLE001
                pass
        results.append([outs, before, after_call])
    return results


async def run_overlap(tbl, idx, triple, req, retries, events, timeout=5.0):
    """One in-range set(req) call; while it is pending, timer expiries [0] and further set() calls with OUT-OF-RANGE values [2, v]
    on the same parameter object.  Returns (transmitted raw values per point, outcome of every intruding call, triple at the end)."""
    p, queue, sc, rc, dec = make_param(tbl, idx, triple, False, 0)
    task = asyncio.ensure_future(p.set(req, retries=retries, timeout=timeout))

    async def settle():
        for _ in range(6):
            await asyncio.sleep(0)

    await settle()
    points = [[o[1] for o in drain(queue, sc, rc, dec) if o[0] == 0]]
    intruders = []
    for ev in events:
        if ev[0] == 0:
            await asyncio.sleep(timeout)
            await settle()
        else:
            try:
                r = await asyncio.wait_for(p.set(ev[1], retries=1, timeout=timeout), timeout=0.5)
                intruders.append(["returned", bool(r)])
            except ValueError:
                intruders.append(["ValueError"])
            except asyncio.TimeoutError:
                intruders.append(["accepted-and-pending"])
            except Exception as e:  # noqa: BLE001
                intruders.append(["other-exception", type(e).__name__])
            await settle()
        points.append([o[1] for o in drain(queue, sc, rc, dec) if o[0] == 0])
    if not task.done():
        task.cancel()
        try:
            await task
        except BaseException:  # noqa: BLE001
            pass
    return [points, intruders, [p.values.value, p.values.min_value, p.values.max_value]]


async def run_set_call_frames(product, idx, triple, value, retries, timeout, events, tracking, payloads, gated=False, mixer=False):
    """As run_set_call, for an ecoMAX parameter of a REAL device: the parameter is created, and every report delivered, by
    ecoMAX-parameters response frames through EcoMAX.handle_frame (payloads[0] creates it, payloads[1:] are the reports of
    `events` in order).  Returns (outs per point, triple after, None).
    gated=True: every thread-pool job (the class loading behind Request.create) completes only when the harness lets it, and an
    event [3, triple] -- placed first or right after a timer expiry -- is a report handled WHILE the request of that
    transmission is being built (between the start of create_request() and the request reaching the queue)."""
    from pyplumio.const import FrameType, ProductType
    from pyplumio.devices.ecomax import EcoMAX
    from pyplumio.frames import responses as R
    from pyplumio.helpers.parameter import Parameter
    from pyplumio.structures import ecomax_parameters as EP
    from pyplumio.structures.network_info import NetworkInfo
    from harness import proto_impl as PI
    queue = asyncio.Queue()
    dev = EcoMAX(queue, network=NetworkInfo())
    from pyplumio.structures import mixer_parameters as MP
    name = (MP.MIXER_PARAMETERS if mixer else EP.ECOMAX_PARAMETERS)[ProductType(product)][idx].name
    Resp = R.MixerParametersResponse if mixer else R.EcomaxParametersResponse

    async def settle():
        for _ in range(8):
            await asyncio.sleep(0)

    dev.handle_frame(R.UIDResponse(message=bytearray(PI.payload("responses/uid.json", {0: "EM350P2_uid", 1: "ecoMAX_850i_uid"}[product]))))
    await settle()
    dev.handle_frame(Resp(message=bytearray(payloads[0])))
    await settle()
    while not queue.empty():
        queue.get_nowait()
    p = dev.data["mixers"][0].data[name] if mixer else dev.data[name]
    if tracking:
        dev._frame_versions[FrameType.REQUEST_MIXER_PARAMETERS if mixer else FrameType.REQUEST_ECOMAX_PARAMETERS] = 1
    dec = (lambda m: m[2]) if mixer else (lambda m: m[1])
    SET_CODE, REFRESH_CODE = (52, 50) if mixer else (51, 49)
    gate = []
    loop = asyncio.get_running_loop()
    if gated:
        def hook(loop_, func, *args):
            fut = loop_.create_future()
            gate.append((fut, func, args))
            return fut
        loop.executor_hook = hook

    async def pump(hop_payload=None):
        """let the pending thread-pool jobs complete; a hop report is handled before the first of them does"""
        await settle()
        if hop_payload is not None:
            dev.handle_frame(Resp(message=bytearray(hop_payload)))
            await settle()
        while gate:
            fut, func, args = gate.pop(0)
            if not fut.done():
                try:
                    fut.set_result(func(*args))
                except BaseException as e:  # noqa: BLE001
                    fut.set_exception(e)
            await settle()

    task = asyncio.ensure_future(p.set(value, retries=retries, timeout=timeout))

    def result_outs():
        if task.done() and not getattr(task, "_reported", False):
            task._reported = True
            exc = task.exception()
            if exc is None:
                return [[2, bool(task.result())]]
            if isinstance(exc, ValueError):
                return [[3]]
            return [["other-exception", type(exc).__name__]]
        return []

    def point():
        return drain(queue, SET_CODE, REFRESH_CODE, dec) + result_outs()

    k, i = 1, 0
    hop = events[0] if gated and events and events[0][0] == 3 else None
    await pump(payloads[k] if hop else None)
    outs = [point()]
    if hop:
        k, i = k + 1, 1
        outs.append(point())
    while i < len(events):
        ev = events[i]
        i += 1
        if ev[0] == 0:
            await asyncio.sleep(timeout)
            hop = events[i] if gated and i < len(events) and events[i][0] == 3 else None
            await pump(payloads[k] if hop else None)
            outs.append(point())
            if hop:
                k, i = k + 1, i + 1
                outs.append(point())
        else:
            dev.handle_frame(Resp(message=bytearray(payloads[k])))
            k += 1
            await pump()
            outs.append(point())
    loop.executor_hook = None
    if not task.done():
        task.cancel()
        try:
            await task
        except BaseException:  # noqa: BLE001
            pass
    for t in list(dev.tasks):
        t.cancel()
    await asyncio.gather(*dev.tasks, return_exceptions=True)
    q = dev.data["mixers"][0].data[name] if mixer else dev.data[name]
    for m_ in dev.data.get("mixers", {}).values():
        for t in list(m_.tasks):
            t.cancel()
    return outs, [q.values.value, q.values.min_value, q.values.max_value], None


async def run_eco_reports(product, payloads, slow, pidx, value, settled_first=False):
    """A REAL ecoMAX with user subscriptions on some of its parameter events (`slow`: [table position, loop iterations its
    subscriber awaits, the call on which it does so]) receives the ecoMAX-parameters responses `payloads` back to back
    (no pause between them; settled_first: the first one is handled completely before the others arrive, so that the
    parameter objects exist); once everything has settled, parameter `pidx` is set to `value`.
    Returns ["no-parameter"] | [outcome, [[index, value] per queued set request], held triple]."""
    from pyplumio.const import ProductType
    from pyplumio.devices.ecomax import EcoMAX
    from pyplumio.frames import responses as R
    from pyplumio.structures import ecomax_parameters as EP
    from pyplumio.structures.network_info import NetworkInfo
    from harness import proto_impl as PI
    queue = asyncio.Queue()
    dev = EcoMAX(queue, network=NetworkInfo())
    table = EP.ECOMAX_PARAMETERS[ProductType(product)]

    async def settle(n=12):
        for _ in range(n):
            await asyncio.sleep(0)

    dev.handle_frame(R.UIDResponse(message=bytearray(PI.payload("responses/uid.json", {0: "EM350P2_uid", 1: "ecoMAX_850i_uid"}[product]))))
    await settle()
    for pos, hops, on_call in slow:
        state = {"calls": 0}

        async def cb(value, state=state, hops=hops, on_call=on_call):
            state["calls"] += 1
            if state["calls"] == on_call:
                for _ in range(hops):
                    await asyncio.sleep(0)
        dev.subscribe(table[pos].name, cb)
    for k, pl in enumerate(payloads):
        dev.handle_frame(R.EcomaxParametersResponse(message=bytearray(pl)))
        if k == 0 and settled_first:
            await settle(40)
    await settle(40)
    while not queue.empty():
        queue.get_nowait()
    try:
        par = dev.data.get(table[pidx].name)
        if par is None:
            return ["no-parameter"]
        task = asyncio.ensure_future(par.set(value, retries=1, timeout=1.0))
        await settle()
        sent = []
        while not queue.empty():
            f = queue.get_nowait()
            if int(f.frame_type) == 51:
                sent.append(list(f.message))
        if task.done():
            exc = task.exception()
            out = "ValueError" if isinstance(exc, ValueError) else ("returned" if exc is None else type(exc).__name__)
        else:
            out = "pending"
            task.cancel()
            try:
                await task
            except BaseException:  # noqa: BLE001
                pass
        return [out, sent, [par.values.value, par.values.min_value, par.values.max_value]]
    finally:
        for t in list(dev.tasks):
            t.cancel()
        await asyncio.gather(*dev.tasks, return_exceptions=True)


async def run_mixer_session(product, payloads, mixer, pidx, value):
    """A REAL ecoMAX receives the mixer-parameters responses `payloads` in order; then parameter `pidx` (table position) of
    mixer `mixer` is set to `value` through the Mixer device the library created.  Returns
    ["no-mixer"] | ["no-parameter"] | [outcome, [[device index, parameter index, value] per queued set request], held triple]."""
    from pyplumio.const import ProductType
    from pyplumio.devices.ecomax import EcoMAX
    from pyplumio.frames import responses as R
    from pyplumio.structures import mixer_parameters as MP
    from pyplumio.structures.network_info import NetworkInfo
    from harness import proto_impl as PI
    queue = asyncio.Queue()
    dev = EcoMAX(queue, network=NetworkInfo())
    name = MP.MIXER_PARAMETERS[ProductType(product)][pidx].name

    async def settle():
        for _ in range(8):
            await asyncio.sleep(0)

    dev.handle_frame(R.UIDResponse(message=bytearray(PI.payload("responses/uid.json", {0: "EM350P2_uid", 1: "ecoMAX_850i_uid"}[product]))))
    await settle()
    for pl in payloads:
        dev.handle_frame(R.MixerParametersResponse(message=bytearray(pl)))
        await settle()
    while not queue.empty():
        queue.get_nowait()
    mx = dev.data.get("mixers", {}).get(mixer)
    try:
        if mx is None:
            return ["no-mixer"]
        par = mx.data.get(name)
        if par is None:
            return ["no-parameter"]
        task = asyncio.ensure_future(par.set(value, retries=1, timeout=1.0))
        await settle()
        sent = []
        while not queue.empty():
            f = queue.get_nowait()
            if int(f.frame_type) == 52:
                sent.append(list(f.message))
        if task.done():
            exc = task.exception()
            out = "ValueError" if isinstance(exc, ValueError) else ("returned" if exc is None else type(exc).__name__)
        else:
            out = "pending"
            task.cancel()
            try:
                await task
            except BaseException:  # noqa: BLE001
                pass
        return [out, sent, [par.values.value, par.values.min_value, par.values.max_value]]
    finally:
        for d in [dev] + list(dev.data.get("mixers", {}).values()):
            for t in list(d.tasks):
                t.cancel()
            await asyncio.gather(*d.tasks, return_exceptions=True)


async def make_schedule_param(idx: int, triple, tracking: bool = True):
    """A schedule switch / parameter (table 5) of a REAL ecoMAX that has received a schedules response listing all schedules
    (so that schedules whose names are prefixes of one another coexist).  Returns (parameter, queue, set_code, refresh_code, decode);
    decode gives the raw value carried for THIS parameter, or a marker when the request addresses another schedule."""
    from pyplumio.const import FrameType
    from pyplumio.devices.ecomax import EcoMAX
    from pyplumio.frames import responses as R
    from pyplumio.helpers.parameter import ParameterValues
    from pyplumio.structures.network_info import NetworkInfo
    from pyplumio.structures.schedules import SCHEDULE_PARAMETERS, SCHEDULES
    from harness import model
    queue = asyncio.Queue()
    dev = EcoMAX(queue, network=NetworkInfo())
    week = [[(d + k) % 3 == 0 for k in range(48)] for d in range(7)]
    ss = [[i, i % 2, [[(7 * i + 3) % 200, 0, 255]], [[int(b) for b in day] for day in week]] for i in range(len(SCHEDULES))]
    for lo in range(0, len(ss), 5):            # several responses (at most five schedules fit a frame)
        payload = model.call("enc_schedules", [0, lo, ss[lo:lo + 5]])
        dev.handle_frame(R.SchedulesResponse(message=bytearray(payload)))
        for _ in range(6):
            pending = [t for t in dev.tasks if not t.done()]
            if pending:
                await asyncio.gather(*pending, return_exceptions=True)
            await asyncio.sleep(0)
    desc = SCHEDULE_PARAMETERS[idx]
    p = dev.data[desc.name]
    p.update(ParameterValues(value=triple[0], min_value=triple[1], max_value=triple[2]))
    if tracking:
        dev._frame_versions[FrameType.REQUEST_SCHEDULES] = 1
    sched, is_param = idx // 2, idx % 2

    def decode(m):
        if m[0] != 1 or m[1] != sched:
            return ["wrong-schedule", m[1]]
        return m[3] if is_param else m[2]
    return p, queue, 55, 54, decode

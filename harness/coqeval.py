"""Evaluate model expressions inside Coq (vm_compute) -- used where the model needs kernel
primitive floats, which are not extracted.  Each expression must have type `list Z`."""
from __future__ import annotations

import os
import re
import subprocess
from concurrent.futures import ThreadPoolExecutor

ROOT = os.path.dirname(os.path.dirname(os.path.abspath(__file__)))
COQ = os.path.join(ROOT, "coq")

HEADER = """From Coq Require Import ZArith NArith List PrimFloat String.
From PV Require Import Lib.PyFloat Generated.Tables Model.Param Model.ParamSet Extract.FloatEntry.
Import ListNotations.
Open Scope Z_scope.
"""


def _run(idx_exprs):
    idx, exprs, tag = idx_exprs
    d = os.path.join(ROOT, "build", "cases")
    os.makedirs(d, exist_ok=True)
    path = os.path.join(d, f"cases_{tag}_{idx}.v")
    with open(path, "w") as f:
        f.write(HEADER)
        f.write("Definition rs : list (list Z) := [\n" + ";\n".join(exprs) + "].\n")
        f.write("Eval vm_compute in rs.\n")
    env = dict(os.environ, OCAMLRUNPARAM="s=4M,h=256M")
    p = subprocess.run(["coqc", "-Q", COQ, "PV", path], stdout=subprocess.PIPE, stderr=subprocess.STDOUT, timeout=1800, env=env)
    out = p.stdout.decode()
    if p.returncode != 0:
        raise RuntimeError("coq evaluation failed: " + out[-800:])
    body = out[out.index("= ") + 2:]
    body = body[:body.rindex(":")]
    body = body.replace("\n", " ")
    res = []
    for m in re.finditer(r"\[([^\[\]]*)\]", body):
        inner = m.group(1).strip()
        res.append([int(x.replace("(", "").replace(")", "")) for x in inner.split(";")] if inner else [])
    for ext in (".v", ".vo", ".vok", ".vos", ".glob"):
        try:
            os.remove(path[:-2] + ext)
        except OSError:
            pass
    try:
        os.remove(os.path.join(d, f".cases_{tag}_{idx}.aux"))
    except OSError:
        pass
    if len(res) != len(exprs):
        raise RuntimeError(f"coq evaluation: expected {len(exprs)} results, got {len(res)}")
    return res


def eval_many(exprs: list[str], tag: str, chunk: int = 400) -> list[list[int]]:
    if not exprs:
        return []
    jobs = [(i, exprs[k:k + chunk], tag) for i, k in enumerate(range(0, len(exprs), chunk))]
    with ThreadPoolExecutor(max_workers=8) as ex:
        parts = list(ex.map(_run, jobs))
    return [r for part in parts for r in part]


def float_lit(x: float) -> str:
    return "(" + float(x).hex() + ")%float"


def float_key(x: float):
    import math
    if x == 0:
        return [0, 0, 0]
    f, ex = math.frexp(abs(x))
    return [1 if x < 0 else 0, int(f * 2 ** 53), ex - 53]

"""Real AsyncProtocol / Connection under the virtual-time loop with fake transports."""
from __future__ import annotations

import asyncio
import json

from harness import frames_gen as G


class FakeWriter:
    """asyncio.StreamWriter stand-in: records bytes, can fail on the k-th write."""

    def __init__(self, fail_on=None, log=None, tag=0):
        self.data = bytearray()
        self.frames = []
        self.closed = 0
        self.writes = 0
        self.fail_on = fail_on
        self.log = log if log is not None else []
        self.tag = tag
        self.close_delay = 0        # seconds the transport takes to finish closing (a stalled peer)
        self.drain_delay = 0        # seconds a write takes to drain (flow control paused: the peer stopped reading)
        self.lost_with = None       # the error the transport was lost with: asyncio's wait_closed() re-raises it

    def write(self, b):
        self.writes += 1
        if self.fail_on is not None and self.writes == self.fail_on:
            raise OSError("write failed")
        self.data += b
        self.frames.append(bytes(b))

    async def drain(self):
        if self.drain_delay:
            await asyncio.sleep(self.drain_delay)
        return None

    def close(self):
        self.closed += 1
        self.log.append(["writer-closed", self.tag])

    async def wait_closed(self):
        if self.close_delay:
            await asyncio.sleep(self.close_delay)
        if self.lost_with is not None:
            raise self.lost_with
        return None


def payload(path, ident):
    d = json.load(open("/repo/tests/testdata/" + path))
    for x in d:
        if x["id"] == ident:
            m = x["message"]
            items = m["items"] if isinstance(m, dict) else m
            return bytes.fromhex("".join(items) if isinstance(items, list) else items)
    raise KeyError(ident)


_CAPTURED = None


def captured():
    """(kind code, payload) of real controller traffic that decodes on a fresh device."""
    global _CAPTURED
    if _CAPTURED is None:
        s = payload("messages/sensor_data.json", "short_sensor_data_without_thermostats")
        sensor = b"\x00" + s[1 + 3 * s[0]:]      # empty frame-version table: no refresh traffic
        _CAPTURED = {
            "sensor": (0x35, sensor),
            "uid": (0xB9, payload("responses/uid.json", "EM350P2_uid")),
            "schema": (0xD5, payload("responses/regulator_data_schema.json", "EM350P2_data_schema")),
            "params": (0xB1, payload("responses/ecomax_parameters.json", "EM350P2_parameters")),
            "alerts": (0xBD, payload("responses/alerts.json", "alerts")),
            "schedules": (0xB6, payload("responses/schedules.json", "EM_heating_and_water_heater_schedule")),
            "mixer": (0xB2, payload("responses/mixer_parameters.json", "1_mixer_detected")),
            "password": (0xBA, payload("responses/password.json", "EM_service_password_1234")),
            "devavail": (0xB0, payload("responses/device_available.json", "EN300_device_available")),
            "progver": (0xC0, payload("responses/program_version.json", "EN300_program_version")),
        }
    return _CAPTURED


def frame_bytes(kind, payload_, sender=0x45, rcpt=0x56):
    return G.enc(kind, rcpt, sender, 48, 5, bytes(payload_))


class Recorder:
    """Records every PhysicalDevice.handle_frame call (class-level patch installed by the harness)."""

    def __init__(self):
        self.calls = []
        self.objects = []
        self.frames = []
        self.effects = {}       # tag -> names dispatched on the device while handle_frame(frame) ran
        self._current = []

    def install(self):
        from pyplumio.devices import PhysicalDevice
        from pyplumio.devices.ecomax import EcoMAX
        rec = self
        self._orig_base = PhysicalDevice.handle_frame
        self._orig_eco = EcoMAX.handle_frame

        def wrap(orig):
            def handle_frame(dev, frame):
                if dev not in rec.objects:
                    rec.objects.append(dev)
                tag = int(frame.econet_type)
                if not any(f is frame for f in rec.frames):
                    rec.frames.append(frame)
                    rec.calls.append([rec.objects.index(dev), tag, int(frame.frame_type)])
                rec._current.append(tag)
                try:
                    return orig(dev, frame)
                finally:
                    rec._current.pop()
            return handle_frame
        EcoMAX.handle_frame = wrap(self._orig_eco)
        PhysicalDevice.handle_frame = wrap(self._orig_base)
        from pyplumio.helpers.event_manager import EventManager
        self._orig_nowait = EventManager.dispatch_nowait

        def dispatch_nowait(em, name, value):
            if rec._current:
                rec.effects.setdefault(rec._current[-1], set()).add(name)
            return rec._orig_nowait(em, name, value)
        EventManager.dispatch_nowait = dispatch_nowait

    def uninstall(self):
        from pyplumio.devices import PhysicalDevice
        from pyplumio.devices.ecomax import EcoMAX
        EcoMAX.handle_frame = self._orig_eco
        PhysicalDevice.handle_frame = self._orig_base
        from pyplumio.helpers.event_manager import EventManager
        EventManager.dispatch_nowait = self._orig_nowait


async def settle(n=10):
    for _ in range(n):
        await asyncio.sleep(0)

"""Generators of frames, byte streams and corruptions shared by the envelope properties."""
from __future__ import annotations

import json
import os
import random
from functools import reduce

ROOT = os.path.dirname(os.path.dirname(os.path.abspath(__file__)))


def tables():
    return json.load(open(os.path.join(ROOT, "coq", "Generated", "tables.json")))


KNOWN_SENDERS = [0x00, 0x45, 0x51, 0x56]
OUR_RCPT = [0x56, 0x00]


def bcc(bs) -> int:
    return reduce(lambda a, b: a ^ b, bs, 0)


def enc(kind, rcpt, sender, etype, ever, payload) -> bytes:
    """Wire layout of a frame as the property text gives it (independent of /repo)."""
    n = 10 + len(payload)
    pre = bytes([0x68, n & 0xFF, (n >> 8) & 0xFF, rcpt, sender, etype, ever, kind]) + bytes(payload)
    return pre + bytes([bcc(pre), 0x16])


def rand_payload(rng: random.Random, n: int, dense68=False) -> bytes:
    if dense68:
        return bytes(rng.choice([0x68, 0x68, rng.randrange(256)]) for _ in range(n))
    return bytes(rng.randrange(256) for _ in range(n))


def rand_frame(rng: random.Random, kinds, *, own=None, known_sender=None, known_kind=None, maxlen=40, dense68=False):
    """Return (fields tuple, bytes)."""
    if known_kind is None:
        known_kind = rng.random() < 0.9
    kind = rng.choice(kinds) if known_kind else rng.choice([k for k in range(256) if k not in kinds])
    if own is None:
        own = rng.random() < 0.8
    rcpt = rng.choice(OUR_RCPT) if own else rng.choice([0x45, 0x51, 0x01, 0xFF, 0x57, rng.randrange(256)])
    if not own and rcpt in OUR_RCPT:
        rcpt = 0x45
    if known_sender is None:
        known_sender = rng.random() < 0.9
    sender = rng.choice(KNOWN_SENDERS) if known_sender else rng.choice([1, 0x44, 0x46, 0x68, 0xFF, rng.randrange(256)])
    if not known_sender and sender in KNOWN_SENDERS:
        sender = 0x44
    etype = rng.choice([48, 0, 255, rng.randrange(256)])
    ever = rng.choice([5, 0, 255, rng.randrange(256)])
    n = rng.choice([0, 0, 1, 2, 3, 4, 5, 8, rng.randrange(maxlen + 1)])
    payload = rand_payload(rng, n, dense68 or rng.random() < 0.2)
    f = (kind, rcpt, sender, etype, ever, payload)
    return f, enc(*f)


def corrupt(rng: random.Random, fb: bytes) -> tuple[str, bytes]:
    """One of the corruption classes named by C01's quantifier."""
    b = bytearray(fb)
    n = len(b)
    mode = rng.choice(["single", "double_xor_preserving", "double_xor_preserving_any", "trailer_pair", "computed_zero",
                       "stored_zero", "length", "truncate", "delimiter", "multi"])
    if mode == "single":
        i = rng.randrange(n)
        b[i] ^= rng.randrange(1, 256)
    elif mode == "double_xor_preserving":
        # flip the same bits at two covered positions: XOR of covered bytes unchanged
        cov = list(range(0, n - 2))
        i, j = rng.sample(cov, 2) if len(cov) >= 2 else (0, 0)
        d = rng.randrange(1, 256)
        b[i] ^= d
        b[j] ^= d
    elif mode == "double_xor_preserving_any":
        # the same bit flips at ANY two positions (checksum and end delimiter included): XOR of the whole frame unchanged
        i, j = rng.sample(range(n), 2)
        d = rng.randrange(1, 256)
        b[i] ^= d
        b[j] ^= d
    elif mode == "trailer_pair":
        # one of the last two bytes together with another byte
        i = rng.choice([n - 1, n - 2])
        j = rng.choice([k for k in range(3, n) if k != i])
        d = rng.randrange(1, 256)
        b[i] ^= d
        b[j] ^= d
    elif mode == "computed_zero":
        # change one covered byte so that XOR of covered bytes becomes 0, keep stored checksum (non-zero when possible)
        i = rng.randrange(3, n - 2)
        b[i] ^= bcc(b[: n - 2])
        if b[n - 2] == 0:
            b[n - 2] = rng.randrange(1, 256)
    elif mode == "stored_zero":
        b[n - 2] = 0
    elif mode == "length":
        v = rng.choice([0, 1, 7, 9, 10, 11, n - 1, n + 1, 998, 999, 1000, 1001, 1003, 65535, rng.randrange(65536)])
        b[1] = v & 0xFF
        b[2] = v >> 8
    elif mode == "truncate":
        b = b[: rng.randrange(n)]
    elif mode == "delimiter":
        b[0] = rng.randrange(256)
    else:
        for _ in range(rng.randrange(2, 5)):
            b[rng.randrange(n)] = rng.randrange(256)
    return mode, bytes(b)


def noise(rng: random.Random, n: int, mode: str) -> bytes:
    if mode == "uniform":
        return bytes(rng.randrange(256) for _ in range(n))
    if mode == "dense68":
        return bytes(rng.choice([0x68, 0x68, 0x68, rng.randrange(256)]) for _ in range(n))
    # header-shaped noise: plausible length / recipient / sender
    out = bytearray()
    while len(out) < n:
        ln = rng.choice([10, 11, 12, 15, 20, 40, 1000, 1001, 9, rng.randrange(2000)])
        out += bytes([0x68, ln & 0xFF, ln >> 8, rng.choice([0x56, 0x00, 0x45]), rng.choice([0x45, 0x51, 0x56, 0x00, 0x33]),
                      rng.randrange(256), rng.randrange(256)])
        out += bytes(rng.randrange(256) for _ in range(rng.randrange(0, 12)))
    return bytes(out[:n])


def testdata_frames():
    """All captured frames of tests/testdata (as bytes)."""
    out = []
    base = "/repo/tests/testdata"
    for sub in sorted(os.listdir(base)):
        d = os.path.join(base, sub)
        if not os.path.isdir(d):
            continue
        for fn in sorted(os.listdir(d)):
            if fn.endswith(".json"):
                try:
                    data = json.load(open(os.path.join(d, fn)))
                except Exception:  # noqa: BLE001
                    continue
                for item in data if isinstance(data, list) else [data]:
                    msg = item.get("message") if isinstance(item, dict) else None
                    if isinstance(msg, dict) and "items" in msg:
                        try:
                            out.append((f"{sub}/{fn}", bytes.fromhex(msg["items"])))
                        except Exception:  # noqa: BLE001
                            pass
    return out

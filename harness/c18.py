"""C18 -- schedule edits touch exactly the addressed slots; commit sends the edited week."""
from __future__ import annotations

import asyncio

from harness import frames_gen as G
from harness import model, vloop
from harness.common import Prop

STATES = ["on", "off", "day", "night"]


def tstr(h, m):
    return "%02d:%02d" % (h, m)


async def _commit_path(payload, sched_index, rounds, receive=None, defer=None):
    """Each round: SchedulesResponse -> EcoMAX -> Schedule edits -> commit -> queued SetScheduleRequest.
    defer[k]: the request committed in round k is still waiting in the write queue when the next response is handled (the
    producer writes -- and only then serialises -- a request when it gets round to it); it is serialised afterwards."""
    from pyplumio.devices.ecomax import EcoMAX
    from pyplumio.frames.responses import SchedulesResponse
    from pyplumio.structures.network_info import NetworkInfo
    from pyplumio.structures.schedules import SCHEDULES
    q = asyncio.Queue()
    dev = EcoMAX(q, network=NetworkInfo())
    frames = []
    waiting = []

    def transmit(fr):
        frames.append([int(fr.frame_type), int(fr.recipient), list(bytes(fr.bytes)[8:-2])])
    for k, edits in enumerate(rounds):
        if receive is None or receive[k]:
            dev.handle_frame(SchedulesResponse(message=bytearray(payload)))
        for _ in range(4):
            await asyncio.gather(*[t for t in dev.tasks], return_exceptions=True)
            await asyncio.sleep(0)
        for fr in waiting:
            transmit(fr)
        waiting = []
        name = SCHEDULES[sched_index]
        sched = dev.data["schedules"][name]
        days = list(sched)
        for (d, st, s, e) in edits:
            days[d].set_state(st, s, e)
        await sched.commit()
        while not q.empty():
            fr = q.get_nowait()
            if defer and defer[k] and k + 1 < len(rounds):
                waiting.append(fr)
            else:
                # the request is transmitted (serialised) before the next round, as the producer would do
                transmit(fr)
    for fr in waiting:
        transmit(fr)
    return frames


class C18(Prop):
    id = "C18"
    prop_file = "Props/C18.v"
    rule = ("edits: all 48x48 half-hour aligned (start,end) pairs x 4 states on a random initial day (exhaustive), plus invalid states, "
            "malformed / out-of-range / unaligned times; codec: random 7x48 bitmaps x the 40 schedule kinds x switch/parameter values through "
            "real SchedulesResponse -> EcoMAX -> Schedule edits -> commit() -> queued SetScheduleRequest (serialised at once, or only after the next response has been handled).  Non-trivial = the edit changes a "
            "slot or a frame is committed; distinct by case content.")
    assumptions = ["time strings are parsed by datetime.strptime (CPython); the model takes (hour, minute)"]

    def generate(self, rng, tier):
        cases = []
        patterns = [[rng.random() < 0.5 for _ in range(48)] for _ in range(1 if tier == "quick" else 4)]
        for day in patterns:
            for s in range(48):
                for e in range(48):
                    for st in range(4):
                        cases.append({"kind": "edit", "day": [int(b) for b in day], "st": st, "s": [s // 2, 30 * (s % 2)],
                                      "e": [e // 2, 30 * (e % 2)]})
        # uniform and nearly uniform days (all on, all off, one slot different): every state x a sample of intervals incl. invalid ones
        for udays in ([1] * 48, [0] * 48, [1] * 47 + [0], [0] + [1] * 47, [0] * 24 + [1] * 24):
            for st in range(4):
                for s_, e_ in [(0, 0), (0, 47), (24, 22), (13, 13), (47, 0), (5, 6), (46, 47), (1, 0)] + \
                              [(rng.randrange(48), rng.randrange(48)) for _ in range(4 if tier == "quick" else 40)]:
                    cases.append({"kind": "edit-uniform", "day": list(udays), "st": st, "s": [s_ // 2, 30 * (s_ % 2)], "e": [e_ // 2, 30 * (e_ % 2)]})
                for bad in ([24, 0], [25, 30], [12, 60], [99, 99]):
                    cases.append({"kind": "edit-invalid:time", "day": list(udays), "st": st, "s": [12, 0], "e": bad})
                    cases.append({"kind": "edit-invalid:time", "day": list(udays), "st": st, "s": bad, "e": [13, 0]})
        day = [int(b) for b in patterns[0]]
        for _ in range(200):
            kind = rng.choice(["state", "time", "unaligned"])
            c = {"kind": "edit-invalid:" + kind, "day": day, "st": rng.randrange(4), "s": [rng.randrange(24), rng.choice([0, 30])],
                 "e": [rng.randrange(24), rng.choice([0, 30])]}
            if kind == "state":
                c["st"] = rng.choice([4, 5, 9])
            elif kind == "time":
                w = rng.choice(["s", "e"])
                c[w] = rng.choice([[24, 0], [25, 30], [12, 60], [99, 99]])
            else:
                c["s"][1] = rng.randrange(60)
                c["e"][1] = rng.randrange(60)
            cases.append(c)
        nsched = len(G.tables()["schedules"])
        for _ in range(150 if tier == "quick" else 3000):
            k = rng.randrange(1, 4)
            idxs = rng.sample(range(nsched), k)
            scheds = []
            # days are often identical (weekdays alike, same pattern in several schedules), as on real controllers
            pool = [[int(rng.random() < rng.choice([0.1, 0.5, 0.9])) for _ in range(48)] for _ in range(rng.choice([1, 2, 7]))]
            for i in idxs:
                scheds.append({"index": i, "switch": rng.choice([0, 1]), "param": [rng.choice([0, 1, 254, 255, 255, rng.randrange(256)]), rng.choice([0, 0, 10]), rng.choice([255, 255, 254])],
                               "bits": [list(rng.choice(pool)) for _ in range(7)]})
            target = rng.randrange(k)
            rounds = []
            for _ in range(rng.choice([1, 2, 3])):
                edits = []
                for _ in range(rng.choice([0, 0, 1, 3])):
                    s = rng.randrange(47)
                    e = rng.randrange(s + 1, 48)
                    edits.append([rng.randrange(7), rng.randrange(4), [s // 2, 30 * (s % 2)], [e // 2, 30 * (e % 2)]])
                rounds.append(edits)
            # a later round either starts from a freshly received response or goes on editing the same Schedule object
            receive = [True] + [rng.random() < 0.5 for _ in rounds[1:]]
            # a committed request may still be waiting in the write queue when the next response arrives
            defer = [rng.random() < 0.4 for _ in rounds]
            cases.append({"kind": "commit", "scheds": scheds, "target": target, "rounds": rounds, "receive": receive, "defer": defer})
        return cases

    # ---- implementation -----------------------------------------------------------------
    def run_impl(self, c):
        from pyplumio.helpers.schedule import ScheduleDay
        if c["kind"].startswith("edit"):
            d = ScheduleDay([bool(b) for b in c["day"]])
            st = STATES[c["st"]] if c["st"] < 4 else "state%d" % c["st"]
            s = tstr(*c["s"]) if c["s"][0] != 99 else "ab:cd"
            e = tstr(*c["e"]) if c["e"][0] != 99 else "12-30"
            try:
                d.set_state(st, s, e)
                return [[int(b) for b in d.intervals]]
            except ValueError:
                return {"error": "ValueError", "day_after": [int(b) for b in d.intervals]}
            except Exception as ex:  # noqa: BLE001
                return {"error": type(ex).__name__}
        payload = self._payload(c)
        rounds = [[(d, STATES[st], tstr(*s), tstr(*e)) for d, st, s, e in edits] for edits in c["rounds"]]
        try:
            return vloop.run(_commit_path, payload, c["scheds"][c["target"]]["index"], rounds, c.get("receive"), c.get("defer"))
        except Exception as ex:  # noqa: BLE001
            return {"error": type(ex).__name__}

    def _payload(self, c):
        out = [0, 0, len(c["scheds"])]
        bitmaps = model.call_many("spec_bitmap", [s["bits"] for s in c["scheds"]])
        for s, bm in zip(c["scheds"], bitmaps):
            out += [s["index"], s["switch"]] + s["param"] + bm
        return out

    # ---- model ------------------------------------------------------------------------------
    def model_many(self, cases):
        ed = [c for c in cases if c["kind"].startswith("edit")]
        r_ed = model.call_many("set_state", [[c["day"], c["st"], c["s"][0], c["s"][1], c["e"][0], c["e"][1]] for c in ed])
        it = iter(r_ed)
        out = []
        for c in cases:
            if c["kind"].startswith("edit"):
                r = next(it)
                out.append([[int(b) for b in r[0]]] if r else {"error": "ValueError", "day_after": c["day"]})
            else:
                t = c["scheds"][c["target"]]
                frames = []
                days = None
                for k, edits in enumerate(c["rounds"]):
                    if days is None or c.get("receive", [True] * 99)[k]:
                        days = [list(d) for d in t["bits"]]   # the round starts from a freshly received week; otherwise it goes on
                    for d, st, s, e in edits:
                        r = model.call("set_state", [days[d], st, s[0], s[1], e[0], e[1]])
                        days[d] = [int(b) for b in r[0]]
                    bs = model.call("req_bytes", [[7, t["index"], t["switch"], t["param"][0], days], 0x45, 0x56, 48, 5])
                    frames.append([55, 0x45, bs[0][8:-2]])
                out.append(frames)
        self._expected = {id(c): m for c, m in zip(cases, out)}
        return out

    def spec_many(self, cases, behaviours):
        ed = [(c, b) for c, b in zip(cases, behaviours) if c["kind"].startswith("edit")]
        args = []
        for c, b in ed:
            if isinstance(b, dict):
                res = [] if (b.get("error") == "ValueError" and b.get("day_after") == c["day"]) else [[2] * 48]
            else:
                res = [b[0]]
            args.append([c["day"], c["st"], c["s"][0], c["s"][1], c["e"][0], c["e"][1], res])
        r_ed = iter(model.call_many("P18_edit", args))
        out = []
        for c, b in zip(cases, behaviours):
            if c["kind"].startswith("edit"):
                aligned = c["s"][1] in (0, 30) and c["e"][1] in (0, 30)
                r = bool(next(r_ed))
                if not aligned:
                    # outside the aligned quantifier: only "invalid input never edits" is demanded
                    bad_time = not (c["s"][0] < 24 and c["s"][1] < 60 and c["e"][0] < 24 and c["e"][1] < 60)
                    r = (isinstance(b, dict) and b.get("error") == "ValueError") if (bad_time or c["st"] >= 4) else True
                out.append(r)
            else:
                # functional clause: the committed frame is the spec layout of the edited week (computed by the model side)
                exp = getattr(self, "_expected", {}).get(id(c))
                if exp is None:
                    exp = self.model_many([c])[0]
                out.append(b == exp)
        return out

    def obs(self, c, b):
        return b

    def nontrivial_key(self, c, mb):
        if c["kind"] == "commit":
            return repr(c)
        if isinstance(mb, list) and mb[0] != c["day"]:
            return repr((c["day"], c["st"], c["s"], c["e"]))
        return None

    def kind(self, c):
        return c["kind"]


if __name__ == "__main__":
    raise SystemExit(C18().main())

"""C05 -- payload decoding conforms to the ecoNET wire layout for every message."""
from __future__ import annotations

import asyncio
import json
import math
import socket
import struct

from harness import decode_impl as DI
from harness import frames_gen as G
from harness import model, proto_impl as PI, vloop
from harness.common import Prop

NAN32 = [0x7FC00000, 0xFFC00001, 0x7F800001]


def rf32(rng, allow_nan=True):
    r = rng.random()
    if allow_nan and r < 0.2:
        return rng.choice(NAN32)
    if r < 0.3:
        return rng.choice([0, 0x80000000, 0x7F800000, 0xFF800000, 0x3F800000, 0xBF800000])
    return f32bits(rng.uniform(-50, 120))


def f32bits(x):
    return int.from_bytes(struct.pack("<f", x), "little")


def gen_sensor(rng, t):
    kinds = [r["code"] for r in t["frame_types"]]
    nver = rng.choice([0, 0, 1, 3, 7])
    versions = [[rng.choice(kinds + [0x99, 0x54]), rng.choice([0, 1, 255, 256, 65535, rng.randrange(65536)])] for _ in range(nver)]
    temps = [[rng.choice(list(range(len(t["temperatures"]))) + [17, 200]), rf32(rng)] for _ in range(rng.choice([0, 1, 5, 17]))]
    mods = []
    for i in range(6):
        if rng.random() < 0.5:
            mods.append([])
        else:
            b = [rng.randrange(255)] + [rng.randrange(256) for _ in range(2)]
            if i == 0:
                b += [rng.randrange(0x41, 0x5B), rng.randrange(256)]
            mods.append([b])
    lam = [] if rng.random() < 0.5 else [[rng.choice([0, 1, 3, 2, 200]), rng.randrange(256), rng.choice([0, 1, 255, 65535, rng.randrange(65536)])]]
    th = []
    if rng.random() < 0.6:
        th = [[rng.randrange(255), [[rng.randrange(256), rf32(rng), rng.choice([rf32(rng), f32bits(21.5), 0, 0x80000000, f32bits(-3.0)])]
                                    for _ in range(rng.randrange(0, 4))]]]
    mixers = [[rf32(rng), rng.randrange(256), rng.randrange(256), rng.randrange(256), rng.randrange(256)] for _ in range(rng.randrange(0, 6))]
    return [versions, rng.choice(list(range(12)) + [12, 23, 30, 255]), rng.getrandbits(32), rng.getrandbits(32), temps,
            [rng.randrange(256) for _ in range(4)], [rng.randrange(256) for _ in range(rng.choice([0, 0, 1, 4]))],
            rng.choice([0, 50, 100, 101, 150, 201, 254, 255]), rng.randrange(256), rf32(rng), rng.choice([0, 30, 100, 255]),
            rf32(rng), rf32(rng), rng.randrange(256), mods, lam, th, mixers]


# ---- regulator data: independent reading of the layout --------------------------------------------
def gen_regdata(rng, bit_runs=False):
    """returns (schema [(id, type)], expected values, payload bytes); bit_runs: runs of bit entries (most of them not filling
    their last byte) separated by single entries of another type, the zero-sized undefined types among them often"""
    ids = rng.sample(range(2000), rng.randrange(1, 14) if not bit_runs else rng.randrange(5, 30))
    schema, values = [], []
    types_pool = [1, 2, 3, 4, 5, 6, 7, 9, 10, 10, 10, 11, 12, 13, 14, 15, 16, 0, 8]
    i = 0
    want_bits = True
    while i < len(ids):
        ty = rng.choice(types_pool)
        if bit_runs:
            ty = 10 if want_bits else rng.choice([0, 8, 0, 8, 4, 5, 11, 7])
            want_bits = not want_bits
        if ty == 10:
            run = rng.randrange(1, 18) if not bit_runs else rng.choice([1, 2, 3, 5, 7, 8, 9, 10, 13])
            for _ in range(run):
                if i >= len(ids):
                    break
                schema.append([ids[i], 10])
                values.append(["bit", rng.random() < 0.5])
                i += 1
            continue
        schema.append([ids[i], ty])
        i += 1
        if ty in (0, 8):
            values.append(["none"])
        elif ty in (1, 2, 3, 13):
            w = {1: 1, 2: 2, 3: 4, 13: 8}[ty]
            values.append(["int", rng.choice([-(1 << (8 * w - 1)), (1 << (8 * w - 1)) - 1, 0, -1, rng.randrange(-(1 << (8 * w - 1)), 1 << (8 * w - 1))]), w, True])
        elif ty in (4, 5, 6, 14):
            w = {4: 1, 5: 2, 6: 4, 14: 8}[ty]
            values.append(["int", rng.choice([0, (1 << (8 * w)) - 1, rng.randrange(1 << (8 * w))]), w, False])
        elif ty == 7:
            values.append(["f32", rf32(rng, allow_nan=False)])
        elif ty == 9:
            values.append(["f64", int.from_bytes(struct.pack("<d", rng.uniform(-1e6, 1e6)), "little")])
        elif ty in (11, 12):
            values.append(["str", [rng.randrange(0x20, 0x7F) for _ in range(rng.choice([0, 1, 7, 15, 16, 17, 24, 40, rng.randrange(0, 9)]))]])
        elif ty == 15:
            values.append(["ip", [rng.randrange(256) for _ in range(4)]])
        else:
            values.append(["ip", [rng.choice([0, rng.randrange(256)]) for _ in range(16)]])
    body = bytearray()
    bits = []

    def flush():
        nonlocal bits
        if bits:
            body.append(sum((1 << k) for k, b in enumerate(bits) if b))
            bits = []
    for v in values:
        if v[0] == "bit":
            bits.append(v[1])
            if len(bits) == 8:
                flush()
            continue
        flush()
        if v[0] == "int":
            body += int(v[1]).to_bytes(v[2], "little", signed=v[3])
        elif v[0] == "f32":
            body += v[1].to_bytes(4, "little")
        elif v[0] == "f64":
            body += v[1].to_bytes(8, "little")
        elif v[0] == "str":
            body += bytes(v[1]) + b"\0"
        elif v[0] == "ip":
            body += bytes(v[1])
    flush()
    versions = [[rng.choice([0x31, 0x32, 0x36, 0x3D, 0x55, 0x55]), rng.randrange(65536)] for _ in range(rng.randrange(0, 3))]
    head = bytes([rng.randrange(256), rng.randrange(256), 0, 1, len(versions)]) + b"".join(bytes([c, v & 255, v >> 8]) for c, v in versions)
    return schema, values, versions, bytes(head) + bytes(body) + bytes(rng.randrange(256) for _ in range(rng.choice([0, 0, 3]))), bytes(body)


def expected_regdata(values):
    out = []
    for v in values:
        if v[0] == "bit":
            out.append([4, v[1]])
        elif v[0] == "none":
            out.append([0])
        elif v[0] == "int":
            out.append([1, v[1]])
        elif v[0] in ("f32", "f64"):
            out.append([2, v[1]])
        else:
            out.append([3, v[1]])
    return out


def canon_regvalue(val, ty):
    if val is None:
        return [0]
    if isinstance(val, bool):
        return [4, val]
    if isinstance(val, int):
        return [1, val]
    if isinstance(val, float):
        return [2, int.from_bytes(struct.pack("<f" if ty == 7 else "<d", val), "little")]
    if isinstance(val, str):
        if ty == 15:
            return [3, list(socket.inet_aton(val))]
        if ty == 16:
            return [3, list(socket.inet_pton(socket.AF_INET6, val))]
        return [3, list(val.encode())]
    return ["other", repr(val)]


class C05(Prop):
    id = "C05"
    prop_file = "Props/C05.v"
    rule = ("abstract message values rendered by the Coq spec encoders and decoded by the real frame classes: sensor data with every presence "
            "combination of modules / lambda / thermostat block / 0-5 mixers, NaN and sentinel values; regulator data over all 17 type ids with "
            "bit runs of length 1..17 crossing byte boundaries followed by every other type (independent layout encoder); regulator data schema; "
            "ecoMAX / mixer / thermostat parameter blocks with arbitrary start / count / holes and 1- and 2-byte slots; schedules; alerts with "
            "open and closed intervals; UID; password; with and without an owning device where the decoder depends on it; plus every capture "
            "of tests/testdata.  Each payload is decoded twice (determinism) and compared before / after (immutability).  Non-trivial = the "
            "decoded value is not empty; distinct by (kind, payload).")
    assumptions = ["format_model_name (a regular expression) and datetime validity are mirrored in the harness canonicaliser",
                   "float32 -> double widening and text decoding are CPython's"]

    # ------------------------------------------------------------------ generation
    def generate(self, rng, tier):
        t = G.tables()
        n = 120 if tier == "quick" else 2500
        cases = []
        for _ in range(n):
            cases.append({"kind": "sensor", "val": gen_sensor(rng, t), "trailing": [rng.randrange(256) for _ in range(rng.choice([0, 0, 2]))]})
        for k in range(n + n // 2):
            schema, values, versions, payload, body = gen_regdata(rng, bit_runs=k >= n)
            cases.append({"kind": "regdata", "schema": schema, "values": values, "versions": versions, "payload": list(payload),
                          "body": list(body), "early": rng.choice([None, None, "repr", "data"]),
                          # the device may have seen announcements before (other versions of the kinds this message lists)
                          "seen": ({c_: (v_ + rng.choice([0, 1, 7])) % 65536 for c_, v_ in versions} if versions and rng.random() < 0.5 else None)})
        for _ in range(n // 2):
            l = [[rng.randrange(65536), rng.randrange(17)] for _ in range(rng.choice([0, 1, 5, 40]))]
            cases.append({"kind": "schema", "val": l})
        for _ in range(n):
            slots = self._slots(rng, rng.choice([0, 1, 10, 40]))
            cases.append({"kind": "ecomax_params", "enc": [rng.randrange(256), rng.randrange(0, 200), slots]})
            count = rng.randrange(0, 12)
            cases.append({"kind": "mixer_params", "enc": [rng.randrange(256), rng.randrange(0, 20), count,
                                                         [self._slots(rng, count, hole_p=rng.choice([0.1, 0.5, 1.0])) for _ in range(rng.randrange(0, 5))]]})
            nth = rng.choice([1, 2, 3])
            per = rng.randrange(0, len(t["thermostat_params"]) + 1)
            size_of = lambda i: t["thermostat_params"][i]["size"]
            cases.append({"kind": "thermostat_params", "thermostats": nth, "early": rng.choice([None, None, "repr", "data"]),
                          "enc": [rng.randrange(256), per, self._slots(rng, 1)[0], [self._slots(rng, per, size_of) for _ in range(nth)]]})
            ss = [[rng.randrange(len(t["schedules"])), rng.choice([0, 1]), self._slots(rng, 1)[0],
                   [[int(rng.random() < 0.5) for _ in range(48)] for _ in range(7)]] for _ in range(rng.randrange(0, 4))]
            cases.append({"kind": "schedules", "enc": [rng.randrange(256), rng.randrange(256), ss]})
        for _ in range(n // 2):
            alerts = []
            for _ in range(rng.choice([0, 1, 3])):
                y, mo, d = rng.randrange(0, 60), rng.randrange(0, 12), rng.randrange(0, 27)
                ts = y * 32140800 + mo * 2678400 + d * 86400 + rng.randrange(86400)
                alerts.append([rng.choice([0, 5, 26, 200, 255]), ts, rng.choice([0xFFFFFFFF, ts - ts % 86400 + rng.randrange(0, 86400 * 2)])])
            cases.append({"kind": "alerts", "total": rng.randrange(256), "start": rng.randrange(256), "alerts": alerts})
            uid = [rng.randrange(256) for _ in range(rng.choice([0, 1, 11, 20]))]
            name = rng.choice(["EM350P2-ZF", "ecoMAX 850P2-C", "K1PRv4PZ", "ecoMAXX800R3", "", "EM 860P6-O", "żółw"])
            cases.append({"kind": "uid", "type": rng.choice([0, 1]), "id": rng.randrange(65536), "uid": uid, "logo": rng.randrange(65536),
                          "image": rng.randrange(65536), "model": list(name.encode())})
            cases.append({"kind": "password", "b0": rng.randrange(256), "text": [rng.randrange(0x20, 0x7F) for _ in range(rng.choice([0, 4, 8]))]})
        # captures of tests/testdata
        for c in cases:
            if rng.random() < 0.3:
                c["context"] = True
        for path in ("messages/sensor_data.json", "messages/regulator_data.json", "responses/ecomax_parameters.json",
                     "responses/mixer_parameters.json", "responses/thermostat_parameters.json", "responses/schedules.json",
                     "responses/alerts.json", "responses/uid.json", "responses/password.json", "responses/regulator_data_schema.json"):
            for x in json.load(open("/repo/tests/testdata/" + path)):
                m = x["message"]
                items = m["items"] if isinstance(m, dict) else m
                payload = bytes.fromhex("".join(items) if isinstance(items, list) else items)
                cases.append({"kind": "capture:" + path.split("/")[1][:-5], "id": x["id"], "payload": list(payload)})
        return cases

    def _slots(self, rng, n, size_of=lambda i: 1, hole_p=0.25):
        out = []
        for i in range(n):
            if rng.random() < hole_p:
                out.append([])
            else:
                top = 256 ** size_of(i) - 1
                v = [rng.choice([0, top, rng.randrange(top + 1)]) for _ in range(3)]
                if v == [top, top, top]:
                    v[1] = 0
                out.append([v])
        return out

    # ------------------------------------------------------------------ payloads
    def _payload(self, c):
        if "payload" in c:
            return bytes(c["payload"])
        k = c["kind"]
        if k == "sensor":
            p = bytes(model.call("enc_sensor", c["val"])) + bytes(c["trailing"])
        elif k == "schema":
            p = bytes(model.call("enc_schema", c["val"]))
        elif k == "ecomax_params":
            p = bytes(model.call("enc_ecomax_params", c["enc"]))
        elif k == "mixer_params":
            p = bytes(model.call("enc_mixer_params", c["enc"]))
        elif k == "thermostat_params":
            p = bytes(model.call("enc_thermostat_params", c["enc"]))
        elif k == "schedules":
            p = bytes(model.call("enc_schedules", c["enc"]))
        elif k == "alerts":
            p = bytes([c["total"], c["start"], len(c["alerts"])]) + b"".join(bytes([a]) + f.to_bytes(4, "little") + t.to_bytes(4, "little") for a, f, t in c["alerts"])
        elif k == "uid":
            p = bytes([c["type"]]) + c["id"].to_bytes(2, "little") + bytes([len(c["uid"])]) + bytes(c["uid"]) + \
                c["logo"].to_bytes(2, "little") + c["image"].to_bytes(2, "little") + bytes([len(c["model"])]) + bytes(c["model"])
        else:
            p = bytes([c["b0"]]) + bytes(c["text"])
        c["payload"] = list(p)
        return p

    # ------------------------------------------------------------------ implementation
    def run_impl(self, c):
        from pyplumio.devices.ecomax import EcoMAX
        from pyplumio.frames import messages as M
        from pyplumio.frames import responses as R
        from pyplumio.structures.network_info import NetworkInfo
        t = G.tables()
        payload = self._payload(c)
        k = c["kind"].split(":")[-1] if c["kind"].startswith("capture:") else c["kind"]
        cls = {"sensor": M.SensorDataMessage, "sensor_data": M.SensorDataMessage, "regdata": M.RegulatorDataMessage,
               "regulator_data": M.RegulatorDataMessage, "schema": R.RegulatorDataSchemaResponse,
               "regulator_data_schema": R.RegulatorDataSchemaResponse, "ecomax_params": R.EcomaxParametersResponse,
               "ecomax_parameters": R.EcomaxParametersResponse, "mixer_params": R.MixerParametersResponse,
               "mixer_parameters": R.MixerParametersResponse, "thermostat_params": R.ThermostatParametersResponse,
               "thermostat_parameters": R.ThermostatParametersResponse, "schedules": R.SchedulesResponse, "alerts": R.AlertsResponse,
               "uid": R.UIDResponse, "password": R.PasswordResponse}[k]

        def scribble(x, depth=0):
            """change a decoded result in place, the way a caller editing it would (flags flipped, numbers bumped)"""
            if depth > 6:
                return
            if isinstance(x, list):
                for i, e in enumerate(x):
                    if isinstance(e, bool):
                        x[i] = not e
                    elif isinstance(e, int):
                        x[i] = e + 1
                    else:
                        scribble(e, depth + 1)
            elif isinstance(x, dict):
                for kk, e in list(x.items()):
                    if isinstance(e, bool):
                        x[kk] = not e
                    elif isinstance(e, (int, float)) and e == e:
                        x[kk] = e + 1
                    else:
                        scribble(e, depth + 1)
            elif isinstance(x, tuple):
                for e in x:
                    scribble(e, depth + 1)
            elif hasattr(x, "__dataclass_fields__"):
                for name in x.__dataclass_fields__:
                    try:
                        e = getattr(x, name)
                        if isinstance(e, bool):
                            setattr(x, name, not e)
                        elif isinstance(e, int):
                            setattr(x, name, e + 1)
                        else:
                            scribble(e, depth + 1)
                    except Exception:  # noqa: BLE001  (frozen dataclasses)
                        pass

        def context_device():
            """a real ecoMAX that has already handled other traffic (a sensor-data message listing mixers and thermostats none of
            which is connected, then product information): what a frame decodes to must not depend on it"""
            async def build():
                dev = EcoMAX(asyncio.Queue(), network=NetworkInfo())
                nan = 0x7FC00000
                val = [[], 0, 0, 0, [], [0, 0, 0, 0], [], 50, 0, nan, 0, nan, nan, 0, [[] for _ in range(6)], [],
                       [[0, [[0, nan, 0], [0, nan, 0]]]], [[nan, 0, 0, 0, 0], [nan, 0, 0, 0, 0], [nan, 0, 0, 0, 0]]]
                dev.handle_frame(M.SensorDataMessage(message=bytearray(model.call("enc_sensor", val))))
                for _ in range(8):
                    pending = [t for t in dev.tasks if not t.done() and "setup" not in t.get_name()]
                    if pending:
                        await asyncio.wait(pending, timeout=0)
                    await asyncio.sleep(0)
                return dev
            return vloop.run(build)

        with_context = bool(c.get("context")) and k not in ("regdata", "regulator_data", "thermostat_params", "thermostat_parameters")

        def decode_once(scribble_after=False):
            buf = bytearray(payload)
            fr = cls(message=buf)
            dev = None
            if with_context:
                fr.assign_to(context_device())
            if k in ("regdata", "regulator_data", "thermostat_params", "thermostat_parameters"):
                dev = EcoMAX(asyncio.Queue(), network=NetworkInfo())
                if k in ("regdata",):
                    from pyplumio.helpers.data_types import DATA_TYPES
                    dev.data["regdata_schema"] = [(i, DATA_TYPES[ty]()) for i, ty in c["schema"]]
                    if c.get("seen"):
                        async def announce(dev=dev, seen=c["seen"]):
                            await dev.dispatch("frame_versions", {int(a): int(b) for a, b in seen.items()})
                            for t in list(dev.tasks):
                                t.cancel()
                            await asyncio.gather(*dev.tasks, return_exceptions=True)
                        vloop.run(announce)
                if k == "thermostat_params":
                    dev.data["thermostats_available"] = c["thermostats"]
                if k == "thermostat_parameters":
                    dev.data["thermostats_available"] = 3 if c["id"].startswith("3_") else 0
                if c.get("early"):
                    # the frame is looked at BEFORE it is handed to its device -- what the reader's debug log line does with every
                    # received frame (repr) when debug logging is on; what it decodes to for its device must not depend on that
                    try:
                        _ = repr(fr) if c["early"] == "repr" else fr.data
                    except Exception:  # noqa: BLE001
                        pass
                fr.assign_to(dev)
            try:
                data = fr.data
            except Exception as e:  # noqa: BLE001
                return {"error": type(e).__name__}, bytes(buf) == payload
            try:
                canon = self._canon(k, c, data, t)
            except Exception as e:  # noqa: BLE001
                # the decoded data does not have the documented shape (e.g. None where a mapping belongs): that is the observation
                canon = {"uncanonical": type(e).__name__, "data": repr(data)[:200]}
            if scribble_after:
                scribble(data)
            return canon, bytes(buf) == payload
        # the first result is edited in place by its caller before the same bytes are decoded again (from a fresh frame)
        a, same1 = decode_once(scribble_after=True)
        b, same2 = decode_once()
        return {"decoded": a, "deterministic": a == b, "payload_untouched": same1 and same2}

    def _canon(self, k, c, data, t):
        if k in ("sensor", "sensor_data"):
            return DI.canon_sensors(data["sensors"], t)
        if k in ("regdata", "regulator_data"):
            rd = data.get("regdata")
            vers = [[int(a), int(b)] for a, b in data.get("frame_versions", {}).items()]
            if rd is None:
                return [vers, []]
            types = {i: ty for i, ty in c.get("schema", [])}
            return [vers, [[[int(i), canon_regvalue(v, types.get(i))] for i, v in rd.items()]]]
        if k in ("schema", "regulator_data_schema"):
            s = data.get("regdata_schema")
            from pyplumio.helpers.data_types import DATA_TYPES
            return [] if s is None else [[[int(i), self._type_id(dt)] for i, dt in s]]
        pv = lambda p: [p.value, p.min_value, p.max_value]
        if k in ("ecomax_params", "ecomax_parameters"):
            return [[i, pv(p)] for i, p in data["ecomax_parameters"]]
        if k in ("mixer_params", "mixer_parameters"):
            return [[m, [[i, pv(p)] for i, p in ps]] for m, ps in data["mixer_parameters"].items()]
        if k in ("thermostat_params", "thermostat_parameters"):
            tp = data.get("thermostat_parameters")
            if tp is None:
                return []
            prof = data.get("thermostat_profile")
            return [[([pv(prof)] if prof else []), [[tt, [[i, pv(p)] for i, p in ps]] for tt, ps in tp.items()]]]
        if k == "schedules":
            return [[[i, [[int(b) for b in d] for d in w]] for i, w in data.get("schedules", [])],
                    [[i, pv(p)] for i, p in data.get("schedule_parameters", [])]]
        if k == "alerts":
            al = data.get("alerts")
            return [data["total_alerts"], ([] if al is None else [[[int(a.code), DI.dt6(a.from_dt), ([DI.dt6(a.to_dt)] if a.to_dt else [])] for a in al]])]
        if k == "uid":
            p = data["product"]
            return [int(p.type), p.id, DI.uid_digits(p.uid), p.logo, p.image, p.model]
        if k == "password":
            return [] if data["password"] is None else [list(data["password"].encode())]
        return ["unknown-kind"]

    @staticmethod
    def _type_id(dt):
        from pyplumio.helpers import data_types as DT
        order = [DT.Undefined, DT.SignedChar, DT.Short, DT.Int, DT.UnsignedChar, DT.UnsignedShort, DT.UnsignedInt, DT.Float, None,
                 DT.Double, DT.BitArray, DT.String, None, DT.Int64, DT.UInt64, DT.IPv4, DT.IPv6]
        return type(dt).__name__

    # ------------------------------------------------------------------ model
    def model_many(self, cases):
        t = G.tables()
        out = []
        for c in cases:
            payload = self._payload(c)
            k = c["kind"].split(":")[-1] if c["kind"].startswith("capture:") else c["kind"]
            out.append({"decoded": self._model_one(k, c, payload, t), "deterministic": True, "payload_untouched": True})
        return out

    def _model_one(self, k, c, payload, t):
        err = {"error": True}
        if k in ("sensor", "sensor_data"):
            m = model.call("decode_sensor", payload)
            if not m:
                return err
            ms = m[0][0]
            ms[2] &= (1 << len(t["outputs"])) - 1
            ms[3] = DI.mask_flags(ms[3])
            ms[0] = [list(x) for x in ms[0]]
            ms[4] = [list(x) for x in ms[4]]
            ms[16] = [[x[0], [[a, b, cc, dd, bool(e), bool(f)] for a, b, cc, dd, e, f in x[1]]] for x in ms[16]]
            ms[17] = [ms[17][0], [[a, b, cc, bool(dd)] for a, b, cc, dd in ms[17][1]]]
            return ms
        if k in ("regdata", "regulator_data"):
            schema = [c["schema"]] if c.get("schema") else []
            m = model.call("decode_regdata", [schema, payload])
            if not m:
                return err
            if not m[0]:
                return [[], []]
            vers, rd = m[0][0]
            fixv = lambda v: [4, bool(v[1])] if v[0] == 4 else v
            return [[list(x) for x in vers], ([[[i, fixv(v)] for i, v in rd[0]]] if rd else [])]
        if k in ("schema", "regulator_data_schema"):
            m = model.call("decode_schema", payload)
            if not m:
                return err
            names = t["data_types"]
            return [[[i, names[ty]] for i, ty in m[0][0]]] if m[0] else []
        if k in ("ecomax_params", "ecomax_parameters"):
            m = model.call("decode_ecomax_params", payload)
            return [[i, list(p)] for i, p in m[0]] if m else err
        if k in ("mixer_params", "mixer_parameters"):
            m = model.call("decode_mixer_params", payload)
            return [[mm, [[i, list(p)] for i, p in ps]] for mm, ps in m[0]] if m else err
        if k in ("thermostat_params", "thermostat_parameters"):
            n = c.get("thermostats", 3 if c.get("id", "").startswith("3_") else 0)
            m = model.call("decode_thermostat_params", [n, payload])
            if not m:
                return err
            if not m[0]:
                return []
            prof, blocks = m[0][0]
            return [[[list(prof[0])] if prof else [], [[tt, [[i, list(p)] for i, p in ps]] for tt, ps in blocks]]]
        if k == "schedules":
            m = model.call("decode_schedules", payload)
            if not m:
                return err
            ss, ps = m[0]
            return [[[i, [[int(b) for b in d] for d in w]] for i, w in ss], [[i, list(p)] for i, p in ps]]
        if k == "alerts":
            m = model.call("decode_alerts", payload)
            if not m:
                return err
            total, al = m[0]
            return [total, ([[[a, list(f), ([list(tt[0])] if tt else [])] for a, f, tt in al[0]]] if al else [])]
        if k == "uid":
            m = model.call("decode_product", payload)
            if not m:
                return err
            ty, pid, uid, logo, image, mname = m[0]
            return [ty, pid, uid, logo, image, DI.format_model_name(bytes(mname).decode("utf-8", "replace"))]
        if k == "password":
            m = model.call("decode_password", payload)
            return [m[0]] if m else []
        return ["unknown-kind"]

    def obs(self, c, b):
        d = b["decoded"]
        if isinstance(d, dict) and ("error" in d):
            d = {"error": True}
        return [d, b["deterministic"], b["payload_untouched"]]

    # ------------------------------------------------------------------ spec on the implementation
    def spec_many(self, cases, behaviours):
        t = G.tables()
        out = []
        views = iter(model.call_many("view_sensor", [c["val"] for c in cases if c["kind"] == "sensor"]))
        for c, b in zip(cases, behaviours):
            ok = b["deterministic"] and b["payload_untouched"]
            d = b["decoded"]
            k = c["kind"]
            if k == "sensor":
                ms = next(views)
                ms[2] &= (1 << len(t["outputs"])) - 1
                ms[3] = DI.mask_flags(ms[3])
                ms[0] = [list(x) for x in ms[0]]
                ms[4] = [list(x) for x in ms[4]]
                ms[16] = [[x[0], [[a, bb, cc, dd, bool(e), bool(f)] for a, bb, cc, dd, e, f in x[1]]] for x in ms[16]]
                ms[17] = [ms[17][0], [[a, bb, cc, bool(dd)] for a, bb, cc, dd in ms[17][1]]]
                ok = ok and d == ms
            elif k == "regdata":
                exp = [[list(x) for x in self._dict(c["versions"])], [[[i, v] for (i, _), v in zip(c["schema"], expected_regdata(c["values"]))]]]
                ok = ok and d == exp
                if "body" in c:
                    # the layout the theorem C05_regdata is about (Spec/C05r.v) is the layout the generator wrote
                    enc = model.call("enc_regdata", [[i, ty, (v if v[0] != 3 else [3, bytes(v[1])])]
                                                     for (i, ty), v in zip(c["schema"], expected_regdata(c["values"]))])
                    ok = ok and bool(enc[0]) and list(enc[1]) == list(c["body"])
            elif k == "schema":
                names = t["data_types"]
                ok = ok and d == ([[[i, names[ty]] for i, ty in c["val"]]] if c["val"] else [])
            elif k == "ecomax_params":
                start, slots = c["enc"][1], c["enc"][2]
                ok = ok and d == [[start + i, s[0]] for i, s in enumerate(slots) if s]
            elif k == "mixer_params":
                start, blocks = c["enc"][1], c["enc"][3]
                exp = [[m, [[start + i, s[0]] for i, s in enumerate(b_) if s]] for m, b_ in enumerate(blocks)]
                ok = ok and d == [e for e in exp if e[1]]
            elif k == "thermostat_params":
                per, prof, blocks = c["enc"][1], c["enc"][2], c["enc"][3]
                exp = [[tt, [[i, s[0]] for i, s in enumerate(b_) if s]] for tt, b_ in enumerate(blocks)]
                ok = ok and d == [[[prof[0]] if prof else [], [e for e in exp if e[1]]]]
            elif k == "schedules":
                ss = c["enc"][2]
                params = []
                for idx, sw, par, week in ss:
                    params.append([idx * 2, [sw, 0, 1]])
                    if par:
                        params.append([idx * 2 + 1, par[0]])
                ok = ok and d == [[[idx, week] for idx, sw, par, week in ss], params]
            elif k == "alerts":
                ok = ok and not (isinstance(d, dict)) and d[0] == c["total"] and len(d[1][0] if d[1] else []) == len(c["alerts"])
            elif k == "uid":
                ok = ok and not isinstance(d, dict) and d[:2] == [c["type"], c["id"]] and d[3:5] == [c["logo"], c["image"]]
                if ok and "uid" in c:
                    # the UID text is the canonical base-32 numeral of (UID bytes ++ CRC-16) read little-endian (statement of C05_uid),
                    # computed here independently of the library and of the model
                    crc = 0xA3A3
                    for byte in c["uid"]:
                        crc ^= byte
                        for _ in range(8):
                            crc = (crc >> 1) ^ 0xA001 if crc & 1 else crc >> 1
                    num = int.from_bytes(bytes(c["uid"]) + crc.to_bytes(2, "little"), "little")
                    digits = []
                    while num:
                        digits.insert(0, num % 32)
                        num //= 32
                    ok = d[2] == digits
            elif k == "password":
                ok = ok and d == ([c["text"]] if c["text"] else [])
            else:
                ok = ok and not (isinstance(d, dict) and "error" in d)
            out.append(bool(ok))
        return out

    @staticmethod
    def _dict(pairs):
        d = {}
        for a, b in pairs:
            d[a] = b
        return [[a, b] for a, b in d.items()]

    def nontrivial_key(self, c, mb):
        return (c["kind"], bytes(c["payload"]).hex()) if mb["decoded"] not in ([], {"error": True}) else None

    def kind(self, c):
        return c["kind"]


if __name__ == "__main__":
    raise SystemExit(C05().main())

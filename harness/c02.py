"""C02 -- every transmitted frame is a well-formed frame with the intended fields."""
from __future__ import annotations

import asyncio

from harness import frames_gen as G
from harness import frames_impl as FI
from harness import model, vloop
from harness.common import Prop

PARAM_CODES = (49, 50, 92)
PLAIN_CODES = (24, 25, 48, 54, 57, 58, 64, 85)


class FakeWriter:
    def __init__(self):
        self.data = bytearray()
        self.closed = False

    def write(self, b):
        self.data += b

    async def drain(self):
        return None

    def close(self):
        self.closed = True

    async def wait_closed(self):
        return None


def build_request(req, rcpt, sender, etype, ever):
    from pyplumio.structures.schedules import SCHEDULES
    tag = req[0]
    if tag == 0:
        cls, data = FI.frame_class(req[1]), None
    elif tag == 1:
        cls, data = FI.frame_class(req[1]), {"count": req[2], "start": req[3]}
    elif tag == 2:
        cls, data = FI.frame_class(51), {"index": req[1], "value": req[2]}
    elif tag == 3:
        cls, data = FI.frame_class(52), {"device_index": req[1], "index": req[2], "value": req[3]}
    elif tag == 4:
        cls, data = FI.frame_class(93), {"index": req[1], "offset": (req[2][0] if req[2] else None), "value": req[3],
                                        "size": req[4]}
    elif tag == 5:
        cls, data = FI.frame_class(59), {"value": req[1]}
    elif tag == 6:
        cls, data = FI.frame_class(61), {"start": req[1], "count": req[2]}
    else:
        cls, data = FI.frame_class(55), {"type": SCHEDULES[req[1]], "switch": req[2], "parameter": req[3],
                                        "schedule": [[bool(b) for b in d] for d in req[4]]}
    return cls(recipient=FI.addr(rcpt), sender=FI.addr(sender), econet_type=etype, econet_version=ever, data=data)


async def _live_schedule_request(req):
    """the set-schedule request as the library itself builds it: data = the live Schedule / switch / parameter objects of a
    real ecoMAX that has received this schedule (Schedule.commit())"""
    from pyplumio.devices.ecomax import EcoMAX
    from pyplumio.frames.responses import SchedulesResponse
    from pyplumio.structures.network_info import NetworkInfo
    from pyplumio.structures.schedules import SCHEDULES
    _, idx, switch, param, days = req
    q = asyncio.Queue()
    dev = EcoMAX(q, network=NetworkInfo())
    payload = model.call("enc_schedules", [0, 0, [[idx, switch, [[param, 0, 255]], days]]])
    dev.handle_frame(SchedulesResponse(message=bytearray(payload)))
    for _ in range(6):
        pending = [t for t in dev.tasks if not t.done()]
        if pending:
            await asyncio.gather(*pending, return_exceptions=True)
        await asyncio.sleep(0)
    await dev.data["schedules"][SCHEDULES[idx]].commit()
    frame = q.get_nowait()
    return frame


async def _write_through(frame):
    from pyplumio.stream import FrameWriter
    w = FakeWriter()
    await FrameWriter(w).write(frame)
    return bytes(w.data)


class C02(Prop):
    id = "C02"
    prop_file = "Props/C02.v"
    rule = ("all 33 kinds x addresses x type/version bytes with arbitrary message payloads (envelope); every parameterised request with "
            "boundary values 0,1,254,255 per byte field, 2-byte thermostat values 0,255,256,65535, all 40 schedule kinds with random 7x48 "
            "bitmaps; bytes taken from Frame.bytes and from a fake transport behind the real FrameWriter; a quarter of the cases again on a frame object "
            "that was first serialised with other header fields / payload / data and then re-assigned (reused:*); device-available and "
            "program-version responses built by the library from data objects, compared with the Coq encoders.  Non-trivial = bytes were produced; "
            "distinct by case content.")
    assumptions = ["chunked / partial transmission by the OS below asyncio.StreamWriter is outside the model"]

    def generate(self, rng, tier):
        t = G.tables()
        kinds = [r["code"] for r in t["frame_types"]]
        nsched = len(t["schedules"])
        cases = []
        n = 1200 if tier == "quick" else 25000
        bvals = [0, 1, 254, 255]
        for k in kinds:
            for _ in range(3 if tier == "quick" else 40):
                f, _ = G.rand_frame(rng, [k], own=rng.random() < 0.5, known_sender=rng.random() < 0.7, known_kind=True,
                                    maxlen=rng.choice([0, 5, 50, 990]))
                cases.append({"kind": "envelope", "f": [f[0], f[1], f[2], f[3], f[4], list(f[5])]})
        for _ in range(n):
            tag = rng.randrange(8)
            bv = lambda: rng.choice(bvals + [rng.randrange(256)])
            if tag == 0:
                req = [0, rng.choice(PLAIN_CODES)]
            elif tag == 1:
                req = [1, rng.choice(PARAM_CODES), bv(), bv()]
            elif tag == 2:
                req = [2, bv(), bv()]
            elif tag == 3:
                req = [3, bv(), bv(), bv()]
            elif tag == 4:
                size = rng.choice([1, 2])
                val = rng.choice([0, 255] if size == 1 else [0, 255, 256, 65535]) if rng.random() < 0.5 else rng.randrange(256 ** size)
                idx = rng.randrange(0, 40)
                off = rng.choice([None, 0, 12, 24, rng.randrange(0, 200)])
                req = [4, idx, ([] if off is None else [off]), val, size]
            elif tag == 5:
                req = [5, rng.choice([0, 1, bv()])]
            elif tag == 6:
                req = [6, bv(), bv()]
            else:
                days = [[rng.random() < rng.choice([0.1, 0.5, 0.9]) for _ in range(48)] for _ in range(7)]
                req = [7, rng.randrange(nsched), rng.choice([0, 1]), bv(), [[int(b) for b in d] for d in days]]
            cases.append({"kind": "request:%d" % tag, "req": req, "rcpt": rng.choice([0x45, 0, 0x51, rng.randrange(256)]),
                          "sender": rng.choice([0x56, rng.randrange(256)]), "etype": rng.choice([48, rng.randrange(256)]),
                          "ever": rng.choice([5, rng.randrange(256)])})
            if tag == 7 and rng.random() < 0.4:
                # the same request as Schedule.commit() of a real device builds it (live objects as data; addressed to the ecoMAX)
                cases.append({"kind": "request:7:live", "req": [7, req[1], req[2], req[3] if req[3] != 255 else 254, req[4]], "rcpt": 0x45,
                              "sender": 0x56, "etype": 48, "ever": 5, "live": True})
        # the two responses the library builds from data: device available (every network configuration) and program version;
        # their payload is the Coq encoder's, the frame is built by the library from the data objects
        for _ in range(60 if tier == "quick" else 1500):
            net = [[rng.randrange(256) for _ in range(4)] for _ in range(3)] + [rng.random() < 0.5] + \
                  [[rng.choice([0, rng.randrange(256)]) for _ in range(4)] for _ in range(3)] + \
                  [rng.random() < 0.5, rng.randrange(5), rng.randrange(256), rng.random() < 0.5,
                   list(rng.choice(["", "home", "zażółć", "x" * 32]).encode())]
            m = model.call("encode_netinfo", net)
            if m:
                cases.append({"kind": "response:device-available", "from_net": net,
                              "f": [0xB0, rng.choice([0x45, 0, 0x51]), rng.choice([0x56, 0x45]), rng.choice([48, rng.randrange(256)]),
                                    rng.choice([5, rng.randrange(256)]), list(m[0])]})
            ver = [[rng.randrange(256) for _ in range(2)], rng.randrange(256), [rng.randrange(256) for _ in range(2)],
                   [rng.randrange(256) for _ in range(3)], rng.choice([0, 1, 255, 256, 65535, rng.randrange(65536)]),
                   rng.randrange(65536), rng.randrange(65536)]
            sender = rng.choice([0x56, 0x45, rng.randrange(256)])
            m = model.call("encode_version", [ver, sender])
            if m:
                cases.append({"kind": "response:program-version", "from_ver": ver,
                              "f": [0xC0, rng.choice([0x45, 0]), sender, rng.choice([48, rng.randrange(256)]), rng.choice([5, rng.randrange(256)]),
                                    list(m[0])]})
        # program-version responses WITHOUT version data (what the library answers a controller's request with): the default version
        # structure, its last byte the address of the frame's sender -- for every sender
        sw = [int(x) for x in str(G.tables().get("software_version") or "0.0.0").split(".")]
        default_ver = [[0xFF, 0xFF], 5, [0x7A, 0x00], [0, 0, 0], sw[0], sw[1], sw[2]]
        for sender in (0x56, 0x45, 0x51, 0x00):
            for rcpt in (0x45, 0x00):
                m = model.call("encode_version", [default_ver, sender])
                if m:
                    cases.append({"kind": "response:program-version:default", "from_ver": "default",
                                  "f": [0xC0, rcpt, sender, 48, 5, list(m[0])]})
        # one frame object serialised, then given other header fields / payload / data, and serialised again:
        # the second serialisation must be that of the fields it has then
        reused = []
        for c in cases:
            if rng.random() >= 0.25 or c["kind"].startswith("response:") or c.get("live"):
                continue
            d = dict(c)
            hdr = {"rcpt": rng.choice([0x45, 0, 0x51, rng.randrange(256)]), "sender": rng.choice([0x56, 0x45, rng.randrange(256)]),
                   "etype": rng.randrange(256), "ever": rng.randrange(256)}
            which = [k for k in hdr if rng.random() < 0.5] or [rng.choice(list(hdr))]
            if c["kind"] == "envelope":
                f = c["f"]
                pre = {"rcpt": f[1], "sender": f[2], "etype": f[3], "ever": f[4], "payload": list(f[5])}
                for k in which:
                    pre[k] = hdr[k]
                if rng.random() < 0.4:
                    pre["payload"] = [rng.randrange(256) for _ in range(rng.choice([0, 1, len(f[5]), 7]))]
            else:
                pre = {k: c[k] for k in ("rcpt", "sender", "etype", "ever")}
                for k in which:
                    pre[k] = hdr[k]
                if rng.random() < 0.4:
                    others = [o for o in cases if o["kind"] == c["kind"] and o is not c and
                              (c["req"][0] not in (0, 1) or o["req"][1] == c["req"][1])]   # same frame class
                    if others:
                        pre["req"] = rng.choice(others)["req"]
            d["pre"] = pre
            d["kind"] = "reused:" + c["kind"]
            reused.append(d)
        return cases + reused

    def _answer_run(self, case):
        from pyplumio.frames import requests as RQ
        from pyplumio.structures.network_info import NetworkInfo
        cls = getattr(RQ, case["request"])
        resp = cls(recipient=FI.addr(case["rcpt"]), sender=FI.addr(case["sender"])).response(data={"network": NetworkInfo()})
        code = 0xC0 if case["request"] == "ProgramVersionRequest" else 0xB0
        want = list(model.call("enc", [code, case["sender"], 0x56, 48, 5, list(resp.message)]))
        return {"bytes": list(resp.bytes), "ok": list(resp.bytes) == want}

    def run_impl(self, case):
        if case.get("kind") == "answer":
            return self._answer_run(case)
        if case["kind"] == "concurrent-writers":
            return self._concurrent_run(case["cases"])
        try:
            pre = case.get("pre")
            if pre is not None:
                # first life of the object
                if "f" in case:
                    frame = FI.make_frame(case["f"][0], pre["rcpt"], pre["sender"], pre["etype"], pre["ever"], pre["payload"])
                else:
                    frame = build_request(pre.get("req", case["req"]), pre["rcpt"], pre["sender"], pre["etype"], pre["ever"])
                first = frame.bytes
                vloop.run(_write_through, frame)
                assert first
                # second life: plain attribute assignment and the message / data setters
                if "f" in case:
                    f = case["f"]
                    frame.recipient, frame.sender, frame.econet_type, frame.econet_version = FI.addr(f[1]), FI.addr(f[2]), f[3], f[4]
                    if list(f[5]) != list(pre["payload"]):
                        frame.message = bytearray(f[5])
                else:
                    frame.recipient, frame.sender = FI.addr(case["rcpt"]), FI.addr(case["sender"])
                    frame.econet_type, frame.econet_version = case["etype"], case["ever"]
                    if "req" in pre:
                        fresh = build_request(case["req"], case["rcpt"], case["sender"], case["etype"], case["ever"])
                        frame.data = fresh._data
            elif case.get("live"):
                frame = vloop.run(_live_schedule_request, case["req"])
            elif "from_net" in case:
                from harness.c09 import net_to_params
                from pyplumio.frames.responses import DeviceAvailableResponse
                from pyplumio.structures.network_info import NetworkInfo
                f = case["f"]
                eth, wlan = net_to_params(case["from_net"])
                ni = NetworkInfo(eth=eth, wlan=wlan, server_status=bool(case["from_net"][7]))
                frame = DeviceAvailableResponse(recipient=FI.addr(f[1]), sender=FI.addr(f[2]), econet_type=f[3], econet_version=f[4],
                                                data={"network": ni})
            elif "from_ver" in case:
                from pyplumio.frames.responses import ProgramVersionResponse
                from pyplumio.structures.program_version import VersionInfo
                f, v = case["f"], case["from_ver"]
                if v == "default":
                    frame = ProgramVersionResponse(recipient=FI.addr(f[1]), sender=FI.addr(f[2]), econet_type=f[3], econet_version=f[4])
                else:
                    vi = VersionInfo(software="%d.%d.%d" % (v[4], v[5], v[6]), struct_tag=bytes(v[0]), struct_version=v[1],
                                     device_id=bytes(v[2]), processor_signature=bytes(v[3]))
                    frame = ProgramVersionResponse(recipient=FI.addr(f[1]), sender=FI.addr(f[2]), econet_type=f[3], econet_version=f[4],
                                                   data={"version": vi})
            elif case["kind"] == "envelope":
                frame = FI.make_frame(*case["f"])
            else:
                frame = build_request(case["req"], case["rcpt"], case["sender"], case["etype"], case["ever"])
            direct = frame.bytes
            via = vloop.run(_write_through, frame)
            return {"bytes": list(direct), "via_writer_equal": via == direct}
        except Exception as e:  # noqa: BLE001
            return {"error": type(e).__name__}

    def model_many(self, cases):
        if cases and all(c["kind"] == "answer" for c in cases):
            return [None] * len(cases)
        if cases and all(c["kind"] == "concurrent-writers" for c in cases):
            return [{"whole_frames": True} for _ in cases]
        env = [c for c in cases if "f" in c]
        rq = [c for c in cases if "f" not in c]
        r_env = model.call_many("frame_bytes", [c["f"] for c in env])
        r_rq = model.call_many("req_bytes", [[c["req"], c["rcpt"], c["sender"], c["etype"], c["ever"]] for c in rq])
        it_e, it_r = iter(r_env), iter(r_rq)
        out = []
        for c in cases:
            r = next(it_e) if "f" in c else next(it_r)
            out.append({"bytes": r[0], "via_writer_equal": True} if r else {"error": "model:None"})
        return out

    def obs(self, case, b):
        if b is None or case["kind"] == "answer":
            return None
        if case["kind"] == "concurrent-writers":
            return {"whole_frames": b.get("whole_frames")}
        return b if "bytes" in b else {"error": True}

    def spec_many(self, cases, behaviours):
        if cases and all(c["kind"] == "answer" for c in cases):
            return [bool(b.get("ok")) for b in behaviours]
        if cases and all(c["kind"] == "concurrent-writers" for c in cases):
            return [bool(b.get("whole_frames")) for b in behaviours]
        env = [(c, b) for c, b in zip(cases, behaviours) if "f" in c]
        rq = [(c, b) for c, b in zip(cases, behaviours) if "f" not in c]
        r_env = model.call_many("P02_env", [[c["f"], bytes(b.get("bytes", []))] for c, b in env])
        ok_env = model.call_many("tx_ok", [c["f"] for c, b in env])
        r_rq = model.call_many("P02_req", [[c["req"], c["rcpt"], c["sender"], c["etype"], c["ever"], bytes(b.get("bytes", []))]
                                           for c, b in rq])
        ok_rq = model.call_many("req_ok", [c["req"] for c, b in rq])
        it_e, it_r = iter(zip(r_env, ok_env)), iter(zip(r_rq, ok_rq))
        out = []
        for c, b in zip(cases, behaviours):
            r, ok = next(it_e) if "f" in c else next(it_r)
            if not ok:
                out.append(True)       # outside the property's domain (not admissible field values)
            else:
                out.append(bool(r) and b.get("via_writer_equal", False))
        return out

    def _concurrent_run(self, chosen):
        import itertools
        from pyplumio.stream import FrameWriter

        class SlowWriter(FakeWriter):
            async def drain(self):
                for _ in range(3):
                    await asyncio.sleep(0)

        async def run(frames):
            w = SlowWriter()
            fw = FrameWriter(w)
            res = await asyncio.gather(*(fw.write(f) for f in frames), return_exceptions=True)
            return bytes(w.data), [type(r).__name__ for r in res if isinstance(r, Exception)]
        frames = [FI.make_frame(*c["f"]) if c["kind"] == "envelope" else
                  build_request(c["req"], c["rcpt"], c["sender"], c["etype"], c["ever"]) for c in chosen]
        wanted = [f.bytes for f in frames]
        data, errs = vloop.run(run, frames)
        ok = not errs and any(b"".join(p) == data for p in itertools.permutations(wanted))
        return {"whole_frames": ok, "wire": data.hex(), "frames": [w.hex() for w in wanted], "errors": errs}

    def extra_checks(self, tier, rng):
        """Transmission: frames handed to one FrameWriter by several tasks while the transport exerts back-pressure (drain()
        suspends) must appear on the wire as whole frames, one after the other, in some order."""
        fails = []
        # the answers the library builds itself (Request.response()) to the controller's program-version and check-device requests,
        # whoever asked and whichever address (the library's or broadcast) was asked: addressed to the requester, sent as the library
        from pyplumio.frames import requests as RQ
        from pyplumio.structures.network_info import NetworkInfo
        sw = [int(x) for x in str(G.tables().get("software_version") or "0.0.0").split(".")]
        dv = model.call("encode_version", [[[0xFF, 0xFF], 5, [0x7A, 0x00], [0, 0, 0], sw[0], sw[1], sw[2]], 0x56])
        for cls, code in ((RQ.ProgramVersionRequest, 0xC0), (RQ.CheckDeviceRequest, 0xB0)):
            for rcpt in (0x56, 0x00):
                for sender in (0x45, 0x51):
                    case = {"kind": "answer", "request": cls.__name__, "rcpt": rcpt, "sender": sender}
                    try:
                        resp = cls(recipient=FI.addr(rcpt), sender=FI.addr(sender)).response(data={"network": NetworkInfo()})
                        got = list(resp.bytes)
                        want = list(model.call("enc", [code, sender, 0x56, 48, 5, list(resp.message)]))
                        ok = got == want and (code != 0xC0 or (dv and list(resp.message) == list(dv[0])))
                    except Exception as e:  # noqa: BLE001
                        got, ok = [type(e).__name__], False
                    if not ok:
                        fails.append({"case": case, "impl": {"bytes": got}, "reason": "the library's answer to a controller request is not "
                                      "addressed to the requester, sent from the library's address, with the payload of its kind"})
        self._concurrent = 0
        pool = [c for c in self.generate(rng, "quick") if (c["kind"].startswith("request:") or c["kind"] == "envelope") and "pre" not in c and not c.get("live")]
        long_ones = [c for c in pool if c["kind"] == "request:7" or (c["kind"] == "envelope" and len(c["f"][5]) > 40)]
        for _ in range(40 if tier == "quick" else 600):
            chosen = [rng.choice(long_ones)] + [rng.choice(pool) for _ in range(rng.choice([1, 2]))]
            rng.shuffle(chosen)
            try:
                r = self._concurrent_run(chosen)
            except Exception:  # noqa: BLE001
                continue
            self._concurrent += 1
            if not r["whole_frames"]:
                fails.append({"case": {"kind": "concurrent-writers", "cases": [{k: v for k, v in c.items()} for c in chosen]},
                              "impl": r, "reason": "frames written concurrently under back-pressure are not whole on the wire"})
        return fails

    def extra_coverage(self):
        return {"concurrent_writer_histories": getattr(self, "_concurrent", 0)}

    def nontrivial_key(self, case, mb):
        return repr(case) if "bytes" in mb else None

    def kind(self, case):
        return case["kind"]


if __name__ == "__main__":
    raise SystemExit(C02().main())

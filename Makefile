# /verif build: translator -> Coq (.vo, full build) -> extraction -> OCaml driver
SHELL := /bin/bash
export OCAMLRUNPARAM := s=4M,h=256M
PY := PYTHONPATH=/repo PYTHONHASHSEED=0 /venv/bin/python
COQ_TIMEOUT ?= 3000
JOBS ?= 16

.PHONY: setup tables coq extract extract-only driver driver-only gate clean

setup: tables coq extract driver gate

tables:
	@$(PY) tools/gen_tables.py coq/Generated

coq/Makefile.coq: coq/_CoqProject
	cd coq && coq_makefile -f _CoqProject -o Makefile.coq

coq: tables coq/Makefile.coq
	@mkdir -p build
	cd coq && timeout $(COQ_TIMEOUT) $(MAKE) -f Makefile.coq -j$(JOBS) 2>&1 | grep -v "conda.cli" > ../build/coq.log; test $${PIPESTATUS[0]} -eq 0 || (tail -40 ../build/coq.log; exit 1)

# Extract.v and ocaml/table.ml are generated from the list of e_* entry points
extract: coq extract-only

extract-only:
	@mkdir -p build/ocaml
	@entries=$$(grep -ho '^Definition e_[A-Za-z0-9_]*' coq/Extract/Entry*.v | awk '{print $$2}'); \
	mods=$$(cd coq/Extract && ls Entry*.v | sed 's/\.v$$//'); \
	{ echo 'From Coq Require Extraction.'; echo 'From Coq Require Import ExtrOcamlBasic.'; \
	  echo -n 'From PV Require Import Extract.Val'; for m in $$mods; do echo -n " Extract.$$m"; done; echo '.'; \
	  echo 'Extraction Language OCaml.'; \
	  echo -n 'Extraction "model.ml"'; for e in $$entries; do echo -n " $$e"; done; echo '.'; } > build/ocaml/Extract.v; \
	{ echo 'let table : (string * (Model.uval -> Model.uval)) list = ['; \
	  for e in $$entries; do echo "  (\"$${e#e_}\", Model.$$e);"; done; echo ']'; } > build/ocaml/table.ml
	cd build/ocaml && timeout 600 coqc -Q ../../coq PV Extract.v > extract.log 2>&1 || (cat extract.log; exit 1)

driver: extract driver-only

driver-only: extract-only
	cp ocaml/driver.ml build/ocaml/driver.ml
	cd build/ocaml && rm -f model.mli && timeout 600 ocamlfind ocamlopt -w -a model.ml table.ml driver.ml -o ../driver

# no axioms, no admits, no disabled checks anywhere in the development
gate:
	@! grep -rnE '^[[:space:]]*(Local |Global |#\[[a-z]*\] )?(Axiom|Axioms|Parameter|Parameters|Conjecture|Conjectures|Variable|Variables|Hypothesis|Hypotheses|Context)[[:space:]]|\b(Admitted|admit|give_up)\b|Admit Obligations|Unset Guard|Guard Checking|bypass_check|type-in-type|impredicative-set|Unset Universe Checking|Unset Positivity|Positivity Checking|native_compute' coq --include='*.v' || (echo "GATE FAILED"; exit 1)

clean:
	rm -rf build; cd coq && find . -name '*.vo' -o -name '*.vok' -o -name '*.vos' -o -name '*.glob' -o -name '.*.aux' | xargs rm -f; rm -f coq/Makefile.coq coq/Makefile.coq.conf coq/.Makefile.coq.d
